/* C19 binding for mir-bitmap.h: one case per line
     T len1 n1 bits.. len2 n2 bits.. len3 n3 bits..  op d s1 s2 s3 a1 a2 ret newlen nnew bits..
   Builds the three shapes with the header's own expand/set_bit, applies the operation with the
   given aliasing, compares return value, word length and contents (by bit_p over a window and by
   the iterator's exact visit sequence) of the destination, and that the other bitmaps are intact. */
#include <stdio.h>
#include <stdlib.h>
#include <string.h>
#include "mir-alloc.h"
#include "mir-bitmap.h"
#include "verif_alloc.h"

#define MAXB 4096
static int cmp_set (bitmap_t bm, const int *bits, int n, char *msg) {
  bitmap_iterator_t it;
  size_t nb;
  int i = 0;
  FOREACH_BITMAP_BIT (it, bm, nb) {
    if (i >= n || (int) nb != bits[i]) { sprintf (msg, "iterator visit %d is %d", i, (int) nb); return 1; }
    i++;
  }
  if (i != n) { sprintf (msg, "iterator visited %d bits expected %d", i, n); return 1; }
  for (i = 0; i < n; i++) if (!bitmap_bit_p (bm, bits[i])) { sprintf (msg, "bit_p(%d)=0", bits[i]); return 1; }
  if ((int) bitmap_bit_count (bm) != n) { sprintf (msg, "bit_count %d expected %d", (int) bitmap_bit_count (bm), n); return 1; }
  return 0;
}

int main (void) {
  char tag[8], msg[256];
  long ncase = 0, nfail = 0;
  MIR_alloc_t alloc = verif_alloc ();
  static int sh_len[4], sh_n[4], sh_bits[4][MAXB], nbits[MAXB];
  while (scanf ("%7s", tag) == 1) {
    bitmap_t b[4];
    int i, j, op, d, s1, s2, s3, a1, a2, ret, newlen, nnew, r = 0;
    ncase++;
    for (i = 1; i <= 3; i++) {
      scanf ("%d %d", &sh_len[i], &sh_n[i]);
      for (j = 0; j < sh_n[i]; j++) scanf ("%d", &sh_bits[i][j]);
      b[i] = bitmap_create2 (alloc, 1);
      bitmap_expand (b[i], (size_t) sh_len[i] * 64);
      for (j = 0; j < sh_n[i]; j++) bitmap_set_bit_p (b[i], sh_bits[i][j]);
    }
    scanf ("%d %d %d %d %d %d %d %d %d %d", &op, &d, &s1, &s2, &s3, &a1, &a2, &ret, &newlen, &nnew);
    for (j = 0; j < nnew; j++) scanf ("%d", &nbits[j]);
    msg[0] = 0;
    for (i = 1; i <= 3 && !msg[0]; i++)
      if ((int) VARR_LENGTH (bitmap_el_t, b[i]) != sh_len[i]) sprintf (msg, "setup: len %d expected %d", (int) VARR_LENGTH (bitmap_el_t, b[i]), sh_len[i]);
    if (!msg[0]) switch (op) {
    case 1: r = bitmap_set_bit_p (b[d], a1); break;
    case 2: r = bitmap_clear_bit_p (b[d], a1); break;
    case 3: r = bitmap_set_bit_range_p (b[d], a1, a2); break;
    case 4: r = bitmap_clear_bit_range_p (b[d], a1, a2); break;
    case 5: bitmap_copy (b[d], b[s1]); r = 0; break;
    case 6: bitmap_clear (b[d]); r = 0; break;
    case 7: r = bitmap_and (b[d], b[s1], b[s2]); break;
    case 8: r = bitmap_and_compl (b[d], b[s1], b[s2]); break;
    case 9: r = bitmap_ior (b[d], b[s1], b[s2]); break;
    case 10: r = bitmap_ior_and (b[d], b[s1], b[s2], b[s3]); break;
    case 11: r = bitmap_ior_and_compl (b[d], b[s1], b[s2], b[s3]); break;
    case 12: r = bitmap_bit_p (b[d], a1); break;
    case 13: r = bitmap_equal_p (b[d], b[s1]); break;
    case 14: r = bitmap_intersect_p (b[d], b[s1]); break;
    case 15: r = bitmap_empty_p (b[d]); break;
    case 16: r = (int) bitmap_bit_count (b[d]); break;
    case 17: r = (int) bitmap_bit_min (b[d]); break;
    case 18: r = (int) bitmap_bit_max (b[d]); break;
    default: sprintf (msg, "bad op %d", op);
    }
    if (!msg[0] && (op >= 16 ? r != ret : (r != 0) != (ret != 0))) sprintf (msg, "ret %d expected %d", r, ret);
    if (!msg[0] && (int) VARR_LENGTH (bitmap_el_t, b[d]) != newlen)
      sprintf (msg, "word length %d expected %d", (int) VARR_LENGTH (bitmap_el_t, b[d]), newlen);
    if (!msg[0]) cmp_set (b[d], nbits, nnew, msg);
    for (i = 1; i <= 3 && !msg[0]; i++)
      if (i != d) {
        if ((int) VARR_LENGTH (bitmap_el_t, b[i]) != sh_len[i]) sprintf (msg, "source %d length changed", i);
        else if (cmp_set (b[i], sh_bits[i], sh_n[i], msg)) strcat (msg, " (source changed)");
      }
    for (i = 1; i <= 3; i++) bitmap_destroy (b[i]);
    if (!msg[0] && verif_alloc_live () != 0) sprintf (msg, "leak");
    if (!msg[0] && verif_alloc_bad () != 0) sprintf (msg, "allocator misuse");
    if (msg[0]) { printf ("FAIL %ld 1 %s\n", ncase, msg); nfail++; }
  }
  printf ("DONE %ld %ld %ld\n", ncase, ncase, nfail);
  return 0;
}
