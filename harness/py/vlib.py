"""Shared machinery for the /verif checks: building /repo, running TLC, evidence, findings."""
import hashlib, json, os, re, shutil, subprocess, sys, time, glob, tempfile

VERIF = os.path.dirname(os.path.dirname(os.path.dirname(os.path.abspath(__file__))))
REPO = os.environ.get("VERIF_REPO", "/repo")
OUT = os.path.join(VERIF, "out")
SPEC = os.path.join(VERIF, "spec")
HARNESS = os.path.join(VERIF, "harness")
TLA_JAR = "/opt/veriftools/tla/tla2tools.jar:/opt/veriftools/tla/CommunityModules-deps.jar"
NCPU = os.cpu_count() or 4
GUARD = "MIR_VERIF"


def seed():
    try:
        return int(os.environ.get("VERIF_SEED", "1"))
    except ValueError:
        return 1


def log(*a):
    print(*a, flush=True)


def sh(cmd, timeout=None, cwd=None, env=None, check=False, inp=None):
    """Run a command (list or str); return (rc, stdout, stderr). rc=-9 on timeout."""
    e = dict(os.environ)
    if env:
        e.update(env)
    try:
        p = subprocess.run(cmd, shell=isinstance(cmd, str), cwd=cwd, env=e, input=inp,
                           stdout=subprocess.PIPE, stderr=subprocess.PIPE, timeout=timeout)
        rc, o, er = p.returncode, p.stdout, p.stderr
    except subprocess.TimeoutExpired as ex:
        rc, o, er = -9, ex.stdout or b"", ex.stderr or b""
    o = o.decode("utf-8", "replace")
    er = er.decode("utf-8", "replace")
    if check and rc != 0:
        raise MachineryError("command failed (%s): %s\n%s\n%s" % (rc, cmd, o[-3000:], er[-3000:]))
    return rc, o, er


class MachineryError(Exception):
    """The check itself is broken (build failure, TLC spec error): never a VIOLATION."""


# ------------------------------------------------------------------ building /repo

def tree_hash(paths):
    h = hashlib.sha256()
    for p in sorted(paths):
        h.update(p.encode())
        try:
            with open(p, "rb") as f:
                h.update(f.read())
        except OSError:
            h.update(b"<missing>")
    return h.hexdigest()[:16]


def repo_sources():
    pats = ["*.c", "*.h", "c2mir/*.c", "c2mir/*.h", "c2mir/x86_64/*", "mir2c/*", "mir-utils/*.c"]
    r = []
    for p in pats:
        r += glob.glob(os.path.join(REPO, p))
    return [x for x in r if os.path.isfile(x)]


VARIANTS = {
    # name: (cc, flags)
    "plain": ("gcc", "-O1 -g -std=gnu11 -fsigned-char -fPIC -Wno-abi -w"),
    "o2": ("gcc", "-O2 -g -std=gnu11 -fsigned-char -fPIC -Wno-abi -w"),
    "asan": ("clang", "-O1 -g -std=gnu11 -fsigned-char -fPIC -w -fsanitize=address,undefined "
                      "-fno-sanitize=alignment,shift,signed-integer-overflow,function -fno-omit-frame-pointer"),
    "tsan": ("clang", "-O1 -g -std=gnu11 -fsigned-char -fPIC -w -fsanitize=thread"),
    "noinline": ("gcc", "-O1 -g -std=gnu11 -fsigned-char -fPIC -Wno-abi -w "
                        "-DMIR_MAX_INSNS_FOR_INLINE=0 -DMIR_MAX_INSNS_FOR_CALL_INLINE=0"),
}


if os.environ.get("VERIF_COV"):      # tools/coverage.py: which parts of the implementation the generated behaviours reach
    VARIANTS["plain"] = ("gcc", "-O0 -g --coverage -std=gnu11 -fsigned-char -fPIC -Wno-abi -w")


def build_lib(variant="plain", units=("mir.c", "mir-gen.c"), extra_flags=""):
    """Compile library units from the current /repo working tree with -DMIR_VERIF.
    Returns (dir, [object files], cc, flags). Cached by hash of sources+flags."""
    cc, flags = VARIANTS[variant]
    # NDEBUG as in the baseline build (RelWithDebInfo): with assertions enabled the pinned tree aborts on
    # mir-tests/test11.mir (try_spilled_reg_mem: n < 2), so assertion builds would alarm on the unchanged tree
    flags = flags + " -DNDEBUG -D%s -DMIR_PARALLEL_GEN -I%s %s" % (GUARD, REPO, extra_flags)
    hs = tree_hash(repo_sources())
    key = hashlib.sha256((hs + cc + flags).encode()).hexdigest()[:12]
    rtag = hashlib.md5(os.path.abspath(REPO).encode()).hexdigest()[:4]
    d = os.path.join(OUT, "build", "%s-%s-%s" % (variant, rtag, key))
    os.makedirs(d, exist_ok=True)
    os.utime(d)                                  # in use: keeps concurrent checks from pruning it
    objs, procs = [], []
    for u in units:
        o = os.path.join(d, u.replace("/", "_").replace(".c", ".o"))
        objs.append(o)
        if not os.path.exists(o):
            tmp = o + ".tmp%d" % os.getpid()
            cmd = "%s %s -c %s -o %s && mv %s %s" % (cc, flags, os.path.join(REPO, u), tmp, tmp, o)
            procs.append((u, subprocess.Popen(cmd, shell=True, stdout=subprocess.PIPE, stderr=subprocess.STDOUT)))
    for u, p in procs:
        o, _ = p.communicate()
        if p.returncode != 0:
            raise MachineryError("build of %s (%s) failed:\n%s" % (u, variant, o.decode()[-4000:]))
    # prune old builds of this variant
    for old in glob.glob(os.path.join(OUT, "build", "%s-%s-*" % (variant, rtag))):
        if old != d and time.time() - os.path.getmtime(old) > 6 * 3600:
            shutil.rmtree(old, ignore_errors=True)
    return d, objs, cc, flags


def cc_link(cc, flags, srcs, objs, exe, libs="-lm -ldl -lpthread", timeout=600):
    tmp = "%s.tmp%d" % (exe, os.getpid())       # link aside and rename: a concurrent check may be executing or linking the same file
    cmd = "%s %s -I%s -I%s %s %s -o %s %s" % (cc, flags, REPO, os.path.join(HARNESS), " ".join(srcs), " ".join(objs), tmp, libs)
    rc, o, e = sh(cmd, timeout=timeout)
    if rc != 0:
        raise MachineryError("link failed: %s\n%s\n%s" % (cmd, o[-3000:], e[-3000:]))
    os.rename(tmp, exe)
    return exe


def build_header_harness(name, src, variant="asan", extra_flags="", libs="-lm"):
    """Compile a harness that only includes headers of /repo (containers, reduce)."""
    cc, flags = VARIANTS[variant]
    hs = tree_hash(repo_sources() + [src])
    key = hashlib.sha256((hs + cc + flags + extra_flags + os.path.abspath(REPO)).encode()).hexdigest()[:12]
    d = os.path.join(OUT, "hbuild")
    os.makedirs(d, exist_ok=True)
    exe = os.path.join(d, "%s-%s" % (name, key))
    if not os.path.exists(exe):
        for old in glob.glob(os.path.join(d, name + "-*")):
            if time.time() - os.path.getmtime(old) > 600:
                os.unlink(old)
        tmp = "%s.tmp%d" % (exe, os.getpid())
        cmd = "%s %s -D%s %s -I%s -I%s %s -o %s %s" % (cc, flags, GUARD, extra_flags, REPO, HARNESS, src, tmp, libs)
        rc, o, e = sh(cmd, timeout=600)
        if rc != 0:
            raise MachineryError("harness build failed: %s\n%s\n%s" % (cmd, o[-3000:], e[-3000:]))
        os.rename(tmp, exe)
    return exe


# ------------------------------------------------------------------ TLC

class TLCResult:
    def __init__(self):
        self.rc = None
        self.out = ""
        self.states = 0       # states generated
        self.distinct = 0
        self.transitions = 0
        self.depth = 0
        self.outs = []        # payloads of OUT lines (decoded JSON)
        self.violation = None  # name of violated invariant/property if any
        self.coverage = {}
        self.wall = 0.0


# several workers may print on one line (PrintT's value and newline are separate writes)
_OUT_RE = re.compile(r'"OUT((?:[^"\\]|\\.)*)"')


def _unescape_tla(s):
    # TLC prints strings with \" and \\ escapes
    return s.replace('\\"', '"').replace("\\\\", "\\")


def run_tlc(module, cfg=None, workers=4, env=None, timeout=1500, simulate=None, depth=None,
            coverage=False, heap="4g", extra=None, seed_=None, collect_out=True, deadlock=False, dfs=False,
            out_file=None):
    """Run TLC on spec/<module>.tla with spec/<cfg>. Returns TLCResult.
    Exit codes: 0 ok; 12 safety violation; 13 liveness; others = machinery error."""
    tla = module if module.endswith(".tla") else module + ".tla"
    cwd = SPEC
    if os.path.isabs(tla):
        cwd = os.path.dirname(tla)
    meta = tempfile.mkdtemp(prefix="tlc-", dir=_scratch())
    jopts = "-Xmx%s -XX:+UseParallelGC" % heap
    if dfs:
        jopts += " -Dtlc2.tool.queue.IStateQueue=StateDeque"
    cmd = ["java"] + jopts.split() + ["-cp", TLA_JAR + ":" + SPEC + ":" + os.path.join(SPEC, "lib"), "tlc2.TLC",
                                       "-workers", str(workers), "-metadir", meta, "-noGenerateSpecTE"]
    if cfg:
        cmd += ["-config", cfg]
    if not deadlock:
        cmd += ["-deadlock"]
    if simulate:
        cmd += ["-simulate", "num=%d" % simulate]
        if seed_ is not None:
            cmd += ["-seed", str(seed_)]
    if depth:
        cmd += ["-depth", str(depth)]
    if coverage:
        cmd += ["-coverage", "1"]
    if extra:
        cmd += extra
    cmd.append(tla)
    e = dict(os.environ)
    if env:
        e.update({k: str(v) for k, v in env.items()})
    t0 = time.time()
    r = TLCResult()
    try:
        if out_file:
            with open(out_file, "w") as fo:
                p = subprocess.run(cmd, cwd=cwd, env=e, stdout=fo, stderr=subprocess.STDOUT, timeout=timeout)
            r.rc = p.returncode
            with open(out_file, errors="replace") as fi:
                r.out = fi.read()
        else:
            p = subprocess.run(cmd, cwd=cwd, env=e, stdout=subprocess.PIPE, stderr=subprocess.STDOUT, timeout=timeout)
            r.rc = p.returncode
            r.out = p.stdout.decode("utf-8", "replace")
    except subprocess.TimeoutExpired as ex:
        r.rc = -9
        r.out = (ex.stdout or b"").decode("utf-8", "replace") if not out_file else open(out_file, errors="replace").read()
    finally:
        shutil.rmtree(meta, ignore_errors=True)
    r.wall = time.time() - t0
    for line in r.out.splitlines():
        if '"OUT' in line:
            if collect_out:
                for pay in _OUT_RE.findall(line):
                    try:
                        r.outs.append(json.loads(_unescape_tla(pay)))
                    except Exception:
                        raise MachineryError("cannot parse OUT line: " + line[:300])
            continue
        m = re.match(r"^(\d+) states generated, (\d+) distinct states found", line)
        if m:
            r.states, r.distinct = int(m.group(1)), int(m.group(2))
        m = re.match(r"^The number of states generated: (\d+)", line)      # simulation mode
        if m:
            r.states = r.distinct = int(m.group(1))
        m = re.search(r"The depth of the complete state graph search is (\d+)", line)
        if m:
            r.depth = int(m.group(1))
        m = re.match(r"^Error: Invariant (\S+) is violated", line)
        if m:
            r.violation = m.group(1)
        m = re.match(r"^Error: Action property (\S+) is violated", line) or re.match(r"^Error: Temporal properties were violated", line)
        if m and not r.violation:
            r.violation = m.group(1) if m.groups() else "temporal"
    r.transitions = r.states
    return r


def tlc_ok(r, what, allow_violation=False):
    if r.rc == 0:
        return
    if allow_violation and r.rc == 12:
        return
    tail = "\n".join(l for l in r.out.splitlines() if '"OUT' not in l)[-3000:]
    raise MachineryError("TLC failed for %s (rc=%s):\n%s" % (what, r.rc, tail))


_scratch_pruned = False


def _scratch():
    """out/scratch; on first use drops entries no process touched for 8 hours (left behind by interrupted runs)"""
    global _scratch_pruned
    d = os.path.join(OUT, "scratch")
    os.makedirs(d, exist_ok=True)
    if not _scratch_pruned:
        _scratch_pruned = True
        now = time.time()
        try:
            for e in os.scandir(d):
                try:
                    if now - e.stat().st_mtime > 8 * 3600 and (not e.is_dir() or all(now - x.stat().st_mtime > 8 * 3600 for x in os.scandir(e.path))):
                        shutil.rmtree(e.path, ignore_errors=True) if e.is_dir() else os.unlink(e.path)
                except OSError:
                    pass
        except OSError:
            pass
    return d


def scratch_dir(prefix):
    return tempfile.mkdtemp(prefix=prefix, dir=_scratch())


def parallel_tlc(jobs, maxpar=None):
    """jobs: list of kwargs for run_tlc. Runs them concurrently; returns list of results."""
    from concurrent.futures import ThreadPoolExecutor
    maxpar = maxpar or max(1, NCPU // max(1, jobs[0].get("workers", 1)) if jobs else 1)
    with ThreadPoolExecutor(max_workers=maxpar) as ex:
        return list(ex.map(lambda kw: run_tlc(**kw), jobs))


# ------------------------------------------------------------------ findings

class Findings:
    def __init__(self):
        self.known = {}   # (prop, key) -> text
        self.fixed = []
        p = os.path.join(VERIF, "findings", "known-findings.txt")
        if os.path.exists(p):
            for line in open(p):
                line = line.strip()
                if not line or line.startswith("#"):
                    continue
                m = re.match(r"^finding:\s+property=(\S+)\s+key=(\S+)\s+(.*)$", line)
                if m:
                    self.known[(m.group(1), m.group(2))] = m.group(3)
                elif line.startswith("fixed:"):
                    self.fixed.append(line)

    def is_known(self, prop, key):
        return (prop, key) in self.known


# ------------------------------------------------------------------ check context / evidence

class Check:
    """One run of one property's check. Collects counts, violations, writes evidence."""

    def __init__(self, prop, tier, level):
        self.prop, self.tier, self.level = prop, tier, level
        self.t0 = time.time()
        self.cov = {"samples": []}
        self.assumptions = []
        self.violations = []   # (key, text, replay_path)
        self.known_hits = {}   # key -> text
        self.findings = Findings()
        self.replay_dir = os.path.join(OUT, "replay", prop)
        shutil.rmtree(self.replay_dir, ignore_errors=True)
        os.makedirs(self.replay_dir, exist_ok=True)
        self._n = 0
        self._distinct = set()

    def add(self, key, n=1):
        self.cov[key] = self.cov.get(key, 0) + n

    def setc(self, key, v):
        self.cov[key] = v

    def sample(self, s, maxn=4):
        if len(self.cov["samples"]) < maxn:
            self.cov["samples"].append(s)

    def note_distinct(self, obj):
        self._distinct.add(hashlib.md5(json.dumps(obj, sort_keys=True).encode()).digest()[:8])

    def violation(self, key, text, case):
        """Report a mismatch; suppressed (KNOWN-FINDING) only if key is listed for this property."""
        if self.findings.is_known(self.prop, key):
            if key not in self.known_hits:
                self.known_hits[key] = self.findings.known[(self.prop, key)]
            return False
        self._n += 1
        path = os.path.join(self.replay_dir, "%04d.json" % self._n)
        if self._n <= 50:
            with open(path, "w") as f:
                json.dump({"property": self.prop, "key": key, "text": text, "case": case}, f, indent=1)
        self.violations.append((key, text, path))
        return True

    def finish(self):
        wall = time.time() - self.t0
        cov = self.cov
        if "distinct_nontrivial" not in cov and self._distinct:
            cov["distinct_nontrivial"] = len(self._distinct)
        # keep the evidence file valid against EVIDENCE.schema.json whatever a check put into coverage
        INT_KEYS = ("evaluations", "distinct_nontrivial", "states", "transitions", "traces_validated_against_impl", "obligations",
                    "discharged", "programs", "disagreements_checked")
        for k in INT_KEYS:
            if k in cov and not (isinstance(cov[k], int) and not isinstance(cov[k], bool) and cov[k] >= 0):
                cov[k + "_note"] = cov.pop(k)
        if "exhaustive" in cov and not isinstance(cov["exhaustive"], bool):
            cov["exhaustive_note"] = cov.pop("exhaustive")
            cov["exhaustive"] = False
        for k in ("rule", "checker_cmd", "explanation"):
            if k in cov and not isinstance(cov[k], str):
                cov[k] = json.dumps(cov[k])
        if "samples" in cov and not isinstance(cov["samples"], list):
            cov["samples"] = [cov["samples"]]
        if "trusted_base" in cov and not (isinstance(cov["trusted_base"], list) and all(isinstance(x, str) for x in cov["trusted_base"])):
            cov["trusted_base"] = [str(x) for x in (cov["trusted_base"] if isinstance(cov["trusted_base"], list) else [cov["trusted_base"]])]
        ev = {"property_id": self.prop, "tier": self.tier, "seed": seed(), "level": self.level,
              "coverage": cov, "assumptions": self.assumptions, "wall_s": round(wall, 2),
              "violations": len(self.violations)}
        if self.known_hits:
            ev["known_findings_hit"] = sorted(self.known_hits)
        # a run against another source tree (VERIF_REPO=<scratch worktree>, used for mutation experiments) must not
        # overwrite the evidence of the unchanged tree
        evdir = os.path.join(VERIF, "evidence") if os.path.abspath(REPO) == "/repo" else os.path.join(OUT, "evidence-exp")
        os.makedirs(evdir, exist_ok=True)
        with open(os.path.join(evdir, self.prop + ".json"), "w") as f:
            json.dump(ev, f, indent=1, sort_keys=True)
            f.write("\n")
        for k, t in sorted(self.known_hits.items()):
            log("KNOWN-FINDING: property=%s %s [%s]" % (self.prop, t, k))
        seen = set()
        for key, text, path in self.violations[:20]:
            log("  mismatch key=%s: %s" % (key, text[:600]))
        for key, text, path in self.violations[:50]:
            if path not in seen:
                seen.add(path)
                log("VIOLATION property=%s replay=%s" % (self.prop, path))
        log("%s tier=%s wall=%.1fs violations=%d known=%d" % (self.prop, self.tier, wall, len(self.violations), len(self.known_hits)))
        return 1 if self.violations else 0


def chunks(lst, n):
    for i in range(0, len(lst), n):
        yield lst[i:i + n]
