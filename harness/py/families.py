"""Parametric program families shared by the MIRSem-based checks (C01, C04, C20): hand-shaped programs whose expected
observations come from spec/MIRRun.tla like those of the generated programs (progs.run_family)."""
import progs

R, I, M, ins, br = progs.op_reg, progs.op_imm, progs.op_mem, progs.ins, progs.br
FP_SZ = {"f": 4, "d": 8, "ld": 10}
FPV = {"-inf": {"c": "inf", "s": 1}, "+inf": {"c": "inf", "s": 0}, "-0": {"c": "zero", "s": 1}, "+0": {"c": "zero", "s": 0},
       "-1.5": {"c": "fin", "s": 1, "m": 3, "e": -1}, "1.5": {"c": "fin", "s": 0, "m": 3, "e": -1}, "2.5": {"c": "fin", "s": 0, "m": 5, "e": -1},
       "nan": {"c": "nan"}}


def fp_cells(fmt, x, pad=16):
    return [{"k": "f", "fmt": fmt, "i": i, "x": x} if i <= FP_SZ[fmt] else 0 for i in range(1, pad + 1)]


def fpcmp_cases(vals=("-1.5", "-0", "+0", "1.5", "+inf", "nan"), fmts=("f", "d", "ld")):
    """every floating point comparison (eq ne lt le gt ge) in each format on every pair of the given values, as a value
    (`dle r, a, b`), as a branch, and as a branch over an unconditional jump (`dblt L, a, b; jmp L2; L:` - the shape
    the simplifier turns into the reversed branch): unordered operands make `not less` differ from `greater or equal`."""
    out = []
    FA, FB, RES = 2, 3, 4
    for fmt in fmts:
        for cc in ("eq", "ne", "lt", "le", "gt", "ge"):
            for xa in vals:
                for xb in vals:
                    for form in ("val", "br", "brj"):
                        pre = [ins(fmt + "mov", R(FA), M(fmt, 0, 1)), ins(fmt + "mov", R(FB), M(fmt, 16, 1)), ins("mov", R(RES), I(5))]
                        if form == "val":
                            body = [ins(fmt + cc, R(RES), R(FA), R(FB))]
                        elif form == "br":
                            body = [br(fmt + "b" + cc, "t", R(FA), R(FB)), ins("mov", R(RES), I(222)), {"op": "jmp", "l": "e"},
                                    "t", ins("mov", R(RES), I(111)), "e"]
                        else:
                            body = [br(fmt + "b" + cc, "t", R(FA), R(FB)), {"op": "jmp", "l": "f"},
                                    "t", ins("mov", R(RES), I(111)), {"op": "jmp", "l": "e"}, "f", ins("mov", R(RES), I(222)), "e"]
                        post = [ins("add", R(RES), R(RES), I(1)), ins("mov", M("i64", 192, 1), R(RES)), {"op": "ret", "s": [R(RES)]}]
                        insns, _ = progs.assemble(pre + body + post)
                        c = progs.family_case(insns, 4, b"")
                        c["prog"]["funcs"][0]["regty"] = ["i", fmt, fmt, "i"]
                        c["buf0"] = fp_cells(fmt, FPV[xa]) + fp_cells(fmt, FPV[xb]) + c["buf0"][32:]
                        out.append(c)
    return out


def alloca_loop_cases():
    """a loop calling a function whose only stack object is an alloca of run-time size (and, second shape, a function
    with a constant-size and a run-time alloca): what one call allocates dies with the call, inlined or not.  The programs run
    with a C stack smaller than the sum of all allocations and much larger than what is live at any time, so a transformation
    that keeps inlined allocas alive across iterations exhausts the stack.  A verdict needs the same program to succeed as
    written in a library that does not inline (reference for the stack the harness itself needs)."""
    out = []
    N, V, ACC, K, CNT, T, P, Q = 2, 3, 4, 5, 6, 7, 3, 4
    for shape in ("dyn", "const+dyn"):
        for iters, size in ((40, 32768), (24, 65536), (3, 4096)):
            h = []
            if shape == "const+dyn":
                h += [ins("alloca", R(Q), I(32)), ins("mov", M("i64", 8, Q), R(2))]
            h += [ins("alloca", R(P), R(1)), ins("mov", M("i64", 0, P), R(2)), ins("sub", R(5), R(1), I(8)), ins("add", R(5), R(P), R(5)),
                  ins("mov", M("i64", 0, 5), R(2)), ins("add", R(6), M("i64", 0, P), M("i64", 0, 5))]
            if shape == "const+dyn":
                h += [ins("add", R(6), R(6), M("i64", 8, Q))]
            h += [{"op": "ret", "s": [R(6)]}]
            helper = {"name": "g1", "params": ["i64", "i64"], "res": ["i64"], "regty": ["i"] * 6, "lrefs": [], "gvar": False, "insns": h}
            items = [ins("mov", R(N), M("i64", 0, 1)), ins("mov", R(K), M("i64", 8, 1)), ins("mov", R(ACC), I(0)), ins("mov", R(CNT), I(0)),
                     "lp", br("bge", "out", R(CNT), R(K)),
                     {"op": "call", "callee": {"k": "func", "f": 2}, "res": [R(T)], "args": [R(N), R(CNT)]},
                     ins("add", R(ACC), R(ACC), R(T)), ins("add", R(CNT), R(CNT), I(1)), {"op": "jmp", "l": "lp"},
                     "out", ins("mov", M("i64", 192, 1), R(ACC)), {"op": "ret", "s": [R(ACC)]}]
            insns, _ = progs.assemble(items)
            w = lambda v: (v & ((1 << 64) - 1)).to_bytes(8, "little")
            c = progs.family_case(insns, 7, w(size) + w(iters))
            c["prog"]["funcs"].append(helper)
            c["prog"]["bound"] = 40 + iters * (len(h) + 8)
            c["stack_kb"] = 1024          # total allocated: 40 x 32 KB, 24 x 64 KB > 1 MB; live at any time: one allocation
            out.append(c)
    return out


def clone_jmpi_cases():
    """a block ending in an indirect jump that is also the target of a `jmp` from a block placed behind the function's first
    `ret` (the shape block cloning looks for): whichever copy of the block runs, every label whose address is taken is a
    possible successor and must see the values computed in that copy."""
    out = []
    SEL, V, ACC, LP, SEL2 = 2, 3, 4, 5, 6
    LR = {"k": "dref", "b": 4}
    for sel in (0, 1):
        for sel2 in (0, 1):
            for tail in ("jmpi", "jmpi_after_store"):
                for v in (3, 1000):
                    xblk = [ins("add", R(ACC), R(V), I(100))]
                    if tail == "jmpi_after_store":
                        xblk += [ins("mov", M("i64", 200, 1), R(ACC))]
                    items = [ins("mov", R(SEL), M("i64", 0, 1)), ins("mov", R(V), M("i64", 8, 1)), ins("mov", R(SEL2), M("i64", 16, 1)),
                             ins("mov", R(ACC), I(0)), ins("mov", R(LP), LR), ins("mov", R(LP), M("i64", 0, LP)),
                             br("bt", "A", R(SEL2)), br("bt", "Y", R(SEL)),
                             "X"] + xblk + [{"op": "jmpi", "s": [R(LP)]},
                             "A", ins("mov", R(ACC), I(55)), {"op": "jmp", "l": "OUT"},
                             "B", ins("add", R(ACC), R(ACC), I(1)),
                             "OUT", ins("mov", M("i64", 192, 1), R(ACC)), {"op": "ret", "s": [R(ACC)]},
                             "Y", ins("mov", R(V), I(7)), {"op": "jmp", "l": "X"}]
                    insns, pcs = progs.assemble(items)
                    w = lambda x: (x & ((1 << 64) - 1)).to_bytes(8, "little")
                    c = progs.family_case(insns, 6, w(sel) + w(v) + w(sel2))
                    c["prog"]["funcs"][0]["lrefs"] = [{"l": pcs["B"], "l2": 0, "d": 0}]
                    out.append(c)
    return out
