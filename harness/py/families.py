"""Parametric program families shared by the MIRSem-based checks (C01, C04, C20): hand-shaped programs whose expected
observations come from spec/MIRRun.tla like those of the generated programs (progs.run_family)."""
import progs

R, I, M, ins, br = progs.op_reg, progs.op_imm, progs.op_mem, progs.ins, progs.br
FP_SZ = {"f": 4, "d": 8, "ld": 10}
FPV = {"-inf": {"c": "inf", "s": 1}, "+inf": {"c": "inf", "s": 0}, "-0": {"c": "zero", "s": 1}, "+0": {"c": "zero", "s": 0},
       "-1.5": {"c": "fin", "s": 1, "m": 3, "e": -1}, "1.5": {"c": "fin", "s": 0, "m": 3, "e": -1}, "2.5": {"c": "fin", "s": 0, "m": 5, "e": -1},
       "nan": {"c": "nan"}}


def fp_cells(fmt, x, pad=16):
    return [{"k": "f", "fmt": fmt, "i": i, "x": x} if i <= FP_SZ[fmt] else 0 for i in range(1, pad + 1)]


def fpcmp_cases(vals=("-1.5", "-0", "+0", "1.5", "+inf", "nan"), fmts=("f", "d", "ld")):
    """every floating point comparison (eq ne lt le gt ge) in each format on every pair of the given values, as a value
    (`dle r, a, b`), as a branch, and as a branch over an unconditional jump (`dblt L, a, b; jmp L2; L:` - the shape
    the simplifier turns into the reversed branch): unordered operands make `not less` differ from `greater or equal`."""
    out = []
    FA, FB, RES = 2, 3, 4
    for fmt in fmts:
        for cc in ("eq", "ne", "lt", "le", "gt", "ge"):
            for xa in vals:
                for xb in vals:
                    for form in ("val", "br", "brj"):
                        pre = [ins(fmt + "mov", R(FA), M(fmt, 0, 1)), ins(fmt + "mov", R(FB), M(fmt, 16, 1)), ins("mov", R(RES), I(5))]
                        if form == "val":
                            body = [ins(fmt + cc, R(RES), R(FA), R(FB))]
                        elif form == "br":
                            body = [br(fmt + "b" + cc, "t", R(FA), R(FB)), ins("mov", R(RES), I(222)), {"op": "jmp", "l": "e"},
                                    "t", ins("mov", R(RES), I(111)), "e"]
                        else:
                            body = [br(fmt + "b" + cc, "t", R(FA), R(FB)), {"op": "jmp", "l": "f"},
                                    "t", ins("mov", R(RES), I(111)), {"op": "jmp", "l": "e"}, "f", ins("mov", R(RES), I(222)), "e"]
                        post = [ins("add", R(RES), R(RES), I(1)), ins("mov", M("i64", 192, 1), R(RES)), {"op": "ret", "s": [R(RES)]}]
                        insns, _ = progs.assemble(pre + body + post)
                        c = progs.family_case(insns, 4, b"")
                        c["prog"]["funcs"][0]["regty"] = ["i", fmt, fmt, "i"]
                        c["buf0"] = fp_cells(fmt, FPV[xa]) + fp_cells(fmt, FPV[xb]) + c["buf0"][32:]
                        out.append(c)
    return out


def alloca_loop_cases():
    """a loop calling a function whose only stack object is an alloca of run-time size (and, second shape, a function
    with a constant-size and a run-time alloca): what one call allocates dies with the call, inlined or not.  The programs run
    with a C stack smaller than the sum of all allocations and much larger than what is live at any time, so a transformation
    that keeps inlined allocas alive across iterations exhausts the stack.  A verdict needs the same program to succeed as
    written in a library that does not inline (reference for the stack the harness itself needs)."""
    out = []
    N, V, ACC, K, CNT, T, P, Q = 2, 3, 4, 5, 6, 7, 3, 4
    for shape in ("dyn", "const+dyn"):
        for iters, size in ((40, 32768), (24, 65536), (3, 4096)):
            h = []
            if shape == "const+dyn":
                h += [ins("alloca", R(Q), I(32)), ins("mov", M("i64", 8, Q), R(2))]
            h += [ins("alloca", R(P), R(1)), ins("mov", M("i64", 0, P), R(2)), ins("sub", R(5), R(1), I(8)), ins("add", R(5), R(P), R(5)),
                  ins("mov", M("i64", 0, 5), R(2)), ins("add", R(6), M("i64", 0, P), M("i64", 0, 5))]
            if shape == "const+dyn":
                h += [ins("add", R(6), R(6), M("i64", 8, Q))]
            h += [{"op": "ret", "s": [R(6)]}]
            helper = {"name": "g1", "params": ["i64", "i64"], "res": ["i64"], "regty": ["i"] * 6, "lrefs": [], "gvar": False, "insns": h}
            items = [ins("mov", R(N), M("i64", 0, 1)), ins("mov", R(K), M("i64", 8, 1)), ins("mov", R(ACC), I(0)), ins("mov", R(CNT), I(0)),
                     "lp", br("bge", "out", R(CNT), R(K)),
                     {"op": "call", "callee": {"k": "func", "f": 2}, "res": [R(T)], "args": [R(N), R(CNT)]},
                     ins("add", R(ACC), R(ACC), R(T)), ins("add", R(CNT), R(CNT), I(1)), {"op": "jmp", "l": "lp"},
                     "out", ins("mov", M("i64", 192, 1), R(ACC)), {"op": "ret", "s": [R(ACC)]}]
            insns, _ = progs.assemble(items)
            w = lambda v: (v & ((1 << 64) - 1)).to_bytes(8, "little")
            c = progs.family_case(insns, 7, w(size) + w(iters))
            c["prog"]["funcs"].append(helper)
            c["prog"]["bound"] = 40 + iters * (len(h) + 8)
            c["stack_kb"] = 1024          # total allocated: 40 x 32 KB, 24 x 64 KB > 1 MB; live at any time: one allocation
            out.append(c)
    return out


def clone_jmpi_cases():
    """a block X that is also the target of a `jmp` from a block placed behind the function's first `ret` (the shape block
    cloning looks for), ending in a fall through, a conditional branch, a jump or an indirect jump: whichever copy of the block
    runs, its successors (for the indirect jump: every label whose address is taken) must see the values computed in that copy."""
    out = []
    SEL, V, ACC, LP, SEL2 = 2, 3, 4, 5, 6
    LR = {"k": "dref", "b": 4}
    for tail in ("jmpi", "jmpi_after_store", "fall", "cond", "jmp"):
        for sel in (0, 1):
            for sel2 in (0, 1):
                for v in (3, 1000):
                    xblk = [ins("add", R(ACC), R(V), I(100))]
                    if tail == "jmpi_after_store":
                        xblk += [ins("mov", M("i64", 200, 1), R(ACC))]
                    if tail.startswith("jmpi"):
                        xblk += [{"op": "jmpi", "s": [R(LP)]}]
                    elif tail == "cond":
                        xblk += [br("bgt", "B", R(V), I(5))]            # falls into A otherwise
                    elif tail == "jmp":
                        xblk += [{"op": "jmp", "l": "B"}]
                    else:
                        xblk += [ins("add", R(ACC), R(ACC), R(V))]        # falls into A2
                    items = [ins("mov", R(SEL), M("i64", 0, 1)), ins("mov", R(V), M("i64", 8, 1)), ins("mov", R(SEL2), M("i64", 16, 1)),
                             ins("mov", R(ACC), I(0)), ins("mov", R(LP), LR), ins("mov", R(LP), M("i64", 0, LP)),
                             br("bt", "A", R(SEL2)), br("bt", "Y", R(SEL)),
                             "X"] + xblk + [
                             "A", ins("add", R(ACC), R(ACC), I(55)), {"op": "jmp", "l": "OUT"},
                             "B", ins("add", R(ACC), R(ACC), I(1)),
                             "OUT", ins("mov", M("i64", 192, 1), R(ACC)), {"op": "ret", "s": [R(ACC)]},
                             "Y", ins("mov", R(V), I(7)), {"op": "jmp", "l": "X"}]
                    insns, pcs = progs.assemble(items)
                    w = lambda x: (x & ((1 << 64) - 1)).to_bytes(8, "little")
                    c = progs.family_case(insns, 6, w(sel) + w(v) + w(sel2))
                    c["prog"]["funcs"][0]["lrefs"] = [{"l": pcs["B"], "l2": 0, "d": 0}]
                    out.append(c)
    return out


def andext_cases():
    """`and t, x, C` (the constant on either side) followed by a sign or zero extension of t, and a comparison result followed by
    an extension: the shapes copy propagation at -O2 rewrites into a single `and` with a narrowed constant / a move."""
    out = []
    X, T, RES, C = 2, 3, 4, 5
    for cst in (0xff, 0x1ff, 0xffff00ff, 0xffffffff, -1, 0x8000000000000080, 0x7f80):
        for ext in ("uext8", "uext16", "uext32", "ext8", "ext16", "ext32"):
            for order in (0, 1):
                for via_reg in (0, 1):
                    for x in (0x8091a2b3c4d5e6f7, -1, 0x0000000180008080):
                        cop = R(C) if via_reg else I(cst)
                        for andop in ("and", "ands"):
                            items = [ins("mov", R(X), M("i64", 0, 1)), ins("mov", R(C), I(cst)),
                                     ins(andop, R(T), R(X), cop) if order == 0 else ins(andop, R(T), cop, R(X)),
                                     ins(ext, R(RES), R(T)), ins("mov", M("i64", 192, 1), R(RES))]
                            if andop == "and":          # the upper half of a 32-bit result is not defined: only its extension is observed
                                items += [ins("mov", M("i64", 200, 1), R(T))]
                            items += [{"op": "ret", "s": [R(RES)]}]
                            insns, _ = progs.assemble(items)
                            out.append(progs.family_case(insns, 5, (x & ((1 << 64) - 1)).to_bytes(8, "little")))
    for cmp in ("lt", "ults", "eq", "nes", "uge"):
        for ext in ("uext8", "ext8", "ext32", "uext16"):
            for a, b in ((1, 2), (2, 1), (-1, 1), (5, 5)):
                items = [ins("mov", R(X), M("i64", 0, 1)), ins("mov", R(C), M("i64", 8, 1)), ins(cmp, R(T), R(X), R(C)), ins(ext, R(RES), R(T)),
                         ins("mov", M("i64", 192, 1), R(RES)), {"op": "ret", "s": [R(RES)]}]
                insns, _ = progs.assemble(items)
                w = lambda v: (v & ((1 << 64) - 1)).to_bytes(8, "little")
                out.append(progs.family_case(insns, 5, w(a) + w(b)))
    return out


def spill_index_cases():
    """accesses through base + index * scale (+ displacement) while more values are live than there are registers, so that base,
    index and the transferred value may all live in stack slots: the address has to be rebuilt in scratch registers without
    disturbing the value."""
    out = []
    P, IDX, VAL, S = 1, 2, 3, 4
    for nt in (12, 15, 19):
        for scale, ty in ((8, "i64"), (4, "i32"), (2, "u16"), (1, "i8"), (8, "d")):
            for kind in ("store", "load", "both"):
                for idx in (1, 3):
                    t0 = 5
                    temps = list(range(t0, t0 + nt))
                    fp = ty == "d"
                    FV = t0 + nt
                    items = [ins("mov", R(IDX), M("i64", 0, 1)), ins("mov", R(VAL), M("i64", 8, 1)), ins("mov", R(S), M("i64", 16, 1))]
                    if fp:
                        items += [ins("dmov", R(FV), M("d", 48, 1))]
                    items += [ins("add", R(t), R(S), I(k + 1)) for k, t in enumerate(temps)]
                    for r in range(2):
                        items += [ins("add", R(t), R(t), R(temps[(k + 1) % nt])) for k, t in enumerate(temps)]
                    mem = M(ty, 64, P, IDX, scale)
                    if kind in ("store", "both"):
                        items += [ins("dmov" if fp else "mov", mem, R(FV) if fp else R(VAL))]
                    if kind in ("load", "both"):
                        items += [ins("dmov", R(FV), M(ty, 128, P, IDX, scale))] if fp else [ins("mov", R(VAL), M(ty, 128, P, IDX, scale))]
                    for r in range(2):
                        items += [ins("xor", R(t), R(t), R(temps[(k + 2) % nt])) for k, t in enumerate(temps)]
                    items += [ins("add", R(temps[0]), R(temps[0]), R(t)) for t in temps[1:]]
                    items += [ins("add", R(temps[0]), R(temps[0]), R(IDX))]
                    if fp:
                        items += [ins("dmov", M("d", 200, 1), R(FV))]
                    else:
                        items += [ins("mov", M("i64", 200, 1), R(VAL))]
                    items += [ins("mov", M("i64", 192, 1), R(temps[0])), {"op": "ret", "s": [R(temps[0])]}]
                    insns, _ = progs.assemble(items)
                    w = lambda v: (v & ((1 << 64) - 1)).to_bytes(8, "little")
                    c = progs.family_case(insns, FV if fp else FV - 1, b"")
                    c["prog"]["funcs"][0]["regty"] = ["i"] * (FV - 1) + (["d"] if fp else [])
                    c["buf0"] = list(w(idx) + w(0x1122334455667788) + w(100) + bytes(24)) + fp_cells("d", FPV["1.5"], 8) + list(bytes(72)) \
                        + (sum((fp_cells("d", FPV["2.5"] if k % 2 else FPV["-1.5"], 8) for k in range(8)), []) if fp else list(bytes(range(0x41, 0x41 + 64)))) + c["buf0"][192:]
                    out.append(c)
    return out


def property_cases():
    """property insns (prset / prbeq / prbne): the specialised way (taken where lazy basic block versioning knows the property) and
    the general way compute the same value by different insns, so every engine must agree with the specification, which follows
    the general way.  Shapes: the property set and tested in one block, across a branch, across a loop back edge, tested on another
    variable or for another constant (the specialised way then computes something else: it must not be taken).  What an insn
    other than a move does to the property of its result is not documented, so no shape depends on it."""
    out = []
    X, Y, RES, CNT = 2, 3, 4, 5
    fast = [ins("add", R(RES), R(X), R(X))]
    slow = [ins("mul", R(RES), R(X), I(2))]
    wrong = [ins("mov", R(RES), I(12345))]
    def sel(test, c, spec_way, gen_way):
        # `test L, x, c`: spec_way runs where the test is not taken by property 0; the two ways are equivalent
        return [br(test, "f", R(X), I(c))] + (slow if True else []) + [{"op": "jmp", "l": "j"}, "f"] + gen_way + ["j"]
    shapes = {
        # prbeq with c # 0 is taken only when the property is known to be c: fast (taken) = slow (not taken)
        "set_test": [ins("prset", None, R(X), I(3)), br("prbeq", "f", R(X), I(3))] + slow + [{"op": "jmp", "l": "j"}, "f"] + fast + ["j"],
        "set_branch_test": [ins("prset", None, R(X), I(3)), br("bt", "k", R(Y)), ins("add", R(Y), R(Y), I(1)), "k",
                            br("prbeq", "f", R(X), I(3))] + slow + [{"op": "jmp", "l": "j"}, "f"] + fast + ["j"],
        "set_loop_test": [ins("prset", None, R(X), I(2)), ins("mov", R(CNT), I(0)), ins("mov", R(RES), I(0)),
                          "lp", br("prbeq", "f", R(X), I(2)), ins("mul", R(Y), R(X), I(2)), {"op": "jmp", "l": "j"}, "f", ins("add", R(Y), R(X), R(X)), "j",
                          ins("add", R(RES), R(RES), R(Y)), ins("add", R(CNT), R(CNT), I(1)), br("blt", "lp", R(CNT), I(3))],
        "other_var": [ins("prset", None, R(Y), I(3)), br("prbeq", "f", R(X), I(3))] + slow + [{"op": "jmp", "l": "j"}, "f"] + wrong + ["j"],
        "other_const": [ins("prset", None, R(X), I(4)), br("prbeq", "f", R(X), I(3))] + slow + [{"op": "jmp", "l": "j"}, "f"] + wrong + ["j"],
        "via_move": [ins("prset", None, R(X), I(3)), ins("mov", R(CNT), R(X)), br("prbeq", "f", R(CNT), I(3))] + slow + [{"op": "jmp", "l": "j"}, "f"] + fast + ["j"],
        "after_call": [ins("prset", None, R(X), I(3)), {"op": "call", "callee": {"k": "ext"}, "res": [R(CNT)], "args": [I(4), R(Y)]},
                       br("prbeq", "f", R(X), I(3))] + slow + [{"op": "jmp", "l": "j"}, "f"] + fast + ["j", ins("add", R(RES), R(RES), R(CNT))],
        "mem_prop": [ins("mov", M("i64", 128, 1), R(X)), ins("prset", None, M("i64", 128, 1), I(5)), br("prbeq", "f", M("i64", 128, 1), I(5))]
                    + slow + [{"op": "jmp", "l": "j"}, "f"] + fast + ["j"],
        "mem_prop_store_between": [ins("mov", M("i64", 128, 1), R(X)), ins("prset", None, M("i64", 128, 1), I(5)), ins("mov", M("i64", 136, 1), R(Y)),
                                   br("prbeq", "f", M("i64", 128, 1), I(5))] + slow + [{"op": "jmp", "l": "j"}, "f"] + fast + ["j"],
        "set_in_loop": [ins("mov", R(CNT), I(0)), ins("mov", R(RES), I(0)),
                        "lp", br("prbeq", "f", R(X), I(2)), ins("mul", R(Y), R(X), I(2)), {"op": "jmp", "l": "j"}, "f", ins("add", R(Y), R(X), R(X)), "j",
                        ins("prset", None, R(X), I(2)), ins("add", R(RES), R(RES), R(Y)), ins("add", R(CNT), R(CNT), I(1)), br("blt", "lp", R(CNT), I(4))],
        "two_props": [ins("prset", None, R(X), I(3)), ins("prset", None, R(Y), I(4)), br("prbeq", "f", R(X), I(3))] + slow + [{"op": "jmp", "l": "j"}, "f",
                      br("prbne", "g", R(Y), I(4))] + fast + [{"op": "jmp", "l": "j"}, "g"] + slow + ["j"],
        "nested_loops": [ins("prset", None, R(X), I(2)), ins("mov", R(RES), I(0)), ins("mov", R(CNT), I(0)),
                         "o", ins("mov", R(Y), I(0)),
                         "i", br("prbeq", "f", R(X), I(2)), ins("mul", R(6), R(X), I(2)), {"op": "jmp", "l": "j"}, "f", ins("add", R(6), R(X), R(X)), "j",
                         ins("add", R(RES), R(RES), R(6)), ins("add", R(Y), R(Y), I(1)), br("blt", "i", R(Y), I(2)),
                         ins("add", R(CNT), R(CNT), I(1)), br("blt", "o", R(CNT), I(2))],
        "reg_to_mem": [ins("prset", None, R(X), I(3)), ins("mov", M("i64", 128, 1), R(X)), br("prbeq", "f", M("i64", 128, 1), I(3))]
                      + slow + [{"op": "jmp", "l": "j"}, "f"] + fast + ["j"],
        "mem_prop_store_other_base": [ins("mov", M("i64", 128, 1), R(X)), ins("prset", None, M("i64", 128, 1), I(5)), ins("add", R(CNT), R(1), I(144)),
                                      ins("mov", M("i64", 0, CNT), R(Y)), br("prbeq", "f", M("i64", 128, 1), I(5))] + slow + [{"op": "jmp", "l": "j"}, "f"] + fast + ["j"],
        "laddr_jmpi": [ins("prset", None, R(X), I(3)), {"op": "laddr", "d": R(CNT), "l": "t"}, {"op": "jmpi", "s": [R(CNT)]},
                       "t", br("prbeq", "f", R(X), I(3))] + slow + [{"op": "jmp", "l": "j"}, "f"] + fast + ["j"],
        "prbne": [ins("prset", None, R(X), I(3)), br("prbne", "f", R(X), I(3))] + fast + [{"op": "jmp", "l": "j"}, "f"] + slow + ["j"],
        "prbne_unknown": [br("prbne", "f", R(X), I(0))] + slow + [{"op": "jmp", "l": "j"}, "f"] + wrong + ["j"],
        "zero_known": [ins("prset", None, R(X), I(0)), br("prbeq", "f", R(X), I(0))] + wrong + [{"op": "jmp", "l": "j"}, "f"] + slow + ["j"],
    }
    for name, body in sorted(shapes.items()):
        for x, y in ((21, 0), (-7, 1), (1 << 40, 5)):
            items = [ins("mov", R(X), M("i64", 0, 1)), ins("mov", R(Y), M("i64", 8, 1)), ins("mov", R(RES), I(0))] + body + [
                ins("mov", M("i64", 192, 1), R(RES)), ins("mov", M("i64", 200, 1), R(X)), {"op": "ret", "s": [R(RES)]}]
            fixed = []
            for it in items:
                if isinstance(it, dict) and it.get("op") == "prset":
                    it = {"op": "prset", "s": it["s"]}
                fixed.append(it)
            insns, pcs = progs.assemble(fixed)
            w = lambda v: (v & ((1 << 64) - 1)).to_bytes(8, "little")
            c = progs.family_case(insns, 6, w(x) + w(y))
            if name == "laddr_jmpi":
                c["prog"]["funcs"][0]["lrefs"] = [{"l": pcs["t"], "l2": 0, "d": 0}]       # the jmpi target is a label known to lref data
            out.append(c)
    return out


def jcall_cases():
    """jcall / jret: the callee (no arguments, no results) returns to a label of the caller whose address it finds in a global
    variable tied to a hard register or in memory; the continuation label is reachable in no other way.  Shapes: one
    continuation, a continuation chosen by the callee out of two, a jcall in a loop, work (an external call, an alloca)
    in the callee before it leaves, values of the caller live across the jcall."""
    out = []
    GV = {"k": "greg"}
    GD = {"k": "dref", "b": 2}
    SAVE, A, B, ACC, LAB, T, CNT, P = 9, 2, 3, 4, 5, 6, 7, 8
    jcall = {"op": "jcall", "callee": {"k": "func", "f": 2}}
    for via in ("gvar", "mem"):
        for shape in ("one", "two", "loop", "work", "work_call_first", "work_call_only"):
            for a, b in ((10, 0), (-3, 1), (1 << 33, 2)):
                # callee
                h = []
                if via == "gvar":
                    h += [ins("mov", R(1), GV)]
                else:
                    h += [ins("mov", R(2), GD), ins("mov", R(1), M("i64", 0, 2))]
                if shape == "work":
                    h += [ins("alloca", R(3), I(32)), ins("mov", M("i64", 8, 3), I(77)),
                          {"op": "call", "callee": {"k": "ext"}, "res": [R(4)], "args": [I(6), M("i64", 8, 3)]}]
                elif shape == "work_call_first":         # the return address lives across the call, then the frame grows
                    h += [{"op": "call", "callee": {"k": "ext"}, "res": [R(4)], "args": [I(6), I(5)]}, ins("alloca", R(3), I(32)), ins("mov", M("i64", 8, 3), R(4))]
                elif shape == "work_call_only":
                    h += [{"op": "call", "callee": {"k": "ext"}, "res": [R(4)], "args": [I(6), I(5)]}]
                if shape == "two":       # the second label address is in the next memory word / the callee picks by a flag in gdat
                    h += [ins("mov", R(2), GD), br("bf", "k", M("i64", 16, 2)), ins("mov", R(1), M("i64", 8, 2)), "k"]
                h += [{"op": "jret", "s": [R(1)]}]
                hins, _ = progs.assemble(h)
                helper = {"name": "g1", "params": [], "res": [], "regty": ["i"] * 4, "lrefs": [], "gvar": via == "gvar", "insns": hins}
                setlab = (lambda lab, off=0: [{"op": "laddr", "d": R(LAB), "l": lab}] + ([ins("mov", GV, R(LAB))] if via == "gvar" and off == 0 else
                                                                                        [ins("mov", R(P), GD), ins("mov", M("i64", off, P), R(LAB))]))
                pre = [ins("mov", R(A), M("i64", 0, 1)), ins("mov", R(B), M("i64", 8, 1)), ins("mov", R(ACC), I(0))]
                if via == "gvar":
                    pre = [ins("mov", R(SAVE), GV)] + pre
                if shape in ("one", "work", "work_call_first", "work_call_only"):
                    body = setlab("c1") + [ins("add", R(T), R(A), I(5)), jcall, ins("mov", R(ACC), I(999)), "c1", ins("add", R(ACC), R(ACC), R(T))]
                elif shape == "two":
                    body = setlab("c1") + setlab("c2", 8) + [ins("mov", R(P), GD), ins("mov", M("i64", 16, P), R(B)), ins("add", R(T), R(A), I(5)), jcall,
                                                            ins("mov", R(ACC), I(999)), "c1", ins("add", R(ACC), R(ACC), I(100)),
                                                            "c2", ins("add", R(ACC), R(ACC), R(T))]
                else:
                    body = [ins("mov", R(CNT), I(0)), "lp"] + setlab("c1") + [ins("add", R(T), R(A), R(CNT)), jcall, ins("mov", R(ACC), I(999)),
                            "c1", ins("add", R(ACC), R(ACC), R(T)), ins("add", R(CNT), R(CNT), I(1)), br("blt", "lp", R(CNT), I(3))]
                post = ([ins("mov", GV, R(SAVE))] if via == "gvar" else []) + [ins("mov", M("i64", 192, 1), R(ACC)), {"op": "ret", "s": [R(ACC)]}]
                insns, _ = progs.assemble(pre + body + post)
                w = lambda v: (v & ((1 << 64) - 1)).to_bytes(8, "little")
                c = progs.family_case(insns, 9, w(a) + w(b))
                c["prog"]["funcs"][0]["gvar"] = via == "gvar"
                c["prog"]["funcs"].append(helper)
                out.append(c)
    return out


def pressure_loop_cases():
    """more values live across a loop than there are registers, most of them used only before and after it (what live range
    splitting at -O2 spills on the loop's entry and restores on its exits): loops with one and two exits, nested, with a call
    inside, with a value changed in the loop only on some iterations, integer and floating point values."""
    out = []
    S, N, CNT, ACC, J = 2, 3, 4, 5, 6
    for nt in (10, 15, 20):
        for shape in ("simple", "two_exits", "nested", "call_inside", "cond_update", "fp"):
            for n in (0, 1, 4):
                t0 = 7
                temps = list(range(t0, t0 + nt))
                fp = shape == "fp"
                items = [ins("mov", R(S), M("i64", 0, 1)), ins("mov", R(N), M("i64", 8, 1)), ins("mov", R(ACC), I(0)), ins("mov", R(CNT), I(0))]
                if fp:
                    items += [ins("dmov", R(t0 + nt), M("d", 48, 1)), ins("dmov", R(t0 + nt + 1), M("d", 56, 1))]
                items += [ins("add", R(t), R(S), I(3 * k + 1)) for k, t in enumerate(temps)]
                hot = temps[:3]
                body = [ins("add", R(ACC), R(ACC), R(hot[0])), ins("xor", R(hot[1]), R(hot[1]), R(ACC)), ins("add", R(hot[2]), R(hot[2]), R(CNT))]
                if shape == "two_exits":
                    body += [br("bgt", "out2", R(ACC), I(1 << 40))]
                if shape == "nested":
                    body += [ins("mov", R(J), I(0)), "in", ins("add", R(ACC), R(ACC), R(temps[3])), ins("add", R(J), R(J), I(1)), br("blt", "in", R(J), I(2))]
                if shape == "call_inside":
                    body += [{"op": "call", "callee": {"k": "ext"}, "res": [R(J)], "args": [I(2), R(ACC)]}, ins("add", R(ACC), R(ACC), R(J))]
                if shape == "cond_update":
                    body += [ins("and", R(J), R(CNT), I(1)), br("bf", "sk", R(J)), ins("add", R(temps[-1]), R(temps[-1]), I(1000)), "sk"]
                if fp:
                    body += [ins("dadd", R(t0 + nt), R(t0 + nt), R(t0 + nt + 1))]
                items += ["lp", br("bge", "out", R(CNT), R(N))] + body + [ins("add", R(CNT), R(CNT), I(1)), {"op": "jmp", "l": "lp"}, "out"]
                if shape == "two_exits":
                    items += [ins("add", R(ACC), R(ACC), I(7)), "out2"]
                items += [ins("add", R(ACC), R(ACC), R(t)) for t in temps]
                if fp:
                    items += [ins("dmov", M("d", 200, 1), R(t0 + nt))]
                items += [ins("mov", M("i64", 192, 1), R(ACC)), {"op": "ret", "s": [R(ACC)]}]
                insns, _ = progs.assemble(items)
                w = lambda v: (v & ((1 << 64) - 1)).to_bytes(8, "little")
                nregs = t0 + nt - 1 + (2 if fp else 0)
                c = progs.family_case(insns, nregs, b"")
                c["prog"]["funcs"][0]["regty"] = ["i"] * (t0 + nt - 1) + (["d", "d"] if fp else [])
                c["buf0"] = list(w(100) + w(n) + bytes(32)) + fp_cells("d", FPV["1.5"], 8) + fp_cells("d", FPV["2.5"], 8) + c["buf0"][64:]
                c["prog"]["bound"] = 400 + 40 * n * (4 if shape == "nested" else 1)
                out.append(c)
    return out


INT_ARITH = ["add", "adds", "sub", "subs", "mul", "muls", "div", "divs", "udiv", "udivs", "mod", "mods", "umod", "umods", "and", "ands", "or", "ors",
             "xor", "xors", "lsh", "lshs", "rsh", "rshs", "ursh", "urshs"]
INT_CMP = ["eq", "eqs", "ne", "nes", "lt", "lts", "ult", "ults", "le", "les", "ule", "ules", "gt", "gts", "ugt", "ugts", "ge", "ges", "uge", "uges"]


def neutral_const_cases():
    """every integer binary insn with a small constant (0, 1, -1, 2) as its FIRST and as its SECOND source, and with the same
    register as both sources: the algebraic identities a simplifier may use hold for one operand position only (x - 0 but not
    0 - x, x << 0 but not 0 << x, x / 1 but not 1 / x).  32-bit results are observed through a zero extension."""
    out = []
    X, RES, Y = 2, 3, 4
    for op in INT_ARITH + INT_CMP:
        r32 = op.endswith("s")            # 32-bit insn: the upper half of its result is not defined
        shift = op.rstrip("s") in ("lsh", "rsh", "ursh")
        for k in (0, 1, -1, 2):
            for pos in ("first", "second", "same"):
                if pos == "same" and k != 0:
                    continue
                for x in ((0, 1, 5, 31) if shift else (0, 7, -9, 1 << 35)):
                    if shift and pos == "first" and not 0 <= x < (32 if op.endswith("s") else 64):
                        continue
                    if shift and pos == "second" and not 0 <= k < (32 if op.endswith("s") else 64):
                        continue
                    srcs = (I(k), R(X)) if pos == "first" else (R(X), I(k)) if pos == "second" else (R(X), R(X))
                    items = [ins("mov", R(X), M("i64", 0, 1)), ins(op, R(RES), *srcs)]
                    if r32:
                        items += [ins("uext32", R(RES), R(RES))]
                    items += [ins("mov", M("i64", 192, 1), R(RES)), {"op": "ret", "s": [R(RES)]}]
                    insns, _ = progs.assemble(items)
                    out.append(progs.family_case(insns, 4, (x & ((1 << 64) - 1)).to_bytes(8, "little")))
    return out


def loop_size_cases():
    """a backward conditional branch over loop bodies of every size around the reach of a short jump: bodies made of insns whose
    x86-64 encodings have 3, 4 and 7 bytes in all the mixes that step the body size byte by byte through 90..150 bytes (other
    levels and targets scale the same sweep)."""
    out = []
    X, CNT, Y, LIM = 2, 3, 4, 5
    for n4 in range(0, 44):
        for n7 in (0, 1, 2, 3):
            for n3 in (0, 1, 2):
                for cmpform in ("imm", "reg"):
                    if cmpform == "reg" and (n4 + n7 + n3) % 3:
                        continue
                    body = [ins("add", R(X), R(X), I(1))] * n4 + [ins("add", R(X), R(X), I(1000))] * n7 + [ins("mov", R(Y), R(X))] * n3
                    items = [ins("mov", R(X), M("i64", 0, 1)), ins("mov", R(CNT), I(0)), ins("mov", R(Y), I(0)), ins("mov", R(LIM), I(3)), "lp"] + body + [
                        ins("add", R(CNT), R(CNT), I(1)), br("blt", "lp", R(CNT), I(3) if cmpform == "imm" else R(LIM)),
                        ins("add", R(X), R(X), R(Y)), ins("mov", M("i64", 192, 1), R(X)), {"op": "ret", "s": [R(X)]}]
                    insns, _ = progs.assemble(items)
                    c = progs.family_case(insns, 5, (7).to_bytes(8, "little"))
                    c["prog"]["bound"] = 60 + 3 * (n4 + n7 + n3 + 3)
                    out.append(c)
    return out
