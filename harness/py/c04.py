"""C04: link-time simplification and inlining preserve the meaning of the program as written.
Oracle: MIRSem.tla run on the program as written (real calls, fresh alloca blocks, argument narrowing, result
extension).  Implementation: MIR_interp after MIR_link, with calls as written (`call`: small callees are inlined by
the size heuristic), with every helper call turned into `inline`, and in a library built with inlining disabled."""
import json, collections
import vlib, progs, families
from vlib import Check, MachineryError

PROP = "C04"
# (library variant, calls rendered as `inline`, main defined before its callees, name)
CONFIGS = [("plain", False, False, "call"), ("plain", True, False, "inline"), ("plain", True, True, "inline-main-first"),
           ("noinline", False, False, "noinline-lib")]


def run(tier, cases=None):
    ck = Check(PROP, tier, "model_checking")
    nprog = 400 if tier == "quick" else 8000
    if cases is None:
        cases, r = progs.generate(nprog, seed=vlib.seed() + 1000, cfg="MIRProg_c04.cfg")
        ck.setc("states", r.states); ck.setc("transitions", r.states)
    else:
        ck.setc("states", len(cases)); ck.setc("transitions", len(cases))
    if tier in ("quick", "thorough") and len(cases) > 100:
        # parametric families (see families.py): shapes the simplifier rewrites, decided by MIRRun.tla
        fam, rf = progs.run_family((families.fpcmp_cases() if tier == "quick" else families.fpcmp_cases(vals=tuple(families.FPV)))
                                   + families.alloca_loop_cases() + families.neutral_const_cases() + families.andext_cases()[::5])
        cases = cases + fam
        ck.setc("family_cases", len(fam))
    st = collections.Counter(c["status"] for c in cases)
    nexec = 0
    allobs = {}
    for variant, inl, mfirst, name in CONFIGS:
        allobs[name] = progs.run_cases(cases, ["interp"], variant=variant, inline_calls=inl, main_first=mfirst)
    inconclusive = 0
    for variant, inl, mfirst, name in CONFIGS:
        obs, texts = allobs[name]
        for i, per in sorted(obs.items()):
            c = cases[i]
            so, nans = progs.spec_obs(c)
            nexec += 1
            msg = progs.compare_obs(so, per["interp"], nans, "spec", "interp[%s]" % name)
            if msg:
                again, _ = progs.run_cases([c], ["interp"], variant=variant, inline_calls=inl, main_first=mfirst)
                msg = progs.compare_obs(so, again[0]["interp"], nans, "spec", "interp[%s]" % name)
            if msg and c.get("stack_kb") and per["interp"].status != "ok":
                # run with a reduced C stack: only a verdict if the same program survives as written in the library that never inlines
                ref = allobs["noinline-lib"][0].get(i, {}).get("interp")
                if name == "noinline-lib" or ref is None or ref.status != "ok":
                    inconclusive += 1
                    continue
            if msg:
                # is it the link-time transformation?  the same program without inlining agrees => attribute to inlining
                ck.violation("link:%s:%s" % (name, msg.split(" ")[0]), "program %d %s: %s" % (i, name, msg),
                             {"case": c, "config": name, "text": texts[i]})
            ck.note_distinct(c["prog"]["funcs"][0]["insns"])
    calls = collections.Counter()
    for c in cases:
        if c["status"] == "done":
            for I in c["prog"]["funcs"][0]["insns"]:
                if I["op"] == "call":
                    calls[I["callee"].get("f", "ext")] += 1
    ck.setc("programs", len(cases)); ck.setc("programs_well_defined", st.get("done", 0))
    ck.setc("discarded_undefined", len(cases) - st.get("done", 0))
    ck.setc("call_sites_by_callee", {str(k): v for k, v in calls.items()})
    ck.setc("traces_validated_against_impl", nexec)
    ck.setc("reduced_stack_runs_inconclusive", inconclusive)
    ck.setc("configs", [c[3] for c in CONFIGS])
    ck.setc("rule", "behaviours of MIRProg.tla biased to calls/alloca/branches (MIRProg_c04.cfg); each well-defined program is linked and "
                    "interpreted as written, with all helper calls as `inline`, and in a library with inlining thresholds 0; "
                    "observations (result, caller-owned memory, external-call log) must equal the specification's")
    done = [c for c in cases if c["status"] == "done"]
    if done:
        ck.sample({"mir_text": progs.render_prog(done[0]["prog"]), "result": done[0]["result"], "log": done[0]["log"]}, maxn=1)
    if st.get("done", 0) < max(5, len(cases) // 10):
        raise MachineryError("too few well-defined programs: %s" % dict(st))
    return ck.finish()


def replay(path):
    d = json.load(open(path))
    return run("quick", cases=[d["case"]["case"]])


def selftest():
    cases, r = progs.generate(16, seed=11, cfg="MIRProg_c04.cfg")
    done = [c for c in cases if c["status"] == "done"][:1]
    obs, texts = progs.run_cases(done, ["interp"])
    so, nans = progs.spec_obs(done[0])
    ok1 = progs.compare_obs(so, obs[0]["interp"], nans, "spec", "interp") is None
    so.ret = "%016x" % (int(so.ret, 16) ^ 1)
    ok2 = progs.compare_obs(so, obs[0]["interp"], nans, "spec", "interp") is not None
    print("selftest C04: agreement accepted=%s corrupted expectation rejected=%s" % (ok1, ok2))
    return 0 if ok1 and ok2 else 1
