"""Driving harness/mirrun.c: groups of (MIR text, engine, calls) with crash attribution and restart."""
import os, subprocess, struct
import vlib

ENGINES_QUICK = ["interp", "gen0", "gen2"]
ENGINES_ALL = ["interp", "ishim", "gen0", "gen1", "gen2", "gen3", "lazy2", "bb2"]


def build_runner(variant="plain", units=("mir.c", "mir-gen.c")):
    d, objs, cc, flags = vlib.build_lib(variant, units)
    exe = os.path.join(d, "mirrun")
    src = os.path.join(vlib.HARNESS, "mirrun.c")
    stamp = exe + ".srchash"
    h = vlib.tree_hash([src])
    if not os.path.exists(exe) or not os.path.exists(stamp) or open(stamp).read() != h:
        vlib.cc_link(cc, flags, [src], objs, exe)
        with open(stamp + ".tmp%d" % os.getpid(), "w") as f:
            f.write(h)
        os.rename(stamp + ".tmp%d" % os.getpid(), stamp)
    return exe


class CallResult:
    __slots__ = ("status", "ret", "buf", "log", "detail")

    def __init__(self, status, ret=None, buf=None, log=None, detail=""):
        self.status, self.ret, self.buf, self.log, self.detail = status, ret, buf, log, detail

    def __repr__(self):
        return "CallResult(%s ret=%s buf=%s log=%s %s)" % (self.status, self.ret, self.buf, self.log, self.detail)


def _run_script(exe, script, timeout, stack_kb=None):
    cmd = [exe] if not stack_kb else ["/bin/sh", "-c", "ulimit -s %d; exec %s" % (stack_kb, exe)]      # a smaller C stack for this run
    p = subprocess.run(cmd, input=script, stdout=subprocess.PIPE, stderr=subprocess.PIPE, timeout=timeout)
    return p.returncode, p.stdout.decode("utf-8", "replace"), p.stderr.decode("utf-8", "replace")


def run_group(exe, text, engine, calls, timeout=600, stack_kb=None):
    """calls: list of (func, hexbuf).  Returns list of CallResult, one per call.
    status: ok | error (MIR error callback; detail has the message) | crash | timeout | nocontext"""
    results = [None] * len(calls)
    start = 0
    tb = text.encode()
    while start < len(calls):
        lines = [b"M %d\n" % len(tb) + tb, ("X %s\n" % engine).encode()]
        for f, hx in calls[start:]:
            lines.append(("C %s %s\n" % (f, hx)).encode())
        lines.append(b"D\n")
        try:
            rc, out, err = _run_script(exe, b"".join(lines), timeout, stack_kb)
        except subprocess.TimeoutExpired:
            for i in range(start, len(calls)):
                results[i] = CallResult("timeout", detail="runner exceeded %ds" % timeout)
            return results
        # parse: B <lineno> precedes each command's output.  lineno 1 = M, 2 = X, 3.. = calls
        cur = None
        link_error = None
        done_upto = start - 1
        for ln in out.split("\n"):
            if ln.startswith("B "):
                cur = int(ln[2:])
            elif cur is None:
                continue
            elif cur == 2 and ln.startswith("E "):
                link_error = ln
            elif cur >= 3:
                ci = start + cur - 3
                if ci >= len(calls):
                    continue
                if ln.startswith("R "):
                    parts = ln.split(" ")
                    ret, buf, guard = parts[1], parts[2], parts[3]
                    logs = parts[5:]
                    st = "ok" if guard == "g" else "guard"
                    results[ci] = CallResult(st, ret, buf, [x for x in logs if x])
                    done_upto = ci
                elif ln.startswith("E "):
                    results[ci] = CallResult("error", detail=ln)
                    done_upto = ci
                elif ln.startswith("N"):
                    results[ci] = CallResult("nocontext", detail=link_error or "context dropped after an earlier error")
                    done_upto = ci
                elif ln.startswith("TIMEOUT"):
                    results[ci] = CallResult("timeout", detail="call exceeded its time limit")
                    done_upto = ci
        if link_error and done_upto < start:
            for i in range(start, len(calls)):
                results[i] = CallResult("error", detail=link_error)
            return results
        if rc == 0 and done_upto == len(calls) - 1:
            return results
        # the runner died: attribute to the command in progress
        if cur is None or cur < 3:
            for i in range(start, len(calls)):
                if results[i] is None:
                    results[i] = CallResult("crash", detail="runner died during scan/link rc=%s %s" % (rc, err[-300:]))
            return results
        ci = start + cur - 3
        if ci < len(calls) and (results[ci] is None or results[ci].status != "timeout"):
            results[ci] = CallResult("crash", detail="runner died rc=%s %s" % (rc, err[-300:]))
        start = max(ci, done_upto) + 1
    return results


# ---- value encodings ---------------------------------------------------------------------------

def w64_to_int(l):
    return l[0] | l[1] << 16 | l[2] << 32 | l[3] << 48


def int_to_hex_le(v, nbytes=8):
    return (v & ((1 << (8 * nbytes)) - 1)).to_bytes(nbytes, "little").hex()


def hex_le_to_int(h):
    return int.from_bytes(bytes.fromhex(h), "little")


def s64(v):
    return v - (1 << 64) if v >> 63 else v


def fp_bits(x, fmt):
    """FPx record -> integer bit pattern (f: 32, d: 64, ld: 80 bits).  NaN -> canonical quiet NaN."""
    c = x["c"]
    if fmt == "ld":
        if c == "nan":
            return (0x7fff << 64) | (0xC << 60)
        if c == "inf":
            return (x["s"] << 79) | (0x7fff << 64) | (1 << 63)
        if c == "zero":
            return x["s"] << 79
        m, e, s = x["m"], x["e"], x["s"]
        bl = m.bit_length()
        # value = m * 2^e ; normalised: 1.xxx * 2^(e+bl-1), explicit integer bit
        exp = e + bl - 1
        if exp >= -16382:
            mant = m << (64 - bl)
            return (s << 79) | ((exp + 16383) << 64) | mant
        sh = e + 16445            # denormal: mant * 2^-16445
        assert sh >= 0
        return (s << 79) | (m << sh)
    p, ebits, bias, emin = (24, 8, 127, -149) if fmt == "f" else (53, 11, 1023, -1074)
    tot = 32 if fmt == "f" else 64
    if c == "nan":
        return ((1 << ebits) - 1) << (p - 1) | (1 << (p - 2))
    if c == "inf":
        return (x["s"] << (tot - 1)) | (((1 << ebits) - 1) << (p - 1))
    if c == "zero":
        return x["s"] << (tot - 1)
    m, e, s = x["m"], x["e"], x["s"]
    bl = m.bit_length()
    exp = e + bl - 1
    if exp >= 1 - bias:
        frac = (m << (p - bl)) & ((1 << (p - 1)) - 1)
        return (s << (tot - 1)) | ((exp + bias) << (p - 1)) | frac
    sh = e - emin
    assert sh >= 0
    return (s << (tot - 1)) | (m << sh)


def is_nan_bits(b, fmt):
    if fmt == "f":
        return (b >> 23) & 0xff == 0xff and b & 0x7fffff != 0
    if fmt == "d":
        return (b >> 52) & 0x7ff == 0x7ff and b & ((1 << 52) - 1) != 0
    return (b >> 64) & 0x7fff == 0x7fff and (b & ((1 << 63) - 1)) != 0


FP_BYTES = {"f": 4, "d": 8, "ld": 10}


def run_cmds(exe, items, timeout=300, env=None):
    """items: list of ("M", text) or ("c", "<command line>").  Returns (outputs, died): outputs[i] = list of output
    lines of item i (None if never reached); died = index of the item in progress when the runner died, or None."""
    parts = []
    for kind, val in items:
        if kind == "M":
            tb = val.encode()
            parts.append(b"M %d\n" % len(tb) + tb)
        else:
            parts.append(val.encode() + b"\n")
    e = dict(os.environ)
    if env:
        e.update(env)
    try:
        p = subprocess.run([exe], input=b"".join(parts), stdout=subprocess.PIPE, stderr=subprocess.PIPE, timeout=timeout, env=e)
        rc, out = p.returncode, p.stdout.decode("utf-8", "replace")
    except subprocess.TimeoutExpired as ex:
        rc, out = -9, (ex.stdout or b"").decode("utf-8", "replace")
    outputs = [None] * len(items)
    cur = None
    lines = out.split("\n")
    k = 0
    while k < len(lines):
        ln = lines[k]
        if ln.startswith("B "):
            cur = int(ln[2:]) - 1
            if cur < len(outputs):
                outputs[cur] = []
        elif cur is not None and cur < len(outputs) and ln != "":
            if ln.startswith("T ") and ln[2:].isdigit():      # T <len>\n<text>
                n = int(ln[2:])
                rest = "\n".join(lines[k + 1:])
                outputs[cur].append("T " + rest[:n])
                consumed = rest[:n].count("\n")
                k += consumed + 1
            else:
                outputs[cur].append(ln)
        k += 1
    died = None
    if rc != 0 or not any(o and o[-1] == "Z" for o in outputs if o) and "Z" not in lines:
        died = cur
    return outputs, died
