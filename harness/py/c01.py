"""C01: generated code behaves like the interpreter at -O0..-O3, on well-defined programs constructed and
executed by the TLA+ machine (spec/MIRProg.tla + MIRSem.tla).  The specification decides which programs are
well defined and what they compute; the property's oracle is the interpreter."""
import os, json, collections
import vlib, progs, families
from vlib import Check, MachineryError

PROP = "C01"
GEN = ["gen0", "gen1", "gen2", "gen3"]


def classify(msg):
    return msg.split(" ")[0] if msg else ""


JMPI_KEY = progs.JMPI_KEY


def jmpi_attributable(text, hexbuf, engine):
    """Known finding: at -O2/-O3 an indirect jump (laddr/jmpi) whose target block gets a loop pre-header / phi copies
    is miscompiled (the pre-header is placed as a fall-through after the jmpi and the phi operands are crossed).
    A failure is attributed to it only if the very same program with every `laddr r,L; jmpi r` pair replaced by
    `jmp L` (same control flow, no indirect jump) agrees with the interpreter on that engine."""
    import re, mirlib
    if engine not in ("gen2", "gen3") or " jmpi " not in text:
        return False
    t2 = progs.without_jmpi(text)
    if t2 is None:
        return False
    exe = mirlib.build_runner("plain")
    a = mirlib.run_group(exe, t2, "interp", [("main", hexbuf)], timeout=120)[0]
    b = mirlib.run_group(exe, t2, engine, [("main", hexbuf)], timeout=120)[0]
    return a.status == "ok" and b.status == "ok" and (a.ret, a.buf, a.log) == (b.ret, b.buf, b.log)


def sweep_cases(kmax):
    """Parametric family: a diamond that joins a small constant K with an expression, followed by the same operation on the join and
    on the expression; K sweeps 0..kmax so that it meets every internal number (value numbers, register and label numbers) an optimiser
    may confuse a constant with.  Both arms are taken (cond = 0 / 1)."""
    R, I, M = progs.op_reg, progs.op_imm, progs.op_mem
    out = []
    for k in range(kmax + 1):
        for cond in (0, 1):
            insns = [progs.ins("mov", R(2), M("i64", 0, 1)), progs.ins("mov", R(3), M("i64", 8, 1)), progs.ins("mov", R(6), M("i64", 16, 1)),
                     progs.ins("add", R(4), R(2), R(3)),          # x = a + b
                     progs.ins("mov", R(5), I(k)),                # y = K
                     progs.br("bf", 8, R(6)),                     # if (cond)
                     progs.ins("mov", R(5), R(4)),                #   y = x
                     progs.ins("add", R(7), R(5), I(7)),          # pc 8: z = y + 7
                     progs.ins("add", R(8), R(4), I(7)),          # w = x + 7
                     progs.ins("mov", M("i64", 192, 1), R(5)), progs.ins("mov", M("i64", 200, 1), R(7)),
                     progs.ins("mov", M("i64", 208, 1), R(8)),
                     {"op": "ret", "s": [R(7)]}]
            buf = (1000).to_bytes(8, "little") + (234).to_bytes(8, "little") + cond.to_bytes(8, "little")
            out.append(progs.family_case(insns, 8, buf))
    return out


def island_cases():
    """Parametric family: code that can be entered only through a taken label address (lref data + jmpi), behind a branch whose
    condition is a constant (the island is dead: only its lref-referenced labels keep it) or comes from memory (the island runs).
    Shapes of the island: a block that is its own jmpi predecessor, two blocks in a cycle, with and without values flowing in."""
    R, I, M = progs.op_reg, progs.op_imm, progs.op_mem
    LR = {"k": "dref", "b": 4}
    out = []
    skips = [("jmp",), ("bf", I(0)), ("bt", I(1)), ("bfs", I(0)), ("bts", I(7)), ("beq", I(3), I(3)), ("bf", R(6)), ("bt", R(6))]
    for skip in skips:
        for shape in ("self", "pair", "self_uses", "fall", "tail"):
            for cond in (0, 1):
                for n in (1, 3):
                    pre = [progs.ins("mov", R(2), M("i64", 0, 1)), progs.ins("mov", R(3), M("i64", 8, 1)), progs.ins("mov", R(6), M("i64", 16, 1)),
                           progs.ins("add", R(4), R(2), R(3))]
                    jump = lambda slot: [progs.ins("mov", R(5), LR), progs.ins("mov", R(5), M("i64", 8 * slot, 5)), {"op": "jmpi", "s": [R(5)]}]
                    head = jump(0)                                   # pcs 6..8: falls in from the skip branch (pc 5)
                    a = 9                                            # pc of island label A
                    if shape == "fall":
                        # no jmpi in the function at all: the island labels A, B are kept only by the lref data (B - A) and fall into END
                        head = [progs.ins("add", R(4), R(4), I(16))]
                        a = 7
                        island, lrefs, end = [progs.ins("add", R(4), R(4), I(1)), progs.ins("add", R(4), R(4), R(2))], [{"l": a + 1, "l2": a, "d": 0}], a + 2
                    elif shape == "tail":
                        # the island is behind the ret: A: r4 += 1; r3 -= 1; ble OUT; jmpi A   OUT: ret r4
                        a = 9 + 4
                        blk = [progs.ins("add", R(4), R(4), I(1)), progs.ins("sub", R(3), R(3), I(1)), progs.br("ble", a + 6, R(3), I(0))] + jump(0)
                        island, lrefs, end = [], [{"l": a, "l2": 0, "d": 0}], 9
                    elif shape == "pair":
                        # A: r4 += 1; jmpi B      B: r3 -= 1; ble END; jmpi A
                        blkA = [progs.ins("add", R(4), R(4), I(1))] + jump(1)
                        b = a + len(blkA)
                        blkB = [progs.ins("sub", R(3), R(3), I(1)), None] + jump(0)
                        end = b + len(blkB)
                        blkB[1] = progs.br("ble", end, R(3), I(0))
                        island, lrefs = blkA + blkB, [{"l": a, "l2": 0, "d": 0}, {"l": b, "l2": 0, "d": 0}]
                    else:
                        # A: r4 += (1 | r2); r3 -= 1; ble END; jmpi A
                        inc = I(1) if shape == "self" else R(2)
                        blk = [progs.ins("add", R(4), R(4), inc), progs.ins("sub", R(3), R(3), I(1)), None] + jump(0)
                        end = a + len(blk)
                        blk[2] = progs.br("ble", end, R(3), I(0))
                        island, lrefs = blk, [{"l": a, "l2": 0, "d": 0}]
                    tail = [progs.ins("add", R(7), R(4), R(3)),
                            progs.ins("mov", M("i64", 192, 1), R(4)), progs.ins("mov", M("i64", 200, 1), R(7)), {"op": "ret", "s": [R(7)]}]
                    insns = pre + [progs.br(skip[0], end, *skip[1:])] + head + island + tail
                    if shape == "tail":
                        insns += blk + [progs.ins("mov", M("i64", 208, 1), R(4)), {"op": "ret", "s": [R(4)]}]
                    buf = (1000).to_bytes(8, "little") + n.to_bytes(8, "little") + cond.to_bytes(8, "little")
                    c = progs.family_case(insns, 8, buf)
                    c["prog"]["funcs"][0]["lrefs"] = lrefs
                    out.append(c)
    return out


def loop_cases():
    """Parametric family: a loop nest (outer n, inner m iterations, both from memory, 0 included) around a body whose
    loop-invariant part must not be moved to where it is executed more often or earlier than in the program: a division guarded by
    `d != 0`, a load guarded by a flag (null pointer otherwise), an invariant load next to a store that may overlap it, an overflow
    insn with its branch, an invariant product, all with zero-trip loops among the cases."""
    R, I, M, ins, br = progs.op_reg, progs.op_imm, progs.op_mem, progs.ins, progs.br
    A, D, N, ACC, PTR, FLG, I_, J_, MM, T, T2 = 2, 3, 6, 4, 12, 11, 7, 8, 9, 10, 13
    bodies = {
        "gdiv": [br("beq", "skip", R(D), I(0)), ins("div", R(T), R(A), R(D)), ins("add", R(ACC), R(ACC), R(T)), "skip"],
        "div": [ins("div", R(T), R(A), R(D)), ins("add", R(ACC), R(ACC), R(T))],
        "gmod": [br("beq", "skip", R(D), I(0)), ins("mod", R(T), R(A), R(D)), ins("add", R(ACC), R(ACC), R(T)), "skip"],
        "gload": [br("beq", "skip", R(FLG), I(0)), ins("mov", R(T), M("i64", 32, PTR)), ins("add", R(ACC), R(ACC), R(T)), "skip"],
        "ldst_alias": [ins("mov", R(T), M("i64", 32, 1)), ins("add", R(ACC), R(ACC), R(T)), ins("mov", M("i64", 32, 1), R(ACC))],
        "ldst_part": [ins("mov", R(T), M("i64", 32, 1)), ins("add", R(ACC), R(ACC), R(T)), ins("mov", M("i32", 36, 1), R(ACC))],
        "ldst_noal": [ins("mov", R(T), M("i64", 32, 1)), ins("add", R(ACC), R(ACC), R(T)), ins("mov", M("i64", 40, 1), R(ACC))],
        "ldst_idx": [ins("mov", R(T), M("i64", 40, 1)), ins("add", R(ACC), R(ACC), R(T)), ins("mov", M("i64", 32, 1, J_, 8), R(ACC))],
        "ovf": [ins("addo", R(ACC), R(ACC), R(A)), br("bo", "end")],
        "mulinv": [ins("mul", R(T), R(A), R(D)), ins("add", R(T2), R(T), R(I_)), ins("xor", R(ACC), R(ACC), R(T2))],
        "stinv": [ins("mov", M("i64", 48, 1), R(A)), ins("mov", R(T), M("i64", 48, 1)), ins("add", R(ACC), R(ACC), R(T)), ins("mov", M("i64", 48, 1), R(ACC))],
    }
    out = []
    for name, body in sorted(bodies.items()):
        for n in (0, 1, 3):
            for m in (0, 1, 2):
                for a, d in ((1000, 0), (1000, 7), (-(1 << 62), -3), ((1 << 63) - 5, 1)):
                    for flag in ((0, 1) if name == "gload" else (1,)):
                        items = [ins("mov", R(A), M("i64", 0, 1)), ins("mov", R(D), M("i64", 8, 1)), ins("mov", R(N), M("i64", 16, 1)),
                                 ins("mov", R(MM), M("i64", 24, 1)), ins("mov", R(FLG), M("i64", 56, 1)),
                                 ins("mov", R(PTR), I(0)), br("beq", "nop", R(FLG), I(0)), ins("mov", R(PTR), R(1)), "nop",
                                 ins("mov", R(ACC), I(0)), ins("mov", R(I_), I(0)),
                                 "outer", br("bge", "end", R(I_), R(N)), ins("mov", R(J_), I(0)),
                                 "inner", br("bge", "iend", R(J_), R(MM))] + body + [
                                 ins("add", R(J_), R(J_), I(1)), {"op": "jmp", "l": "inner"},
                                 "iend", ins("add", R(I_), R(I_), I(1)), {"op": "jmp", "l": "outer"},
                                 "end", ins("mov", M("i64", 192, 1), R(ACC)), ins("mov", M("i64", 200, 1), R(I_)), {"op": "ret", "s": [R(ACC)]}]
                        insns, _ = progs.assemble(items)
                        w = lambda v: (v & ((1 << 64) - 1)).to_bytes(8, "little")
                        buf = w(a) + w(d) + w(n) + w(m) + w(5) + w(9) + w(11) + w(flag)
                        out.append(progs.family_case(insns, 13, buf))
    return out


def memwin_cases(stride, phase=0):
    """Parametric family: every sequence of three accesses (stores of 2/4/8 bytes, loads of i16/u16/i32/u32/i64) to a 12-byte window at
    offsets 0/2/4 of the buffer and of an alloca block, the middle access straight-line or in one arm of a diamond; every load result
    is accumulated.  Forwarding a stored value to a load, removing a store or a load must respect width, sign and overlap.
    stride/phase pick every stride-th sequence (thorough: all)."""
    R, I, M, ins, br = progs.op_reg, progs.op_imm, progs.op_mem, progs.ins, progs.br
    ACC, V, C, P, T = 4, 2, 6, 5, 7
    sts = [("st", ty, off) for ty in ("i16", "i32", "i64") for off in (0, 2, 4)]
    lds = [("ld", ty, off) for ty in ("i16", "u16", "i32", "u32", "i64") for off in (0, 2, 4)]
    acc = sts + lds
    out, k = [], 0
    for a1 in acc:
        for a2 in acc:
            for a3 in acc:
                if not any(x[0] == "st" for x in (a1, a2, a3)) or not any(x[0] == "ld" for x in (a2, a3)):
                    continue
                for where in ("buf", "alloca"):
                    for diamond in (0, 1):
                        k += 1
                        if k % stride != phase:
                            continue
                        base = 1 if where == "buf" else P
                        boff = 64 if where == "buf" else 0

                        def code(x, n):
                            if x[0] == "st":      # the stored value changes from access to access
                                return [ins("add", R(V), R(V), I(0x0101010101010101 * n)), ins("mov", M(x[1], boff + x[2], base), R(V))]
                            return [ins("mov", R(T), M(x[1], boff + x[2], base)), ins("add", R(ACC), R(ACC), R(T)), ins("lsh", R(ACC), R(ACC), I(1))]
                        items = [ins("mov", R(V), M("i64", 0, 1)), ins("mov", R(C), M("i64", 16, 1)), ins("mov", R(ACC), I(0))]
                        if where == "alloca":
                            items += [ins("alloca", R(P), I(16)), ins("mov", M("i64", 0, P), R(V)), ins("mov", M("i64", 8, P), R(C))]
                        items += code(a1, 1)
                        if diamond:
                            items += [br("bf", "join", R(C))] + code(a2, 2) + ["join"]
                        else:
                            items += code(a2, 2)
                        items += code(a3, 3)
                        if where == "alloca":
                            items += [ins("mov", R(T), M("i64", 0, P)), ins("mov", M("i64", 208, 1), R(T)), ins("mov", R(T), M("i64", 8, P)), ins("mov", M("i64", 216, 1), R(T))]
                        items += [ins("mov", M("i64", 192, 1), R(ACC)), {"op": "ret", "s": [R(ACC)]}]
                        insns, _ = progs.assemble(items)
                        w = lambda v: (v & ((1 << 64) - 1)).to_bytes(8, "little")
                        buf = w(0x8091a2b3c4d5e6f7) + w(0) + w((k // max(stride, 2)) & 1 if stride > 1 else (k >> 2) & 1) + bytes(40) + bytes(range(0x81, 0x91))
                        out.append(progs.family_case(insns, 8, buf))
    return out


G17_PY = {"name": "g1", "params": ["i64"], "res": ["i64"], "regty": ["i", "i"], "gvar": True, "lrefs": [],
          "insns": [{"op": "add", "d": {"k": "greg"}, "s": [{"k": "greg"}, {"k": "reg", "r": 1}]},
                    {"op": "mov", "d": {"k": "reg", "r": 2}, "s": [{"k": "greg"}]},
                    {"op": "add", "d": {"k": "reg", "r": 2}, "s": [{"k": "reg", "r": 2}, {"k": "imm", "w": [1, 0, 0, 0]}]},
                    {"op": "ret", "s": [{"k": "reg", "r": 2}]}]}


def gvar_cases():
    """Parametric family: a global variable tied to a hard register, written in main and read/changed by a callee that declares it
    too; the written value comes from a register that lives across earlier calls (so it sits in a callee-saved register), the
    variable dies right after its last read.  Stores to the variable before a call, reads after it and the calls in between must
    stay in program order at every level."""
    R, I, M, ins, br = progs.op_reg, progs.op_imm, progs.op_mem, progs.ins, progs.br
    GV = {"k": "greg"}
    SAVE, A, B, T, U, RES = 20, 2, 3, 4, 5, 6
    FREG = 18        # holds the address of g17: an indirect call is never inlined, so the call is still there when code is generated
    call17 = lambda res, arg: {"op": "call", "callee": {"k": "reg", "f": 2, "r": FREG}, "res": [R(res)], "args": [arg]}
    callx = lambda res, arg: {"op": "call", "callee": {"k": "ext"}, "res": [R(res)], "args": [I(3), arg]}
    shapes = {
        "set_call_read": [ins("mov", GV, R(A)), call17(RES, R(B)), ins("mov", R(T), GV)],
        "set_read_call": [ins("mov", GV, R(A)), ins("mov", R(T), GV), call17(RES, R(B))],                 # the read right after the store, then the call
        "setimm_read_call": [ins("mov", GV, I(256)), ins("or", R(U), R(B), I(1)), ins("mov", R(T), GV), call17(RES, R(U))],
        "set_ext_call_read": [ins("mov", GV, R(A)), callx(U, R(B)), call17(RES, R(U)), ins("mov", R(T), GV)],
        "set_call_call_read": [ins("mov", GV, R(A)), call17(RES, R(B)), call17(U, R(RES)), ins("mov", R(T), GV), ins("add", R(RES), R(RES), R(U))],
        "set_call_cmp": [ins("mov", GV, R(A)), call17(RES, R(B)), ins("ugt", GV, GV, R(B)), ins("mov", R(T), GV)],
        "set_call_set": [ins("mov", GV, R(A)), call17(RES, R(B)), ins("mov", GV, R(B)), call17(U, I(5)), ins("mov", R(T), GV), ins("xor", R(RES), R(RES), R(U))],
        "arm_call_read": [ins("mov", GV, I(9)), br("bf", "j", R(B)), ins("mov", GV, R(A)), "j", call17(RES, R(B)), ins("mov", R(T), GV)],
        "loop_calls": [ins("mov", GV, R(A)), ins("mov", R(U), I(0)), ins("mov", R(RES), I(0)), "lp", br("bge", "out", R(U), I(3)), call17(T, R(U)),
                       ins("add", R(RES), R(RES), R(T)), ins("add", R(U), R(U), I(1)), {"op": "jmp", "l": "lp"}, "out", ins("mov", R(T), GV)],
    }
    out = []
    for name, body in sorted(shapes.items()):
        for pressure in (0, 4, 9):
            for a, b in ((1000, 7), (-5, 0), (1 << 40, 1)):
                pre = [ins("mov", R(SAVE), GV), ins("mov", R(A), M("i64", 0, 1)), ins("mov", R(B), M("i64", 8, 1)), ins("mov", R(FREG), {"k": "ref", "f": 2})]
                live = list(range(7, 7 + pressure))
                pre += [ins("add", R(r), R(A), I(r)) for r in live]
                pre += [callx(19, R(B))]                         # everything defined so far lives across this call
                post = [ins("xor", R(T), R(T), R(r)) for r in live]
                post += [ins("add", R(RES), R(RES), R(A))]        # the source of the first store stays live (and in its register) to the end
                post += [ins("mov", GV, R(SAVE)), ins("mov", M("i64", 192, 1), R(T)), ins("mov", M("i64", 200, 1), R(RES)), ins("mov", M("i64", 208, 1), R(19)),
                         {"op": "ret", "s": [R(T)]}]
                insns, _ = progs.assemble(pre + body + post)
                w = lambda v: (v & ((1 << 64) - 1)).to_bytes(8, "little")
                c = progs.family_case(insns, 20, w(a) + w(b))
                c["prog"]["funcs"][0]["gvar"] = True
                c["prog"]["funcs"].append(G17_PY)
                out.append(c)
    return out


def arith_const_cases(kmax, avals):
    """Parametric family: multiplication, division and remainder by every small constant (strength reduction, magic-number
    division, lea forms), 64- and 32-bit, signed and unsigned, for a few dividends incl. negative ones."""
    R, I, M = progs.op_reg, progs.op_imm, progs.op_mem
    ops = ["mul", "div", "mod", "udiv", "umod", "muls", "divs", "mods", "udivs", "umods"]
    out = []
    for k in list(range(1, kmax + 1)) + [-1, -2, -3, -7, -8, -100]:
        for a in avals:
            insns = [progs.ins("mov", R(2), M("i64", 0, 1))]
            for j, o in enumerate(ops):
                if k < 0 and a == -(1 << 63) and o in ("div", "mod"):
                    continue
                insns.append(progs.ins(o, R(3), R(2), I(k)))
                insns.append(progs.ins("ext32" if o.endswith("s") else "mov", R(3), R(3)))      # only the low half of a 32-bit result is defined
                insns.append(progs.ins("mov", M("i64", 192 + 8 * j, 1), R(3)))
            insns.append({"op": "ret", "s": [R(3)]})
            out.append(progs.family_case(insns, 4, (a & ((1 << 64) - 1)).to_bytes(8, "little")))
    return out


def run(tier, cases=None, only_engines=None):
    ck = Check(PROP, tier, "model_checking")
    nprog = 720 if tier == "quick" else 6000
    if cases is None:
        cases, r = progs.generate(nprog // 2, seed=vlib.seed())
        nstates = r.states
        c1, r1 = progs.generate(nprog // 2, seed=vlib.seed() + 5, cfg="MIRProg_lean.cfg")      # lean profile (see MIRProg.tla)
        cases += c1; nstates += r1.states
        if tier == "thorough":       # longer programs: more live values, deeper control flow
            c2, r2 = progs.generate(nprog // 3, seed=vlib.seed() + 17, cfg="MIRProg_big.cfg", depth=1400)
            cases += c2; nstates += r2.states
        ck.setc("states", nstates); ck.setc("transitions", nstates)
    else:
        ck.setc("states", len(cases)); ck.setc("transitions", len(cases))
    if only_engines is None and tier in ("quick", "thorough") and not os.environ.get("C01_NO_SWEEP") and len(cases) > 100:
        fam, rf = progs.run_family(sweep_cases(200 if tier == "quick" else 600) + island_cases() + loop_cases() + gvar_cases() + families.fpcmp_cases() + families.clone_jmpi_cases() + families.andext_cases() + families.spill_index_cases() + families.property_cases() + families.jcall_cases() + families.pressure_loop_cases() + families.neutral_const_cases() + families.loop_size_cases()
                                   + (memwin_cases(40, vlib.seed() % 40) if tier == "quick" else memwin_cases(4, vlib.seed() % 4))
                                   + arith_const_cases(130 if tier == "quick" else 1100,
                                                       [1000003, -1000003] if tier == "quick" else [1000003, -1000003, 0x7fffffff, -(1 << 63), 0x123456789]))
        cases = cases + fam
        ck.setc("family_cases", len(fam))
    st = collections.Counter(c["status"] for c in cases)
    undef_why = collections.Counter(c["why"] for c in cases if c["status"] != "done")
    engines = ["interp"] + (only_engines or GEN)
    obs, texts = progs.run_cases(cases, engines)
    nexec = 0
    spec_vs_interp = 0
    for i, per in sorted(obs.items()):
        c = cases[i]
        so, nans = progs.spec_obs(c)
        io = per["interp"]
        ck.note_distinct(c["prog"]["funcs"][0]["insns"])
        if progs.compare_obs(so, io, nans, "spec", "interp"):
            spec_vs_interp += 1          # decided by C02/C04, recorded here only
        for e in engines[1:]:
            nexec += 1
            msg = progs.compare_obs(io, per[e], nans, "interp", e)
            if msg:
                # re-run once before reporting (soundness rule 5)
                again, _ = progs.run_cases([c], ["interp", e])
                msg2 = progs.compare_obs(again[0]["interp"], again[0][e], nans, "interp", e)
                if msg2:
                    key = "gen:%s:%s" % (e, classify(msg2))
                    if jmpi_attributable(texts[i], progs.cells_bytes(c["buf0"])[0].hex(), e):
                        key = JMPI_KEY
                    ck.violation(key, "program %d engine %s: %s" % (i, e, msg2), {"case": c, "engine": e, "text": texts[i]})
    # sanitizer pass: the same programs through a library built with ASan/UBSan (memory errors inside the generator
    # or interpreter that do not change the result are invisible to the comparison above)
    done_idx = sorted(obs)
    sub = done_idx if tier == "thorough" else done_idx[:: max(1, len(done_idx) // 48)]
    # not the interpreter: its BEND restores the C stack pointer behind ASan's back (bend_builtin), so a later C alloca
    # lands on still-poisoned alloca redzones and ASan reports a dynamic-stack-buffer-overflow that is not one
    aeng = ["gen0", "gen1", "gen2", "gen3"] if tier == "thorough" else ["gen0", "gen2"]
    aobs, _ = progs.run_cases([cases[i] for i in sub], aeng, variant="asan")
    nasan = 0
    for k, per in sorted(aobs.items()):
        i = sub[k]
        so, nans = progs.spec_obs(cases[i])
        for e in aeng:
            nasan += 1
            msg = progs.compare_obs(obs[i]["interp"], per[e], nans, "interp", e + "[asan]")
            if msg and obs[i]["interp"].status == "ok":
                ck.violation("asan:%s:%s" % (e, classify(msg)), "program %d engine %s under ASan/UBSan: %s" % (i, e, msg),
                             {"case": cases[i], "engine": e, "text": texts[i], "variant": "asan"})
    ck.setc("sanitizer_executions", nasan)
    ck.setc("programs", len(cases))
    ck.setc("programs_well_defined", st.get("done", 0))
    ck.setc("discarded_undefined", len(cases) - st.get("done", 0))
    ck.setc("discard_reasons", dict(undef_why.most_common(8)))
    ck.setc("traces_validated_against_impl", nexec)
    ck.setc("spec_vs_interp_disagreements_recorded_for_C02_C04", spec_vs_interp)
    ck.setc("engines", engines)
    ck.setc("rule", "programs are behaviours of MIRProg.tla (random template choice per slot, TLC -simulate); only behaviours whose "
                    "MIRSem run ends in status done with nothing address-dependent observable are replayed; distinct = distinct main bodies")
    done = [c for c in cases if c["status"] == "done"]
    if done:
        ck.sample({"mir_text": progs.render_prog(done[0]["prog"]), "inputs": done[0]["inputs"], "result": done[0]["result"], "log": done[0]["log"]}, maxn=1)
    ck.assumptions += ["well-definedness and expected observations come from MIRSem.tla", "NaN payloads/signs are not compared"]
    if st.get("done", 0) < max(5, len(cases) // 10):
        raise MachineryError("too few well-defined programs: %s" % dict(st))
    return ck.finish()


def replay(path):
    d = json.load(open(path))
    c = d["case"]["case"]
    return run("quick", cases=[c], only_engines=[d["case"]["engine"]])


def selftest():
    """corrupt the interpreter-side observation of one program: the comparison must object"""
    cases, r = progs.generate(16, seed=7)
    done = [c for c in cases if c["status"] == "done"][:1]
    obs, texts = progs.run_cases(done, ["interp", "gen2"])
    io, go = obs[0]["interp"], obs[0]["gen2"]
    so, nans = progs.spec_obs(done[0])
    ok1 = progs.compare_obs(io, go, nans, "interp", "gen2") is None
    go.buf = bytes([go.buf[0] ^ 1]) + go.buf[1:]
    ok2 = progs.compare_obs(io, go, nans, "interp", "gen2") is not None
    print("selftest C01: agreement accepted=%s corrupted rejected=%s" % (ok1, ok2))
    return 0 if ok1 and ok2 else 1
