"""C10: textual MIR written by MIR_output reads back as the same module.

Specification: spec/MIRModule.tla (abstract module syntax + nondeterministic constructor) and spec/MIRText.tla
(I/O history machine over contexts: Output / Scan / Write / Read with RoundTripId and TextFixpoint).
Binding (direction A): every TLC-constructed module is built through the API (harness/c10_io.c, script from
`to_script`) and, as a second path, from MIR text rendered here (`to_text`); then the history chosen by MIRText is
replayed: MIR_output to memory, MIR_scan_string into a NEW context, MIR_output again ...  Checked after every step:
the writer returned normally, the projection (c10_io.c `project`, the single mapping from implementation state to
spec state) equals the abstract module the specification predicts, and every text equals the first one byte for
byte.  TLC-built executable programs (MIRProg.tla) go through the same histories and both copies are linked and
run: observations must equal the specification's.  This file also holds what C11 (c11.py) shares."""
import json, os, re, subprocess, sys, struct, copy, collections, fractions, decimal, hashlib, random, time
import vlib, progs, mirlib
from vlib import Check, run_tlc, tlc_ok, MachineryError

PROP = "C10"

# ------------------------------------------------------------------------------------------------ harness driver

_EXE = {}


def build_exe(variant="plain"):
    """links harness/c10_io.c against the library objects of the current tree.  The executable is kept outside the
    library build directory (vlib prunes old build directories while a long run may still need its executable)."""
    if variant not in _EXE:
        d, objs, cc, flags = vlib.build_lib(variant, ("mir.c", "mir-gen.c"))
        src = os.path.join(vlib.HARNESS, "c10_io.c")
        bdir = os.path.join(vlib.OUT, "c10bin")
        os.makedirs(bdir, exist_ok=True)
        exe = os.path.join(bdir, "c10_io-%s-%s" % (os.path.basename(d), vlib.tree_hash([src])))
        if not os.path.exists(exe):
            import glob
            for old in glob.glob(os.path.join(bdir, "c10_io-%s-*" % variant)):
                if time.time() - os.path.getmtime(old) > 7200:
                    os.unlink(old)
            tmp = exe + ".tmp%d" % os.getpid()
            vlib.cc_link(cc, flags, [src], objs, tmp)
            os.replace(tmp, exe)
        _EXE[variant] = exe
    return _EXE[variant]


class Out:
    """output of one command: kind in K (ok) T (text) J (json) H (hex) R (call result) E (MIR error) X (slot dead)
    None (never reached / runner died)"""
    __slots__ = ("kind", "val")

    def __init__(self, kind, val=None):
        self.kind, self.val = kind, val

    def __repr__(self):
        v = self.val
        if isinstance(v, (bytes, str)) and len(v) > 80:
            v = v[:80]
        return "Out(%s,%r)" % (self.kind, v)


def blob(cmd, slot, data):
    if isinstance(data, str):
        data = data.encode()
    return b"%s %d %d\n" % (cmd.encode(), slot, len(data)) + data


def run_cmds(exe, cmds, timeout=600, env=None):
    """cmds: list of bytes (a command line without newline, or a blob() with its payload).
    Returns (outs, died, stderr): outs[i] = Out or None; died = index of the command in progress when the runner died."""
    # blobs carry their own newline after the header; the payload is followed by nothing
    inp = b""
    for c in cmds:
        if isinstance(c, str):
            c = c.encode()
        if c[:1] in (b"A", b"S") and b"\n" in c:
            inp += c
        else:
            inp += c + b"\n"
    e = dict(os.environ)
    e["ASAN_OPTIONS"] = "detect_leaks=0:abort_on_error=0:exitcode=99"
    e["UBSAN_OPTIONS"] = "halt_on_error=1:exitcode=98"
    if env:
        e.update(env)
    try:
        p = subprocess.run([exe], input=inp, stdout=subprocess.PIPE, stderr=subprocess.PIPE, timeout=timeout, env=e)
        rc, out, err = p.returncode, p.stdout, p.stderr
    except subprocess.TimeoutExpired as ex:
        rc, out, err = -9, ex.stdout or b"", ex.stderr or b""
    outs = [None] * len(cmds)
    pos, cur, n = 0, None, len(out)
    finished = False
    while pos < n:
        nl = out.find(b"\n", pos)
        if nl < 0:
            nl = n
        ln = out[pos:nl]
        pos = nl + 1
        if ln.startswith(b"B "):
            cur = int(ln[2:]) - 1
            continue
        if ln == b"Z":
            finished = True
            continue
        if cur is None or cur >= len(outs):
            continue
        k = ln[:1]
        if ln.startswith(b"TIMEOUT"):
            outs[cur] = Out("E", "TIMEOUT: the call did not return in time")
        elif k == b"T":
            ln_ = int(ln[2:])
            outs[cur] = Out("T", out[pos:pos + ln_])
            pos += ln_ + 1
        elif k == b"J":
            outs[cur] = Out("J", ln[2:])
        elif k == b"H":
            outs[cur] = Out("H", bytes.fromhex(ln[2:].decode()))
        elif k == b"K":
            outs[cur] = Out("K")
        elif k == b"X":
            outs[cur] = Out("X")
        elif k == b"E":
            outs[cur] = Out("E", ln[2:].decode("utf-8", "replace"))
        elif k == b"R":
            outs[cur] = Out("R", ln.decode())
        elif k == b"F":
            raise MachineryError("c10_io: " + ln.decode("utf-8", "replace"))
    died = None
    if rc != 0 or not finished:
        died = cur if cur is not None else 0
    return outs, died, err.decode("utf-8", "replace")


# ------------------------------------------------------------------------------------------------ abstract modules
# Canonical (Python) form = the JSON printed by the projection dumper of c10_io.c:
#   {"mods": [{"name", "items": [item]}]}
#   item: import/export/forward {k,name} | proto {k,name,va,res,args[{t,name,size}]} | bss {k,name,len}
#         data {k,name,t,nel,hex} | ref {k,name,ref,disp} | lref {k,name,l1:[func,ord],l2:null|[func,ord],disp}
#         expr {k,name,func} | func {k,name,va,res,args,locals[{t,name}],globals[{t,name,hr}],insns}
#   insn: {op:"label",n} | {op,ops}     operand: reg/int/uint/f/d/ld/ref/str/mem/lab as in the dumper

TYSIZE = {"i8": 1, "u8": 1, "i16": 2, "u16": 2, "i32": 4, "u32": 4, "i64": 8, "u64": 8, "f": 4, "d": 8, "ld": 10, "p": 8}


def limbs_int(l):
    v = 0
    for i, x in enumerate(l):
        v |= x << (16 * i)
    return v


def hx(v, digits=16):
    return "%0*x" % (digits, v & ((1 << (4 * digits)) - 1))


def norm_op(o):
    k = o["k"]
    if k in ("int", "uint"):
        return {"k": k, "v": hx(limbs_int(o["w"]))}
    if k == "f":
        return {"k": "f", "v": hx(limbs_int(o["w"]), 8)}
    if k == "d":
        return {"k": "d", "v": hx(limbs_int(o["w"]), 16)}
    if k == "ld":
        return {"k": "ld", "v": hx(limbs_int(o["w"]), 20)}
    if k == "str":
        return {"k": "str", "b": bytes(o["b"]).hex()}
    if k == "mem":
        return {"k": "mem", "t": o["t"], "disp": hx(limbs_int(o["disp"])), "base": o["base"], "index": o["index"],
                "scale": o["scale"] if o["index"] else 1, "alias": o["alias"], "nonalias": o["nonalias"]}
    if k == "lab":
        return {"k": "lab", "n": o["n"]}
    if k in ("reg", "ref"):
        return {"k": k, "name": o["name"]}
    raise MachineryError("operand kind %r" % (o,))


def norm_var(v, with_size):
    r = {"t": v["t"], "name": v["name"]}
    if with_size:
        r["size"] = "%x" % (limbs_int(v["size"]) if isinstance(v.get("size"), list) else int(v.get("size", 0)))
    return r


def norm_item(it):
    k = it["k"]
    if k in ("import", "export", "forward"):
        return {"k": k, "name": it["name"]}
    if k == "proto":
        return {"k": k, "name": it["name"], "va": int(bool(it["va"])), "res": list(it["res"]), "args": [norm_var(a, True) for a in it["args"]]}
    if k == "bss":
        return {"k": k, "name": it["name"], "len": hx(limbs_int(it["len"]))}
    if k == "data":
        sz = TYSIZE[it["t"]]
        return {"k": k, "name": it["name"], "t": it["t"], "nel": len(it["els"]), "via": it.get("via", "data"),
                "hex": b"".join(limbs_int(e).to_bytes(sz, "little") for e in it["els"]).hex()}
    if k == "ref":
        return {"k": k, "name": it["name"], "ref": it["ref"], "disp": hx(limbs_int(it["disp"]))}
    if k == "lref":
        return {"k": k, "name": it["name"], "l1": list(it["l1"]), "l2": (list(it["l2"]) if it["l2"] else None), "disp": hx(limbs_int(it["disp"]))}
    if k == "expr":
        return {"k": k, "name": it["name"], "func": it["func"]}
    if k == "func":
        insns = []
        for I in it["insns"]:
            if I["op"] == "label":
                insns.append({"op": "label", "n": I["n"]})
            else:
                insns.append({"op": I["op"], "ops": [norm_op(o) for o in I["ops"]]})
        return {"k": k, "name": it["name"], "va": int(bool(it["va"])), "res": list(it["res"]), "args": [norm_var(a, True) for a in it["args"]],
                "locals": [norm_var(a, False) for a in it["locals"]],
                "globals": [{"t": g["t"], "name": g["name"], "hr": g["hr"]} for g in it["globals"]], "insns": insns}
    raise MachineryError("item kind %r" % (k,))


def norm_mods(tmods):
    """TLC JSON (64-bit values as 16-bit limb tuples, bytes as arrays) -> canonical form"""
    return {"mods": [{"name": m["name"], "tmp": m.get("tmp", 0), "items": [norm_item(i) for i in m["items"]]} for m in tmods]}


def tmp_of(items):
    """the temporary-name counter a module with these items carries: the largest N of an item named .lc<N>"""
    ns = [int(it["name"][3:]) for it in items if re.fullmatch(r"\.lc\d+", it.get("name") or "")]
    return max(ns) if ns else 0


def map_ops(M, fn):
    """copy of M with fn applied to every insn operand (fn returns the new operand)"""
    M = copy.deepcopy(M)
    for m in M["mods"]:
        for it in m["items"]:
            if it["k"] == "func":
                for I in it["insns"]:
                    if I["op"] != "label":
                        I["ops"] = [fn(o) for o in I["ops"]]
    return M


def text_nf(M):
    """what a text round trip preserves: the text syntax has one integer literal, so UINT reads back as INT"""
    return map_ops(M, lambda o: {"k": "int", "v": o["v"]} if o["k"] == "uint" else o)


def all_ops(M):
    for m in M["mods"]:
        for it in m["items"]:
            if it["k"] == "func":
                for I in it["insns"]:
                    if I["op"] != "label":
                        for o in I["ops"]:
                            yield it, I, o


def all_items(M):
    for m in M["mods"]:
        for it in m["items"]:
            yield m, it


# ---- label bookkeeping: global ids for (module index, function, ordinal)

def label_ids(M, order="canon"):
    """returns (ids: {(mi, func, ord): id}, creation: [id ...] in creation order).
    canon = order of first textual occurrence (what the scanner does), rev = reversed"""
    ids, seq = {}, []

    def see(key):
        if key not in ids:
            ids[key] = len(ids)
            seq.append(ids[key])
    for mi, m in enumerate(M["mods"]):
        for it in m["items"]:
            if it["k"] == "lref":
                see((mi, it["l1"][0], it["l1"][1]))
                if it["l2"]:
                    see((mi, it["l2"][0], it["l2"][1]))
            elif it["k"] == "func":
                for I in it["insns"]:
                    if I["op"] == "label":
                        see((mi, it["name"], I["n"]))
                    else:
                        for o in I["ops"]:
                            if o["k"] == "lab":
                                see((mi, it["name"], o["n"]))
    if order == "rev":
        seq = seq[::-1]
    elif order != "canon":
        raise MachineryError("label order " + order)
    return ids, seq


# ---- path 1: script for the API builder of c10_io.c

def _nm(s):
    return s if s else "-"


def op_script(o, ids, mi, fname):
    k = o["k"]
    if k == "reg":
        return "r:" + o["name"]
    if k == "int":
        return "i:" + o["v"]
    if k == "uint":
        return "u:" + o["v"]
    if k in ("f", "d"):
        return k + ":" + o["v"]
    if k == "ld":
        return "l:" + o["v"]
    if k == "ref":
        return "R:" + o["name"]
    if k == "str":
        return "s:" + o["b"]
    if k == "lab":
        return "L:%d" % ids[(mi, fname, o["n"])]
    if k == "mem":
        return "m:%s:%s:%s:%s:%d:%s:%s" % (o["t"], o["disp"], _nm(o["base"]), _nm(o["index"]), o["scale"], _nm(o["alias"]), _nm(o["nonalias"]))
    raise MachineryError("operand " + repr(o))


def data_bytes(it, pad=0):
    """bytes handed to MIR_new_data: long double elements are padded to 16 bytes with the byte `pad`"""
    raw = bytes.fromhex(it["hex"])
    if it["t"] != "ld":
        return raw
    return b"".join(raw[i:i + 10] + bytes([pad]) * 6 for i in range(0, len(raw), 10))


def to_script(M, order="canon", string_data=True, pad=0):
    """pad: value of the padding bytes of every long double handed to the API (they carry no value)"""
    ids, seq = label_ids(M, order)
    L = ["p %d" % pad] + ["L %d" % i for i in seq]
    for mi, m in enumerate(M["mods"]):
        L.append("M " + m["name"])
        for it in m["items"]:
            k = it["k"]
            if k == "import":
                L.append("I " + it["name"])
            elif k == "export":
                L.append("E " + it["name"])
            elif k == "forward":
                L.append("W " + it["name"])
            elif k in ("proto", "func"):
                hd = "%s %s %d %d %s %d %s" % ("P" if k == "proto" else "F", it["name"], it["va"], len(it["res"]), " ".join(it["res"]),
                                              len(it["args"]), " ".join("%s %s %s" % (a["t"], a["name"], a["size"]) for a in it["args"]))
                L.append(re.sub(" +", " ", hd).strip())
                if k == "func":
                    for v in it["locals"]:
                        L.append("V %s %s" % (v["t"], v["name"]))
                    for g in it["globals"]:
                        L.append("G %s %s %s" % (g["t"], g["name"], g["hr"]))
                    for I in it["insns"]:
                        if I["op"] == "label":
                            L.append("B %d" % ids[(mi, it["name"], I["n"])])
                        else:
                            L.append(("N %s %d %s" % (I["op"], len(I["ops"]), " ".join(op_script(o, ids, mi, it["name"]) for o in I["ops"]))).strip())
                    L.append("f")
            elif k == "bss":
                L.append("S %s %s" % (_nm(it["name"]), it["len"]))
            elif k == "data":
                b = data_bytes(it, pad)
                if string_data and it["t"] == "u8" and it.get("via") == "string":
                    L.append("T %s %s" % (_nm(it["name"]), b.hex() or "-"))
                else:
                    L.append("D %s %s %d %s" % (_nm(it["name"]), it["t"], it["nel"], b.hex() or "-"))
            elif k == "ref":
                L.append("R %s %s %s" % (_nm(it["name"]), it["ref"], it["disp"]))
            elif k == "lref":
                L.append("Q %s %d %s %s" % (_nm(it["name"]), ids[(mi, it["l1"][0], it["l1"][1])],
                                           ("%d" % ids[(mi, it["l2"][0], it["l2"][1])]) if it["l2"] else "-", it["disp"]))
            elif k == "expr":
                L.append("X %s %s" % (_nm(it["name"]), it["func"]))
            else:
                raise MachineryError("item " + k)
        L.append("m")
    return "\n".join(L) + "\n"


# ---- path 2: MIR text rendered here (deliberately in another style than MIR_output: spaces, hex integers,
# \x escapes, `string`, several names per import, own label names), following MIR.md

def s64(v):
    return v - (1 << 64) if v >> 63 else v


def fp_text(kind, hexbits):
    """a decimal literal that strtof/strtod/strtold convert back to exactly these bits (finite values only)"""
    v = int(hexbits, 16)
    if kind == "f":
        sign, e, m, p, bias = v >> 31, (v >> 23) & 0xff, v & 0x7fffff, 23, 127
        if e == 0xff:
            raise MachineryError("non-finite float in text")
        num = (m | (1 << p)) if e else m
        ex = (e if e else 1) - bias - p
        digits, suffix = 9, "f"
    elif kind == "d":
        sign, e, m, p, bias = v >> 63, (v >> 52) & 0x7ff, v & ((1 << 52) - 1), 52, 1023
        if e == 0x7ff:
            raise MachineryError("non-finite double in text")
        num = (m | (1 << p)) if e else m
        ex = (e if e else 1) - bias - p
        digits, suffix = 17, ""
    else:
        sign, e, num = v >> 79, (v >> 64) & 0x7fff, v & ((1 << 64) - 1)
        if e == 0x7fff:
            raise MachineryError("non-finite long double in text")
        ex = (e if e else 1) - 16383 - 63
        digits, suffix = 21, "L"
    if num == 0:
        return ("-" if sign else "") + "0.0" + suffix
    fr = fractions.Fraction(num) * (fractions.Fraction(2) ** ex)
    with decimal.localcontext() as c:
        c.prec = 60
        d = decimal.Decimal(fr.numerator) / decimal.Decimal(fr.denominator)
        s = format(d, ".%de" % (digits - 1))
    return ("-" if sign else "") + s + suffix


def str_text(b):
    """string literal; the scanner appends the terminating NUL itself when the last byte is not NUL"""
    # "...": the scanner appends a NUL iff the literal is non-empty and does not end with NUL already
    body = b[:-1] if (len(b) >= 2 and b[-1] == 0 and b[-2] != 0) else b
    out = []
    for c in body:
        ch = chr(c)
        if c < 128 and (ch.isalnum() or ch in " _-+*/<>=!?.,;:()[]{}@#$%^&|~`'"):
            out.append(ch)
        else:
            out.append("\\x%02x" % c)
    return '"' + "".join(out) + '"'


def py_label(fname, n):
    return "lb_%s_%d" % (fname, n)


def op_text(o, fname, n=0, style=0):
    """style 0: canonical spelling; style 1: the other documented spellings (octal integers, explicit zero displacement
    and explicit scale 1)"""
    k = o["k"]
    if k in ("reg", "ref"):
        return o["name"]
    if k in ("int", "uint"):
        v = int(o["v"], 16)
        if style == 1 and n % 3 == 2 and 0 < v < (1 << 31):
            return "0%o" % v
        return ("0x%x" % v) if n % 2 else str(s64(v))
    if k in ("f", "d", "ld"):
        return fp_text(k, o["v"])
    if k == "str":
        return str_text(bytes.fromhex(o["b"]))
    if k == "lab":
        return py_label(fname, o["n"])
    if k == "mem":
        t = o["t"]
        disp = s64(int(o["disp"], 16))
        s = t + ":"
        if disp != 0 or (not o["base"] and not o["index"]) or style == 1:
            s += str(disp)
        if o["base"] or o["index"]:
            s += "(" + o["base"]
            if o["index"]:
                s += ", " + o["index"]
                if o["scale"] != 1 or style == 1:
                    s += ", %d" % o["scale"]
            s += ")"
        if o["alias"] or o["nonalias"]:
            s += ":" + o["alias"]
            if o["nonalias"]:
                s += ":" + o["nonalias"]
        return s
    raise MachineryError("operand " + repr(o))


def proto_text(it):
    parts = list(it["res"])
    for a in it["args"]:
        if a["t"].startswith("blk") or a["t"] == "rblk":
            parts.append("%s:%d(%s)" % (a["t"], int(a["size"], 16), a["name"]))
        else:
            parts.append("%s:%s" % (a["t"], a["name"]))
    if it["va"]:
        parts.append("...")
    return ", ".join(parts)


def data_text(it):
    t, raw = it["t"], bytes.fromhex(it["hex"])
    sz = TYSIZE[t]
    els = [raw[i:i + sz] for i in range(0, len(raw), sz)]
    if t in ("f", "d", "ld"):
        vals = [fp_text(t, int.from_bytes(e, "little").to_bytes(sz, "big").hex()) for e in els]
    elif t == "p":
        vals = ["0x%x" % int.from_bytes(e, "little") for e in els]
    elif t.startswith("i"):
        vals = [str(int.from_bytes(e, "little", signed=True)) for e in els]
    else:
        vals = [str(int.from_bytes(e, "little")) for e in els]
    return vals


def text_style(M):
    """which of the two renderings a module gets (both are MIR.md syntax; half of the modules get each)"""
    n = 0
    for m in M["mods"]:
        n += len(m["items"])
        for it in m["items"]:
            if it["k"] == "func":
                n += len(it["insns"])
    return n % 2


def to_text(M, style=None):
    """style 0: one directive / instruction per line, every operand of ref/lref written out.
    style 1: the other documented forms: `import a, b`, `ref x` / `lref l` without a zero displacement, several
    instructions on a line separated by `;`, comments and empty lines, octal integers, explicit zero displacement / scale 1"""
    if style is None:
        style = text_style(M)
    L = []
    for mi, m in enumerate(M["mods"]):
        L.append("%s: module" % m["name"] + ("   # rendered by c10.py" if style else ""))
        prev = None
        for it in m["items"]:
            k = it["k"]
            lab = (it["name"] + ": ") if it.get("name") else "   "
            if k in ("import", "export", "forward"):
                if style == 1 and prev == k:
                    L[-1] += ", " + it["name"]
                else:
                    L.append("  %s %s" % (k, it["name"]))
            elif k == "proto":
                L.append("%s: proto %s" % (it["name"], proto_text(it)))
            elif k == "bss":
                L.append(("%sbss 0x%x" if style else "%sbss %d") % (lab, int(it["len"], 16)))
            elif k == "data":
                raw = bytes.fromhex(it["hex"])
                if it["t"] == "u8" and it.get("via") == "string" and (raw.endswith(b"\0") or not raw):
                    L.append("%sstring %s" % (lab, str_text(raw)))
                else:
                    L.append("%s%s %s" % (lab, it["t"], ", ".join(data_text(it))))
            elif k == "ref":
                d = s64(int(it["disp"], 16))
                L.append("%sref %s" % (lab, it["ref"]) + ("" if style == 1 and d == 0 else ", %d" % d))
            elif k == "lref":
                s = "%slref %s" % (lab, py_label(*it["l1"]))
                if it["l2"]:
                    s += ", " + py_label(*it["l2"])
                d = s64(int(it["disp"], 16))
                if d != 0 or (style == 0 and not it["l2"]):
                    s += ", %d" % d
                L.append(s)
            elif k == "expr":
                L.append("%sexpr %s" % (lab, it["func"]))
            elif k == "func":
                L.append("%s: func %s" % (it["name"], proto_text(it)))
                for i in range(0, len(it["locals"]), 3):
                    L.append("  local " + ", ".join("%s:%s" % (v["t"], v["name"]) for v in it["locals"][i:i + 3]))
                for g in it["globals"]:
                    L.append("  global %s:%s:%s" % (g["t"], g["name"], g["hr"]))
                pend = ""
                joined = False
                for n, I in enumerate(it["insns"]):
                    if I["op"] == "label":
                        pend += py_label(it["name"], I["n"]) + ": "
                    else:
                        txt = "%s %s" % (I["op"], ", ".join(op_text(o, it["name"], n + j, style) for j, o in enumerate(I["ops"])))
                        if style == 1 and not pend and not joined and n > 0 and it["insns"][n - 1]["op"] != "label" and n % 2:
                            L[-1] += "; " + txt.strip()
                            joined = True
                        else:
                            L.append("%s  %s" % (pend, txt.rstrip()))
                            joined = False
                        pend = ""
                if pend:
                    L.append(pend)                   # labels at the end of the function
                elif style:
                    L.append("")                     # (an empty line right after a label line is not accepted by the scanner)
                L.append("  endfunc")
            prev = k
        L.append("  endmodule")
    return "\n".join(L) + "\n"


# ------------------------------------------------------------------------------------------------ comparison

def diff(a, b, path=""):
    """first difference between two JSON-like values, as text; None if equal"""
    if type(a) != type(b):
        return "%s: %r vs %r" % (path, a, b)
    if isinstance(a, dict):
        for k in sorted(set(a) | set(b)):
            if k == "via":
                continue
            if k not in a or k not in b:
                return "%s.%s: present only on one side (%r / %r)" % (path, k, a.get(k), b.get(k))
            d = diff(a[k], b[k], path + "." + k)
            if d:
                return d
        return None
    if isinstance(a, list):
        if len(a) != len(b):
            return "%s: length %d vs %d" % (path, len(a), len(b))
        for i, (x, y) in enumerate(zip(a, b)):
            d = diff(x, y, "%s[%d]" % (path, i))
            if d:
                return d
        return None
    if a != b:
        sa, sb = repr(a), repr(b)
        return "%s: %s vs %s" % (path, sa[:80], sb[:80])
    return None


def labels_renamed_only(t1, t2):
    """True if t2 is t1 with the label numbers L<n> renamed bijectively (per whole text)"""
    pat = re.compile(rb"\bL(\d+)\b")
    a, b = pat.findall(t1), pat.findall(t2)
    if len(a) != len(b) or pat.sub(b"L#", t1) != pat.sub(b"L#", t2):
        return False
    f, g = {}, {}
    for x, y in zip(a, b):
        if f.setdefault(x, y) != y or g.setdefault(y, x) != x:
            return False
    return True


# ------------------------------------------------------------------------------------------------ features with known defects
# A feature listed here is probed first on a minimal module.  If the probe fails with the recorded signature the
# finding is reported once under its specific key and the feature is rewritten out of the bulk modules (counted),
# so that the bulk keeps checking everything else on those modules; any other failure of a probe is a violation
# of its own.  When the defect is repaired the probe passes and the feature stays in the bulk.

def _has_op(M, pred):
    return any(pred(o) for _, _, o in all_ops(M))


def _map_items(M, fn):
    M = copy.deepcopy(M)
    for m in M["mods"]:
        m["items"] = [fn(it) for it in m["items"]]
    return M


def strip_expr(M):
    return _map_items(M, lambda it: {"k": "bss", "name": it["name"], "len": hx(8)} if it["k"] == "expr" else it)


def strip_pdata(M):
    return _map_items(M, lambda it: dict(it, t="u64") if it["k"] == "data" and it["t"] == "p" else it)


def strip_uint_high(M):
    return map_ops(M, lambda o: {"k": "int", "v": o["v"]} if o["k"] == "uint" and int(o["v"], 16) >> 63 else o)


def strip_str_nonul(M):
    return map_ops(M, lambda o: {"k": "str", "b": o["b"] + "00"} if o["k"] == "str" and o["b"] and not o["b"].endswith("00") else o)


def strip_undef(M):
    return map_ops(M, lambda o: dict(o, t="i64") if o["k"] == "mem" and o["t"] == "undef" else o)


def strip_lref(M):
    return _map_items(M, lambda it: {"k": "bss", "name": it["name"], "len": hx(8)} if it["k"] == "lref" else it)


def strip_prop(M):
    M = copy.deepcopy(M)
    for m in M["mods"]:
        for it in m["items"]:
            if it["k"] == "func":
                it["insns"] = [I for I in it["insns"] if I["op"] not in ("prset", "prbeq", "prbne")]
    return M


def strip_globals(M):
    M = copy.deepcopy(M)
    for m in M["mods"]:
        for it in m["items"]:
            if it["k"] == "func" and it["globals"]:
                it["locals"] = it["locals"] + [{"t": g["t"], "name": g["name"]} for g in it["globals"]]
                it["globals"] = []
    return M


FEATURES = {
    # name: (present?, strip)
    "expr": (lambda M: any(it["k"] == "expr" for _, it in all_items(M)), strip_expr),
    "pdata": (lambda M: any(it["k"] == "data" and it["t"] == "p" for _, it in all_items(M)), strip_pdata),
    "uint_high": (lambda M: _has_op(M, lambda o: o["k"] == "uint" and int(o["v"], 16) >> 63), strip_uint_high),
    "str_nonul": (lambda M: _has_op(M, lambda o: o["k"] == "str" and o["b"] and not o["b"].endswith("00")), strip_str_nonul),
    "undef_mem": (lambda M: _has_op(M, lambda o: o["k"] == "mem" and o["t"] == "undef"), strip_undef),
    "lref": (lambda M: any(it["k"] == "lref" for _, it in all_items(M)), strip_lref),
    "globals": (lambda M: any(it["k"] == "func" and it["globals"] for _, it in all_items(M)), strip_globals),
    "prop": (lambda M: any(I["op"] in ("prset", "prbeq", "prbne") for _, it in all_items(M) if it["k"] == "func" for I in it["insns"]), strip_prop),
    "trail_label": (lambda M: any(it["k"] == "func" and it["insns"] and it["insns"][-1]["op"] == "label" for _, it in all_items(M)), lambda M: strip_trail(M)),
}


def strip_trail(M):
    """a label after the last instruction is moved in front of it"""
    M = copy.deepcopy(M)
    for m in M["mods"]:
        for it in m["items"]:
            if it["k"] == "func" and len(it["insns"]) >= 2 and it["insns"][-1]["op"] == "label":
                it["insns"][-2], it["insns"][-1] = it["insns"][-1], it["insns"][-2]
    return M


def strip_features(case, defective, counts=None):
    """rewrite the defective features out of a case (both normal forms).  A program whose text had to be rewritten is
    not executed any more (the rewriting changes what it computes); it still goes through the I/O steps."""
    M, NF = case["M"], case["NF"]
    done = []
    for f in sorted(defective):
        if f not in FEATURES:
            continue
        present, strip = FEATURES[f]
        if present(M):
            M, NF = strip(M), strip(NF)
            done.append(f)
            if counts is not None:
                counts["stripped_" + f] += 1
    out = dict(case, M=M, NF=NF)
    if done:
        out["stripped"] = sorted(set(case.get("stripped", [])) | set(done))
        if out.pop("exec", None) is not None and counts is not None:
            counts["programs_not_executed_because_of_a_known_defect"] += 1
    return out


# ---- probe modules

def _I(v):
    return {"k": "int", "v": hx(v)}


def _R(n):
    return {"k": "reg", "name": n}


def _mem(t, disp=0, base="", index="", scale=1, alias="", nonalias=""):
    return {"k": "mem", "t": t, "disp": hx(disp), "base": base, "index": index, "scale": scale, "alias": alias, "nonalias": nonalias}


def _func(name, insns, res=("i64",), args=(), locals_=(("i64", "x"),), va=0, globals_=()):
    return {"k": "func", "name": name, "va": va, "res": list(res), "args": [{"t": t, "name": n, "size": "0"} for t, n in args],
            "locals": [{"t": t, "name": n} for t, n in locals_], "globals": [{"t": t, "name": n, "hr": h} for t, n, h in globals_],
            "insns": insns}


def _mod(items, name="m"):
    return {"mods": [{"name": name, "tmp": tmp_of(items), "items": items}]}


def _ins(op, *ops):
    return {"op": op, "ops": list(ops)}


def _lab(n):
    return {"op": "label", "n": n}


def probe_modules():
    g = _func("g", [_ins("ret", _I(3))], locals_=())
    P = {}
    P["expr"] = _mod([g, {"k": "expr", "name": "e", "func": "g"}, {"k": "bss", "name": "after", "len": hx(8)}])
    P["pdata"] = _mod([{"k": "data", "name": "pd", "t": "p", "nel": 2, "hex": "1000000000000000" + "ffffffffffffffff", "via": "data"}])
    P["uint_high"] = _mod([_func("h", [_ins("mov", _R("x"), {"k": "uint", "v": "ffffffffffffffff"}), _ins("ret", _R("x"))])])
    P["str_nonul"] = _mod([_func("h", [_ins("mov", _R("x"), {"k": "str", "b": b"abc".hex()}), _ins("ret", _R("x"))])])
    P["undef_mem"] = _mod([_func("v", [_ins("va_start", _mem("undef", 0, "x")), _ins("va_end", _mem("undef", 8, "x")), _ins("ret", _R("x"))],
                                 args=(("i64", "a"),), va=1)])
    lf = _func("f", [_lab(1), _ins("mov", _R("x"), _I(1)), _lab(2), _ins("ret", _R("x"))])
    P["lref"] = _mod([{"k": "lref", "name": "lr", "l1": ["f", 2], "l2": ["f", 1], "disp": hx(4)}, lf,
                      {"k": "lref", "name": "", "l1": ["f", 1], "l2": None, "disp": hx(0)}])
    P["prop"] = _mod([_func("v", [_ins("prset", _R("x"), _I(3)), _lab(1), _ins("prbeq", {"k": "lab", "n": 1}, _R("x"), _I(4)),
                                  _ins("prbne", {"k": "lab", "n": 1}, _mem("i64", 8, "x"), _I(0)), _ins("ret", _R("x"))])])
    P["globals"] = _mod([_func("v", [_ins("mov", _R("gx"), _I(3)), _ins("ret", _R("gx"))], globals_=(("i64", "gx", "rbx"), ("d", "gd", "xmm5")))])
    P["trail_label"] = _mod([_func("f", [_ins("bt", {"k": "lab", "n": 1}, _R("x")), _ins("ret", _R("x")), _lab(1)])])
    P["label_order"] = _mod([_func("f", [_ins("jmp", {"k": "lab", "n": 2}), _lab(1), _ins("mov", _R("x"), _I(1)), _lab(2),
                                         _ins("bt", {"k": "lab", "n": 1}, _R("x")), _ins("ret", _R("x"))])])
    P["ld_padding"] = _mod([{"k": "data", "name": "dl", "t": "ld", "nel": 2, "hex": "0000000000000080ff3f" * 2, "via": "data"},
                            _func("h", [_ins("ldmov", _R("x"), {"k": "ld", "v": "3fffc000000000000000"}), _ins("ret", _R("x"))],
                                  res=("ld",), locals_=(("ld", "x"),))])
    return P


# ------------------------------------------------------------------------------------------------ replaying a history

class Fail:
    __slots__ = ("stage", "sig", "text")

    def __init__(self, stage, sig, text):
        self.stage, self.sig, self.text = stage, sig, text

    def key(self):
        return "%s:%s" % (self.stage, self.sig)

    def __repr__(self):
        return "Fail(%s:%s %s)" % (self.stage, self.sig, self.text[:200])


def err_sig(msg):
    """stable signature of a MIR error message: error code + words, numbers and names dropped"""
    m = re.sub(r"ln \d+: ", "", msg)
    m = re.sub(r"\b\d+\b", "N", m)
    return re.sub(r"[^A-Za-z]+", "_", m)[:60].strip("_")


def script_for(case, hist, pad=0, pad2=None):
    """commands replaying history `hist` (an OUT record of MIRText.tla) on the case; returns (cmds, plan)
    plan[i] describes what command i is expected to produce: (what, index ...)"""
    M = case["M"]
    org = hist["ctxs"][0]
    cmds, plan = ["N 0"], [("new", 0)]
    if org["org"] == "api":
        cmds.append(blob("A", 0, to_script(M, org["num"], pad=pad)))
        plan.append(("build", 0))
    elif org["org"] == "merge":
        # the two halves (merge_case) are built in contexts of their own (slots 6, 7: label numbers start over in each),
        # written to separate streams (registers 14, 15) and both streams are read into context 1
        half = len(M["mods"]) // 2
        for k, (slot, how) in enumerate(((6, "cb"), (7, "file"))):
            part = {"mods": M["mods"][k * half:(k + 1) * half]}
            cmds += ["N %d" % slot, blob("A", slot, to_script(part, "canon", pad=pad)), "W %d %s 0 %d" % (slot, how, 14 + k)]
            plan += [("new", slot), ("merge_build", 0), ("merge_write", 0)]
        cmds += ["r 0 cb 14", "r 0 file 15", "D 6", "D 7"]
        plan += [("merge_read", 0), ("merge_read", 0), ("drop", 6), ("drop", 7)]
    else:
        cmds.append(blob("S", 0, to_text(M)))
        plan.append(("pyscan", 0))
    cmds.append("P 0"); plan.append(("proj", 0))
    nctx, nart = 1, 0
    for st in hist["h"]:
        a, x = st["a"], st["x"]
        if a == "output":
            cmds.append("O %d %d" % (x - 1, nart)); plan.append(("output", nart, x - 1)); nart += 1
        elif a == "scan":
            cmds.append("N %d" % nctx); plan.append(("new", nctx))
            cmds.append("s %d %d" % (nctx, x - 1)); plan.append(("scan", nctx, x - 1))
            cmds.append("P %d" % nctx); plan.append(("proj", nctx)); nctx += 1
        elif a == "write":
            cmds.append("W %d %s %d %d" % (x - 1, st["via"], 17 * (nart + 1) % 251, nart)); plan.append(("write", nart, x - 1))
            cmds.append("u %d" % nart); plan.append(("raw", nart)); nart += 1
        elif a == "read":
            cmds.append("N %d" % nctx); plan.append(("new", nctx))
            cmds.append("r %d %s %d" % (nctx, st["via"], x - 1)); plan.append(("read", nctx, x - 1))
            cmds.append("P %d" % nctx); plan.append(("proj", nctx)); nctx += 1
        elif a == "exec":
            if case.get("exec"):
                cmds.append("X %d interp" % (x - 1)); plan.append(("link", x - 1))
                cmds.append("C %d main %s" % (x - 1, case["exec"]["buf0"])); plan.append(("call", x - 1))
        else:
            raise MachineryError("history step " + a)
    for s in range(nctx):
        cmds.append("D %d" % s); plan.append(("drop", s))
    return cmds, plan


def judge(case, hist, plan, outs, died, err):
    """list of Fail; results: dict with texts, bins, raws, projections (for further checks)"""
    M, NF = case["M"], case["NF"]
    fails = []
    res = {"texts": {}, "bins": {}, "raws": {}, "proj": {}}

    def expect(nf):
        return M if nf == "id" else NF
    dead_ctx, dead_art = set(), set()
    for i, (pl, o) in enumerate(zip(plan, outs)):
        what = pl[0]
        if died is not None and o is None:
            w = plan[died][0] if died < len(plan) else what
            sig = "asan" if "AddressSanitizer" in err else ("ubsan" if "runtime error" in err else "crash")
            m = re.search(r"SUMMARY: (.*)", err)
            fails.append(Fail(w, sig, "the library did not return from %s (%s)" % (w, (m.group(1) if m else err[-200:]).strip())))
            break
        if o is None:
            raise MachineryError("no output for command %d (%s)" % (i, pl))
        if what in ("new", "drop"):
            continue
        # what depends on a context / artefact lost to an earlier (already recorded) failure is not judged
        if what in ("output", "write"):
            if pl[2] in dead_ctx or o.kind in ("E", "X"):
                dead_art.add(pl[1])
                if pl[2] in dead_ctx:
                    continue
        elif what in ("scan", "read"):
            if pl[2] in dead_art or o.kind in ("E", "X"):
                dead_ctx.add(pl[1])
                if pl[2] in dead_art:
                    continue
        elif what == "raw":
            if pl[1] in dead_art:
                continue
        elif what in ("build", "pyscan", "merge_build", "merge_write", "merge_read"):
            if o.kind in ("E", "X"):
                dead_ctx.add(pl[1])
            if o.kind == "X":
                continue
        elif pl[1] in dead_ctx:
            continue
        if o.kind == "X":
            dead_ctx.add(pl[1])
            continue
        if o.kind == "E":
            if what in ("link", "call", "proj"):
                dead_ctx.add(pl[1])
            fails.append(Fail(what, "error_" + err_sig(o.val), "%s: MIR error %s" % (what, o.val[:300])))
            continue
        if what == "proj":
            try:
                p = json.loads(o.val.decode("latin-1"))
            except ValueError:
                fails.append(Fail("proj", "unparsable", "context %d: the projection is not well-formed (damaged names?)" % (pl[1] + 1)))
                dead_ctx.add(pl[1])
                continue
            res["proj"][pl[1]] = p
            nf = hist["ctxs"][pl[1]]["nf"]
            d = diff(expect(nf), p)
            if d:
                org = hist["ctxs"][pl[1]]["org"]
                fails.append(Fail("proj_" + org, re.sub(r"\[\d+\]", "", d.split(":")[0]).strip("."),
                                  "context %d (%s): projection differs from the abstract module at %s" % (pl[1] + 1, org, d)))
        elif what == "output":
            res["texts"][pl[1]] = o.val
        elif what == "write":
            res["bins"][pl[1]] = o.val
        elif what == "raw":
            res["raws"][pl[1]] = o.val
        elif what == "call":
            ex = case["exec"]
            parts = o.val.split(" ")
            ob = progs.Obs(mirlib.CallResult("ok" if parts[3] == "g" else "guard", parts[1], parts[2], [x for x in parts[5:] if x]))
            msg = progs.compare_obs(ex["obs"], ob, ex["nans"], "spec", "impl")
            if msg:
                fails.append(Fail("exec", "observation", "context %d: %s" % (pl[1] + 1, msg)))
    # equality classes of artefacts
    first = {}
    for ai, cls in enumerate(hist["arts"]):
        key = (cls["fmt"], cls["nf"], cls["num"])
        store = res["texts"] if cls["fmt"] == "text" else res["bins"]
        if ai not in store:
            continue
        if key not in first:
            first[key] = ai
            continue
        a0 = first[key]
        if store[a0] != store[ai]:
            if cls["fmt"] == "text":
                t1, t2 = store[a0], store[ai]
                k = next((j for j in range(min(len(t1), len(t2))) if t1[j] != t2[j]), min(len(t1), len(t2)))
                ln1 = t1[t1.rfind(b"\n", 0, k) + 1:t1.find(b"\n", k) if t1.find(b"\n", k) >= 0 else len(t1)]
                ln2 = t2[t2.rfind(b"\n", 0, k) + 1:t2.find(b"\n", k) if t2.find(b"\n", k) >= 0 else len(t2)]
                sig = "labels_renamed" if labels_renamed_only(t1, t2) else "differs"
                fails.append(Fail("text_fixpoint", sig, "text %d differs from text %d: %r / %r" % (ai + 1, a0 + 1, ln1[:120], ln2[:120])))
            else:
                fails.append(Fail("bin_identical", "differs", "binary %d (%d bytes) differs from binary %d (%d bytes)" % (ai + 1, len(store[ai]), a0 + 1, len(store[a0]))))
    return fails, res


def run_batch(exe, jobs, timeout=900):
    """jobs: list of (cmds, plan).  Runs them in one process; a job during which the runner dies gets its partial
    outputs and the jobs after it are run again in a new process.  Returns list of (outs, died, err) per job."""
    results = [None] * len(jobs)
    start = 0
    while start < len(jobs):
        allc, owner = [], []
        for j in range(start, len(jobs)):
            for c in jobs[j][0]:
                allc.append(c); owner.append(j)
        outs, died, err = run_cmds(exe, allc, timeout=timeout)
        pos = 0
        nxt = len(jobs)
        for j in range(start, len(jobs)):
            n = len(jobs[j][0])
            o = outs[pos:pos + n]
            if died is not None and pos <= died < pos + n:
                results[j] = (o, died - pos, err)
                nxt = j + 1
                break
            results[j] = (o, None, "")
            pos += n
        if died is None:
            break
        start = nxt
    return results


def replay_cases(exe, pairs, maxpar=None, batch=25, pad=0):
    """pairs: list of (case, hist).  Returns list of (fails, res)."""
    from concurrent.futures import ThreadPoolExecutor
    jobs = [script_for(c, h, pad=pad) for c, h in pairs]
    groups = list(vlib.chunks(list(range(len(jobs))), batch))

    def do(idx):
        return idx, run_batch(exe, [jobs[i] for i in idx])
    out = [None] * len(jobs)
    with ThreadPoolExecutor(max_workers=maxpar or min(vlib.NCPU, 8)) as ex:
        for idx, rs in ex.map(do, groups):
            for i, r in zip(idx, rs):
                if r is None:
                    raise MachineryError("batch runner lost a job")
                out[i] = judge(pairs[i][0], pairs[i][1], jobs[i][1], r[0], r[1], r[2])
    return out


# ------------------------------------------------------------------------------------------------ executable programs (MIRProg.tla)

class _NoTLC:
    states = distinct = 0


def safe_programs(*a, **kw):
    """progs.generate; the shared program generator being unusable (a specification under edit) costs this check the
    executable part of the run, not the run: the evidence then shows programs_executable = 0"""
    try:
        return progs.generate(*a, **kw)
    except MachineryError as e:
        vlib.log("  WARNING: no executable programs in this run (MIRProg generation failed: %s)" % str(e).strip().splitlines()[-1][:160])
        return [], _NoTLC()


def with_temp_items(M):
    """the program's module as c2m would leave it: a string literal kept in a temporary item .lc<N> and a function with a
    string operand, for which loading creates one more temporary item (the module's counter must have survived the I/O).
    Neither is reachable from main."""
    M = copy.deepcopy(M)
    m = M["mods"][0]
    k = max(m.get("tmp", 0), tmp_of(m["items"])) + 1
    m["items"].insert(0, {"k": "data", "name": ".lc%d" % k, "t": "u8", "nel": 6, "hex": b"hello\0".hex(), "via": "string"})
    m["items"].append(_func("c10_strf", [_ins("mov", _R("s"), {"k": "str", "b": b"c10\0".hex()}), _ins("ret", _R("s"))], locals_=(("i64", "s"),)))
    m["tmp"] = k
    return M


def prog_cases(exe, cases):
    """`done` cases of MIRProg.tla -> cases for the replay engine.  The program text comes from progs.render_prog (the
    rendering every other check executes); its abstract module is the projection of that text scanned once, so that the
    program can also be built through the API and followed through the histories; expected observations are the
    specification's (MIRSem)."""
    done = [c for c in cases if c["status"] == "done"]
    out, skipped = [], 0
    for grp in vlib.chunks(done, 20):
        cmds = []
        for c in list(grp):
            try:
                cmds += ["N 0", blob("S", 0, progs.render_prog(c["prog"])), "P 0"]
            except MachineryError:          # a program the shared renderer cannot print (yet): not this check's subject
                grp.remove(c)
                skipped += 1
        outs, died, err = run_cmds(exe, cmds + ["D 0"])
        for i, c in enumerate(grp):
            o = outs[3 * i + 2]
            if o is None or o.kind != "J":
                skipped += 1
                continue
            M = json.loads(o.val)
            obs, nans = progs.spec_obs(c)
            b0, _ = progs.cells_bytes(c["buf0"])
            M = with_temp_items(M)
            out.append({"M": M, "NF": M, "exec": {"buf0": b0.hex(), "obs": obs, "nans": nans}, "prog": c})
    return out, skipped


# ------------------------------------------------------------------------------------------------ generation

def gen_histories(mode, depth):
    r = run_tlc("MIRText", "MIRText_mc.cfg", workers=2, heap="2g", env={"C10_MODE": mode, "C10_DEPTH": depth}, timeout=600)
    tlc_ok(r, "MIRText")
    if r.violation or not r.outs:
        raise MachineryError("MIRText: %s" % (r.violation or "no histories"))
    return r.outs, r


def hist_name(h):
    return ">".join(s["a"][0] + (s["via"][0] if s["a"] in ("write", "read") else "") + str(s["x"]) for s in h["h"]) + ":" + h["ctxs"][0]["org"] + ":" + h["ctxs"][0]["num"]


def gen_modules(cfg, n=None, workers=4, seed=1, timeout=1500, env=None):
    """modules from spec/MIRModule.tla: breadth-first (n None) or by simulation (n modules).  Returns (cases, tlc result)"""
    if n is None:
        r = run_tlc("MIRModule", cfg, workers=workers, heap="6g", timeout=timeout, env=env)
    else:
        per = max(1, (n + workers - 1) // workers)
        r = run_tlc("MIRModule", cfg, workers=workers, heap="6g", simulate=per, depth=6000, seed_=seed, timeout=timeout, env=env)
    tlc_ok(r, "MIRModule " + cfg)
    if r.violation:
        raise MachineryError("MIRModule %s: invariant %s violated" % (cfg, r.violation))
    cases = [{"M": norm_mods(o["mods"]), "NF": norm_mods(o["textnf"])} for o in r.outs]
    r.outs, r.out = [], ""          # the raw output of a large enumeration is not needed any more
    return cases, r


def merge_case(case):
    """the case of origin "merge": M followed by a copy of M whose modules are renamed (the two halves are built in
    separate contexts, so the copy reuses every label number of the original)"""
    def twice(X):
        Y = copy.deepcopy(X)
        for m in Y["mods"]:
            m["name"] += "_b"
        return {"mods": copy.deepcopy(X["mods"]) + Y["mods"]}
    out = {k: v for k, v in case.items() if k not in ("exec", "prog")}
    out["M"], out["NF"] = twice(case["M"]), twice(case["NF"])
    return out


def text_expressible(M):
    """can the abstract module be written as MIR text at all (the Python rendering path)"""
    for _, _, o in all_ops(M):
        if o["k"] == "str" and o["b"] and not o["b"].endswith("00"):
            return False
        if o["k"] == "mem" and o["t"] == "undef":
            return False
        if o["k"] in ("f", "d", "ld") and not fp_finite(o["k"], o["v"]):
            return False
    for _, it in all_items(M):
        if it["k"] == "data" and it["t"] in ("f", "d", "ld"):
            sz = TYSIZE[it["t"]]
            raw = bytes.fromhex(it["hex"])
            for i in range(0, len(raw), sz):
                if not fp_finite(it["t"], int.from_bytes(raw[i:i + sz], "little").to_bytes(sz, "big").hex()):
                    return False
    return True


def fp_finite(kind, hexbits):
    v = int(hexbits, 16)
    if kind == "f":
        return (v >> 23) & 0xff != 0xff
    if kind == "d":
        return (v >> 52) & 0x7ff != 0x7ff
    e, m = (v >> 64) & 0x7fff, v & ((1 << 64) - 1)
    if e == 0x7fff:
        return False
    return (m >> 63) == (1 if e else 0) or (e == 0)          # normal numbers have the integer bit, denormals do not


def coverage_of(cases, cov):
    for c in cases:
        for _, it in all_items(c["M"]):
            cov["item_" + it["k"]] += 1
            if it["k"] == "data":
                cov["data_" + it["t"]] += 1
            if it["k"] == "func":
                for a in it["args"]:
                    cov["arg_" + a["t"]] += 1
                if it["va"]:
                    cov["func_vararg"] += 1
                if it["globals"]:
                    cov["func_global_reg"] += 1
                for I in it["insns"]:
                    cov["op_" + I["op"]] += 1
                    if I["op"] != "label":
                        for o in I["ops"]:
                            cov["opnd_" + o["k"]] += 1
                            if o["k"] == "mem":
                                cov["mem_" + o["t"]] += 1
                                if o["alias"] or o["nonalias"]:
                                    cov["mem_alias"] += 1


# ------------------------------------------------------------------------------------------------ the check

PROBE_HIST = "o1>s1>o2>s2"


def pick_hist(hists, org, num, want=None):
    """a history by shape"""
    for h in hists:
        if h["ctxs"][0]["org"] == org and h["ctxs"][0]["num"] == num and (want is None or (hist_name(h).split(":")[0] + ">").startswith(want + ">")):
            return h
    raise MachineryError("no history %s %s %s" % (org, num, want))


TEXT_PROBES = {
    # feature: (finding key, origin numbering, matcher over the failures of the probe)
    "expr": ("text:expr_item_output", "canon", lambda fs: fs[0].stage == "output"),
    "pdata": ("text:data_p_rejected", "canon", lambda fs: fs[0].stage in ("scan", "pyscan") and "wrong_data_clause" in fs[0].sig),
    "uint_high": ("text:uint_imm_high_bit", "canon", lambda fs: all(f.key() == "text_fixpoint:differs" and b"18446744073709551615" in f.text.encode() for f in fs)),
    "str_nonul": ("text:str_without_nul", "canon", lambda fs: all((f.stage.startswith("proj_") and f.sig.endswith("ops.b")) or f.stage == "text_fixpoint" for f in fs)),
    "undef_mem": ("text:undef_mem_type", "canon", lambda fs: fs[0].stage in ("scan", "pyscan") and "Unknown_type_undef" in fs[0].sig),
    "trail_label": ("text:trailing_label_rejected", "canon", lambda fs: fs[0].stage in ("scan", "pyscan") and "endfunc_should_have_no_labels" in fs[0].sig),
    "label_order": ("text:label_renumbered", "rev", lambda fs: all(f.key() == "text_fixpoint:labels_renamed" for f in fs)),
}


def run_probes(ck, exe, hists, probes, mode_prefix):
    """returns the set of features that are defective on this tree; reports each under its key"""
    P = probe_modules()
    defective = set()
    for feat, (key, num, match) in probes.items():
        M = P[feat]
        case = {"M": M, "NF": text_nf(M)}
        hs = [pick_hist(hists, "api", num, PROBE_HIST)]
        if num == "canon" and text_expressible(M):
            hs.append(pick_hist(hists, "pytext", "canon", PROBE_HIST))
        allf = []
        for h in hs:
            (fails, _), = replay_cases(exe, [(case, h)], maxpar=1)
            allf += fails
        ck.add("probes")
        if not allf:
            continue
        defective.add(feat)
        k = key if match(allf) else "probe:%s:%s" % (feat, allf[0].key())
        ck.violation(k, "probe %s: %s" % (feat, "; ".join(f.text for f in allf[:3])), {"M": M, "NF": case["NF"], "hist": hs[0]})
    return defective


def case_json(case, hist):
    d = {"M": case["M"], "NF": case["NF"], "hist": hist}
    if case.get("prog"):
        d["prog"] = case["prog"]
    if case.get("stripped"):
        d["stripped"] = case["stripped"]
    return d


def recheck(exe, pairs, res, idx):
    """rule 5: a failing case is run once more, alone, before it is reported"""
    (f2, r2), = replay_cases(exe, [pairs[idx]], maxpar=1)
    return f2


def assign(cases, hists, rng, want_orgs):
    """(case, history) pairs: every case gets one history per origin in want_orgs that applies to it"""
    by = collections.defaultdict(list)
    for h in hists:
        by[(h["ctxs"][0]["org"], h["ctxs"][0]["num"])].append(h)
    pairs = []
    for c in cases:
        for org, num in want_orgs:
            if org == "pytext" and not text_expressible(c["M"]):
                continue
            hs = by[(org, num)]
            if c.get("exec"):
                hs = [h for h in hs if any(s["a"] == "exec" for s in h["h"])] or hs
            pairs.append((c, rng.choice(hs)))
    return pairs


def run(tier):
    ck = Check(PROP, tier, "model_checking")
    rng = random.Random(vlib.seed())
    quick = tier == "quick"
    exe = build_exe("plain")
    exe_asan = None if quick else build_exe("asan")
    hists, hr = gen_histories("text", 4 if quick else 5)          # spec/MIRText_mc.cfg; MIRText_t.cfg is the same model at depth 5
    states, trans = hr.distinct, hr.states
    cov = collections.Counter()

    defective = run_probes(ck, exe_asan or exe, hists, TEXT_PROBES, "text")
    # ---- modules (the generators run side by side)
    from concurrent.futures import ThreadPoolExecutor
    t0 = time.time()
    nwk = 6 if quick else vlib.NCPU
    gens = {
        "mc": lambda: gen_modules("MIRModule_mc.cfg", workers=2),
        "sim": lambda: gen_modules("MIRModule_sim.cfg", n=600 if quick else 30000, workers=nwk, seed=vlib.seed()),
        "prog": lambda: safe_programs(32 if quick else 320, seed=vlib.seed() + 1000, workers=nwk, cfg="MIRProg_exec.cfg"),
    }
    if not quick:
        gens["mci"] = lambda: gen_modules("MIRModule_t.cfg", workers=vlib.NCPU, timeout=2400)
    with ThreadPoolExecutor(max_workers=len(gens) if quick else 2) as ex:
        futs = {k: ex.submit(f) for k, f in gens.items()}
        got = {k: f.result() for k, f in futs.items()}
    groups = []
    c_mc, r = got["mc"]
    states += r.distinct; trans += r.states
    groups.append(("items_exhaustive", c_mc, True))
    c_sim, r = got["sim"]
    states += r.states; trans += r.states
    groups.append(("simulated", c_sim, False))
    if not quick:
        c_mci, r = got["mci"]
        states += r.distinct; trans += r.states
        groups.append(("insns_exhaustive", c_mci, False))
    pc, rr = got["prog"]
    states += rr.states; trans += rr.states
    c_prog, skipped = prog_cases(exe, pc)
    ck.setc("programs_executable", len(c_prog)); ck.setc("programs_discarded_undefined", len(pc) - len(c_prog) - skipped)
    groups.append(("programs", c_prog, True))
    gen_wall = time.time() - t0

    # ---- replay
    counts = collections.Counter()
    orgs_all = [("api", "canon"), ("pytext", "canon")]
    nrep = 0
    text_by_case = {}
    for gname, cases, both in groups:
        coverage_of(cases, cov)
        cases = [strip_features(c, defective, counts) for c in cases]
        want = list(orgs_all) if (both or quick) else [("api", "canon")]
        pairs = []
        for i, c in enumerate(cases):
            w = list(want)
            if not both and not quick and i % 4 == 0:
                w.append(("pytext", "canon"))
            if "label_order" not in defective and i % 8 == 0:
                w.append(("api", "rev"))
            pairs += assign([c], hists, rng, w)
        use = exe
        if exe_asan is not None and gname == "items_exhaustive":
            use = exe_asan
        res = replay_cases(use, pairs, maxpar=vlib.NCPU)
        if exe_asan is not None and gname == "programs":
            # the I/O of the programs also under ASan/UBSan; their execution is judged on the plain build only (a sanitizer
            # report inside an engine is the subject of C01/C04, not of the I/O round trip)
            sub = [({k: v for k, v in c.items() if k != "exec"}, h) for c, h in pairs]
            pairs, res = pairs + sub, res + replay_cases(exe_asan, sub, maxpar=vlib.NCPU)
        if exe_asan is not None and gname == "simulated":       # a quarter of the bulk also under ASan/UBSan
            sub = pairs[::4]
            res_a = replay_cases(exe_asan, sub, maxpar=vlib.NCPU)
            pairs, res = pairs + sub, res + res_a
            ck.add("replayed_under_asan", len(sub))
        nrep += len(pairs)
        ck.add("modules_" + gname, len(cases)); ck.add("replays_" + gname, len(pairs))
        nbad = 0
        first_text = {}
        for idx, ((case, h), (fails, rs)) in enumerate(zip(pairs, res)):
            # cross-path: the first text of the API-built context equals the first text of the context scanned from
            # the Python rendering (both number labels in order of appearance)
            if not fails and rs["texts"] and h["ctxs"][0]["num"] == "canon" and h["h"][0]["a"] == "output":
                kid = id(case)
                t = rs["texts"].get(0)
                if t is not None:
                    if kid in first_text and first_text[kid][0] != t:
                        fails = [Fail("cross_path", "text_differs", "text of the API-built context differs from the text of the context scanned from rendered text (%s / %s)"
                                      % (first_text[kid][1], h["ctxs"][0]["org"]))]
                    first_text.setdefault(kid, (t, h["ctxs"][0]["org"]))
            if fails:
                nbad += 1
                if nbad <= 40 and fails[0].stage != "cross_path":
                    fails = recheck(use, pairs, res, idx)
                for f in fails[:3]:
                    ck.violation(f.key(), "%s, history %s: %s" % (gname, hist_name(h), f.text), case_json(case, h))
        vlib.log("  %s: %d modules, %d histories replayed, %d with mismatches" % (gname, len(cases), len(pairs), nbad))
    for k, v in counts.items():
        ck.setc(k, v)
    ck.setc("states", states); ck.setc("transitions", trans)
    ck.setc("traces_validated_against_impl", nrep); ck.setc("histories", len(hists))
    ck.setc("defective_features", sorted(defective))
    ck.setc("vocabulary", {k: v for k, v in sorted(cov.items())})
    ops = [k for k in cov if k.startswith("op_")]
    ck.setc("opcodes_covered", len(ops))
    kinds = {"item_" + k for k in ("import", "export", "forward", "proto", "func", "bss", "data", "ref", "lref", "expr")}
    missing = sorted(kinds - set(cov))
    if missing or (not quick and len(ops) < 170):
        raise MachineryError("vocabulary not covered: %s, %d opcodes" % (missing, len(ops)))
    ck.setc("samples", [hist_name(h) for h in hists[:: max(1, len(hists) // 4)][:4]])
    ck.setc("rule", "every module built by spec/MIRModule.tla (exhaustive tiny bounds + simulation) and every MIRProg program is built through the API "
                    "and from text rendered independently, then a MIRText history (output/scan/execute, depth %d) is replayed; after every step the "
                    "projection must equal the abstract module (its text normal form after a scan), all texts must be identical bytes, programs must "
                    "produce the specification's observations" % (4 if quick else 5))
    ck.setc("generation_wall_s", round(gen_wall, 1))
    ck.assumptions += ["finite floating-point immediates; bss lengths below 2^63; item, register and alias names from disjoint pools",
                       "label numbers are part of the text: API-built contexts number labels in order of appearance unless the history says otherwise"]
    return ck.finish()


def replay_file(prop, path, exes):
    """re-run exactly the recorded (module, history) against the current tree (no evidence is written)"""
    rec = json.load(open(path))
    d = rec["case"]
    case = {"M": d["M"], "NF": d["NF"]}
    if d.get("prog"):
        pcs, _ = prog_cases(exes[0], [d["prog"]])
        if not pcs:
            print("replay: the program text is not accepted any more")
            print("VIOLATION property=%s replay=%s" % (prop, path))
            return 1
        case = strip_features(pcs[0], set(d.get("stripped", [])))
    bad = []
    for e in exes:
        (fails, _), = replay_cases(e, [(case, d["hist"])], maxpar=1)
        bad += fails
    if bad:
        for f in bad[:5]:
            print("replay: still failing: %s: %s" % (f.key(), f.text[:400]))
        known = vlib.Findings().is_known(prop, rec.get("key", ""))
        if known:
            print("KNOWN-FINDING: property=%s %s [%s]" % (prop, vlib.Findings().known[(prop, rec["key"])], rec["key"]))
            return 0
        print("VIOLATION property=%s replay=%s" % (prop, path))
        return 1
    print("replay: passes")
    return 0


def replay(path):
    return replay_file(PROP, path, [build_exe("plain"), build_exe("asan")])


def selftest():
    """binding demonstration: a correct round trip is accepted; a corrupted expectation, a corrupted text and a
    projection that hides a difference are objected to"""
    exe = build_exe("plain")
    hists, _ = gen_histories("text", 4)
    h = pick_hist(hists, "api", "canon", PROBE_HIST)
    f = _func("f", [_ins("mov", _R("x"), _I(5)), _lab(1), _ins("add", _R("x"), _R("x"), _mem("i32", 8, "x", "", 1, "al", "")),
                    _ins("bt", {"k": "lab", "n": 1}, _R("x")), _ins("ret", _R("x"))])
    M = _mod([{"k": "import", "name": "ext"}, {"k": "data", "name": "d1", "t": "i16", "nel": 2, "hex": "ffff0100", "via": "data"}, f])
    case = {"M": M, "NF": text_nf(M)}
    (f1, _), = replay_cases(exe, [(case, h)], maxpar=1)
    ok1 = not f1
    bad = copy.deepcopy(case)
    bad["NF"]["mods"][0]["items"][2]["insns"][0]["ops"][1]["v"] = hx(6)          # expectation after the scan corrupted
    (f2, _), = replay_cases(exe, [(bad, h)], maxpar=1)
    ok2 = any(x.stage == "proj_scan" for x in f2)
    bad2 = copy.deepcopy(case)
    bad2["M"]["mods"][0]["items"][1]["hex"] = "feff0100"                          # what is built differs from what is expected later
    bad2["NF"] = text_nf(M)
    (f3, _), = replay_cases(exe, [(bad2, h)], maxpar=1)
    ok3 = any(x.stage.startswith("proj_") for x in f3)
    # identity test of the projection dumper on TLC-built modules: build from abstract, project, compare
    cases, _ = gen_modules("MIRModule_mc.cfg", workers=2)
    res = replay_cases(exe, [(c, pick_hist(hists, "api", "canon", "o1>o1>o1>o1")) for c in cases[:120] if not FEATURES["expr"][0](c["M"])], maxpar=4)
    ok4 = all(not any(x.stage == "proj_api" for x in fl) for fl, _ in res)
    print("selftest C10: round trip accepted=%s corrupted expectation rejected=%s corrupted build rejected=%s projection identity on %d TLC modules=%s"
          % (ok1, ok2, ok3, len(res), ok4))
    return 0 if ok1 and ok2 and ok3 and ok4 else 1
