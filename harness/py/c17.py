"""C17: all memory goes through the user's allocators and is released at finish.

Direction B (trace validation).  harness/c17_drivers.c runs real API histories on a context created
with MIR_init2 (ledger allocators of harness/c17_ledger.c); every allocator call, every raw libc
call made by library objects and every code-page fault is one ndjson event.  TLC decides, with
spec/TraceMIRAlloc.tla, whether each recorded execution is a behaviour of spec/MIRAlloc.tla.

Python only (a) generates the history list, (b) splits traces into executions and per-block-range
shards (a block's life is independent of other blocks; every shard keeps Start/Finish/Reset, so the
conjunction of the shards' Finish guards is the global one), (c) names the function behind a "pc" with
addr2line to build finding keys, (d) for keys listed in findings/known-findings.txt rewrites the
known-bad events into what the fixed library would do (RawMalloc -> Malloc, RawFree -> Free, a known
leak -> Free before Finish) so that everything ELSE is still decided by TLC.

Attribution of raw libc calls: the library objects (mir.o, mir-gen.o, c2mir.o from vlib.build_lib) are copied with
`objcopy --redefine-sym malloc=__wrap_malloc ...` (WRAP_SYMS), i.e. exactly the effect of `ld --wrap=...` but on
these three objects only.  A whole-link --wrap would also redirect the harness's own references, among them the
`malloc`/`free` handed to MIR programs as externals, and force the harness to tell callers apart by return address;
with per-object renaming every __wrap_* call IS a library call, and libc-internal allocations (stdio buffers of
fopen/fprintf in MIR_output, getline ...) never appear because they are not references of these objects.
build() verifies with nm that no raw name is left and that __wrap_malloc/__wrap_mmap are referenced (mir.c
contains the default allocators, so the renaming is observable on every tree).

Use after free is outside the spec: the ledger quarantines and poisons released blocks (writes -> UseAfterFree
event at Finish) and the same histories run in the asan variant with the quarantine ASan-poisoned; only
use-after-poison / use-after-free / double-free / bad-free reports and heap-buffer-overflows of blocks that came
from the user's allocator count for this property, other sanitizer reports and crashes of the plain build are
printed as notes (they belong to other properties).
"""
import collections, glob, hashlib, json, os, re, shutil, subprocess, sys, time
from concurrent.futures import ThreadPoolExecutor
import vlib
from vlib import Check, run_tlc, MachineryError, log

PROP = "C17"
UNITS = ("mir.c", "mir-gen.c", "c2mir/c2mir.c")
WRAP_SYMS = ["malloc", "calloc", "realloc", "free", "mmap", "munmap", "mprotect", "strdup", "strndup",
             "posix_memalign", "aligned_alloc", "reallocarray", "getline", "getdelim", "asprintf", "vasprintf", "mremap"]
# allocating libc entry points that must not even be referenced by library objects unrenamed
SRC = [os.path.join(vlib.HARNESS, f) for f in ("c17_ledger.c", "c17_drivers.c")]
HDR = os.path.join(vlib.HARNESS, "c17_ledger.h")
WORK = os.path.join(vlib.OUT, "c17")
MAX_FILE_EVENTS = 25000      # events per validated file (one JVM run)
SHARD_BLOCK_EVENTS = 300     # block events per shard: bounds the live set TLC carries (measured: 7.4k events/s
                             # per JVM at 300, 1.1k events/s for an unsharded 13k-event c2mir execution)
SHARD_IF_OVER = 600          # executions with more events than this are sharded
DEV_JVMS = int(os.environ.get("C17_JVMS", "0"))


def njvms():
    return DEV_JVMS or max(2, min(10, vlib.NCPU * 5 // 8))


# ------------------------------------------------------------------ build

def build(variant):
    # clang turns a call in tail position (free at the end of a *_finish function) into a jump, which would
    # attribute the raw call to the caller's caller: finding keys must not depend on the compiler
    extra = "-fno-optimize-sibling-calls" if variant == "asan" else ""
    d, objs, cc, flags = vlib.build_lib(variant, units=UNITS, extra_flags=extra)
    hs = vlib.tree_hash(SRC + [HDR])
    wd = os.path.join(WORK, "bin", os.path.basename(d) + "-" + hs[:8])
    exe = os.path.join(wd, "c17")
    if os.path.exists(exe):
        return exe
    for old in glob.glob(os.path.join(WORK, "bin", variant + "-*")):
        if old != wd and time.time() - os.path.getmtime(old) > 900:
            shutil.rmtree(old, ignore_errors=True)
    os.makedirs(wd, exist_ok=True)
    wobjs = []
    redef = []
    for s in WRAP_SYMS:
        redef += ["--redefine-sym", "%s=__wrap_%s" % (s, s)]
    for o in objs:
        w = os.path.join(wd, "w_" + os.path.basename(o))
        vlib.sh(["objcopy"] + redef + [o, w], check=True)
        wobjs.append(w)
    # the binding itself: library objects must reference __wrap_* and none of the raw names
    rc, und, _ = vlib.sh(["nm", "-u"] + wobjs, check=True)
    names = set(l.split()[-1] for l in und.splitlines() if l.strip() and not l.endswith(":"))
    left = names & set(WRAP_SYMS)
    if left:
        raise MachineryError("library objects still reference raw %s" % sorted(left))
    if "__wrap_malloc" not in names or "__wrap_mmap" not in names:
        # mir.c contains the default allocators: if they are not redirected the renaming did not work
        raise MachineryError("objcopy renaming had no effect (no __wrap_malloc / __wrap_mmap reference)")
    tmp = exe + ".tmp%d" % os.getpid()
    vlib.cc_link(cc, flags, SRC, wobjs, tmp, libs="-lm -ldl -lpthread")
    os.replace(tmp, exe)
    return exe


# ------------------------------------------------------------------ histories

C_INPUTS = ["fib", "prepro", "macros", "structs", "loops", "funcptr", "incomplete", "empty"]
LINKS = ["interp", "gen", "lazy", "lazybb"]


def hist(src, link="interp", opt=2, run=1, out=0, rep=1, tier=0):
    if "sieve" in src and link == "interp":
        run = 0          # the sieve programs take 40 s (plain) / 250 s (asan) in the interpreter
    if "sieve" in src:
        tier = 0
    return "src=%s,link=%s,opt=%d,run=%d,out=%d,rep=%d" % (src, link, opt, run, out, rep) + (",tier=1" if tier else "")


def histories(tier, seed, variant="plain"):
    mirs = sorted(glob.glob(os.path.join(vlib.REPO, "mir-tests", "test*.mir")),
                  key=lambda p: int(re.findall(r"(\d+)\.mir$", p)[0]))
    if not mirs:
        raise MachineryError("no mir-tests/test*.mir in " + vlib.REPO)
    H = ["src=adt"]
    apis = ["api:loop", "api:sieve", "api:memop", "scanstr:sieve"]
    if tier == "quick":
        for i, a in enumerate(apis):
            H.append(hist(a, LINKS[(i + seed) % 4], (i + seed) % 4, out=i % 2))
            H.append(hist(a, "interp"))
        H.append(hist("api:loop", "none", out=1))
        H.append(hist("api:sieve", "gen", 2, rep=2))
        # jcall/jret through a variadic prototype (per-insn call data of the -O0 generator)
        H.append(hist("scanstr:jcall", "gen", 0))        # gen: `run` is generated at link time (it is never called)
        H.append(hist("scanstr:jcall", LINKS[1 + (seed + 1) % 3], 1 + seed % 3))
        # a call of an external function with 70 arguments, interpreted and generated
        # a loop with two entries, generated with the loop-tree passes (levels 1..3)
        H.append(hist("scanstr:irreducible", "gen", 1 + seed % 3))
        H.append(hist("scanstr:irreducible", LINKS[(seed + 2) % 4], 2))
        # a module moved to another context whose first context is finished before the module is used
        H.append(hist("movectx", "gen", 1 + seed % 2))
        H.append(hist("movectx", LINKS[seed % 4], seed % 4))
        H.append(hist("scanstr:manyargs", "interp"))
        H.append(hist("scanstr:manyargs", LINKS[1 + seed % 3], seed % 4))
        # tiered execution: MIR_interp of a function, then calls through its address under both lazy interfaces
        tm = [m for m in mirs if re.search(r"test(9|12|14|16)\.mir$", m)] or mirs[-1:]
        H.append(hist("api:loop", "lazy", seed % 3, tier=1))
        H.append(hist("api:loop", "lazybb", (seed + 1) % 3, tier=1))
        H.append(hist("scan:" + tm[seed % len(tm)], "lazy", (seed + 2) % 3, tier=1))
        H.append(hist("scan:" + tm[(seed + 1) % len(tm)], "lazybb", seed % 3, tier=1))
        H.append(hist("c2m:fib", "lazy" if seed % 2 else "lazybb", (seed + 1) % 3, tier=1))
        if variant == "plain":
            # > 1 page of generated code with hundreds of patched call sites (page-straddling patches)
            H.append(hist("bigcode", "lazy" if seed % 2 else "gen", seed % 2))
        for i, m in enumerate(mirs):
            k = i + seed
            H.append(hist("scan:" + m, LINKS[1 + k % 3], k % 4, out=(k // 4) % 2, tier=(k // 3) % 2))
            H.append(hist(("bin:" if (k % 3 == 0) else "scan:") + m, "interp", out=k % 2))
        for i, c in enumerate(C_INPUTS):
            k = i + seed
            H.append(hist("c2m:" + c, LINKS[k % 4], (k // 2) % 4, out=k % 2))
        H.append(hist("c2m:fib", "none"))
    else:
        for o in range(3):
            H.append(hist("bigcode", "gen" if (o + seed) % 2 else "lazy", o, rep=3))
        srcs = apis + ["scanstr:jcall", "scanstr:manyargs", "scanstr:irreducible", "movectx"] + ["scan:" + m for m in mirs] + ["bin:" + m for m in mirs] + ["c2m:" + c for c in C_INPUTS]
        n = 0
        for s in srcs:
            H.append(hist(s, "none", out=1))
            H.append(hist(s, "interp", out=n % 2))
            for l in LINKS[1:]:
                for o in range(4):
                    n += 1
                    H.append(hist(s, l, o, out=(n + seed) % 2, tier=(n // 2 + seed) % 2))
            H.append(hist(s, LINKS[1 + (n + seed) % 3], 2, rep=3))
        # the repository's small C tests: compile, load, link, generate (not executed)
        # (inputs with an .expectrc file are expected to be rejected by the compiler: not error-free)
        ctests = [c for c in sorted(glob.glob(os.path.join(vlib.REPO, "c-tests", "new", "*.c")))
                  if not os.path.exists(c + ".expectrc")]
        for i, c in enumerate(ctests):
            k = i + seed
            if k % (6 if variant == "asan" else 2) != 0:
                continue     # 60% of all events come from these inputs: a seed-rotated half (asan: sixth) per run
            H.append(hist("c2m:" + c, (["none"] + LINKS)[k % 5], k % 4, run=0, out=(k // 5) % 2))
    if variant == "plain":
        # The interpreted 70-argument call writes behind a heap block on trees with the `call` defect
        # (finding asan:heap-buffer-overflow:call).  ASan stops at that write; the uninstrumented build would go on
        # with a corrupted heap and fail later in unrelated, irreproducible ways, so only the asan variant runs it.
        H = [h for h in H if not ("scanstr:manyargs" in h and "link=interp" in h)]
    return H


# ------------------------------------------------------------------ recording

def asan_env():
    return {"ASAN_OPTIONS": "detect_leaks=0:abort_on_error=0:exitcode=86:allocator_may_return_null=1",
            "UBSAN_OPTIONS": "print_stacktrace=0"}


def record(exe, hists, tag, timeout=600):
    """Run the harness on a list of histories.  Returns list of (trace_path, [histories in it], crash_info)."""
    os.makedirs(os.path.join(WORK, "traces"), exist_ok=True)
    res = []
    todo = list(hists)
    part = 0
    while todo:
        path = os.path.join(WORK, "traces", "%s-%d.ndjson" % (tag, part))
        part += 1
        rc, o, e = vlib.sh([exe, path] + todo, timeout=timeout, env=dict(asan_env(), C17_SCRATCH=os.path.join(WORK, "traces")))
        done = [l for l in o.splitlines() if l.startswith("H ")]
        if rc == 0:
            if len(done) != len(todo):
                raise MachineryError("harness reported %d of %d histories" % (len(done), len(todo)))
            res.append((path, todo, None))
            break
        # died in history number len(done)
        k = len(done)
        crash = {"rc": rc, "history": todo[k] if k < len(todo) else None,
                 "stderr": e if len(e) < 5000 else e[:2500] + "\n...\n" + e[-2500:]}
        res.append((path, todo[:k + 1], crash))
        todo = todo[k + 1:]
    return res


# ------------------------------------------------------------------ symbolisation

class Symb:
    def __init__(self, exe):
        self.exe = exe
        self.cache = {}
        rc, o, _ = vlib.sh("nm %s | grep ' __executable_start$'" % exe)
        self.base = int(o.split()[0], 16) if o.strip() else 0

    def resolve(self, pcs):
        """pc -> [(function, file)] innermost first.  llvm-symbolizer reads the inline records of both compilers
        (binutils addr2line loses clang's inlined frames); the two agree on gcc objects (checked on 400 sites)."""
        need = sorted(set(p for p in pcs if p not in self.cache))
        llvm = shutil.which("llvm-symbolizer")
        for ch in vlib.chunks(need, 400):
            addrs = ["0x%x" % (self.base + p - 1) for p in ch]
            if llvm:
                rc, o, e = vlib.sh([llvm, "-e", self.exe, "--inlines"] + addrs)
                if rc != 0:
                    raise MachineryError("llvm-symbolizer failed: " + e[-500:])
                blocks = o.strip("\n").split("\n\n")
                if len(blocks) != len(ch):
                    raise MachineryError("llvm-symbolizer returned %d blocks for %d addresses" % (len(blocks), len(ch)))
                for p, blk in zip(ch, blocks):
                    ls = blk.splitlines()
                    self.cache[p] = [(ls[i], os.path.basename(ls[i + 1].split(":")[0])) for i in range(0, len(ls) - 1, 2)] or [("?", "?")]
                continue
            rc, o, e = vlib.sh(["addr2line", "-a", "-f", "-i", "-e", self.exe] + addrs)
            if rc != 0:
                raise MachineryError("addr2line failed: " + e[-500:])
            cur = None
            lines = o.splitlines()
            i = 0
            frames = {}
            while i < len(lines):
                if lines[i].startswith("0x"):
                    cur = int(lines[i], 16) - self.base + 1
                    frames[cur] = []
                    i += 1
                else:
                    fn, loc = lines[i], lines[i + 1] if i + 1 < len(lines) else "?"
                    frames[cur].append((fn, os.path.basename(loc.split(":")[0])))
                    i += 2
            for p in ch:
                self.cache[p] = frames.get(p) or [("?", "?")]

    GENERIC = re.compile(r"^(MIR_malloc|MIR_calloc|MIR_realloc|MIR_free|MIR_mem_map|MIR_mem_unmap|MIR_mem_protect|"
                         r"VARR_.*|HTAB_.*|DLIST_.*|bitmap_.*|reg_malloc|c2mir_calloc|gen_malloc|gen_free|"
                         r"__asan_.*|__interceptor_.*|__sanitizer_.*|memcpy|memmove|memset|__mem.*)$")

    @staticmethod
    def pcs_of(e):
        if e is None:
            return []
        if "bt" in e:
            return list(e["bt"])
        pc = e.get("pc")
        return [pc] if isinstance(pc, int) and 0 < pc < 2 ** 31 else []

    def frames(self, e):
        """Function frames behind an event, innermost first (inlined frames expanded)."""
        pcs = self.pcs_of(e)
        self.resolve(pcs)
        fr = []
        for p in pcs:
            fr += self.cache[p]
        return fr or [("?", "?")]

    def site(self, e):
        """(file stem, function): the innermost frame that is not a generic allocation helper.  Because the
        harness logs a short backtrace, the answer does not depend on what the compiler inlined."""
        fr = self.frames(e)
        for fn, f in fr:
            if not self.GENERIC.match(fn) and fn not in ("?", "??"):
                return (re.sub(r"\.[ch]$", "", f), fn)
        fn, f = fr[0]
        return (re.sub(r"\.[ch]$", "", f), fn)

    def chain(self, e):
        return " <- ".join(fn for fn, _ in self.frames(e)[:8])


# ------------------------------------------------------------------ executions

class Exec:
    """One execution: events between Start and Reset of one history."""

    def __init__(self, history, variant, events, trace, first_line):
        self.history, self.variant, self.events = history, variant, events
        self.trace, self.first_line = trace, first_line
        self.aborted = any(e["e"] == "Abort" for e in events)
        self.complete = len(events) >= 2 and events[-1]["e"] == "Reset" and events[-2]["e"] == "Finish"
        self.crash = None


def split_trace(path, hists, variant):
    evs = []
    with open(path, errors="replace") as f:
        for ln, line in enumerate(f, 1):
            line = line.strip()
            if not line:
                continue
            try:
                evs.append((ln, json.loads(line)))
            except ValueError:
                # a partial last line after a crash
                break
    out, cur, first, hi = [], [], 1, 0
    for ln, e in evs:
        if not cur:
            first = ln
        cur.append(e)
        if e["e"] == "Reset":
            out.append(Exec(cur[0].get("h", "?"), variant, cur, path, first))
            cur = []
    if cur:
        out.append(Exec(cur[0].get("h", "?"), variant, cur, path, first))
    return out


RAW_KIND = {"RawMalloc": "malloc", "RawCalloc": "calloc", "RawRealloc": "realloc", "RawFree": "free",
            "RawMmap": "mmap", "RawMunmap": "munmap", "RawMprotect": "mprotect"}
BLOCK_EV = ("Malloc", "Calloc", "Realloc", "Free")
TLC_FIELDS = {"Malloc": ("id", "size"), "Calloc": ("id", "num", "esz"), "Realloc": ("old", "osz", "nsz", "id"),
              "Free": ("id",), "MemMap": ("r", "len"), "Protect": ("r", "off", "len", "prot"), "Unmap": ("r", "off", "len"),
              "CodeWrite": ("r", "lo", "hi"), "Api": ("f",), "Start": (), "Finish": (), "Reset": ()}


def raw_key(sy, e):
    f, fn = sy.site(e)
    kind = RAW_KIND.get(e["e"]) or e.get("f", "other")
    return "%s:raw_%s:%s" % (f, kind, fn)


def leak_key(sy, e):
    f, fn = sy.site(e)
    return "leak:%s:%s" % (f, fn)


def normalize(x, sy, known):
    """Events of execution x -> list of (tlc_event, original_index).  `known(key)` says whether a finding key is
    listed (or was force-repaired); only such events are rewritten.  Returns (tlc_events, hits) where hits maps
    key -> [count, sample event]."""
    hits = {}
    out = []
    size = {}        # id -> true size of blocks python believes live (only used to rewrite known RawRealloc)
    alloc_ev = {}    # id -> allocating event
    lastid = 0

    def hit(key, e):
        h = hits.setdefault(key, [0, e])
        h[0] += 1

    for idx, e in enumerate(x.events):
        k = e["e"]
        if k in ("Note", "Abort"):
            continue
        if k in ("Malloc", "Calloc", "Realloc") or (k in ("RawMalloc", "RawCalloc", "RawRealloc")):
            if e["id"] <= lastid:
                raise MachineryError("harness produced non-increasing block id %s in %s" % (e["id"], x.trace))
            lastid = e["id"]
        if k.startswith("Raw"):
            key = raw_key(sy, e)
            if known(key):
                hit(key, e)
                if k in ("RawMalloc", "RawCalloc"):
                    size[e["id"]] = e["size"]
                    alloc_ev[e["id"]] = e
                    out.append(({"e": "Malloc", "id": e["id"], "size": e["size"]}, idx))
                elif k == "RawFree":
                    if e["owner"] in ("user", "libc", "dead"):
                        size.pop(e["id"], None)
                        out.append(({"e": "Free", "id": e["id"]}, idx))
                    # owner none: free (NULL) or a pointer produced inside libc: nothing in the ledger
                elif k == "RawRealloc":
                    if e["owner"] == "none":
                        out.append(({"e": "Malloc", "id": e["id"], "size": e["size"]}, idx))
                    else:
                        out.append(({"e": "Realloc", "old": e["old"], "osz": size.get(e["old"], -1), "nsz": e["size"],
                                     "id": e["id"]}, idx))
                        size.pop(e["old"], None)
                    size[e["id"]] = e["size"]
                    alloc_ev[e["id"]] = e
                # RawMmap / RawMunmap / RawMprotect / RawOther: no ledger effect
                continue
            out.append(({"e": k, "id": e.get("id", 0)}, idx))
            continue
        if k == "Malloc":
            size[e["id"]] = e["size"]
            alloc_ev[e["id"]] = e
        elif k == "Calloc":
            if e["num"] * e["esz"] >= 2 ** 31:
                raise MachineryError("calloc of %d bytes does not fit TLC's integers" % (e["num"] * e["esz"]))
            size[e["id"]] = e["num"] * e["esz"]
            alloc_ev[e["id"]] = e
        elif k == "Realloc":
            size.pop(e["old"], None)
            size[e["id"]] = e["nsz"]
            alloc_ev[e["id"]] = e
        elif k == "Free":
            size.pop(e["id"], None)
        elif k == "Finish":
            # known leaks: give the block back just before Finish (what the fixed library would do)
            for bid in sorted(size):
                key = leak_key(sy, alloc_ev[bid])
                if known(key):
                    hit(key, alloc_ev[bid])
                    out.append(({"e": "Free", "id": bid}, idx))
        if k in TLC_FIELDS:
            t = {"e": k}
            for f in TLC_FIELDS[k]:
                t[f] = e[f]
            out.append((t, idx))
        else:
            t = {"e": k}
            for f in ("id", "r"):
                if f in e:
                    t[f] = e[f]
            out.append((t, idx))
    for t, _ in out:
        for v in t.values():
            if isinstance(v, int) and not (-2 ** 31 < v < 2 ** 31):
                raise MachineryError("value %s does not fit TLC's integers in %s" % (v, x.trace))
    return out, hits


def shard(tev):
    """Split the TLC events of one execution into per-block-range shards (lists of (event, idx))."""
    if len(tev) <= SHARD_IF_OVER:
        return [tev]
    root, cnt = {}, collections.Counter()
    for t, _ in tev:
        k = t["e"]
        if k in ("Malloc", "Calloc"):
            root[t["id"]] = t["id"]
        elif k == "Realloc":
            root[t["id"]] = root.get(t["old"], t["id"]) if t["old"] else t["id"]

    def root_of(t):
        k = t["e"]
        if k in ("Malloc", "Calloc", "Realloc"):
            return root[t["id"]]
        if k == "Free" or k not in TLC_FIELDS:      # Free, and kinds without a transition that name a block
            return root.get(t.get("id"))
        return None
    for t, _ in tev:
        r = root_of(t)
        if r is not None:
            cnt[r] += 1
    nshards = max(1, (sum(cnt.values()) + SHARD_BLOCK_EVENTS - 1) // SHARD_BLOCK_EVENTS)
    per = sum(cnt.values()) / nshards
    which, acc, s = {}, 0, 0
    for r in sorted(cnt):
        which[r] = s
        acc += cnt[r]
        if acc >= per * (s + 1) and s < nshards - 1:
            s += 1
    shards = [[] for _ in range(nshards)]
    for t, i in tev:
        r = root_of(t)
        if r is not None:
            shards[which[r]].append((t, i))
        elif t["e"] in ("Start", "Finish", "Reset"):
            for sh in shards:
                sh.append((t, i))
        else:
            shards[0].append((t, i))      # Api markers, code events, Free(NULL), events without a ledger id
    return shards


# ------------------------------------------------------------------ TLC

class Unit:
    """A shard of an execution as it is placed in a validated file."""

    def __init__(self, x, events, si, ns):
        self.x, self.events, self.si, self.ns = x, events, si, ns


def tlc_validate(path, workers=1):
    r = run_tlc("TraceMIRAlloc", "TraceMIRAlloc.cfg", workers=workers, env={"TRACE": path}, heap="1500m", timeout=900)
    post_false = "Postcondition TraceAccepted" in r.out and "is false" in r.out
    if not (r.rc == 0 or (r.rc == 10 and post_false)) or len(r.outs) != 1:
        tail = "\n".join(l for l in r.out.splitlines() if '"OUT' not in l)[-2500:]
        raise MachineryError("TLC failed on trace %s (rc=%s):\n%s" % (path, r.rc, tail))
    o = r.outs[0]
    if (o["matched"] == o["total"]) != (r.rc == 0):
        raise MachineryError("TLC verdict inconsistent on %s: %s rc=%s" % (path, o, r.rc))
    return o["matched"], o["total"], r


def write_file(units, path):
    n = 0
    with open(path, "w") as f:
        for u in units:
            for t, _ in u.events:
                f.write(json.dumps(t, separators=(",", ":")))
                f.write("\n")
                n += 1
    return n


def pack(units):
    files, cur, n = [], [], 0
    for u in units:
        if cur and n + len(u.events) > MAX_FILE_EVENTS:
            files.append(cur)
            cur, n = [], 0
        cur.append(u)
        n += len(u.events)
    if cur:
        files.append(cur)
    return files


class Validator:
    def __init__(self, ck, symb, exes=None):
        self.ck, self.symb = ck, symb     # symb: variant -> Symb
        self.exes = exes                  # variant -> harness executable: lets a failing history be run again
        self.rerun_done = {}              # (history, variant) -> keys its second recording is rejected for
        self.states = self.transitions = 0
        self.events_validated = 0
        self.tlc_runs = 0
        self.tlc_wall = 0.0
        self.rejections = []              # (exec, key, text, event)
        self.nfile = 0
        self.known_rewrites = collections.Counter()
        self.confirmed = set()
        self.cur_file, self.cur_matched = None, 0
        self.forced = set()               # keys already reported in this run: repaired everywhere to look behind them
        self.key_execs = collections.defaultdict(set)
        self.key_events = collections.Counter()

    def known_fn(self, x=None):
        return lambda key: self.ck.findings.is_known(PROP, key) or key in self.forced

    def units_of(self, x):
        tev, hits = normalize(x, self.symb[x.variant], self.known_fn(x))
        for key, (n, e) in hits.items():
            self.key_execs[key].add((x.history, x.variant))
            if self.ck.findings.is_known(PROP, key):
                self.known_rewrites[key] += n
                if key not in self.ck.known_hits:
                    self.ck.violation(key, "", None)      # records the KNOWN-FINDING hit, writes nothing
        x.tev = tev                       # exactly what TLC sees (diagnosis replays this, not a later rewriting)
        sh = shard(tev)
        if not x.complete:
            # cut short by a fault: every shard is a prefix; {"e":"Cut"} lets the next execution start afresh
            # (the shard holding the fault event is rejected at that event before the Cut is reached)
            for s in sh:
                if s:
                    s.append(({"e": "Cut"}, s[-1][1]))
        return [Unit(x, s, i, len(sh)) for i, s in enumerate(sh) if s]

    def run_files(self, files):
        """files: list of unit lists.  Returns list of (units, matched) for rejected files."""
        os.makedirs(os.path.join(WORK, "tlc"), exist_ok=True)
        jobs = []
        for units in files:
            self.nfile += 1
            p = os.path.join(WORK, "tlc", "f%05d.ndjson" % self.nfile)
            write_file(units, p)
            jobs.append((units, p))
        rej = []
        with ThreadPoolExecutor(max_workers=njvms()) as ex:
            for (units, p), (m, tot, r) in zip(jobs, ex.map(lambda j: tlc_validate(j[1]), jobs)):
                self.tlc_runs += 1
                self.tlc_wall += r.wall
                self.states += r.distinct
                self.transitions += r.states
                self.events_validated += m
                if m != tot:
                    rej.append((units, m, p))
                else:
                    os.unlink(p)
        return rej

    def validate(self, execs, max_rounds=3):
        """Validate executions; diagnose rejections; repair reported keys and look behind them."""
        pending = list(execs)
        rounds = 0
        while pending and rounds < max_rounds:
            rounds += 1
            units = []
            for x in pending:
                units += self.units_of(x)
            rej = self.run_files(pack(units))
            again = []
            seen = set()
            for ulist, matched, path in rej:
                # locate the unit holding event number `matched` (0-based) of the file
                pos = 0
                for ui, u in enumerate(ulist):
                    if matched < pos + len(u.events):
                        break
                    pos += len(u.events)
                else:
                    raise MachineryError("rejected position outside file " + path)
                t, idx = u.events[matched - pos]
                repaired = self.diagnose(u, t, idx, path, matched)
                # units after the rejected one were not looked at; executions are re-validated whole
                for v in ulist[ui + 1:]:
                    if id(v.x) not in seen and v.x is not u.x:
                        seen.add(id(v.x))
                        again.append(v.x)
                if repaired and id(u.x) not in seen:
                    seen.add(id(u.x))
                    again.append(u.x)
            pending = again
        if pending:
            log("  note: %d executions not re-validated after %d repair rounds" % (len(pending), max_rounds))

    # -------------------------------------------------------------- diagnosis of a rejection
    def report(self, x, key, text, ev, extra=None):
        self.rejections.append((x, key, text, ev))
        self.key_execs[key].add((x.history, x.variant))
        if key in self.forced or any(k == key for k, _, _ in self.ck.violations):
            return                      # one report per key and run
        if not self.ck.findings.is_known(PROP, key) and self.cur_file not in self.confirmed:
            # a rejection is reported only if a second TLC run on the same file stops at the same event
            m2, tot2, _ = tlc_validate(self.cur_file)
            if m2 != self.cur_matched:
                raise MachineryError("TLC rejected %s at event %d, then at %d" % (self.cur_file, self.cur_matched + 1, m2 + 1))
            self.confirmed.add(self.cur_file)
        if not self.ck.findings.is_known(PROP, key) and self.exes:
            # soundness rule 5: the failing history is recorded and validated a second time
            hv = (x.history, x.variant)
            if hv not in self.rerun_done:
                self.rerun_done[hv] = self.rerun(x)
            if key not in self.rerun_done[hv]:
                log("  note: %s in %s [%s] did not repeat when the history was run again; not reported" % (key, x.history, x.variant))
                return
        case = {"history": x.history, "variant": x.variant, "event": ev, "key": key}
        if extra:
            case.update(extra)
        self.ck.violation(key, "%s [%s] %s" % (x.history, x.variant, text), case)

    def rerun(self, x):
        res = record(self.exes[x.variant], [x.history], "rerun-%s-%d" % (x.variant, len(self.rerun_done)))
        xs = []
        for path, hs, crash in res:
            xs += [y for y in split_trace(path, hs, x.variant) if not y.aborted]
        v2 = Validator(QuietCheck(self.ck.findings), self.symb)
        v2.forced = set(self.forced)
        saved = self.nfile
        v2.nfile = 90000 + 100 * len(self.rerun_done)
        v2.validate(xs)
        self.tlc_runs += v2.tlc_runs
        return set(k for _, k, _, _ in v2.rejections)

    def diagnose(self, u, t, idx, path, matched):
        """Names the finding(s) behind the rejected event.  Returns True if the execution can be repaired
        (the reported keys are forced) and validated again to look for further problems."""
        x, sy = u.x, self.symb[u.x.variant]
        e = x.events[idx]
        k = t["e"]
        self.cur_file, self.cur_matched = path, matched
        where = "rejected at event %d of %s (line %d of %s)" % (matched + 1, os.path.basename(path), x.first_line + idx,
                                                             os.path.basename(x.trace))
        if k.startswith("Raw"):
            # every raw call of this execution that is not listed: each is outside the spec
            cnt = collections.OrderedDict()
            for e2 in x.events:
                if e2["e"].startswith("Raw"):
                    key = raw_key(sy, e2)
                    if not self.known_fn(x)(key):
                        c = cnt.setdefault(key, [0, e2])
                        c[0] += 1
            for key, (n, e2) in cnt.items():
                own = e2.get("owner")
                what = {"user": "a block obtained from the user's allocator is released with libc free()",
                        "libc": "a block obtained with libc malloc is released with libc free()",
                        "none": "libc free() of a pointer unknown to the ledger", "dead": "libc free() of a released block"}.get(own, "")
                self.report(x, key, "library code calls libc %s directly, %d time(s) in this execution (%s) %s; %s"
                            % (e2["e"][3:].lower(), n, sy.chain(e2), what, where), e2)
                self.forced.add(key)
            return True
        if k == "Finish":
            live, code = self.ledger_at(x, idx)
            for bid, ae in sorted(live.items()):
                key = leak_key(sy, ae)
                if not self.known_fn(x)(key):
                    self.report(x, key, "block %d (%s bytes) allocated in %s is still held after MIR_finish; %s"
                                % (bid, ae.get("size", ae.get("nsz", "?")), sy.chain(ae), where), ae)
                    self.forced.add(key)
            for r, me in sorted(code.items()):
                self.report(x, "leak_code:%s:%s" % sy.site(me), "code region %d (%d bytes) is still mapped after MIR_finish; %s"
                            % (r, me["len"], where), me)
            if not live and not code:
                self.report(x, "finish:rejected", "Finish rejected; " + where, e)
                return False
            return not code
        if k == "Api":
            raise MachineryError("API marker %r is not in the alphabet of TraceMIRAlloc (ApiCalls) or arrives outside an "
                                 "execution; %s" % (e.get("f"), where))
        site = "%s:%s" % sy.site(e)
        chain = sy.chain(e)
        if k == "Realloc":
            live, _ = self.ledger_at(x, idx)
            if e["old"] in live:
                ae = live[e["old"]]
                true = ae["size"] if "size" in ae else ae["nsz"] if "nsz" in ae else ae["num"] * ae["esz"]
                self.report(x, "realloc_old_size:" + site, "realloc reports old size %d, the block (id %d) has %d bytes (%s); %s"
                            % (e["osz"], e["old"], true, chain, where), e)
            else:
                self.report(x, "realloc_dead:" + site, "realloc of a block that is not live (id %d) (%s); %s" % (e["old"], chain, where), e)
        elif k == "Free":
            self.report(x, "double_free:" + site, "free of a block that is not live (id %d) (%s); %s" % (e["id"], chain, where), e)
        elif k in ("ForeignFree", "ForeignRealloc"):
            self.report(x, "foreign_free:" + site, "the user's allocator is handed a pointer it did not return (%s); %s" % (chain, where), e)
        elif k in ("WriteFault", "AccessFault"):
            self.report(x, "code_fault:%s:%s" % (e.get("acc"), site),
                        "%s access to code region %d offset %d without the required mem_protect (%s, region %s); %s"
                        % ({"w": "write", "x": "execute", "r": "read"}.get(e.get("acc"), "?"), e["r"], e["off"], chain,
                           "mapped" if e.get("mapped") else "already unmapped", where), e)
        elif k == "UseAfterFree":
            self.report(x, "use_after_free:block", "released block %d was written at offset %d; %s" % (e["id"], e["off"], where), e)
        elif k in ("Protect", "Unmap", "MemMap", "CodeWrite"):
            self.report(x, "code:%s:%s" % (k.lower(), site), "%s %s is not allowed in the ledger state (%s); %s"
                        % (k, json.dumps({f: e[f] for f in e if f not in ("e", "pc")}), chain, where), e)
        else:
            self.report(x, "rejected:%s:%s" % (k, site), "event has no transition (%s): %s; %s" % (chain, json.dumps(e), where), e)
        return False

    def ledger_at(self, x, idx):
        """Python replay of the ledger TLC saw, up to original event idx -- diagnostics only."""
        live, code = {}, {}
        for t, i in x.tev:
            if i > idx or (i == idx and not (t["e"] == "Free" and x.events[i]["e"] == "Finish")):
                break
            k = t["e"]
            src = x.events[i]
            if k in ("Malloc", "Calloc"):
                live[t["id"]] = src
            elif k == "Realloc":
                live.pop(t["old"], None)
                live[t["id"]] = src
            elif k == "Free":
                live.pop(t["id"], None)
            elif k == "MemMap":
                code[t["r"]] = src
            elif k == "Unmap":
                code.pop(t["r"], None)
        return live, code


# ------------------------------------------------------------------ spec model checking

def model_check(ck, tier):
    cfgs = ["MIRAlloc_mc.cfg"] + (["MIRAlloc_t.cfg"] if tier == "thorough" else [])
    st = tr = 0
    for cfg in cfgs:
        r = run_tlc("MIRAlloc", cfg, workers=4 if DEV_JVMS else min(8, vlib.NCPU), heap="4g", timeout=1200)
        if r.rc != 0:
            tail = "\n".join(r.out.splitlines()[-30:])
            raise MachineryError("MIRAlloc %s: the contract model violates its own ledger invariants (rc=%s %s)\n%s"
                                 % (cfg, r.rc, r.violation, tail))
        log("  MIRAlloc %s: %d distinct states, %d transitions, invariants TypeOK LedgerInv, properties NoDoubleFree WriteNeedsWindow hold (%.0fs)"
            % (cfg, r.distinct, r.states, r.wall))
        st += r.distinct
        tr += r.states
    return st, tr


# ------------------------------------------------------------------ run

def record_all(variants, H, tag):
    """Record histories (a list, or a dict variant -> list) with every variant, in parallel batches.
    Returns (execs, crashes, symb, exes)."""
    if not isinstance(H, dict):
        H = {v: H for v in variants}
    exes = {}
    with ThreadPoolExecutor(max_workers=len(variants)) as ex:
        for v, exe in zip(variants, ex.map(build, variants)):
            exes[v] = exe
    symb = {v: Symb(exes[v]) for v in variants}
    shutil.rmtree(os.path.join(WORK, "traces"), ignore_errors=True)
    shutil.rmtree(os.path.join(WORK, "tlc"), ignore_errors=True)
    jobs = []
    for v in variants:
        nb = max(1, min(8, len(H[v]) // 6))
        for b in range(nb):
            part = H[v][b::nb]
            if part:
                jobs.append((v, part, "%s-%s-b%d" % (tag, v, b)))
    execs, crashes = [], []
    with ThreadPoolExecutor(max_workers=4 if DEV_JVMS else 8) as ex:
        for (v, part, t), res in zip(jobs, ex.map(lambda j: record(exes[j[0]], j[1], j[2]), jobs)):
            for path, hs, crash in res:
                xs = split_trace(path, hs, v)
                execs += xs
                if crash:
                    crash["variant"] = v
                    crash["trace"] = path
                    crashes.append(crash)
                    if xs and not xs[-1].complete:
                        xs[-1].crash = crash
                        ce = [e for e in xs[-1].events if e["e"] == "Crash"]
                        if ce:
                            crash["poison"] = ce[-1].get("poison", 0)
                            crash["crash_site"] = "%s:%s" % symb[v].site(ce[-1])
                            crash["crash_pc"] = " in " + symb[v].chain(ce[-1])
    return execs, crashes, symb, exes


# sanitizer reports that concern this property (a released / foreign block is touched or released again);
# anything else ASan finds (buffer overflows ...) is a defect of another property: noted, not a C17 violation
ASAN_IN_SCOPE = ("heap-use-after-free", "use-after-poison", "double-free", "attempting", "alloc-dealloc-mismatch", "bad-free")


def crash_key(c):
    """(key, in_scope) for a harness process that died; key None = the trace itself carries the fault event."""
    rc = c["rc"]
    if rc == 41:
        return None, True    # a code-page fault: the trace ends with WriteFault/AccessFault, TLC rejects it
    err = c["stderr"] or ""
    m = re.search(r"AddressSanitizer: ([a-z-]+)", err)
    if m:
        sm = re.search(r"SUMMARY: AddressSanitizer: (\S+) \S*?([^/\s]+:\d+)\S* in (\S+)", err)
        kind = m.group(1)
        # the innermost frame of the access that lies in the library's sources (the access itself is often inside
        # an interceptor: fprintf, memcpy, strlen ...)
        fn = loc = None
        for fm in re.finditer(r"^\s+#\d+ 0x[0-9a-f]+ in (\S+) (\S+?):(\d+)", err.split("\n\n", 1)[0], re.M):
            if os.path.abspath(fm.group(2)).startswith(os.path.abspath(vlib.REPO) + os.sep):
                if fn is None or Symb.GENERIC.match(fn):      # prefer the caller of a container helper
                    fn, loc = fm.group(1), "%s:%s" % (os.path.basename(fm.group(2)), fm.group(3))
                if not Symb.GENERIC.match(fn):
                    break
        if fn is None and sm:
            fn, loc = sm.group(3), sm.group(2)
        key = "asan:%s:%s" % (kind, fn or "?")
        c["summary"] = "%s at %s in %s" % (kind, loc, fn) if fn else kind
        # an access beyond the bounds of a block that came from the user's allocator (its allocation stack goes
        # through the ledger) is a misuse of that block; overflows of stack / global / libc objects are not ours
        alloc_stack = err.split("allocated by thread", 1)[1][:1500] if "allocated by thread" in err else ""
        user_block = kind == "heap-buffer-overflow" and re.search(r"\bin (l_malloc|l_calloc|l_realloc|block_new)\b", alloc_stack)
        if fn in (None, "eval"):
            # the access is made by the MIR PROGRAM (interpreter executing its load/store, or generated code): a
            # program that leaves its data sections is a code-generation matter, not the library's use of a block
            user_block = None
        return key, kind in ASAN_IN_SCOPE or bool(user_block)
    # A crash of the uninstrumented build cannot be attributed: a wild read that lands in a quarantined block and a
    # read through a stale pointer both end in a dereference of the 0xDD poison.  The asan variant runs the same
    # history and tells them apart (use-after-poison / heap-use-after-free vs. heap-buffer-overflow), so it alone
    # decides; the crash is noted.
    c["summary"] = "crash rc=%s%s%s" % (rc, c.get("crash_pc", ""), " (dereference of 0xDD poison)" if c.get("poison") else "")
    return "crash:rc%s" % rc, False


def run(tier, hist_override=None, variants=None):
    ck = Check(PROP, tier, "model_checking")
    seed = vlib.seed()
    t0 = time.time()
    variants = variants or ["plain", "asan"]
    H = {v: (hist_override or histories(tier, seed, v)) for v in variants}
    with ThreadPoolExecutor(max_workers=1) as ex:      # the contract model is checked while the histories run
        mc = ex.submit(model_check, ck, tier)
        execs, crashes, symb, exes = record_all(variants, H, "run")
        t_rec = time.time() - t0
        mst, mtr = mc.result()
    good = [x for x in execs if not x.aborted]
    discarded = [x for x in execs if x.aborted]
    why = collections.Counter(next(e["why"] for e in x.events if e["e"] == "Abort")[:60] for x in discarded)
    oos = collections.Counter()
    for c in crashes:
        key, in_scope = crash_key(c)
        if key is None:
            continue
        if not in_scope:
            oos[c["summary"]] += 1
            continue
        if any(k == key for k, _, _ in ck.violations):
            continue
        if ck.findings.is_known(PROP, key):
            ck.violation(key, "", None)     # records the KNOWN-FINDING hit
            continue
        # confirm once (rule 5) before reporting
        again = record(exes[c["variant"]], [c["history"]], "confirm-%s" % c["variant"])
        if again[0][2] is None:
            log("  note: crash of %s [%s] did not repeat; not reported" % (c["history"], c["variant"]))
            continue
        ck.violation(key, "%s [%s]: the harness process died (rc=%s) while running this error-free history under the "
                     "checking allocators: %s" % (c["history"], c["variant"], c["rc"], (c["stderr"] or "")[:1500]),
                     {"history": c["history"], "variant": c["variant"], "key": key})
    for sm, n in sorted(oos.items()):
        log("  note: %d execution(s) ended in a crash / sanitizer report that is outside this property "
            "(not counted, execution discarded): %s" % (n, sm))
    # an execution cut short by a crash is validated only if the trace carries the fault (rc 41)
    good = [x for x in good if x.crash is None or x.crash["rc"] == 41]
    V = Validator(ck, symb, exes)
    V.validate(good)
    nev = sum(len(x.events) for x in good)
    ck.setc("states", mst + V.states)
    ck.setc("transitions", mtr + V.transitions)
    ck.setc("model_states", mst)
    ck.setc("traces_validated_against_impl", len(good))
    ck.setc("histories", sum(len(h) for h in H.values()))
    ck.setc("variants", variants)
    ck.setc("executions_recorded", len(execs))
    ck.setc("discarded_not_error_free", len(discarded))
    ck.setc("discard_reasons", dict(why))
    ck.setc("crashes_outside_property", dict(oos))
    ck.setc("events_recorded", nev)
    ck.setc("events_matched_by_tlc", V.events_validated)
    ck.setc("tlc_runs", V.tlc_runs)
    ck.setc("tlc_events_per_s_per_jvm", int(V.events_validated / V.tlc_wall) if V.tlc_wall else 0)
    ck.setc("rejections", len(V.rejections))
    ck.setc("known_finding_events_rewritten", dict(V.known_rewrites))
    kinds = collections.Counter(e["e"] for x in good for e in x.events)
    ck.setc("event_kinds", dict(kinds))
    ck.setc("distinct_nontrivial", len(set((x.history, x.variant) for x in good)))
    for x in good[:2] + good[len(good) // 2:len(good) // 2 + 1]:
        ck.sample({"history": x.history, "variant": x.variant, "events": len(x.events),
                   "excerpt": x.events[:6] + x.events[len(x.events) // 2:len(x.events) // 2 + 4] + x.events[-4:]}, maxn=3)
    ck.setc("rule", "each execution = one API history (source x interface x optimisation level x output x repetition) run on the "
                    "real library with checking allocators; its complete allocator-call trace is accepted by TLC iff it is a "
                    "behaviour of MIRAlloc; distinct = distinct (history, build variant) pairs")
    ck.setc("trusted_base", ["TLC", "harness/c17_ledger.c (event recording)", "objcopy symbol renaming", "llvm-symbolizer / addr2line (function names in finding keys and reports only)"])
    ck.assumptions += ["single-threaded histories on x86-64 Linux; page size 4096",
                       "only error-free histories: an execution in which the MIR error callback fired or c2mir_compile "
                       "reported errors is discarded (counted in discarded_not_error_free)",
                       "reads of released blocks are detected only in the asan variant (poisoned quarantine); writes in both",
                       "raw libc calls are attributed by object file: mir.o, mir-gen.o, c2mir.o have their undefined "
                       "malloc/calloc/realloc/free/mmap/munmap/mprotect/... renamed to __wrap_*"]
    log("  %d histories (%s): %d executions (%d discarded as not error-free), %d events recorded in %.0fs incl. build; "
        "TLC matched %d events in %d runs (%.0f events/s per JVM), %d rejections"
        % (sum(len(h) for h in H.values()), ", ".join("%s %d" % (v, len(H[v])) for v in variants), len(execs), len(discarded), nev, t_rec, V.events_validated, V.tlc_runs,
           V.events_validated / V.tlc_wall if V.tlc_wall else 0, len(V.rejections)))
    if not good and not ck.violations:
        raise MachineryError("no execution was recorded")
    return ck.finish()


# ------------------------------------------------------------------ replay / selftest

class QuietCheck:
    """What Validator needs from vlib.Check, without touching out/replay or evidence/."""

    def __init__(self, findings=None):
        self.findings = findings or vlib.Findings()
        self.known_hits, self.violations = {}, []

    def violation(self, key, text, case):
        if self.findings.is_known(PROP, key):
            self.known_hits.setdefault(key, self.findings.known[(PROP, key)])
            return False
        self.violations.append((key, text, None))
        return True


def replay(path):
    d = json.load(open(path))
    c = d["case"]
    key = c.get("key") or d.get("key")
    ck = QuietCheck()
    execs, crashes, symb, exes = record_all([c["variant"]], [c["history"]], "replay")
    found = set()
    for cr in crashes:
        k, in_scope = crash_key(cr)
        if k and in_scope:
            print("replay: harness died: %s rc=%s %s" % (k, cr["rc"], (cr["stderr"] or "")[:600]))
            found.add(k)
    V = Validator(ck, symb)
    V.validate([x for x in execs if not x.aborted and (x.crash is None or x.crash["rc"] == 41)])
    for x, k, text, ev in V.rejections:
        if k not in found:
            print("replay: %s%s: %s" % ("(known finding) " if ck.findings.is_known(PROP, k) else "", k, text[:500]))
        found.add(k)
    if key in found and not ck.findings.is_known(PROP, key):
        print("replay: %s still fails" % key)
        print("VIOLATION property=%s replay=%s" % (PROP, path))
        return 1
    print("replay: %s does not occur any more (%d events matched by TLC%s)"
          % (key, V.events_validated, "; other keys seen: " + ", ".join(sorted(found)) if found else ""))
    return 0


def selftest():
    """Binding demonstration: TLC accepts recorded traces and rejects each of them after one edit."""
    m = os.path.join(vlib.REPO, "mir-tests", "test9.mir")
    execs, crashes, symb, exes = record_all(["plain"], [hist("scan:" + m, "lazy", 2, out=1), hist("api:sieve", "gen", 1)], "selftest")
    if crashes or any(x.aborted for x in execs):
        raise MachineryError("selftest histories did not complete")
    os.makedirs(os.path.join(WORK, "tlc"), exist_ok=True)
    base = []
    for x in execs:
        tev, _ = normalize(x, symb["plain"], lambda k: False)
        base += [t for t, _ in tev]

    def verdict(evs, name):
        p = os.path.join(WORK, "tlc", "selftest-%s.ndjson" % name)
        with open(p, "w") as f:
            for t in evs:
                f.write(json.dumps(t, separators=(",", ":")) + "\n")
        m_, tot, _ = tlc_validate(p)
        return m_, tot

    def first(pred, start=0):
        return next(i for i in range(start, len(base)) if pred(base[i]))

    bad = 0
    m_, tot = verdict(base, "orig")
    print("selftest: recorded trace (%d events): %s" % (tot, "accepted" if m_ == tot else "REJECTED at %d" % (m_ + 1)))
    bad += m_ != tot
    fin = first(lambda t: t["e"] == "Finish")
    # 1. drop one Free: the block is still live at Finish
    i = first(lambda t: t["e"] == "Free" and t["id"] != 0, 40)
    exp = fin - 1
    m_, tot = verdict(base[:i] + base[i + 1:], "dropfree")
    print("selftest: Free of block %d dropped: %s (expected: Finish, event %d, rejected)"
          % (base[i]["id"], "rejected at event %d" % (m_ + 1) if m_ != tot else "ACCEPTED", exp + 1))
    bad += not (m_ == exp)
    # 2. a realloc reports a wrong old size
    i = first(lambda t: t["e"] == "Realloc")
    mut = list(base)
    mut[i] = dict(base[i], osz=base[i]["osz"] + 8)
    m_, tot = verdict(mut, "oldsize")
    print("selftest: Realloc old size %d -> %d: %s (expected: event %d rejected)"
          % (base[i]["osz"], mut[i]["osz"], "rejected at event %d" % (m_ + 1) if m_ != tot else "ACCEPTED", i + 1))
    bad += not (m_ == i)
    # 3. one Free duplicated (double free)
    i = first(lambda t: t["e"] == "Free" and t["id"] != 0, 60)
    m_, tot = verdict(base[:i + 1] + [base[i]] + base[i + 1:], "doublefree")
    print("selftest: Free of block %d repeated: %s (expected: event %d rejected)"
          % (base[i]["id"], "rejected at event %d" % (m_ + 1) if m_ != tot else "ACCEPTED", i + 2))
    bad += not (m_ == i + 1)
    # 4. a raw libc call
    m_, tot = verdict(base[:50] + [{"e": "RawMalloc", "id": 0}] + base[50:], "raw")
    print("selftest: RawMalloc inserted: %s (expected: event 51 rejected)" % ("rejected at event %d" % (m_ + 1) if m_ != tot else "ACCEPTED"))
    bad += not (m_ == 50)
    # 5. a code write after the window was closed
    i = first(lambda t: t["e"] == "CodeWrite")
    j = first(lambda t: t["e"] == "Protect" and t["prot"] == "X", i)
    mut = base[:i] + base[i + 1:j + 1] + [base[i]] + base[j + 1:]
    m_, tot = verdict(mut, "latewrite")
    print("selftest: CodeWrite moved behind Protect X: %s (expected: event %d rejected)"
          % ("rejected at event %d" % (m_ + 1) if m_ != tot else "ACCEPTED", j + 1))
    bad += not (m_ == j)
    # 6. unmap dropped: region still mapped at Finish
    i = first(lambda t: t["e"] == "Unmap")
    m_, tot = verdict(base[:i] + base[i + 1:], "dropunmap")
    print("selftest: Unmap dropped: %s (expected: Finish, event %d, rejected)"
          % ("rejected at event %d" % (m_ + 1) if m_ != tot else "ACCEPTED", fin))
    bad += not (m_ == fin - 1)
    # 7. unmap with a wrong length
    mut = list(base)
    mut[i] = dict(base[i], len=base[i]["len"] - 4096)
    m_, tot = verdict(mut, "unmaplen")
    print("selftest: Unmap length %d -> %d: %s (expected: event %d rejected)"
          % (base[i]["len"], mut[i]["len"], "rejected at event %d" % (m_ + 1) if m_ != tot else "ACCEPTED", i + 1))
    bad += not (m_ == i)
    print("selftest: %s" % ("FAILED" if bad else "ok: every edit was rejected at the expected event"))
    return 1 if bad else 0
