"""C07: C programs compiled by c2mir behave as under the reference C compiler (the fragment spec/CExpr.tla,
spec/CStmt.tla and spec/CInit.tla decide).

Direction A.  TLC enumerates (BFS) / samples (-simulate)
  expr  typed integer expression trees with the result TYPE and VALUE computed by spec/CExpr.tla (C11 6.3.1 ranks,
        promotions, usual arithmetic conversions, 6.4.4.1 literal types, 6.5 operators, compound assignment, ++/--,
        bit-field operands and lvalues); trees whose evaluation is undefined are dropped by the spec;
  stmt  statement trees with the sequence of ev(k) calls and the return value computed by the continuation-stack
        semantics of spec/CStmt.tla;
  init  brace-enclosed initialiser lists for one aggregate (designators, nested lists, strings, bit-fields, partial
        lists, overriding) with the member values computed by spec/CInit.tla;
  bytes objects of every integer/floating scalar type whose bytes are stored / read through char, signed char and
        unsigned char pointers between stores and reloads of the object (spec/CBytes.tla: C11 6.2.6.1, 6.5p7), in four
        placements of the object (local, file-scope static, struct member, through pointer parameters).
Binding: cases are rendered into batch C files.  Every expression appears (C) where C requires an integer constant
expression (enum value, static initialiser, _Static_assert, case label, array bound) so that c2mir's compile-time
evaluation is used, (R) over file-scope volatile objects so that run-time code is used and (L) over plain locals
(registers: the MIR optimiser may fold); the program prints type (_Generic), size and value.  An initialiser is used
for a static object, an automatic object, a compound literal, and the object is copied by assignment and by
passing/returning it by value; member values are printed.  Every file is compiled and run with gcc (reference) and
by c2m under each engine of the tier (`c2m [-O<n>] file.c -ei|-eg|-el|-eb`).
Two-oracle rule: VIOLATION iff spec == gcc and c2m (some engine) differs in a printed field, rejects the file,
crashes or does not terminate; spec != gcc is SPEC-DISAGREES (exit 0, counted).  A failing case is re-run (in a batch
of failing cases, alone if that batch fails as a whole) before it is reported.
"""
import collections, copy, hashlib, json, os, re, shutil, subprocess, sys, time
from concurrent.futures import ThreadPoolExecutor
import vlib
from vlib import Check, run_tlc, tlc_ok, MachineryError

PROP = "C07"
WORK = os.path.join(vlib.OUT, "c07")
BATCH = 200
NPAR = max(2, min(12, vlib.NCPU - 2))
RUN_TIMEOUT = 40          # expression files
STMT_TIMEOUT = 60         # statement files (a wrong compiler easily produces endless loops)
MAX_ISOLATE = 30          # time-outs isolated per run before the rest of a batch that times out is only counted

ENGINES = {
    # (name, options before the source file, execution option: everything after -e? is passed to the compiled program)
    "quick": [("ei", [], "-ei"), ("eg-O2", ["-O2"], "-eg")],
    "thorough": [("ei", [], "-ei"), ("eg-O0", ["-O0"], "-eg"), ("eg-O1", ["-O1"], "-eg"), ("eg-O2", ["-O2"], "-eg"),
                 ("eg-O3", ["-O3"], "-eg"), ("el", ["-O2"], "-el"), ("eb", ["-O2"], "-eb")],
}

# TLC jobs: (name, module, cfg, nparts, simulate walks or None, depth, env)
JOBS = {
    "quick": [
        ("e_un", "CExpr", "CExpr_un.cfg", 1, None, None, {}),        # depth <= 1: every unary operator and cast x full grid
        ("e_d1", "CExpr", "CExpr_mc.cfg", 2, None, None, {}),        # depth 1: every binary operator x every pair of types (grid g2)
        ("e_cond", "CExpr", "CExpr_cond.cfg", 1, None, None, {}),    # depth 1: ?: over 9 types
        ("e_lit", "CExpr", "CExpr_lit.cfg", 1, None, None, {}),      # literal types (6.4.4.1) under unary operators and casts
        ("e_d2", "CExpr", "CExpr_d2.cfg", 2, None, None, {}),        # depth 2, minimal parentheses
        ("e_asg", "CExpr", "CExpr_asg.cfg", 2, None, None, {}),      # = op= ++ -- on every lvalue type
        ("e_bf", "CExpr", "CExpr_bf.cfg", 1, None, None, {}),        # bit-field operands and lvalues
        ("e_sim", "CExpr", "CExpr_sim.cfg", 2, 3000, 40, {}),        # depth <= 3, full grid, constant-expression capable
        ("e_simrt", "CExpr", "CExpr_simrt.cfg", 2, 3000, 40, {}),    # depth <= 3 with assignments, ++/--, bit-fields
        ("i_2", "CInit", "CInit_mc.cfg", 1, None, None, {}),         # initialiser lists of <= 2 items for struct S
        ("b_all", "CBytes", "CBytes_mc.cfg", 1, None, None, {}),     # bytes of every scalar type accessed through character pointers
        ("d_3", "CDecl", "CDecl_mc.cfg", 1, None, None, {}),         # <= 3 file-scope declarations of one object (6.9.2)
        ("c_fp", "CCond", "CCond_mc.cfg", 1, None, None, {}),        # ?: with constant / run-time condition, mixed integer / floating arms
        ("a_cp", "CCopy", "CCopy_mc.cfg", 1, None, None, {}),        # assignment of 1..8-byte structs / unions through subscripts
        ("n_sc", "CScope", "CScope_mc.cfg", 1, None, None, {}),      # typedef names hidden by objects / parameters of inner scopes
        ("u_bi", "CBuiltin", "CBuiltin_mc.cfg", 2, None, None, {}),  # __builtin_{add,sub,mul}_overflow, __builtin_expect
        ("w_sw", "CSwitch", "CSwitch_mc.cfg", 1, None, None, {}),    # dense / sparse switches over every integer type
        ("l_el", "CElide", "CElide_mc.cfg", 1, None, None, {}),      # brace elision in initialisers of nested aggregates
        ("s_d2", "CStmt", "CStmt_mc.cfg", 2, None, None, {}),        # statement trees depth <= 2, <= 5 nodes
        ("s_sim", "CStmt", "CStmt_sim.cfg", 2, 4000, 60, {}),        # statement trees depth <= 3, <= 14 nodes
    ],
    "thorough": [
        ("e_un", "CExpr", "CExpr_un.cfg", 1, None, None, {}),
        ("e_d1", "CExpr", "CExpr_t.cfg", 6, None, None, {}),
        ("e_d1f", "CExpr", "CExpr_tf.cfg", 8, None, None, {}),
        ("e_cond", "CExpr", "CExpr_cond.cfg", 1, None, None, {}),
        ("e_lit", "CExpr", "CExpr_lit_t.cfg", 2, None, None, {}),
        ("e_d2", "CExpr", "CExpr_d2_t.cfg", 8, None, None, {}),
        ("e_asg", "CExpr", "CExpr_asg_t.cfg", 4, None, None, {}),
        ("e_bf", "CExpr", "CExpr_bf_t.cfg", 6, None, None, {}),
        ("e_sim", "CExpr", "CExpr_sim.cfg", 8, 60000, 40, {}),
        ("e_simrt", "CExpr", "CExpr_simrt.cfg", 8, 60000, 40, {}),
        ("i_3", "CInit", "CInit_t.cfg", 2, None, None, {}),
        ("b_all", "CBytes", "CBytes_mc.cfg", 1, None, None, {}),
        ("d_3", "CDecl", "CDecl_mc.cfg", 1, None, None, {}),
        ("c_fp", "CCond", "CCond_mc.cfg", 1, None, None, {}),
        ("a_cp", "CCopy", "CCopy_mc.cfg", 1, None, None, {}),
        ("n_sc", "CScope", "CScope_mc.cfg", 1, None, None, {}),
        ("u_bi", "CBuiltin", "CBuiltin_t.cfg", 4, None, None, {}),
        ("u_bif", "CBuiltin", "CBuiltin_tf.cfg", 4, None, None, {}),
        ("w_sw", "CSwitch", "CSwitch_mc.cfg", 1, None, None, {}),
        ("l_el", "CElide", "CElide_mc.cfg", 1, None, None, {}),
        ("s_d2", "CStmt", "CStmt_mc.cfg", 2, None, None, {}),
        ("s_d3", "CStmt", "CStmt_t.cfg", 8, None, None, {}),
        ("s_sim", "CStmt", "CStmt_sim.cfg", 8, 40000, 60, {}),
    ],
}
SELFTEST_JOBS = [("e_un", "CExpr", "CExpr_un.cfg", 1, None, None, {}), ("s_d2", "CStmt", "CStmt_mc.cfg", 1, None, None, {})]

TYPES = {  # code: (C name, size, signed, rank)
    "B": ("_Bool", 1, False, 0), "c": ("char", 1, True, 1), "sc": ("signed char", 1, True, 1), "uc": ("unsigned char", 1, False, 1),
    "s": ("short", 2, True, 2), "us": ("unsigned short", 2, False, 2), "i": ("int", 4, True, 3), "u": ("unsigned", 4, False, 3),
    "l": ("long", 8, True, 4), "ul": ("unsigned long", 8, False, 4), "ll": ("long long", 8, True, 5),
    "ull": ("unsigned long long", 8, False, 5)}
SUF = {"i": "", "u": "U", "l": "L", "ul": "UL", "ll": "LL", "ull": "ULL"}
M64 = (1 << 64) - 1

PRELUDE = """#include <stdio.h>
#include <string.h>
#include <stdarg.h>
#define TN(e) _Generic((e), _Bool:"B", char:"c", signed char:"sc", unsigned char:"uc", short:"s", unsigned short:"us", \\
  int:"i", unsigned:"u", long:"l", unsigned long:"ul", long long:"ll", unsigned long long:"ull", float:"f", double:"d", long double:"ld", default:"?")
#define U64(e) ((unsigned long long)(e))
enum en { E_0 = 0, E_1 = 1, E_M1 = -1, E_MAX = 0x7fffffff, E_MIN = -0x7fffffff - 1, E_31 = 31 };
"""


# ----------------------------------------------------------------------------------------------- c2m
def build_c2m():
    """c2m driver from the current working tree of REPO (kept in out/c07; vlib may prune its build dirs)."""
    os.makedirs(WORK, exist_ok=True)
    srcs = vlib.repo_sources()
    key = hashlib.sha256((vlib.tree_hash(srcs) + os.path.abspath(vlib.REPO)).encode()).hexdigest()[:12]
    exe = os.path.join(WORK, "c2m-" + key)
    if os.path.exists(exe):
        return exe
    for attempt in (0, 1):
        d, objs, cc, flags = vlib.build_lib("plain", units=("mir.c", "mir-gen.c", "c2mir/c2mir.c"))
        try:
            tmp = exe + ".tmp%d" % os.getpid()
            vlib.cc_link(cc, flags, [os.path.join(vlib.REPO, "c2mir", "c2mir-driver.c")], objs, tmp)
            os.replace(tmp, exe)
            break
        except MachineryError:
            if attempt:
                raise
    for old in os.listdir(WORK):
        p = os.path.join(WORK, old)
        if old.startswith("c2m-") and p != exe and time.time() - os.path.getmtime(p) > 3600:
            try:
                os.unlink(p)
            except OSError:
                pass
    return exe


# ----------------------------------------------------------------------------------------------- rendering: expressions
def lit_of(ty, v):
    """constant of exactly type ty and canonical 64-bit value v (same rule as LitOf in CExpr.tla)"""
    name, size, signed, rank = TYPES[ty]
    if rank < 3:
        return "((%s)%s)" % (name, lit_of("i", v))
    digits = 8 if size == 4 else 16
    if signed and v >> 63:
        return "(-0x%0*x%s - 1)" % (digits, (~v) & M64, SUF[ty])
    return "0x%0*x%s" % (digits, v & (M64 if size == 8 else 0xffffffff), SUF[ty])


def promoted(ty):
    return "i" if TYPES[ty][3] < 3 else ty


def fits_int(ty, v):
    sv = v - (1 << 64) if (TYPES[ty][2] and v >> 63) else v
    return -(1 << 31) <= sv < (1 << 31)


def decl_text(d, volatile):
    q = "volatile " if volatile else ""
    if d["k"] in ("v", "lv"):
        return "%s%s %s = %s;" % (q, TYPES[d["t"]][0], d["n"], d["i"])
    if d["k"] == "lvp":      # an object that is assigned through a pointer to it and then read directly
        return "%s%s %s = %s; %s%s%s *%s = &%s;" % (q, TYPES[d["t"]][0], d["n"], d["i"], "static " if d["n"].startswith("g") else "", q,
                                                   TYPES[d["t"]][0], re.sub(r"a(\d+)$", r"p\1", d["n"]), d["n"])
    base = {"B": "_Bool", "i": "signed int", "u": "unsigned"}[d["t"]]
    return "%sstruct { %s f : %d; } %s = { %s };" % (q, base, d["w"], d["n"], d["i"])


def finals(c):
    return [d for d in c["lv"] if d["k"] in ("lv", "lvbf", "lvp")]


def expr_expected(c):
    """lines the spec predicts: ctx -> list of fields"""
    ty, v = c["ty"], int(c["v"], 16)
    size = str(TYPES[ty][1])
    e = {}
    if c["ice"]:
        sv = v - (1 << 64) if v >> 63 else v
        k = ("%x" % (sv & M64)) if fits_int(ty, v) else "-"
        e["C"] = [ty, size, "%x" % v, k, "3", "1"]
    if c["d"] >= 1:
        f = [ty, size, "%x" % v] + ["%x" % int(d["f"], 16) for d in finals(c)]
        e["R"] = f
        e["L"] = list(f)
    return e


def render_expr(c, i):
    L = ["static void c%d(void) {" % i]
    ty, v = c["ty"], int(c["v"], 16)
    if c["ice"]:
        x = c["c"]
        exp = lit_of(ty, v)
        pt = promoted(ty)
        if fits_int(ty, v):
            L.append("  enum { K = (%s) };" % x)
            kx = "U64((long long)K)"
        else:
            kx = "0ULL"
        L.append("  static const unsigned long long s = (%s);" % x)
        if not c.get("_nosa"):
            L.append("  _Static_assert((%s) == %s, \"c%d\");" % (x, exp, i))
        L.append("  volatile %s sw = %s; int hit = 0;" % (TYPES[pt][0], lit_of(pt, v)))
        L.append("  switch (sw) { case (%s): hit = 1; break; default: hit = 2; }" % x)
        fi = fits_int(ty, v)
        fmt = "%d C %%s %%d %%llx " % i + ("%llx" if fi else "-") + " %d %d\\n"
        args = ["TN(%s)" % x, "(int)sizeof(%s)" % x, "s"] + ([kx] if fi else []) + ["(int)sizeof(char[(%s) == %s ? 3 : 5])" % (x, exp), "hit"]
        L.append("  printf(\"%s\", %s);" % (fmt, ", ".join(args)))
    if c["d"] >= 1:
        # R: operands are file-scope volatile objects (loaded at run time); L: plain locals (registers: the MIR optimiser may fold)
        for ctx in ("R", "L"):
            ren = (lambda t: re.sub(r"\b([vabp]\d+)\b", "g%d_\\1" % i, t)) if ctx == "R" else (lambda t: t)
            L.append("  {")
            if ctx == "L":
                for d in c["lv"]:
                    L.append("    " + decl_text(d, False))
            x = ren("(" + c["r"] + ")" if "," in c["r"] else c["r"])     # a comma must not split the macro arguments
            L.append("    printf(\"%d %s %%s %%d %%llx\", TN(%s), (int)sizeof(%s), U64(%s));" % (i, ctx, x, x, x))
            for d in finals(c):
                L.append("    printf(\" %%llx\", U64(%s%s));" % (ren(d["n"]), ".f" if d["k"] == "lvbf" else ""))
            L.append("    printf(\"\\n\");")
            L.append("  }")
    L.append("}")
    G = []
    if c["d"] >= 1:
        for d in c["lv"]:
            G.append("static " + decl_text(dict(d, n="g%d_%s" % (i, d["n"])), True))
    return G + L


# ----------------------------------------------------------------------------------------------- rendering: statements
def stmt_expected(c):
    return {"S": [str(x) for x in c["ev"]] + ["ret=%d" % c["ret"]]}


def render_stmt(c, i):
    L = ["static int c%d(void) {" % i]
    for k in sorted(c["cnt"]):
        L.append("  int c%d = 0;" % k)
    L.append("  " + c["body"])
    L.append("  return 0;")
    L.append("}")
    return L


STMT_PRELUDE = """static int cur;
static int ev(int k) { printf(" %d", k); return k; }
"""


INIT_PRELUDE = """struct In { signed char c; long d; };
struct S { int a; short b[3]; struct In in; unsigned e : 5; signed int g : 3; char s[4]; int f; };
static void dump(int id, const char *tag, struct S *p) {
  printf("%d %s %d %d %d %d %d %ld %d %d %d %d %d %d %d\\n", id, tag, p->a, p->b[0], p->b[1], p->b[2], p->in.c, p->in.d, (int)p->e, (int)p->g,
         p->s[0], p->s[1], p->s[2], p->s[3], p->f);
}
static struct S pass(struct S x) { return x; }
"""
INIT_FIELDS = ["a", "b0", "b1", "b2", "in.c", "in.d", "e", "g", "s0", "s1", "s2", "s3", "f"]


def init_expected(c):
    v = [str(x) for x in c["vals"]]
    return {k: list(v) for k in ("G", "L", "T", "U", "K")}


def render_init(c, i):
    x = c["init"]
    return ["static struct S g%d = %s;" % (i, x),
            "static void c%d(void) {" % i,
            "  struct S l = %s; struct S t; struct S u;" % x,
            "  t = l; u = pass(g%d);" % i,
            "  dump(%d, \"G\", &g%d); dump(%d, \"L\", &l); dump(%d, \"T\", &t); dump(%d, \"U\", &u);" % (i, i, i, i, i),
            "  dump(%d, \"K\", &(struct S)%s);" % (i, x),
            "}"]


CT = dict({k: v[0] for k, v in TYPES.items()}, f="float", d="double")
BYTES_FIELDS = ["object", "b0", "b1"]


def bytes_expected(c):
    return {"Y": ["%x" % int(c["y"], 16), str(c["b0"]), str(c["b1"])]}


def render_bytes(c, i):
    """X is the object, P the character pointer to its first byte; the placement decides how the object is declared"""
    T, P, pl = CT[c["ty"]], CT[c["pt"]], c["place"]
    X = {"loc": "x", "glob": "gx%d" % i, "mem": "s.m", "par": "(*q)"}[pl]
    body = [re.sub(r"\bP\[", "p[", re.sub(r"\bX\b", X, st)) for st in c["st"]]
    tail = ["  { unsigned long long o = 0; memcpy(&o, &y, sizeof y); printf(\"%d Y %%llx %%d %%d\\n\", o, b0, b1); }" % i]
    L = []
    if pl == "glob":
        L.append("static %s gx%d;" % (T, i))
    if pl == "par":
        L += ["static void h%d(%s *q, %s *p) {" % (i, T, P), "  %s y; int b0 = 0, b1 = 0;" % T] + ["  " + b for b in body] + tail + ["}",
              "static void (*volatile fp%d)(%s *, %s *) = h%d;" % (i, T, P, i),
              "static void c%d(void) { %s x; fp%d(&x, (%s *)&x); }" % (i, T, i, P)]
        return L
    L.append("static void c%d(void) {" % i)
    if pl == "loc":
        L.append("  %s x;" % T)
    if pl == "mem":
        L.append("  struct { long pad; %s m; } s;" % T)
    L.append("  %s *p = (%s *)&%s; %s y; int b0 = 0, b1 = 0;" % (P, P, X, T))
    L += ["  " + b for b in body] + tail + ["}"]
    return L


DECL_FIELDS = ["sizeof", "first", "last", "last_after_store"]
MIR_DATA_SIZE = {"i8": 1, "u8": 1, "i16": 2, "u16": 2, "i32": 4, "u32": 4, "f": 4, "i64": 8, "u64": 8, "d": 8, "p": 8, "ref": 8, "lref": 8,
                 "ld": 16}


def decl_store(i):
    return 7 + i % 90


def decl_expected(c, i):
    v = c["vals"]
    first, last = v[0], v[-1]
    one = c["kind"] == "int" or (c["kind"] == "arr" and c["n"] == 1)      # first and last are the same scalar
    w = decl_store(i)
    return {"D": [str(c["size"] if c["szok"] else -1), str(first), str(last), str(w)],
            "E": [str(w if one else first), str(w)],
            "M": ["1", str(c["size"])]}      # one definition of the composite size in the compiler's output


def render_decl(c, i):
    o = "o%d" % i
    first, last = {"int": (o, o), "st": (o + ".a", o + ".b"), "arr": (o + "[0]", "%s[%d]" % (o, c["n"] - 1))}[c["kind"]]
    L = []
    for k, d in enumerate(c["decls"]):
        L.append(d.replace("@", o))
        if k + 1 == c["use"]:
            L += ["static void c%d(void) {" % i,
                  "  printf(\"%d D %%d %%ld %%ld\", %s, (long)%s, (long)%s);" % (i, "(int)sizeof %s" % o if c["szok"] else "-1", first, last),
                  "  %s = %d; printf(\" %%ld\\n\", (long)%s);" % (last, decl_store(i), last), "}"]
    L.append("static void e%d(void) { printf(\"%d E %%ld %%ld\\n\", (long)%s, (long)%s); }" % (i, i, first, last))
    return L


def mir_object_sizes(text):
    """{name: [number of data/bss definitions, bytes of the first one with its unnamed continuation items]} from `c2m -S`"""
    res, cur = {}, None
    for line in text.splitlines():
        m = re.match(r"^(\w+):\t(bss|i8|u8|i16|u16|i32|u32|i64|u64|f|d|ld|p|ref|lref)\t(.*)$", line)
        m2 = re.match(r"^\t(bss|i8|u8|i16|u16|i32|u32|i64|u64|f|d|ld|p|ref|lref)\t(.*)$", line) if not m else None
        if m:
            name, ty, vals = m.groups()
            ent = res.setdefault(name, [0, 0])
            ent[0] += 1
            cur = ent if ent[0] == 1 else None
        elif m2 and cur is not None:
            ty, vals = m2.groups()
        else:
            if not line.startswith("#") and line.strip():
                cur = None
            continue
        if cur is not None:
            cur[1] += int(vals.split()[0]) if ty == "bss" else MIR_DATA_SIZE[ty] * (1 if ty in ("ref", "lref") else len(vals.split(",")))
    return res


def render_gen(c, i):
    """families whose spec emits the C text itself: file-scope lines, statements, (format, expression) pairs; @ = case number"""
    r = lambda t: t.replace("@", str(i))
    L = [r(g) for g in c["glob"]]
    L.append("static void c%d(void) {" % i)
    L.append("  printf(\"%d T\");" % i)
    L += ["  " + r(b) for b in c["body"]]
    L += ["  printf(\"%s\", %s);" % (f, r(e)) for f, e in c["pr"]]
    L += ["  printf(\"\\n\");", "}"]
    return L


def render_file(cases, ids):
    fam = cases[0]["fam"]
    if fam == "gen":
        L = [PRELUDE]
        for c, i in zip(cases, ids):
            L += render_gen(c, i)
        L.append("int main(void) {")
        L += ["  c%d(); fflush(stdout);" % i for i in ids]
        L += ["  printf(\"END\\n\");", "  return %d;" % (len(cases) % 50 + 3), "}"]
        return "\n".join(L) + "\n"
    if fam == "decl":
        L = [PRELUDE, "struct P { int a; long b; };"]
        for c, i in zip(cases, ids):
            L += render_decl(c, i)
        L.append("int main(void) {")
        L += ["  c%d();" % i for i in ids] + ["  e%d();" % i for i in ids]
        L += ["  printf(\"END\\n\");", "  return %d;" % (len(cases) % 50 + 3), "}"]
        return "\n".join(L) + "\n"
    L = [PRELUDE]
    if fam == "stmt":
        L.append(STMT_PRELUDE)
    if fam == "init":
        L.append(INIT_PRELUDE)
    for c, i in zip(cases, ids):
        L += (render_stmt(c, i) if fam == "stmt" else render_init(c, i) if fam == "init" else render_bytes(c, i) if fam == "bytes"
              else render_expr(c, i))
    # every case runs in a child process with its own time limit, so that a crash or an endless loop produced by the
    # compiler under test costs one case ("<id> X <wait status>") and not the batch
    for c, i in zip(cases, ids):
        if fam == "stmt":
            L.append("static void w%d(void) { printf(\"%d S\"); { int r = c%d(); printf(\" ret=%%d\\n\", r); } }" % (i, i, i))
    # (statement files only: there a wrong compiler typically loops; a fork per case costs about 1 ms of system time, too
    # much for the 85 000 expression cases, whose rare run-time crashes are isolated by re-running the rest of the batch)
    if fam == "stmt":
        L.append(RUNNER)
    L.append("int main(void) {")
    for c, i in zip(cases, ids):
        L.append("  run_case(w%d, %d);" % (i, i) if fam == "stmt" else "  c%d(); fflush(stdout);" % i)
    L.append("  printf(\"END\\n\");")
    L.append("  return %d;" % (len(cases) % 50 + 3))
    L.append("}")
    return "\n".join(L) + "\n"


RUNNER = """int fork(void); int waitpid(int, int *, int); unsigned alarm(unsigned); void _exit(int);
static void run_case(void (*f)(void), int id) {
  int pid, st = 0;
  fflush(stdout);
  pid = fork();
  if (pid == 0) { alarm(%d); f(); fflush(stdout); _exit(0); }
  if (pid < 0) { f(); fflush(stdout); return; }
  waitpid(pid, &st, 0);
  if (st != 0) { printf("\\n%%d X %%d\\n", id, st); fflush(stdout); }
}
""" % 2


def expected(c):
    if c["fam"] == "decl":
        return decl_expected(c, c["_id"])
    if c["fam"] == "gen":
        return {"T": [str(x) for x in c["exp"]]}
    return (stmt_expected(c) if c["fam"] == "stmt" else init_expected(c) if c["fam"] == "init" else bytes_expected(c) if c["fam"] == "bytes"
            else expr_expected(c))


# ----------------------------------------------------------------------------------------------- running
def parse_out(text):
    """{id: {ctx: [fields]}}, complete flag"""
    res = collections.defaultdict(dict)
    done = False
    for line in text.splitlines():
        f = line.split()
        if not f:
            continue
        if f[0] == "END":
            done = True
            continue
        if len(f) >= 2 and f[0].isdigit():
            res[int(f[0])][f[1]] = f[2:]
    return res, done


def run_engines(c2m, engines, cases, ids, tag, extra_engines=(), keep=False, slow=False):
    """Write one file, run gcc and every engine.  Returns (fname, {engine: (status, {id: {ctx: fields}})}),
    status in ok | reject | crash(rc) | timeout | rc(n)."""
    os.makedirs(os.path.join(WORK, "src"), exist_ok=True)
    fn = os.path.join(WORK, "src", tag + ".c")
    with open(fn, "w") as f:
        f.write(render_file(cases, ids))
    want_rc = len(cases) % 50 + 3
    res = {}
    tmo = (STMT_TIMEOUT if cases[0]["fam"] == "stmt" else RUN_TIMEOUT) * (4 if slow else 1)
    exe = fn[:-2] + ".gcc"
    rc, o, e = vlib.sh(["gcc", "-std=c11", "-O0", "-w", fn, "-o", exe], timeout=RUN_TIMEOUT)
    if rc != 0:
        res["gcc"] = ("reject", {}, e)
    else:
        rc, o, e = vlib.sh([exe], timeout=tmo)
        got, done = parse_out(o)
        if cases[0]["fam"] == "decl":        # the reference compiler's view of the objects: symbol sizes
            _, nm, _ = vlib.sh(["nm", "-S", exe], timeout=RUN_TIMEOUT)
            cnt = collections.Counter()
            sizes = {}
            for ln in nm.splitlines():
                f = ln.split()
                if len(f) == 4 and re.match(r"^o\d+$", f[3]) and f[2] in "bBdDcC":
                    cnt[f[3]] += 1
                    sizes[f[3]] = int(f[1], 16)
            for i in ids:
                got[i]["M"] = [str(cnt["o%d" % i]), str(sizes.get("o%d" % i, -1))]
        res["gcc"] = ("ok" if rc == want_rc and done else "timeout" if rc == -9 else "rc(%d)" % rc, got, e[-300:])
        if not keep:
            try:
                os.unlink(exe)
            except OSError:
                pass
    for eng in list(engines) + list(extra_engines):
        name, cmd = eng[0], eng[1]
        if callable(cmd):
            res[name] = cmd(fn, want_rc)
            continue
        rc, o, e = vlib.sh([c2m] + cmd + [fn, eng[2]], timeout=tmo)
        got, done = parse_out(o)
        if rc == want_rc and done:
            st = "ok"
        elif rc == -9:
            st = "timeout"
        elif rc < 0 or rc >= 128:
            st = "crash(%d)" % rc
        elif rc == 1 and not o.strip():
            st = "reject"
        else:
            st = "rc(%d)" % rc
        res[name] = (st, got, e if st == "reject" else e[-400:])
    if cases[0]["fam"] == "decl":            # c2mir's view: the data/bss items of the module it emits
        mirf = fn[:-2] + ".mir"
        rc, o, e = vlib.sh([c2m, "-S", fn, "-o", mirf], timeout=RUN_TIMEOUT)
        objs = mir_object_sizes(open(mirf).read()) if rc == 0 and os.path.exists(mirf) else {}
        for eng in list(engines):
            if not callable(eng[1]) and res[eng[0]][0] == "ok":
                for i in ids:
                    res[eng[0]][1][i]["M"] = [str(x) for x in objs.get("o%d" % i, [0, -1])]
        if not keep and os.path.exists(mirf):
            os.unlink(mirf)
    if not keep:
        try:
            os.unlink(fn)
        except OSError:
            pass
    return fn, res


class Stats:
    def __init__(self):
        self.cnt = collections.Counter()
        self.fail = []       # (case, engine, ctx, field, expected, got, status)
        self.spec_dis = []   # (case, ctx, expected, gcc, status)
        self.feat = collections.Counter()


FIELDS = {"T": [], "D": [], "E": [], "M": [], "Y": [], "G": [], "T": [], "U": [], "K": [], "C": ["type", "size", "value", "enum", "arr", "case"], "R": ["type", "size", "value"], "L": ["type", "size", "value"],
          "S": []}


def diff_fields(ctx, exp, got):
    """names of the fields that differ"""
    if got is None:
        return ["missing"]
    names = FIELDS[ctx]
    out = []
    if ctx == "S":
        return [] if exp == got else ["events"]
    if ctx in "GLTUK" and len(exp) == 13:
        names = INIT_FIELDS
    if ctx == "Y":
        names = BYTES_FIELDS
    if ctx == "T":
        names = ["field%d" % k for k in range(max(len(exp), len(got)))]
    if ctx == "D":
        names = DECL_FIELDS
    if ctx == "E":
        names = ["first_at_end", "last_at_end"]
    if ctx == "M":
        names = ["definitions", "object_bytes"]
    for k in range(max(len(exp), len(got))):
        a = exp[k] if k < len(exp) else None
        b = got[k] if k < len(got) else None
        if a != b:
            out.append(names[k] if k < len(names) else "final")
    return out


def complete(c, got):
    """did the program finish printing this case?"""
    if c["fam"] == "stmt":
        return bool(got.get("S")) and got["S"][-1].startswith("ret=")
    return all(ctx in got for ctx in expected(c))


SA_RE = re.compile(r'"c(\d+)"')


def judge(c2m, engines, cases, tag, stats, extra_engines=()):
    """Batches -> per-case verdicts.  A batch that some compiler rejects because of _Static_assert is re-run with the named
    assertions removed (the failure is remembered); a batch that fails as a whole otherwise is halved until the culprit
    is alone; every case with a mismatching field is re-run in a second round before it is reported (rule 5)."""
    eng_names = [e[0] for e in list(engines) + list(extra_engines)]
    sa_fail = collections.defaultdict(set)     # case index -> compilers whose _Static_assert failed
    seq = [0]

    retried = set()        # batches (by their first case) already re-run with a long time limit

    def one(items):
        seq[0] += 1
        return run_engines(c2m, engines, [c for _, c in items], [i for i, _ in items], "%s_%05d" % (tag, seq[0]), extra_engines,
                           slow=(len(items), items[0][0]) in retried)

    def settle(items, res, confirm, suspects):
        for i, c in items:
            e = expected(c)
            bad = bool(sa_fail.get(i))
            for ctx, ef in e.items():
                for n in ["gcc"] + eng_names:
                    if res[n][1].get(i, {}).get(ctx) != ef:
                        bad = True
            if not bad:
                stats.cnt["pass"] += 1
                if confirm:
                    stats.cnt["pass_on_rerun"] += 1
            elif confirm:
                verdict(i, c, res)
            else:
                suspects.append((i, c))

    def waves(batches, confirm):
        suspects, nrun = [], 0
        while batches:
            with ThreadPoolExecutor(NPAR) as ex:
                results = list(ex.map(one, batches))
            nrun += len(batches)
            nxt = []
            for items, (fn, res) in zip(batches, results):
                whole = [n for n in ["gcc"] + eng_names if res[n][0] != "ok"]
                if whole:
                    stats.cnt["batches_rerun"] += 1
                    if any(res[n][0] == "timeout" for n in whole) and (len(items), items[0][0]) not in retried:
                        # a loaded machine, not an endless loop?  once more with four times the limit before anything is concluded
                        retried.add((len(items), items[0][0]))
                        stats.cnt["batches_retried_with_long_time_limit"] += 1
                        nxt.append(items)
                        continue
                    ids = {i for i, _ in items}
                    named = set()
                    for n in whole:
                        if res[n][0] == "reject":
                            for m in SA_RE.findall(res[n][2]):
                                if int(m) in ids and "static assert" in res[n][2]:
                                    named.add(int(m))
                                    sa_fail[int(m)].add(n)
                    fresh = [i for i, c in items if i in named and not c.get("_nosa")]
                    # a crash or a time-out at run time: the culprit is the first case whose output is incomplete
                    culprit = None
                    if not fresh and len(items) > 1:
                        for n in whole:
                            # (no output at all: the compiler died before main, e.g. while generating code: halve instead)
                            if res[n][0] != "reject" and res[n][1]:
                                for i, c in items:
                                    if not complete(c, res[n][1].get(i, {})):
                                        culprit = (i, c) if culprit is None or i < culprit[0] else culprit
                                        break
                    if fresh:
                        nxt.append([(i, dict(c, _nosa=True) if i in named else c) for i, c in items])
                    elif culprit is not None:
                        stats.cnt["runtime_failures_isolated"] += 1
                        pos = [i for i, _ in items].index(culprit[0])
                        # everything before the culprit was printed completely by every compiler: settle it from this run
                        settle(items[:pos], {n: ("ok", r[1], r[2]) for n, r in res.items()}, confirm, suspects)
                        nxt.append([culprit])
                        timed_out = any(res[n][0] == "timeout" for n in whole)
                        stats.cnt["timeouts_isolated"] += 1 if timed_out else 0
                        if timed_out and stats.cnt["timeouts_isolated"] > MAX_ISOLATE:
                            # the compiler under test hangs over and over: report what is isolated, count the rest
                            stats.cnt["cases_not_examined_after_repeated_runtime_failures"] += len(items) - pos - 1
                        elif items[pos + 1:]:
                            nxt.append(items[pos + 1:])
                    elif len(items) > 1:
                        h = len(items) // 2
                        nxt += [items[:h], items[h:]]
                    else:
                        i, c = items[0]
                        verdict(i, c, res)
                    continue
                settle(items, res, confirm, suspects)
            batches = nxt
        return suspects, nrun

    def verdict(i, c, res):
        e = expected(c)
        gst, gout = res["gcc"][0], res["gcc"][1].get(i, {})
        gdis = [(ctx, ef, gout.get(ctx)) for ctx, ef in e.items() if gout.get(ctx) != ef]
        if gst == "reject" and "internal compiler error" in res["gcc"][2]:
            stats.cnt["dropped_reference_compiler_internal_error"] += 1
            return
        if gst != "ok" or gdis or "gcc" in sa_fail.get(i, ()):
            stats.cnt["spec_disagrees"] += 1
            stats.spec_dis.append((c, gdis, gst if gst != "ok" or gdis else "static assertion failed", res["gcc"][2]))
            return
        for n in eng_names:
            st, out, err = res[n]
            out = out.get(i, {})
            if st != "ok":
                stats.fail.append((c, n, "*", [st.split("(")[0]], None, None, st + " " + err.strip()[-200:]))
                continue
            if "X" in out:       # the child running this case was killed: wait status = signal number
                sig = int(out["X"][0]) & 0x7f if out["X"] and out["X"][0].isdigit() else 0
                kind = "timeout" if sig == 14 else "crash"
                stats.fail.append((c, n, "*", [kind], None, None, "timeout" if sig == 14 else "crash(-%d)" % sig))
                continue
            if n in sa_fail.get(i, ()):
                stats.fail.append((c, n, "C", ["static_assert"], e.get("C"), out.get("C"), st))
            for ctx, ef in e.items():
                df = diff_fields(ctx, ef, out.get(ctx))
                if df:
                    stats.fail.append((c, n, ctx, df, ef, out.get(ctx), st))

    for i, c in enumerate(cases):
        c["_id"] = i          # (the value a declaration case stores into its object depends on the case number)
    first = list(vlib.chunks(list(enumerate(cases)), BATCH))
    suspects, n1 = waves(first, False)
    stats.cnt["cases_rerun_before_report"] += len(suspects)
    # small batches: every one of these cases misbehaved, possibly by not terminating (2 s each)
    _, n2 = waves(list(vlib.chunks(suspects, 20 if cases and cases[0]["fam"] == "stmt" else BATCH)), True)
    return n1 + n2


# ----------------------------------------------------------------------------------------------- classification
K_GENERIC = "cexpr:generic:narrow_controlling_type_promoted"
K_BOOL = "cexpr:conv_to_bool:value_not_0_or_1"
K_UAC = "cexpr:uac:ulong_llong_gives_ulong"
K_DIV0 = "cexpr:reject:division_by_zero_in_unevaluated_operand"
K_DIVMIN = "cexpr:compiler_crash:min_div_minus1_in_unevaluated_operand"
K_GENDIVMIN = "cexpr:crash:gen_O2_folds_min_div_minus1_in_unevaluated_operand"
K_ANDSWAP = "cexpr:crash:gen_O2_zero_extension_of_and_with_constant_first"
K_BFALIAS = "cexpr:bitfield:bool_member_initialiser_alias"
K_ADDR = "cexpr:local:narrow_object_stored_through_pointer_then_read"
K_LOSTCOPY = "cstmt:gen_O2:postincrement_loop_test_lost_copy"
K_OVF_MIXED = "cbuiltin:overflow:operand_type_differs_from_result_type"
K_OVF_VALUE = "cbuiltin:overflow:value_of_call_unset_on_overflow"
K_SIZEOF_INT = "cscope:sizeof_expression_has_type_int"
K_DECL_TU = "cdecl:tentative_array_of_unknown_size_completed_by_another_declaration"
K_INIT_OVR = "cinit:static:later_initialiser_of_same_scalar_ignored"
K_INIT_PAS = "cinit:positional_initialiser_after_string_literal_member"
K_INIT_SAB = "cinit:auto:string_literal_member_after_bitfield_or_later_member"
CTXNAME = {"C": "const_fold", "R": "runtime", "L": "local", "S": "stmt", "*": "program", "G": "static", "T": "assigned_copy",
           "U": "passed_and_returned", "K": "compound_literal", "Y": "bytes", "D": "use", "E": "end", "M": "emitted_object", "T": "text"}
NARROW = {"B", "c", "sc", "uc", "s", "us"}
O2GROUP = {"eg-O2", "eg-O3", "el", "eb"}


def classify(fails):
    """fails: list of Stats.fail rows.  Returns [(key, row)].
    Rows that match the exact trigger of a defect already analysed get that defect's key (so that a listed finding does
    not hide anything else); every other row gets a key naming context, differing fields and the operator signature:
    a mismatch in a tree is attributed to the innermost node signature that already fails alone (depth <= 1) in the same
    context, else to the root."""
    keyed = []
    base = set()     # (ctxname, sig) failing at depth <= 1
    rows = sorted(fails, key=lambda r: r[0].get("d", 0))
    engs = collections.defaultdict(set)      # engines failing on a case for a reason other than the _Generic type name
    for r in rows:
        c, eng, ctx, fields, ef, got, st = r
        if not (fields == ["type"] and ef and got and ef[0] in NARROW and got[0] == "i"):
            engs[id(c)].add(eng)
    for r in rows:
        c, eng, ctx, fields, ef, got, st = r
        only_o2 = engs[id(c)] <= O2GROUP
        if c["fam"] == "bytes":
            keyed.append(("cbytes:%s:%s" % ("+".join(fields), c["sig"]), r))
            continue
        if c["fam"] == "gen":
            # `sizeof expression` has type int in c2mir (size_t for `sizeof (type-name)`): only the printed type name differs
            if c["gfam"] == "builtin" and not c["sig"].startswith("expect") and ctx == "T":
                # c2mir does the operation in the type of *r on the raw operands (wrong flag / value when an operand has another
                # type) and leaves the value of the call unset when it overflows (only `if (__builtin_..._overflow (...))` works)
                if not c["same"]:
                    keyed.append((K_OVF_MIXED, r))
                    continue
                if fields == ["field0"] and c["sig"].endswith(("cv", "rv")) and ef[0] == "1":
                    keyed.append((K_OVF_VALUE, r))
                    continue
            if c["gfam"] == "scope" and c["sig"].startswith("sz:obj_") and fields == ["field0"] and ef[0] == "ul" and got[0] == "i":
                keyed.append((K_SIZEOF_INT, r))
            else:
                keyed.append(("c%s:%s:%s" % (c["gfam"], "+".join(fields), c["sig"].replace(" ", "")), r))
            continue
        if c["fam"] == "decl":
            # `int a[]; int a[3];`: c2mir sizes the object by the first tentative definition (4 bytes), uses run behind it
            if c.get("tu") and (fields == ["object_bytes"] or (ctx in "DE" and set(fields) <= {"first", "last", "first_at_end", "last_at_end"})):
                keyed.append((K_DECL_TU, r))
            else:
                keyed.append(("cdecl:%s:%s:%s" % (CTXNAME[ctx], "+".join(fields), c["sig"]), r))
            continue
        if c["fam"] == "init":
            fl = c.get("fl", [])
            if "pas" in fl:
                keyed.append((K_INIT_PAS, r))
            elif "sab" in fl and ctx in "LTK":
                keyed.append((K_INIT_SAB, r))
            elif "ovr" in fl and ctx in "GU":
                keyed.append((K_INIT_OVR, r))
            else:
                keyed.append(("cinit:%s:%s" % ({"L": "auto"}.get(ctx, CTXNAME[ctx]), "+".join(fields)), r))
            continue
        if c["fam"] == "stmt":
            # the -O2 generator drops the copy needed by `cK++ < n` as a loop test (value before the increment is compared)
            if only_o2 and "postinc_loop" in c["ft"] and fields == ["events"]:
                keyed.append((K_LOSTCOPY, r))
            else:
                keyed.append(("cstmt:%s:%s" % ("+".join(fields), c["sig"]), r))
            continue
        cn = CTXNAME[ctx]
        fields = list(fields)
        sgs = c["sg"]
        if ctx == "*":
            if st.startswith("reject") and "Division by zero" in st and c["uu"]:
                keyed.append((K_DIV0, r))
                continue
            if st.startswith(("crash(-8)", "crash(136)")) and c["uu"] and any(s.startswith(("/", "%")) for s in sgs):
                # SIGFPE while folding MIN / -1 of an operand that is never evaluated: in c2mir (every engine) or in the
                # generator's GVN (-O2 and above only)
                keyed.append((K_GENDIVMIN if only_o2 else K_DIVMIN, r))
                continue
            if st.startswith("crash") and only_o2 and any(s.startswith("&") for s in sgs):
                keyed.append((K_ANDSWAP, r))
                continue
            if st.startswith("crash(-8)") and "ei" not in engs[id(c)] and any(s == "bf:B1" for s in sgs) \
                    and any(s.startswith(("/", "%")) for s in sgs):
                keyed.append((K_BFALIAS, r))      # the _Bool member reads 0 instead of 1: division by zero at run time
                continue
        # (1) c2mir's _Generic promotes its controlling expression: only the printed type NAME of a narrow-typed result is affected
        if "type" in fields and ef and got and ef[0] in NARROW and got[0] == "i":
            keyed.append((K_GENERIC, r))
            fields.remove("type")
            if not fields:
                continue
        # (2) conversion to _Bool of a value other than 0/1 (the spec marks such trees with bn)
        if c.get("bn"):
            keyed.append((K_BOOL, r))
            continue
        # (3) usual arithmetic conversions of (unsigned long, long long): same representation, only the type name differs
        if fields == ["type"] and ef[0] == "ull" and got[0] == "ul" and any(
                s.split(":")[-1] in ("ul,ll", "ll,ul") or s.startswith("?::") and s.split(",")[-2:] in (["ul", "ll"], ["ll", "ul"])
                for s in sgs):
            keyed.append((K_UAC, r))
            continue
        # (4) a local struct { _Bool f : 1; } is initialised through alias 'b' and read through alias 'i': generated code only
        if ctx == "L" and eng != "ei" and "ei" not in engs[id(c)] and any(s == "bf:B1" or ":bfB1," in s for s in sgs) \
                and set(fields) <= {"value", "final"}:
            keyed.append((K_BFALIAS, r))
            continue
        # (5) a narrow local whose address is taken stays in a register; a store through the pointer changes its low bytes
        #     only and a later read of the variable itself uses the stale upper bytes (interpreter, -O0, -O1)
        if ctx == "L" and set(fields) <= {"value", "final"} and engs[id(c)] & {"ei", "eg-O0", "eg-O1"} and any(
                re.search(r":\*(B|c|sc|uc|s|us|i|u)(,|$)", s) for s in sgs):
            keyed.append((K_ADDR, r))
            continue
        sigs = [s for s in sgs if not s.startswith(("leaf:", "enum", "lit:", "bf:"))] or sgs
        sig = sigs[-1]
        if c["d"] <= 1:
            base.add((cn, sig))
        else:
            for s in sigs:
                if (cn, s) in base:
                    sig = s
                    break
        keyed.append(("cexpr:%s:%s:%s" % (cn, "+".join(fields), sig), r))
    return keyed


# ----------------------------------------------------------------------------------------------- TLC side
def gen_cases(jobs, stats, maxpar=None):
    kws, owner = [], []
    for name, module, cfg, nparts, sim, depth, env in jobs:
        if not os.path.exists(os.path.join(vlib.SPEC, cfg)):
            raise MachineryError("missing " + cfg)
        for p in range(nparts):
            e = {"PART": p, "NPARTS": nparts}
            e.update(env)
            # deep Java stack: CStmt's Run recurses once per execution step, W64's division once per bit (with the default
            # stack TLC dies intermittently with StackOverflowError before the JIT has compiled the evaluator)
            kw = dict(module=module, cfg=cfg, workers=2 if sim else 4, env=e, heap="3g -Xss64m", timeout=1500)
            if sim:
                kw["env"] = dict(e, PART=0, NPARTS=1)
                kw.update(simulate=max(1, sim // nparts), depth=depth, seed_=vlib.seed() * 1000 + p)
            kws.append(kw)
            owner.append(name)
    maxpar = maxpar or max(1, vlib.NCPU // 4)
    with ThreadPoolExecutor(maxpar) as ex:
        res = list(ex.map(lambda kw: run_tlc(**kw), kws))
    out = collections.OrderedDict((j[0], []) for j in jobs)
    seen = set()
    tot_states = tot_distinct = 0
    for name, kw, r in zip(owner, kws, res):
        tlc_ok(r, "%s %s part %s" % (kw["module"], kw["cfg"], kw["env"]["PART"]))
        tot_states += r.states
        tot_distinct += r.distinct
        stats.cnt["tlc_wall_s"] += int(r.wall)
        fam = {"CStmt": "stmt", "CInit": "init", "CBytes": "bytes", "CDecl": "decl", "CCond": "gen", "CCopy": "gen",
               "CScope": "gen", "CBuiltin": "gen", "CSwitch": "gen", "CElide": "gen"}.get(kw["module"], "expr")
        for o in r.outs:
            if o.get("ok") is False:          # CElide: the list has an excess initialiser under the standard's reading
                stats.cnt["dropped_%s_not_strictly_conforming" % fam] += 1
                continue
            if "u" in o:
                stats.cnt["dropped_%s_%s" % (fam, o["u"] if isinstance(o["u"], str) else "undefined")] += 1
                continue
            k = ((o["c"], o["r"], json.dumps(o["lv"], sort_keys=True)) if fam == "expr" else o["body"] if fam == "stmt" else o["init"]
                 if fam == "init" else o["sig"] if fam == "decl" else json.dumps([o["glob"], o["body"], o["pr"]]) if fam == "gen"
                 else (o["sig"], o["k"], tuple(o["st"])))
            if fam == "gen":
                o["gfam"] = o["fam"]
            if fam == "bytes":
                o["d"] = 0
            if fam == "init":
                o["d"] = o["n"]
            if k in seen:
                stats.cnt["duplicates_" + fam] += 1
                continue
            seen.add(k)
            o["fam"] = fam
            out[name].append(o)
    return out, tot_states, tot_distinct


def describe(c):
    if c["fam"] == "stmt":
        return c["body"][:500]
    if c["fam"] == "init":
        return "struct S x = " + c["init"]
    if c["fam"] == "gen" and c.get("desc"):
        return c["desc"].replace("@", "")[:600]
    if c["fam"] == "gen":
        return (" ".join(c["glob"][-3:]) + " / " + " ".join(c["body"]) + " / " + " ".join(e for _, e in c["pr"][:3]))[:600]
    if c["fam"] == "decl":
        return " ".join(d.replace("@", "o") for d in c["decls"]) + " (used after declaration %d)" % c["use"]
    if c["fam"] == "bytes":
        return "%s object X (%s), P = (%s *)&X: %s" % (CT[c["ty"]], c["place"], CT[c["pt"]], " ".join(c["st"]))
    s = "`%s`" % (c["c"] or c["r"])
    if c["lv"]:
        s += " with " + " ".join(decl_text(d, False) for d in c["lv"])
    return s[:500]


def run(tier, jobs=None, mutate=None, extra_engines=(), engines=None):
    ck = Check(PROP, tier, "model_checking")
    c2m = build_c2m()
    engines = ENGINES[tier] if engines is None else engines
    stats = Stats()
    t0 = time.time()
    jobs = jobs or JOBS[tier]
    if os.environ.get("C07_JOBS"):       # development aid: run a subset of the TLC jobs
        jobs = [j for j in jobs if j[0] in os.environ["C07_JOBS"].split(",")]
    gen, st, di = gen_cases(jobs, stats)
    t_tlc = time.time() - t0
    total = 0
    bydepth = collections.Counter()
    for name, cases in gen.items():
        if not cases:
            raise MachineryError("TLC job %s produced no defined case" % name)
        if mutate:
            cases = mutate(name, cases)
        t1 = time.time()
        nb = judge(c2m, engines, cases, name, stats, extra_engines)
        total += len(cases)
        fam = cases[0]["fam"]
        ck.add("cases_" + fam, len(cases))
        ck.add("cases_job_" + name, len(cases))
        for c in cases:
            bydepth["%s_depth_%d" % (fam, c["d"])] += 1
            if fam == "expr":
                for s in c["sg"]:
                    stats.feat[s.split(":")[0]] += 1
                stats.cnt["expr_const_context"] += 1 if c["ice"] else 0
                stats.cnt["expr_unevaluated_ub_operand"] += 1 if c["uu"] else 0
            elif fam == "stmt":
                for s in c["ft"]:
                    stats.feat["stmt_" + s] += 1
        ck.sample({"job": name, "case": describe(cases[len(cases) // 2])}, maxn=10)
        vlib.log("  %-6s %7d cases in %d files x (gcc + %d engines), %.0fs" % (name, len(cases), nb, len(engines) + len(extra_engines), time.time() - t1))
    keyed = classify(stats.fail)
    known = collections.Counter()
    allkeys = collections.Counter(k for k, _ in keyed)
    for key, (c, eng, ctx, fields, ef, got, stt) in keyed:
        txt = "%s [%s, %s]: spec and gcc %s, c2m %s%s; %s" % (
            c["fam"], eng, CTXNAME[ctx], " ".join(ef) if ef else "accept and run", " ".join(got) if got else "<nothing>",
            "" if stt == "ok" else " [" + stt + "]", describe(c))
        case = dict(c, engine=eng)
        if not ck.violation(key, txt, case):
            known[key] += 1
    for c, gdis, gst, gerr in stats.spec_dis[:20]:
        vlib.log("SPEC-DISAGREES: %s; gcc %s %s; %s" % (
            "; ".join("%s spec %s gcc %s" % (ctx, " ".join(ef), " ".join(g) if g else "<nothing>") for ctx, ef, g in gdis), gst,
            gerr.strip().replace("\n", " ")[:200] if gst != "ok" else "", describe(c)))
    for k, v in sorted(stats.cnt.items()):
        ck.setc(k, v)
    for k, v in sorted(bydepth.items()):
        ck.setc(k, v)
    ck.setc("known_finding_cases", dict(known))
    ck.setc("mismatch_rows_by_key", dict(allkeys.most_common(40)))      # one row per (case, engine, context)
    ck.setc("features_exercised", dict(stats.feat))
    ck.setc("states", di)
    ck.setc("transitions", st)
    ck.setc("traces_validated_against_impl", total)
    ck.setc("engines", ["gcc -std=c11 -O0 (reference)"] + ["c2m " + " ".join(e[1] + [e[2]]) for e in engines])
    ck.setc("tlc_elapsed_s", round(t_tlc, 1))
    ck.setc("exhaustive", False)
    ck.setc("explanation", "jobs without 'sim' in their name are TLC breadth-first runs that enumerate EVERY tree within the bounds of "
                           "their .cfg (operator sets, leaf types, grid, depth, leaves); the *sim* jobs are TLC -simulate walks seeded by "
                           "VERIF_SEED, so the run as a whole is not exhaustive")
    ck.setc("evaluations", total * (1 + len(engines)))
    ck.setc("distinct_nontrivial", total)
    ck.setc("rule", "each TLC-generated case carries the result type/value (CExpr.tla) or ev() sequence and return value (CStmt.tla); the "
                    "rendered program is run under gcc and under c2m per engine; VIOLATION iff spec == gcc and c2m differs in a printed "
                    "field, rejects or crashes, confirmed on the case alone; undefined trees are dropped by the spec")
    ck.setc("trusted_base", ["TLC", "gcc 12 -std=c11 (second oracle)", "renderer in harness/py/c07.py", "spec/lib/W64.tla"])
    ck.assumptions += [
        "conversion of an out-of-range value to a signed integer type is modular and >> of a negative value is arithmetic "
        "(implementation-defined in C11; gcc documents both, c2mir targets the same behaviour)",
        "plain char is signed, LP64 (x86-64 psABI); signed int bit-fields are declared `signed int` so their signedness is not implementation-defined",
        "1 << 31 and other left shifts whose result is not representable in the signed result type are undefined (C11 6.5.7p4) and dropped",
        "an operand that is not evaluated (right of && ||, unselected arm of ?:) may be undefined if evaluated; such trees are kept and "
        "also used as constant expressions (gcc accepts them)",
        "gcc 12 -std=c11 is a conforming second oracle; a case where it disagrees with the spec is never a violation"]
    if stats.cnt["cases_not_examined_after_repeated_runtime_failures"]:
        vlib.log("WARNING: %d cases were not examined: their batches kept timing out after %d culprits had been isolated" % (
            stats.cnt["cases_not_examined_after_repeated_runtime_failures"], MAX_ISOLATE))
    vlib.log("C07 %s: %d cases (%s), dropped %s, spec-disagrees %d, known-finding cases %d, TLC %.0fs" % (
        tier, total, ", ".join("%s=%d" % (k, v) for k, v in sorted(bydepth.items())),
        {k[8:]: v for k, v in stats.cnt.items() if k.startswith("dropped_")}, stats.cnt["spec_disagrees"], sum(known.values()), t_tlc))
    return ck.finish()


def replay(path):
    d = json.load(open(path))
    c = d["case"]
    c["_id"] = 0
    c2m = build_c2m()
    engs = [e for e in ENGINES["thorough"] if e[0] == c.get("engine")] or ENGINES["thorough"]
    fn, res = run_engines(c2m, engs, [c], [0], "replay", keep=True)
    e = expected(c)
    print("source file:", fn)
    print(open(fn).read())
    print("expected (spec):", e)
    for n, (st, out, err) in res.items():
        print("%-8s: %s %s %s" % (n, st, dict(out.get(0, {})), err.strip()[-300:] if st != "ok" else ""))
    g = res["gcc"]
    if g[0] != "ok" or any(g[1].get(0, {}).get(ctx) != ef for ctx, ef in e.items()):
        print("SPEC-DISAGREES: spec and gcc differ; not a violation")
        return 0
    bad = [n for n, (st, out, err) in res.items() if n != "gcc" and (st != "ok" or any(out.get(0, {}).get(ctx) != ef for ctx, ef in e.items()))]
    if not bad:
        print("replay: passes")
        return 0
    print("replay: still failing under", ", ".join(bad))
    print("VIOLATION property=%s replay=%s" % (PROP, path))
    return 1


def selftest():
    """Binding demonstration.  (1) one corrupted expectation per family is objected to (as SPEC-DISAGREES: gcc sides with the
    uncorrupted value) while its neighbours pass; (2) a deliberately different 'compiler under test' (gcc -funsigned-char,
    and a wrapper that drops the last ev() call) must be reported as violations with spec and gcc agreeing."""
    bad = 0
    c2m = build_c2m()
    st0 = Stats()
    gen, _, _ = gen_cases(SELFTEST_JOBS, st0)
    for name, cases in gen.items():
        # cases that no finding of the unchanged tree touches: results of rank >= int, no conversion to _Bool, no post-increment loop
        clean = [c for c in cases if (c["fam"] == "stmt" and "postinc_loop" not in c["ft"] and c["ev"])
                 or (c["fam"] == "expr" and c["ty"] in ("i", "u", "l", "ul") and not c["bn"] and c["d"] == 1)]
        good = clean[len(clean) // 3]
        c = copy.deepcopy(clean[len(clean) // 2])
        if c["fam"] == "expr":
            c["v"] = "%016x" % (int(c["v"], 16) ^ 1)
        else:
            c["ev"] = c["ev"][:-1]
        st = Stats()
        judge(c2m, ENGINES["quick"], [good, c], "selftest", st)
        objected = len(st.spec_dis) == 1 and st.spec_dis[0][0] is not good and not st.fail and st.cnt["pass"] == 1
        print("selftest %s: corrupted expectation %s" % (name, "objected to (SPEC-DISAGREES), neighbour passes" if objected else "NOT objected to"))
        bad += 0 if objected else 1

    def fake_cc(flags, sedexpr=None):
        def f(fn, want_rc):
            src = fn
            if sedexpr:
                src = fn[:-2] + ".mut.c"
                open(src, "w").write(sedexpr(open(fn).read()))
            exe = fn[:-2] + ".fake"
            rc, o, e = vlib.sh(["gcc", "-std=c11", "-O0", "-w"] + flags + [src, "-o", exe], timeout=RUN_TIMEOUT)
            if rc != 0:
                return ("reject", {}, e[-300:])
            rc, o, e = vlib.sh([exe], timeout=RUN_TIMEOUT)
            got, done = parse_out(o)
            return ("ok" if rc == want_rc and done else "rc(%d)" % rc, got, e[-300:])
        return f

    ecases = [c for c in gen["e_un"] if c["sg"][-1] in ("(i):c", "+:c", "(l):c") and c["lv"] and int(c["lv"][0]["f0"], 16) >> 63][:6]
    st = Stats()
    judge(c2m, [], ecases, "selftest_uc", st, extra_engines=[("fake-unsigned-char", fake_cc(["-funsigned-char"]))])
    hit = len({id(r[0]) for r in st.fail})
    print("selftest expr: compiler with unsigned plain char: %d of %d negative-char cases reported" % (hit, len(ecases)))
    bad += 0 if ecases and hit == len(ecases) and not st.spec_dis else 1
    scases = [c for c in gen["s_d2"] if "do" in c["ft"] and "continue" in c["ft"]][:40]
    st = Stats()
    judge(c2m, [], scases, "selftest_do", st, extra_engines=[
        ("fake-continue", fake_cc([], lambda s: s.replace("continue;", "{ ev(77); continue; }")))])
    hit = len({id(r[0]) for r in st.fail})
    print("selftest stmt: compiler emitting an extra event before `continue`: %d of %d cases reported (those that reach it)" % (hit, len(scases)))
    bad += 0 if hit >= 1 and not st.spec_dis else 1
    return 1 if bad else 0
