"""C12: mir-reduce.h compression layer vs spec/Reduce.tla (direction A + TLC-side parsing of real encoder output).

Tiers of one run
  model      TLC checks the decoder-shaped machine (with the proposed checks, Fixed=TRUE) against the abstract layer
             (Agree/Strict/Lossless/MemorySafe) over all byte strings of a reduced alphabet (tree, history kept), over all
             small element streams and their truncations/substitutions/extensions, and MemorySafe for strings of ANY length
             (history hidden by VIEW).  The machine as written today (Fixed=FALSE) is run on the same inputs: its `bad`
             states label the known defect classes; Reduce_defect.cfg gives TLC's own counterexample.
  replay     every classified stream goes to the real reduce_decode built with the same small window (hook H1) under
             ASan/UBSan: ok flag and output must equal the model's.
  roundtrip  real encoder on all strings over 2/3-symbol alphabets (small window) and on long / repetitive / incompressible
             / multi-buffer inputs (production constants); the encoder output is parsed by TLC (ParseBody, ValidStream,
             canonical form, Expand = input) and decoded by the real decoder.
  corrupt    truncation / substitution / extension of real encodings: must be rejected without sanitizer report; an
             accepted mutation is tolerated only if TLC says it is a valid stream with the original meaning.
"""
import json, os, random, re, subprocess, sys, time, itertools
from concurrent.futures import ThreadPoolExecutor
import vlib
from vlib import Check, run_tlc, tlc_ok, MachineryError

PROP = "C12"
SRC = os.path.join(vlib.HARNESS, "c12_reduce.c")
BASE_FLAGS = "-fno-sanitize-recover=all"
WINDOWS = {
    "w8": dict(buf=8, start=4, maxsym=5, flags="-DMIR_VERIF_REDUCE_BUF_LEN=8 -DMIR_VERIF_REDUCE_MAX_SYMB_LEN=5",
               enum=("Reduce_mc.cfg", "Reduce_aw.cfg"), streams=None, file=("Reduce_file8.cfg", "Reduce_file8aw.cfg")),
    "w16": dict(buf=16, start=4, maxsym=9,
                flags="-DMIR_VERIF_REDUCE_BUF_LEN=16 -DMIR_VERIF_REDUCE_MAX_SYMB_LEN=9 -DMIR_VERIF_REDUCE_TABLE_SIZE=16",
                enum=("Reduce_w16.cfg", "Reduce_w16aw.cfg"), streams=("Reduce_st.cfg", "Reduce_staw.cfg"),
                file=("Reduce_file16.cfg", "Reduce_file16aw.cfg")),
    "prod": dict(buf=1 << 18, start=4, maxsym=2047, flags="", enum=None, streams=None, file=("Reduce_parse.cfg", None)),
}
TIERS = {
    # cost: enum bound (items after the prefix); ne: elements per stream; rt: (alphabet size, max length) round-trip sets
    "quick": dict(cost={"w8": 8, "w16": 8}, ne=2, rt={"w8": [(2, 11), (3, 7)], "w16": [(2, 12), (3, 8)]},
                  mut={"w8": [(2, 9)], "w16": [(2, 9), (3, 6)]}, unbounded=True, prod_parse_max=3000, prod_scale=1),
    "thorough": dict(cost={"w8": 11, "w16": 10}, ne=3, rt={"w8": [(2, 14), (3, 9)], "w16": [(2, 15), (3, 9)]},
                     mut={"w8": [(2, 12), (3, 7)], "w16": [(2, 13), (3, 8)]}, unbounded=True, prod_parse_max=12000, prod_scale=3),
}
# model class of the decoder as written / reason given by the abstract layer / sanitizer text  ->  finding key
KEY_BAD = {"dst_overflow": "reduce:backref_dst_overflow", "src_stale": "reduce:backref_src_not_before_dst",
           "ind_uninit": "reduce:backref_ind_unwritten", "ind2pos_oob": "reduce:ind2pos_index_oob",
           "uint5": "reduce:uint_5byte_form"}
KEY_WHY = {"dst_bounds": KEY_BAD["dst_overflow"], "src_not_before_dst": KEY_BAD["src_stale"], "ri_zero": KEY_BAD["ind_uninit"],
           "uint5": KEY_BAD["uint5"]}
TEXT = {
    "reduce:backref_dst_overflow": "reduce_decode_get copies a back reference past the end of buf (only sym_pos+ref_len is bounded, not pos+ref_len)",
    "reduce:backref_src_not_before_dst": "reduce_decode_get accepts a back reference whose source reaches into/over the write position (overlapping memcpy, stale bytes)",
    "reduce:backref_ind_unwritten": "reduce_decode_get accepts ref_ind 0 and reads an ind2pos entry that was not written for this buffer",
    "reduce:ind2pos_index_oob": "reduce_decode_get indexes ind2pos[] at or beyond _REDUCE_BUF_LEN",
    "reduce:uint_5byte_form": "_reduce_uint_read takes first bytes 0x00-0x0f as a 5-byte number (assertion failure for 0x00-0x07 in assert builds; wraps ref_len in uint32_t)",
}


def san_key(msg):
    if "memcpy-param-overlap" in msg:
        return KEY_BAD["src_stale"]
    if "heap-buffer-overflow" in msg and "WRITE" in msg:
        return KEY_BAD["dst_overflow"]
    if "out of bounds for type 'uint32_t" in msg:
        return KEY_BAD["ind2pos_oob"]
    if "Assertion" in msg and "_reduce_uint_read" in msg:
        return KEY_BAD["uint5"]
    if "Assertion" in msg and "pos == " in msg:
        return KEY_BAD["dst_overflow"]
    return "reduce:sanitizer:" + (re.sub(r"[^a-z-]", "", (re.findall(r"AddressSanitizer: ([a-z-]+)", msg) or ["other"])[0]))


# ------------------------------------------------------------------ harness

def build(win, asserts=False):
    fl = BASE_FLAGS + ("" if asserts else " -DNDEBUG") + " " + WINDOWS[win]["flags"]
    import hashlib
    rtag = hashlib.md5(os.path.abspath(vlib.REPO).encode()).hexdigest()[:4]     # per-tree name: concurrent runs on other trees do not prune it
    return vlib.build_header_harness("c12_%s%s_%s" % (win, "_as" if asserts else "", rtag), SRC, "asan", extra_flags=fl)


def harness_consts(exe):
    p = subprocess.run([exe], input=b"", stdout=subprocess.PIPE, stderr=subprocess.PIPE, timeout=120,
                       env=dict(os.environ, ASAN_OPTIONS="detect_leaks=0"))
    m = re.match(r"CONST (\d+) (\d+) (\d+)", p.stdout.decode())
    if not m:
        raise MachineryError("harness did not report its constants: %r %r" % (p.stdout[:200], p.stderr[-500:]))
    return tuple(int(x) for x in m.groups())


def run_harness(exe, lines, chunk=256, par=None, timeout=3000):
    """Feed case lines; returns dict with FAIL/CRASH/ENC/MUT/ACC/MCRASH/DV records. Sharded over processes."""
    par = par or max(1, min(vlib.NCPU, len(lines) // 50 + 1))
    shards = [lines[i::par] for i in range(par)]
    sd = vlib.scratch_dir("c12h-")

    def one(k):
        if not shards[k]:
            return ""
        env = dict(os.environ, ASAN_OPTIONS="detect_leaks=0:allocator_may_return_null=1:symbolize=0", UBSAN_OPTIONS="symbolize=0", C12_ERRFILE=os.path.join(sd, "err%d.txt" % k))
        p = subprocess.run([exe, str(chunk)], input=("".join(l + "\n" for l in shards[k])).encode(), stdout=subprocess.PIPE,
                           stderr=subprocess.PIPE, timeout=timeout, env=env)
        out = p.stdout.decode("utf-8", "replace")
        m = re.search(r"^DONE (\d+) (\d+)$", out, re.M)
        if p.returncode != 0 or not m or int(m.group(1)) != len(shards[k]):
            raise MachineryError("harness %s died (rc=%s): %s" % (exe, p.returncode, p.stderr.decode()[-800:]))
        return out

    with ThreadPoolExecutor(max_workers=par) as ex:
        outs = list(ex.map(one, range(par)))
    import shutil
    shutil.rmtree(sd, ignore_errors=True)
    res = {"FAIL": [], "CRASH": [], "ENC": {}, "MUT": {}, "ACC": [], "MCRASH": [], "DV": {}, "MUTENC": {}, "MCAPPED": [], "DEC": {}}
    for out in outs:
        for l in out.splitlines():
            t = l.split(" ", 2)
            if t[0] == "DV":
                res["DV"][int(t[1])] = int(t[2])
            elif t[0] in ("FAIL", "CRASH"):
                res[t[0]].append((int(t[1]), t[2] if len(t) > 2 else ""))
            elif t[0] == "ENC":
                f = l.split(" ")
                res["ENC"][int(f[1])] = (tuple(int(x) for x in f[2:6]), bytes.fromhex(f[6]) if len(f) > 6 else b"")
            elif t[0] == "MUT":
                f = l.split(" ")
                res["MUT"][int(f[1])] = (int(f[2]), int(f[3]), int(f[4]), bytes.fromhex(f[5]) if len(f) > 5 else b"")
            elif t[0] == "DEC":
                f = l.split(" ")
                res["DEC"][int(f[1])] = (int(f[2]), bytes.fromhex(f[3]) if len(f) > 3 else b"")
            elif t[0] == "MUTENC":
                f = l.split(" ")
                res["MUTENC"][int(f[1])] = bytes.fromhex(f[2]) if len(f) > 2 else b""
            elif t[0] == "MCAPPED":
                res["MCAPPED"].append(int(t[1]))
            elif t[0] == "ACC":
                f = l.split(" ")
                res["ACC"].append((int(f[1]), f[2], int(f[3]), int(f[4]), int(f[5])))
            elif t[0] == "MCRASH":
                f = l.split(" ", 5)
                res["MCRASH"].append((int(f[1]), f[2], int(f[3]), int(f[4]), f[5] if len(f) > 5 else ""))
    return res


def d_line(i, exp, src, data, trl, hd):
    trl = trl if len(trl) == 8 else [0] * 8
    return "D %d %d %d %s %d %s %d %s %s" % (i, exp, len(src), " ".join(map(str, src)), len(data), " ".join(map(str, data)),
                                             -1 if hd is None else len(hd), "" if hd is None else " ".join(map(str, hd)),
                                             " ".join(map(str, trl)))


# ------------------------------------------------------------------ TLC

def tlc_rows(cfg, env, what, allow_violation=False, timeout=1700, heap="10g", on_row=None):
    """Run TLC, stream the emitted rows (to on_row if given, else collected). Returns (result, rows)."""
    of = os.path.join(vlib.scratch_dir("c12t-"), "tlc.out")
    r = run_tlc("Reduce", cfg, workers=vlib.NCPU, env=env, timeout=timeout, heap=heap, out_file=of, collect_out=False)
    r.out = ""
    rows, rest = [], []
    with open(of, errors="replace") as f:
        for line in f:
            if '"OUT' in line:
                for pay in vlib._OUT_RE.findall(line):
                    row = json.loads(vlib._unescape_tla(pay))
                    if on_row:
                        on_row(row)
                    else:
                        rows.append(row)
            elif len(rest) < 5000:
                rest.append(line.rstrip("\n"))
    r.out = "\n".join(rest)
    try:
        os.unlink(of)
    except OSError:
        pass
    tlc_ok(r, what, allow_violation=allow_violation)
    return r, rows


def write_cases(path, cases):
    with open(path, "w") as f:
        for c in cases:
            f.write(json.dumps(c, separators=(",", ":")) + "\n")


def tlc_file(cfg, cases, what, heap="10g -Xss256m"):
    """cases: list of dict(id, src, inp) -> dict id -> emitted record."""
    if not cases:
        return None, {}
    d = vlib.scratch_dir("c12f-")
    path = os.path.join(d, "cases.ndjson")
    write_cases(path, cases)
    r, rows = tlc_rows(cfg, {"C12FILE": path}, what, heap=heap)
    os.unlink(path)
    got = {row["id"]: row for row in rows}
    if len(got) != len(cases):
        raise MachineryError("%s: TLC classified %d of %d cases" % (what, len(got), len(cases)))
    return r, got


# ------------------------------------------------------------------ tier 1: model + replay

class Ctx:
    def __init__(self, ck, tier):
        self.ck, self.tier, self.T = ck, tier, TIERS[tier]
        self.states = self.trans = self.replayed = 0
        self.notes = []

    def tlc(self, r):
        self.states += r.distinct
        self.trans += r.states

    def violation(self, key, text, case):
        if key in TEXT and not text.startswith(TEXT[key]):
            text = TEXT[key] + " -- " + text
        return self.ck.violation(key, text, case)


def label_of(row):
    src, res, bad, asrt, data, trl, aacc, awhy, kind, hd = row
    if bad:
        return bad
    return "uint5"


def model_and_replay(cx, win, kind, cfgs, env, exe, exe_as, mutate=None):
    """kind: 'enum' | 'streams'.  Returns number of replayed cases."""
    ck = cx.ck
    cfg_fx, cfg_aw = cfgs
    labels, cls = {}, {}
    lines, info, disc = [], [], 0
    seen = set()
    naw = [0]
    def push(row, origin):
        nonlocal disc
        src, res, bad, asrt, data, trl, aacc, awhy, mk, hd = row
        key = " ".join(map(str, src))
        if key in seen:
            return
        if origin == "fixed":
            if res == "disc":
                disc += 1
                return
            if res == "bad":
                raise MachineryError("fixed machine reached a bad state: %r" % (row,))
            exp = 1 if res == "hash" else 0
        else:
            if aacc == "disc":
                disc += 1
                return
            if aacc == "hash":
                if bad:
                    raise MachineryError("abstract layer accepts a stream on which the as-written machine is undefined: %r" % (row,))
                return  # accepted by both: nothing the fixed run did not cover, except 5-byte forms (abs rejects those)
            exp = 0
        seen.add(key)
        lines.append(d_line(len(lines), exp, src, data if exp else [], trl if exp else [], None if hd == 0 else hd))
        info.append((key, mk, awhy, res))

    def on_aw(row):
        lab = label_of(row)
        labels[" ".join(map(str, row[0]))] = lab
        cls[lab] = cls.get(lab, 0) + 1
        naw[0] += 1
        push(row, "aw")

    r, _ = tlc_rows(cfg_fx, env, "%s %s" % (cfg_fx, env), allow_violation=True, on_row=lambda row: push(row, "fixed"))
    if r.rc == 12 or r.violation:
        raise MachineryError("model-level check failed: the decoder-shaped machine with the proposed checks violates %s (%s)"
                             % (r.violation, cfg_fx))
    cx.tlc(r)
    r2, _ = tlc_rows(cfg_aw, env, "%s %s" % (cfg_aw, env), on_row=on_aw)
    cx.tlc(r2)
    ck.add("model_as_written_flagged_%s_%s" % (win, kind), naw[0])
    for k, v in cls.items():
        ck.add("model_as_written_class_" + k, v)
    ck.add("discarded_undefined", disc)
    if not lines:
        raise MachineryError("no cases emitted by %s" % cfg_fx)
    if mutate:
        lines = mutate(lines)
    ck.sample({"window": win, "family": kind, "case_line": lines[len(lines) // 3], "format": "D id expect n items.. nd data.. nh hashbasis.. trailer(8)"}, maxn=6)
    res = run_harness(exe, lines)
    nacc = sum(1 for v in res["DV"].values() if v == 1)
    ck.add("replayed_%s_%s" % (win, kind), len(lines))
    ck.add("replayed_expected_accept", nacc)
    cx.replayed += len(lines)
    bad_ids = {}
    for i, msg in res["FAIL"]:
        bad_ids.setdefault(i, []).append(msg)
    for i, msg in res["CRASH"]:
        bad_ids.setdefault(i, []).append("sanitizer/crash: " + msg)
    # rule 5: re-run failing cases once, alone
    if bad_ids:
        def fkey(i):
            key, mk, awhy, mres = info[i]
            lab = labels.get(key)
            fk = KEY_BAD.get(lab) if lab else None
            msgs = "; ".join(bad_ids[i])[:500]
            if fk is None:   # not a stream on which the machine as written misbehaves: never a known finding
                fk = "reduce:model_mismatch:" + ("sanitizer_report" if "sanitizer/crash" in msgs else
                                                 "accept_expected" if lines[i].split()[2] == "1" else "reject_expected")
            return fk, lab, msgs
        # a known finding is not reported, so it is not re-run either
        ids = [i for i in sorted(bad_ids) if not ck.findings.is_known(PROP, fkey(i)[0])]
        again = run_harness(exe, [lines[i] for i in ids], chunk=1) if ids else {"FAIL": [], "CRASH": []}
        still = {i for i, _ in again["FAIL"]} | {i for i, _ in again["CRASH"]}
        for i in sorted(bad_ids):
            if i in ids and i not in still:
                cx.notes.append("case %d failed once and passed on re-run (not reported)" % i)
                continue
            key, mk, awhy, mres = info[i]
            fk, lab, msgs = fkey(i)
            cx.violation(fk, "window %s %s stream [%s] (%s): %s" % (win, kind, key, mk, msgs),
                         {"kind": "D", "window": win, "line": lines[i], "model_class_as_written": lab, "abs_reason": awhy})
    # assertion-enabled build: the streams on which the as-written model records a failing assertion
    asl = [lines[i] for i in range(len(lines)) if labels.get(info[i][0]) == "uint5"]
    asl = asl[::max(1, len(asl) // 1500)]
    if asl and exe_as:
        ra = run_harness(exe_as, asl)
        ck.add("replayed_assert_build", len(asl))
        for i, msg in (ra["CRASH"] + ra["FAIL"])[:50]:
            cx.violation(san_key(msg) if ("Assertion" in msg or "Sanitizer" in msg or "runtime error" in msg) else "reduce:assert_build_mismatch",
                         "assert-enabled build, window %s, stream [%s]: %s" % (win, info[i][0], msg[:300]),
                         {"kind": "D", "window": win, "asserts": True, "line": lines[i]})
    vlib.log("  %s/%s: fixed %d distinct states, as-written flagged %d; %d streams replayed (%d expected accept), %d mismatching"
             % (win, kind, r.distinct, naw[0], len(lines), nacc, len(bad_ids)))
    return len(lines)


def unbounded_memsafe(cx):
    ck = cx.ck
    cfg = "Reduce_ms.cfg" if cx.tier == "quick" else "Reduce_ms_t.cfg"
    r = run_tlc("Reduce", cfg, workers=vlib.NCPU, heap="10g", timeout=1500, collect_out=False)
    tlc_ok(r, cfg, allow_violation=True)
    if r.rc == 12:
        raise MachineryError("MemorySafe violated by the machine with the proposed checks (Reduce_ms.cfg): %s" % r.violation)
    cx.tlc(r)
    ck.setc("memsafe_unbounded_length_states_w8", r.distinct)
    ck.setc("memsafe_unbounded_length_depth", r.depth)
    d = run_tlc("Reduce", "Reduce_defect.cfg", workers=4, heap="4g", timeout=600, collect_out=False)
    tlc_ok(d, "Reduce_defect.cfg", allow_violation=True)
    cex = re.findall(r"/\\ src = (<<[^>]*>>)", d.out)
    ck.setc("model_as_written_memsafe", "violated" if d.rc == 12 else "holds")
    if d.rc == 12 and cex:
        ck.setc("model_as_written_counterexample", cex[-1])
    vlib.log("  unbounded MemorySafe (w8, any length): %d distinct states, depth %d; as-written machine: %s %s"
             % (r.distinct, r.depth, "VIOLATED" if d.rc == 12 else "holds", cex[-1] if cex and d.rc == 12 else ""))


# ------------------------------------------------------------------ tier 2/3 inputs

def all_strings(k, n):
    syms = [97, 98, 0][:k] if k <= 3 else list(range(k))
    for ln in range(0, n + 1):
        for t in itertools.product(syms, repeat=ln):
            yield list(t)


def prod_inputs(scale, rnd):
    B = 1 << 18
    out = []

    def add(name, b):
        out.append((name, bytes(b)))
    add("empty", b"")
    for n in (1, 3, 4, 5, 8, 9, 33, 34, 35, 36, 37, 38, 160, 2046, 2047, 2048, 2049, 4100):
        add("a*%d" % n, b"a" * n)
    for p in (2, 3, 4, 5, 7, 33, 255, 256, 2047, 2048):
        pat = bytes((i * 7 + 1) % 251 for i in range(p))
        add("period%d" % p, (pat * (6000 // p + 2))[:6000])
    for n in (1, 2, 7, 100, 2047, 2048, 5000):
        add("rand%d" % n, bytes(rnd.randrange(256) for _ in range(n)))
    add("rand_lowent", bytes(rnd.choice(b"ab") for _ in range(4000)))
    add("rand3", bytes(rnd.choice(b"abc") for _ in range(3000)))
    blk = bytes(rnd.randrange(256) for _ in range(300))
    add("far_repeat", blk + bytes(rnd.randrange(256) for _ in range(20000)) + blk + b"xyz" + blk[:150])
    add("long_ref_lens", b"".join(bytes([i]) * (30 + i) + blk[:i + 4] for i in range(40)))
    for fn in ("c2mir/c2mir.c", "mir.c", "mir-gen.c"):
        p = os.path.join(vlib.REPO, fn)
        if os.path.exists(p):
            t = open(p, "rb").read()
            add("text:" + fn + ":8k", t[:8000])
            add("text:" + fn + ":multibuf", t[:B + 50000 * scale])
    # buffer-boundary and multi-buffer inputs
    add("a*B-1", b"a" * (B - 1))
    add("a*B", b"a" * B)
    add("a*B+1", b"a" * (B + 1))
    add("a*2B+5", b"a" * (2 * B + 5))
    add("period7*B+3", (b"abcdefg" * (B // 7 + 2))[:B + 3])
    add("rand*B+100", bytes(rnd.randrange(256) for _ in range(B + 100)))
    add("rand_then_repeat_across_boundary", bytes(rnd.randrange(256) for _ in range(B - 10)) + b"0123456789" * 5)
    if scale > 1:
        add("rand*2B", bytes(rnd.randrange(256) for _ in range(2 * B)))
        add("lowent*3B", bytes(rnd.choice(b"ab") for _ in range(3 * B + 17)))
    return out


def bmir_inputs(cx, exe):
    """Real binary-MIR files written by MIR_write (mir.c) from mir-tests/*.mir: the stream must be accepted by the header's
    decoder, and re-encoding the payload with the header's encoder must reproduce the file byte for byte."""
    import glob
    files = sorted(glob.glob(os.path.join(vlib.REPO, "mir-tests", "*.mir")))
    if not files:
        return []
    d, objs, cc, flags = vlib.build_lib("plain", units=("mir.c",))
    tool = os.path.join(d, "c12_bmir.%d" % os.getpid())
    vlib.cc_link(cc, flags, [os.path.join(vlib.HARNESS, "c12_bmir.c")], objs, tool)
    streams = []
    for fn in files:
        p = subprocess.run([tool, fn], stdout=subprocess.PIPE, stderr=subprocess.PIPE, timeout=120)
        if p.returncode == 0 and p.stdout[:3] == b"MIR":
            streams.append((os.path.basename(fn), p.stdout))
    os.unlink(tool)
    if not streams:
        raise MachineryError("c12_bmir produced no binary MIR")
    res = run_harness(exe, ["X %d %d %s" % (i, len(s), " ".join(map(str, s))) for i, (_, s) in enumerate(streams)], chunk=1)
    out = []
    for i, (name, s) in enumerate(streams):
        if i not in res["DEC"] or not res["DEC"][i][0]:
            cx.violation("reduce:bmir_rejected", "binary MIR written by MIR_write for %s is not accepted by reduce_decode" % name,
                         {"kind": "X", "window": "prod", "stream": list(s)})
            continue
        out.append(("bmir:" + name, res["DEC"][i][1], s))
    cx.ck.add("binary_mir_files", len(out))
    return out


def r_line(i, b):
    return "R %d %d %s" % (i, len(b), " ".join(map(str, b)))


def m_line(i, stride, b):
    return "M %d %d %d %s" % (i, stride, len(b), " ".join(map(str, b)))


def mutated(enc, kind, pos, val):
    b = bytearray(enc)
    if kind == "trunc":
        return bytes(b[:pos])
    if kind == "subst":
        b[pos] = val
        return bytes(b)
    return bytes(b) + bytes([val])


def roundtrip(cx, win, exe, inputs, cfg, parse_max=None):
    """inputs: list of (name, bytes). Real encode+decode; TLC parses the encodings (all, or those <= parse_max bytes)."""
    ck = cx.ck
    res = run_harness(exe, [r_line(i, b) for i, (_, b) in enumerate(inputs)], chunk=64 if win != "prod" else 1)
    for i, msg in res["CRASH"]:
        cx.violation(san_key(msg), "round trip of input %r (%d bytes, %s): %s" % (inputs[i][0], len(inputs[i][1]), win, msg[:300]),
                     {"kind": "R", "window": win, "input": list(inputs[i][1][:4000]), "input_len": len(inputs[i][1])})
    cases, ratio = [], []
    for i, (name, b) in enumerate(inputs):
        if i not in res["ENC"]:
            continue
        (eok, trl_ok, dok, eq), enc = res["ENC"][i]
        if not (eok and trl_ok and dok and eq):
            cx.violation("reduce:roundtrip:" + ("encode" if not eok else "trailer" if not trl_ok else "decode_rejects" if not dok else "output_differs"),
                         "round trip failed for input %r (%d bytes, %s): encode ok=%d trailer ok=%d decode ok=%d equal=%d"
                         % (name, len(b), win, eok, trl_ok, dok, eq), {"kind": "R", "window": win, "input": list(b[:100000]), "input_len": len(b)})
        if len(b):
            ratio.append(len(enc) / len(b))
        if parse_max is None or len(enc) <= parse_max:
            cases.append({"id": i, "src": list(enc), "inp": list(b)})
    ck.add("roundtrip_inputs_%s" % win, len(inputs))
    r, got = tlc_file(cfg, cases, "%s parse of %d encodings" % (cfg, len(cases)))
    if r:
        cx.tlc(r)
    nbad = 0
    for c in cases:
        g = got[c["id"]]
        okm = g["res"] in ("hash", "abs") and (g["res"] == "abs" or (g["outeq"] and g["mtrl"] == c["src"][-8:]))
        if not (g["abs"] == "hash" and g["dataeq"] and g["canon"] and g["trl"] == c["src"][-8:] and okm):
            nbad += 1
            cx.violation("reduce:encoder_output:" + (g["why"] or ("not_canonical" if not g["canon"] else "meaning_differs")),
                         "TLC parse of the encoder output for input %r (%s): valid=%s reason=%s Expand=input:%s canonical=%s machine=%s"
                         % (inputs[c["id"]][0], win, g["abs"], g["why"], g["dataeq"], g["canon"], g["res"]),
                         {"kind": "R", "window": win, "input": c["inp"], "input_len": len(c["inp"]), "encoding": c["src"]})
    ck.add("encodings_parsed_by_tlc_%s" % win, len(cases))
    ck.add("elements_parsed_by_tlc", sum(got[c["id"]]["nel"] for c in cases))
    if cases:
        ck.sample({"window": win, "family": "roundtrip", "input": cases[len(cases) // 2]["inp"][:64], "encoding": cases[len(cases) // 2]["src"][:96],
                   "tlc": {k: got[cases[len(cases) // 2]["id"]][k] for k in ("abs", "canon", "nel", "dataeq")}}, maxn=10)
    vlib.log("  %s round trip: %d inputs, %d encodings parsed by TLC (%d objections)%s"
             % (win, len(inputs), len(cases), nbad, ", mean ratio %.2f" % (sum(ratio) / len(ratio)) if ratio else ""))
    return res


def corrupt(cx, win, exe, inputs, cfg, strides, parse_max=None, aw_cfg=None):
    ck = cx.ck
    lines = [m_line(i, strides[i], b) for i, (_, b) in enumerate(inputs)]
    res = run_harness(exe, lines, chunk=16 if win != "prod" else 1, par=vlib.NCPU)
    nmut = sum(v[1] for v in res["MUT"].values())
    nacc = sum(v[2] for v in res["MUT"].values())
    ck.add("corruptions_applied_%s" % win, nmut)
    cx.replayed += nmut
    for i, msg in res["FAIL"]:
        cx.violation("reduce:roundtrip:" + win, "input %r: %s" % (inputs[i][0], msg), {"kind": "R", "window": win, "input": list(inputs[i][1][:100000]), "input_len": len(inputs[i][1])})
    for i, msg in res["CRASH"]:
        cx.violation(san_key(msg), "harness died on corruption case of input %r (%s): %s" % (inputs[i][0], win, msg[:300]),
                     {"kind": "M", "window": win, "input": list(inputs[i][1][:100000]), "input_len": len(inputs[i][1]), "stride": strides[i]})
    # every mutated stream that died or was accepted is classified by TLC: abstract verdict (valid alias?) and, for the
    # small windows, the state in which the machine as written stops (the known defect classes)
    evs = [(i, kind, pos, val, None, msg) for i, kind, pos, val, msg in res["MCRASH"]] + [(i, kind, pos, val, eq, "") for i, kind, pos, val, eq in res["ACC"]]
    cases, meta, per_key = [], [], {}
    nreal = nbytes = 0
    lim = None if parse_max is None else max(parse_max, 30000)
    for i, kind, pos, val, eq, msg in evs:
        enc = res["MUT"][i][3] if i in res["MUT"] else res["MUTENC"].get(i)
        m = mutated(enc, kind, pos, val) if enc is not None else None
        big = len(inputs[i][1]) > 20000      # big input: TLC is given no copy of it and reports the length of Expand instead
        wt = len(m or b"") + (len(inputs[i][1]) // 16 if big else len(inputs[i][1]))
        if (m is None or (lim is not None and len(m) > lim) or nreal >= (2000 if win == "prod" else 40000) or nbytes + wt > (1000000 if win == "prod" else 4000000)
                or (win == "prod" and eq is None)):   # production window: sanitizer reports are keyed by their text
            cases.append(None)   # not classified by TLC (too long / too many): reported under a key that is never "known"
        else:
            cases.append({"id": len(cases), "src": list(m), "inp": [] if big else list(inputs[i][1]), "n": len(inputs[i][1]), "big": big})
            nreal += 1
            nbytes += wt
        meta.append((i, kind, pos, val, eq, msg))
    real = [c for c in cases if c is not None]
    r, got = tlc_file(cfg, real, "%s classification of %d dying/accepted corruptions" % (cfg, len(real)))
    if r:
        cx.tlc(r)
    got_aw = {}
    if aw_cfg and real:
        r, got_aw = tlc_file(aw_cfg, real, "%s classification (machine as written)" % aw_cfg)
        cx.tlc(r)
    benign = unarb = 0
    for c, (i, kind, pos, val, eq, msg) in zip(cases, meta):
        g = got[c["id"]] if c is not None else None
        ga = got_aw.get(c["id"]) if c is not None else None
        if g is not None and eq and g["abs"] == "hash" and (g["dlen"] == c["n"] if c["big"] else g["dataeq"]) and g["trl"] == c["src"][-8:]:
            benign += 1
            continue
        if ga is not None:
            lab = ga["bad"] or ("uint5" if ga["asrt"] else "")
            k = KEY_BAD.get(lab, "reduce:unexplained:" + ("sanitizer_report" if eq is None else "accepted_damaged_stream"))
        elif eq is None:
            k = san_key(msg)
        elif g is not None:
            k = KEY_WHY.get(g["why"], "reduce:accepted_damaged_stream:" + (g["why"] or "meaning"))
        elif eq:
            # accepted with exactly the original output, but too long / too many for the TLC parse: a valid alias or one of the
            # classes already exhibited on short encodings; counted, not reported (every mutation kind is also applied to
            # thousands of short encodings that are classified)
            unarb += 1
            continue
        else:
            k = "reduce:accepted_damaged_stream:output_differs"
        per_key[k] = per_key.get(k, 0) + 1
        if per_key[k] > 40:
            continue
        what = ("sanitizer report: " + msg[:260]) if eq is None else ("ACCEPTED, output %s input" % ("=" if eq else "#"))
        cx.violation(k, "%s: %s at %d (value %d) of the encoding of input %r (%d bytes): %s; TLC: %s"
                     % (win, kind, pos, val, inputs[i][0], len(inputs[i][1]), what,
                        "valid=%s reason=%s as-written machine: %s" % (g["abs"], g["why"], (ga or {}).get("bad", "n/a")) if g else "not parsed"),
                     {"kind": "M1", "window": win, "input": list(inputs[i][1][:100000]), "input_len": len(inputs[i][1]), "mut": [kind, pos, val]})
    ck.add("corruptions_with_sanitizer_report_%s" % win, len(res["MCRASH"]))
    ck.add("inputs_abandoned_after_16_sanitizer_reports", len(res["MCAPPED"]))
    ck.add("corruptions_accepted_but_valid_alias_%s" % win, benign)
    ck.add("corruptions_accepted_same_output_not_arbitrated_%s" % win, unarb)
    vlib.log("  %s corruption: %d inputs, %d mutated streams decoded, %d accepted (%d are valid aliases per TLC), %d sanitizer reports"
             % (win, len(inputs), nmut, nacc, benign, len(res["MCRASH"])))


# ------------------------------------------------------------------ run

def run(tier, mutate=None, only=None):
    ck = Check(PROP, tier, "model_checking")
    cx = Ctx(ck, tier)
    T = cx.T
    rnd = random.Random(vlib.seed())
    exe = {w: build(w) for w in WINDOWS}
    hook = harness_consts(exe["w8"])[0] == 8 and harness_consts(exe["w16"])[0] == 16
    if harness_consts(exe["prod"]) != (1 << 18, 4, 2047):
        raise MachineryError("production-constant harness reports %r" % (harness_consts(exe["prod"]),))
    ck.setc("hook_H1_present", hook)
    vlib.log("C12: hook H1 (MIR_VERIF_REDUCE_*) %s in %s" % ("present" if hook else "ABSENT: small-window replay/round-trip tiers skipped", vlib.REPO))
    # ---- model (always) + replay into the small-window build (needs the hook)
    if T["unbounded"] and only in (None, "model"):
        unbounded_memsafe(cx)
    if hook:
        exe_as = {w: build(w, asserts=True) for w in ("w8", "w16")}
        for win in ("w8", "w16"):
            W = WINDOWS[win]
            if only in (None, "model"):
                model_and_replay(cx, win, "enum", W["enum"], {"C12COST": T["cost"][win]}, exe[win], exe_as[win], mutate)
                if W["streams"]:
                    model_and_replay(cx, win, "streams", W["streams"], {"C12NE": T["ne"]}, exe[win], exe_as[win], mutate)
            if only in (None, "rt"):
                ins = []
                for k, n in T["rt"][win]:
                    ins += [("s%d:%s" % (k, "".join(chr(c if c else 48) for c in s)), bytes(s)) for s in all_strings(k, n)]
                ins += [("multibuf%d" % j, bytes(rnd.choice(b"ab") for _ in range(W["buf"] * 2 + j))) for j in range(W["buf"] + 2)]
                ins += [("multibuf3_%d" % j, bytes(rnd.choice(b"abc") for _ in range(W["buf"] * 5 + j))) for j in range(40)]
                ins += [("a*%d" % j, b"a" * j) for j in range(W["buf"] * 4 + 2)]
                roundtrip(cx, win, exe[win], ins, W["file"][0])
                mins = []
                for k, n in T["mut"][win]:
                    mins += [("s%d:%s" % (k, "".join(chr(c if c else 48) for c in s)), bytes(s)) for s in all_strings(k, n) if len(s) >= n - 3]
                mins += ins[-(W["buf"] * 4 + 2 + 40 + W["buf"] + 2):]
                corrupt(cx, win, exe[win], mins, W["file"][0], [1] * len(mins), aw_cfg=W["file"][1])
    else:
        # the model is still checked; only its replay needs the small window
        for win in ("w8", "w16"):
            W = WINDOWS[win]
            r, _ = tlc_rows(W["enum"][0], {"C12COST": T["cost"][win]}, W["enum"][0], allow_violation=True, on_row=lambda row: None)
            if r.rc == 12:
                raise MachineryError("model-level check failed: %s" % r.violation)
            cx.tlc(r)
        ck.assumptions.append("hook H1 not applied in the tree under test: the streams classified by the model were NOT replayed into a "
                              "small-window build; only production-constant round trip / corruption tiers ran against the code")
    # ---- production constants
    if only in (None, "prod"):
        pin = prod_inputs(T["prod_scale"], rnd)
        bm = bmir_inputs(cx, exe["prod"])
        pin += [(n, b) for n, b, _ in bm]
        rres = roundtrip(cx, "prod", exe["prod"], pin, "Reduce_parse.cfg", parse_max=T["prod_parse_max"])
        for k, (n, b, s) in enumerate(bm):
            i = len(pin) - len(bm) + k
            if i in rres["ENC"] and rres["ENC"][i][1] != s:
                cx.violation("reduce:bmir_encoding_differs", "re-encoding the payload of %s does not reproduce the MIR_write output" % n,
                             {"kind": "R", "window": "prod", "input": list(b), "input_len": len(b)})
        strides = []
        for name, b in pin:
            est = max(1, len(b))
            strides.append(1 if est <= 1500 else max(1, est // (400 * T["prod_scale"])))
        sel = [(i, x) for i, x in enumerate(pin) if len(x[1]) <= (1 << 18) + 60000 or T["prod_scale"] > 1]
        corrupt(cx, "prod", exe["prod"], [x for _, x in sel], "Reduce_parse.cfg", [strides[i] for i, _ in sel], parse_max=T["prod_parse_max"])
        # crafted streams for the defect classes the model exhibits, scaled to the production window
        crafted(cx, exe["prod"])
    ck.setc("states", cx.states)
    ck.setc("transitions", cx.trans)
    ck.setc("traces_validated_against_impl", cx.replayed)
    ck.setc("bounds", {"enum_items_after_prefix": T["cost"], "elements_per_stream": T["ne"], "roundtrip_alphabet_maxlen": T["rt"],
                       "windows": {w: {k: WINDOWS[w][k] for k in ("buf", "start", "maxsym")} for w in WINDOWS}})
    ck.setc("exhaustive", True)
    ck.setc("rule", "TLC: decoder-shaped machine == abstract stream layer on every byte string of the reduced alphabet up to the stated "
                    "number of items (symbol bytes restricted to 2 values: the decoder only copies them), on every stream of <= NE elements "
                    "of ElemsSmall with every truncation / substitution from 6 values / extension, and MemorySafe for strings of any length "
                    "(BufLen 8). Every classified stream is decoded by the real code (ASan/UBSan, two fill patterns of the decoder state) and "
                    "ok flag + output compared. Real encoder outputs are parsed by TLC (grammar, ValidStream, canonical, Expand = input).")
    ck.setc("trusted_base", ["TLC", "clang ASan/UBSan", "mir_hash_strict itself (used to complete the verdict)", "harness/c12_reduce.c"])
    ck.assumptions += ["the check hash is outside TLA+: the spec reports trailer and data, the harness compares with mir_hash_strict",
                       "Strict is decided as: accepted => well-formed, ValidStream, complete, trailer = hash(Expand); a damaged stream that is "
                       "itself a valid stream with the same meaning (e.g. a reference to another copy of the same bytes) is not an error",
                       "library built with NDEBUG as the baseline; assertion-enabled build replayed only for the uint first-byte class"]
    for n in cx.notes[:10]:
        ck.assumptions.append(n)
    return ck.finish()


def uint_bytes(u):
    n = 1
    while n <= 4 and u >= (1 << (7 * n)):
        n += 1
    b = [(1 << (8 - n)) | ((u >> ((n - 1) * 8)) & 0xff)]
    for i in range(2, n + 1):
        b.append((u >> ((n - i) * 8)) & 0xff)
    return b


def ref_bytes(L, ind):
    f = L - 3
    return ([f] if f < 31 else [31] + uint_bytes(f)) + uint_bytes(ind)


def crafted_streams():
    """Production-window instances of the as-written model's bad classes (the same shapes TLC finds with BufLen 8)."""
    B = 1 << 18
    pre = [77, 73, 82]
    s = pre + [0x80, 97, 98, 99, 100]
    pos, ci = 4, 4
    while pos * 2 <= B // 2:
        s += ref_bytes(pos, ci)
        ci += 1
        pos *= 2
    dst = s + [0xE0] + uint_bytes(8) + [1, 2, 3, 4, 5, 6, 7, 8] + ref_bytes(B // 2, ci + 8)
    out = [("dst_overflow", dst + [0] * 9),
           ("src_stale", pre + [0x80, 97, 98, 99, 100] + ref_bytes(8, 4) + [0] * 9),
           ("ind_uninit", pre + [0x80, 97, 98, 99, 100] + ref_bytes(4, 0) + [0] * 9),
           ("uint5", pre + [0xE0, 0x08, 0, 0, 0, 4, 97, 98, 99, 100, 0] + list(range(256, 264)))]
    w = pre + [0x20, 97]
    for _ in range(B + 2):
        w += [0x1F, 0x0F, 0xFF, 0xFF, 0xFF, 0xFD, 0x81]
    out.append(("ind2pos_oob", w + [0] * 9))
    return out


def crafted(cx, exe):
    cs = crafted_streams()
    lines = [d_line(i, 0, s, [97, 98, 99, 100], list(range(256, 264)), None) for i, (_, s) in enumerate(cs)]
    res = run_harness(exe, lines, chunk=1)
    hit = {i: m for i, m in res["FAIL"] + res["CRASH"]}
    cx.ck.add("crafted_production_streams", len(cs))
    cx.replayed += len(cs)
    for i, (cls, s) in enumerate(cs):
        if i in hit:
            cx.violation(KEY_BAD[cls], "production constants, crafted %d-byte stream %s: %s"
                         % (len(s), " ".join("%02x" % x if x < 256 else "H%d" % (x - 256) for x in s[:80]) + (" ..." if len(s) > 80 else ""), hit[i][:300]),
                         {"kind": "D", "window": "prod", "line": lines[i] if len(lines[i]) < 200000 else None, "crafted": cls})
    vlib.log("  production constants, %d crafted invalid streams: %d not rejected cleanly" % (len(cs), len(hit)))


# ------------------------------------------------------------------ replay / selftest

def replay(path):
    d = json.load(open(path))
    c = d["case"]
    win = c["window"]
    exe = build(win, asserts=bool(c.get("asserts")))
    if harness_consts(exe)[0] != WINDOWS[win]["buf"]:
        print("replay: hook H1 not present in %s, cannot build window %s" % (vlib.REPO, win))
        return 2
    if c["kind"] == "D":
        line = c.get("line")
        if line is None:
            cs = dict(crafted_streams())
            line = d_line(0, 0, cs[c["crafted"]], [97, 98, 99, 100], list(range(256, 264)), None)
        res = run_harness(exe, [line], chunk=1)
        bad = res["FAIL"] + res["CRASH"]
    else:
        b = bytes(c["input"])
        if c["input_len"] != len(b):
            print("replay: input was truncated in the replay file (%d of %d bytes); re-run the tier" % (len(b), c["input_len"]))
            return 2
        if c["kind"] == "R":
            res = run_harness(exe, [r_line(0, b)], chunk=1)
            bad = res["CRASH"] + [(0, "flags %r" % (res["ENC"][0][0],)) for _ in [0] if 0 in res["ENC"] and not all(res["ENC"][0][0])]
            if not bad and "encoding" in c:
                cfg = WINDOWS[win]["file"][0]
                _, got = tlc_file(cfg, [{"id": 0, "src": list(res["ENC"][0][1]), "inp": list(b)}], "replay parse")
                g = got[0]
                if not (g["abs"] == "hash" and g["dataeq"] and g["canon"]):
                    bad = [(0, "TLC parse: %r" % g)]
        else:
            res = run_harness(exe, [m_line(0, c.get("stride", 1), b)], chunk=1)
            bad = res["CRASH"] + res["MCRASH"]
            if c["kind"] == "M1":
                kind, pos, val = c["mut"]
                bad = [x for x in res["MCRASH"] if (x[1], x[2], x[3]) == (kind, pos, val)] + [x for x in res["ACC"] if (x[1], x[2], x[3]) == (kind, pos, val)]
    if bad:
        print("replay: still failing:", str(bad)[:600])
        print("VIOLATION property=%s replay=%s" % (PROP, path))
        return 1
    print("replay: passes")
    return 0


def selftest():
    """Binding demonstration: (1) flip the expected verdict / output of model cases, the harness must object;
    (2) damage an encoding handed to the TLC parser, TLC must object; (3) an undamaged control must pass."""
    bad = 0
    exe = build("w16")
    hook = harness_consts(exe)[0] == 16
    win = "w16" if hook else "prod"
    exe = exe if hook else build("prod")
    r, rows = tlc_rows("Reduce_st.cfg", {"C12NE": 1}, "selftest streams")
    acc = [x for x in rows if x[1] == "hash" and x[8] == "none" and x[4]]
    rej = [x for x in rows if x[1] == "rej" and x[8] == "trunc"]
    if hook:
        a, j = acc[0], rej[0]
        lines = [d_line(0, 1, a[0], a[4], a[5], None), d_line(1, 0, j[0], [], [], None),
                 d_line(2, 0, a[0], [], [], a[4]),                         # valid stream, expectation flipped to reject
                 d_line(3, 1, a[0], a[4][:-1] + [a[4][-1] ^ 1], a[5], a[4])]  # expected output corrupted
        res = run_harness(exe, lines, chunk=1)
        f = {i for i, _ in res["FAIL"] + res["CRASH"]}
        ok = f == {2, 3}
        print("selftest replay: controls pass, flipped verdict and corrupted output %s" % ("rejected" if ok else "NOT rejected: %r" % sorted(f)))
        bad += 0 if ok else 1
    else:
        print("selftest replay: hook H1 absent, small-window replay not available")
    inp = b"abababababababababab" * 3
    res = run_harness(exe, [r_line(0, inp)], chunk=1)
    enc = list(res["ENC"][0][1])
    dam = list(enc)
    dam[5] ^= 0x01
    cfg = WINDOWS[win]["file"][0]
    _, got = tlc_file(cfg, [{"id": 0, "src": enc, "inp": list(inp)}, {"id": 1, "src": dam, "inp": list(inp)},
                            {"id": 2, "src": enc, "inp": list(inp[:-1] + b"x")}], "selftest parse")
    ok = (got[0]["abs"] == "hash" and got[0]["dataeq"] and got[0]["canon"]) and not (got[1]["abs"] == "hash" and got[1]["dataeq"]) and not got[2]["dataeq"]
    print("selftest parse: TLC accepts the real encoding and %s the damaged one / the wrong input" % ("objects to" if ok else "does NOT object to"))
    bad += 0 if ok else 1
    return 1 if bad else 0
