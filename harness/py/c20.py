"""C20: the C emitted by MIR_module2c computes what the module computes.  Programs and their well-definedness come
from MIRProg.tla/MIRSem.tla (single-result vocabulary); the translation is compiled with gcc and must be accepted,
terminate, and give the interpreter's result, memory and external-call log."""
import json, os, subprocess, collections, hashlib, shutil
import vlib, progs, mirlib
from vlib import Check, MachineryError

PROP = "C20"


def build_m2c():
    d, objs, cc, flags = vlib.build_lib("plain", ("mir.c", "mir-gen.c", "mir2c/mir2c.c"))
    exe = os.path.join(d, "c20_m2c")
    src = os.path.join(vlib.HARNESS, "c20_m2c.c")
    stamp = exe + ".srchash"
    h = vlib.tree_hash([src])
    if not os.path.exists(exe) or not os.path.exists(stamp) or open(stamp).read() != h:
        vlib.cc_link(cc, flags, [src], objs, exe)
        open(stamp, "w").write(h)
    drv = os.path.join(d, "c20_driver.o")
    dsrc = os.path.join(vlib.HARNESS, "c20_driver.c")
    if not os.path.exists(drv) or os.path.getmtime(drv) < os.path.getmtime(dsrc):
        vlib.sh("gcc -O1 -c %s -o %s" % (dsrc, drv), check=True)
    return exe, drv


TABLE_DRIVER = r"""
#include <stdio.h>
#include <stdlib.h>
#include <string.h>
#include <stdint.h>
%(decls)s
static struct { const char *n; int64_t (*f) (void *); } tab[] = { %(tab)s {0, 0} };
static int hv (int c) { return c <= '9' ? c - '0' : (c | 32) - 'a' + 10; }
int main (void) {
  static char line[1 << 16];
  static unsigned char buf[1 << 15];
  while (fgets (line, sizeof (line), stdin) != NULL) {
    char *sp = strchr (line, ' ');
    size_t n, i;
    int k;
    if (sp == NULL) continue;
    *sp++ = 0;
    n = strlen (sp);
    while (n > 0 && (sp[n - 1] == '\n' || sp[n - 1] == ' ')) n--;
    n /= 2;
    for (i = 0; i < n; i++) buf[i] = (unsigned char) (hv (sp[2 * i]) * 16 + hv (sp[2 * i + 1]));
    for (k = 0; tab[k].n != 0 && strcmp (tab[k].n, line) != 0; k++) ;
    if (tab[k].n == 0) { printf ("F no function %%s\n", line); continue; }
    tab[k].f (buf);
    printf ("R ");
    for (i = 0; i < n; i++) printf ("%%02x", buf[i]);
    printf ("\n");
    fflush (stdout);
  }
  return 0;
}
"""


class _Res:
    def __init__(self, status, buf="", detail=""):
        self.status, self.buf, self.detail = status, buf, detail


def table_pass(ck, tier, m2c):
    """every row of the C02 instruction table (spec/C02Table.tla: opcode x boundary grid, every operand shape) through the
    translator: the compiled C must give the value the specification gives"""
    import c02
    from concurrent.futures import ThreadPoolExecutor
    r = vlib.run_tlc("C02Table", "C02Table.cfg", workers=vlib.NCPU, env={"C02_GRID": "full" if tier == "thorough" else "quick"},
                     heap="8g", timeout=3000)
    vlib.tlc_ok(r, "C02Table")
    rows = r.outs
    P, host_req = c02.build_plan(rows, "quick")
    c02.resolve_host(host_req)
    byf = collections.OrderedDict()
    for c in P.calls:
        byf.setdefault(c[0], []).append(c)
    fnames = list(byf)
    nchunks = max(1, min(len(fnames) // 150 + 1, vlib.NCPU * 2))
    chunks = [fnames[i::nchunks] for i in range(nchunks)]
    work = vlib.scratch_dir("c20t-")

    def do(ci):
        ch = chunks[ci]
        text = "m: module\n export " + ", ".join(ch) + "\n" + "".join(P.funcs[f] for f in ch) + " endmodule\n"
        calls = [c for f in ch for c in byf[f]]
        try:
            p = subprocess.run([m2c], input=text.encode(), stdout=subprocess.PIPE, stderr=subprocess.PIPE, timeout=120)
        except subprocess.TimeoutExpired:
            return len(calls), [(calls[0], "MIR_module2c did not terminate on the table module", text)]
        if p.returncode != 0:
            return len(calls), [(calls[0], "mir2c exit %d: %s" % (p.returncode, p.stderr.decode()[-200:]), text)]
        cfile = os.path.join(work, "t%d.c" % ci); dfile = os.path.join(work, "d%d.c" % ci); exe = os.path.join(work, "t%d.exe" % ci)
        open(cfile, "w").write(p.stdout.decode("utf-8", "replace"))
        open(dfile, "w").write(TABLE_DRIVER % {"decls": "".join("extern int64_t %s (void *);\n" % f for f in ch),
                                               "tab": "".join('{"%s", %s}, ' % (f, f) for f in ch)})
        rc, o, e = vlib.sh(["gcc", "-O0", "-fwrapv", "-fno-strict-aliasing", "-w", cfile, dfile, "-o", exe, "-lm"], timeout=600)
        if rc != 0:
            return len(calls), [(calls[0], "gcc rejected the translation of the table module: " + e[-300:], text)]
        inp = "".join("%s %s\n" % (c[0], c[1]) for c in calls)
        try:
            q = subprocess.run([exe], input=inp.encode(), stdout=subprocess.PIPE, stderr=subprocess.PIPE, timeout=600)
            outs = [l[2:] for l in q.stdout.decode().split("\n") if l.startswith("R ")]
        except subprocess.TimeoutExpired:
            outs = []
        bad = []
        for k, c in enumerate(calls):
            res = _Res("ok", outs[k]) if k < len(outs) else _Res("crash", detail="compiled translation died or hung at call %d" % k)
            msg = c02.check_call(res, c[2])
            if msg:
                bad.append((c, msg, text))
                if res.status != "ok":
                    break
        for f in (cfile, dfile, exe):
            try:
                os.unlink(f)
            except OSError:
                pass
        return len(calls), bad

    total = 0
    allbad = []
    with ThreadPoolExecutor(max_workers=vlib.NCPU) as ex:
        for n, bad in ex.map(do, range(len(chunks))):
            total += n
            allbad += bad
    shutil.rmtree(work, ignore_errors=True)
    for c, msg, text in allbad[:500]:
        fname, hexbuf, e, row, shape = c
        ck.violation("mir2c:table:" + c02.finding_key(row, shape, "m2c"), "%s shape=%s: %s" % (json.dumps(row)[:300], shape, msg),
                     {"row": row, "shape": shape, "func": P.funcs[fname], "buf": hexbuf})
    ck.setc("table_rows", len(rows)); ck.setc("table_functions", len(P.funcs)); ck.setc("table_executions", total)
    return total


def entry_text(prog):
    t = progs.render_prog(prog, skip_funcs={"g3", "g16"})
    return t.replace(" export main\n", " export entry\n").replace("main: func", "entry: func")


def translate_and_run(m2c, drv, text, hexbuf, workdir, tag):
    """returns (kind, Obs or message).  kind: ok | translator_error | translator_timeout | cc_rejected | run_failed"""
    try:
        p = subprocess.run([m2c], input=text.encode(), stdout=subprocess.PIPE, stderr=subprocess.PIPE, timeout=10)
    except subprocess.TimeoutExpired:
        return "translator_timeout", "MIR_module2c did not terminate within 10 s"
    csrc = p.stdout.decode("utf-8", "replace")
    if p.returncode != 0:
        return "translator_error", "mir2c exit %d: %s %s" % (p.returncode, csrc[-200:], p.stderr.decode()[-200:])
    cfile = os.path.join(workdir, tag + ".c")
    exe = os.path.join(workdir, tag + ".exe")
    open(cfile, "w").write(csrc)
    # -O0 -fwrapv: wrapping signed arithmetic, the meaning MIR gives to add/sub/mul; no C-level UB exploitation
    rc, o, e = vlib.sh(["gcc", "-O0", "-fwrapv", "-fno-strict-aliasing", "-w", cfile, drv, "-o", exe], timeout=120)
    if rc != 0:
        return "cc_rejected", "gcc rejected the translation: " + e[-400:]
    try:
        q = subprocess.run([exe, hexbuf], stdout=subprocess.PIPE, stderr=subprocess.PIPE, timeout=30)
    except subprocess.TimeoutExpired:
        return "run_failed", "compiled translation did not terminate"
    finally:
        pass
    out = q.stdout.decode()
    os.unlink(exe)
    for ln in out.split("\n"):
        if ln.startswith("R "):
            parts = ln.split(" ")
            res = mirlib.CallResult("ok" if parts[3] == "g" else "guard", parts[1], parts[2], [x for x in parts[5:] if x])
            return "ok", progs.Obs(res)
    return "run_failed", "rc=%s out=%s" % (q.returncode, out[-100:])


def run(tier, cases=None):
    cases_given = cases
    ck = Check(PROP, tier, "model_checking")
    nprog = 800 if tier == "quick" else 6000
    if cases is None:
        cases, r = progs.generate(nprog, seed=vlib.seed() + 2000, cfg="MIRProg_c20.cfg")
        ck.setc("states", r.states); ck.setc("transitions", r.states)
    else:
        ck.setc("states", len(cases)); ck.setc("transitions", len(cases))
    if cases_given is None:
        # parametric families (families.py, c01.py): single-function modules with expected observations from MIRRun.tla
        import c01, families
        k = 1 if tier == "thorough" else 6
        fam, rf = progs.run_family(families.property_cases() + families.clone_jmpi_cases() + c01.island_cases()[::k] + c01.loop_cases()[::k]
                                   + families.fpcmp_cases()[::k] + families.andext_cases()[::k] + families.spill_index_cases()[::k]
                                   + c01.memwin_cases(40 * k, vlib.seed() % 40) + c01.gvar_cases()[::k] + families.jcall_cases()[:6:2])
        cases = cases + fam
        ck.setc("family_cases", len(fam))
    m2c, drv = build_m2c()
    st = collections.Counter(c["status"] for c in cases)
    todo = [(i, c) for i, c in enumerate(cases) if c["status"] == "done"]
    exe = mirlib.build_runner("plain")
    work = vlib.scratch_dir("c20-")
    kinds = collections.Counter()

    def do(ic):
        i, c = ic
        text = entry_text(c["prog"])
        hx = progs.cells_bytes(c["buf0"])[0].hex()
        io = progs.Obs(mirlib.run_group(exe, text, "interp", [("entry", hx)], timeout=120)[0])
        kind, co = translate_and_run(m2c, drv, text, hx, work, "p%d" % i)
        return i, c, text, io, kind, co
    from concurrent.futures import ThreadPoolExecutor
    try:
        with ThreadPoolExecutor(max_workers=vlib.NCPU) as ex:
            results = list(ex.map(do, todo))
    finally:
        shutil.rmtree(work, ignore_errors=True)
    nval = 0
    for i, c, text, io, kind, co in results:
        so, nans = progs.spec_obs(c)
        kinds[kind] += 1
        ck.note_distinct(c["prog"]["funcs"][0]["insns"])
        if progs.compare_obs(so, io, nans, "spec", "interp"):
            kinds["skipped_spec_vs_interp"] += 1      # C04's business; the oracle here is the interpreter
            continue
        nval += 1
        ops = sorted({I["op"] for I in c["prog"]["funcs"][0]["insns"]})
        if kind != "ok":
            jc = any(I["op"] in ("jcall", "jret") for f in c["prog"]["funcs"] for I in f["insns"])      # no C counterpart: a listed finding
            ck.violation("mir2c:%s%s" % (kind, ":jcall" if jc else ""), "program %d: %s" % (i, co), {"case": c, "text": text})
            continue
        msg = progs.compare_obs(io, co, nans, "interp", "C")
        if msg:
            ck.violation("mir2c:result", "program %d: %s" % (i, msg), {"case": c, "text": text})
    ntab = table_pass(ck, tier, m2c) if cases_given is None else 0
    ck.setc("programs", len(cases)); ck.setc("programs_well_defined", st.get("done", 0))
    ck.setc("outcomes", dict(kinds)); ck.setc("traces_validated_against_impl", nval + ntab)
    ck.setc("rule", "behaviours of MIRProg.tla (single-result vocabulary); each well-defined program is translated by MIR_module2c, "
                    "compiled by gcc -O0 -fwrapv, run, and compared with MIR_interp (result, caller-owned memory, external-call log); "
                    "in addition every row of the C02 instruction table (C02Table.tla, every operand shape) is translated and must give "
                    "the value the specification gives")
    done = [c for c in cases if c["status"] == "done"]
    if done:
        ck.sample({"mir_text": entry_text(done[0]["prog"]), "result": done[0]["result"]}, maxn=1)
    ck.assumptions += ["translation compiled with gcc -O0 -fwrapv -fno-strict-aliasing (signed wrap-around as in MIR)"]
    if st.get("done", 0) < max(5, len(cases) // 10):
        raise MachineryError("too few well-defined programs: %s" % dict(st))
    return ck.finish()


def replay(path):
    d = json.load(open(path))
    return run("quick", cases=[d["case"]["case"]])


def selftest():
    cases, r = progs.generate(16, seed=5, cfg="MIRProg_c20.cfg")
    done = [c for c in cases if c["status"] == "done"][:1]
    m2c, drv = build_m2c()
    work = vlib.scratch_dir("c20-")
    text = entry_text(done[0]["prog"]); hx = progs.cells_bytes(done[0]["buf0"])[0].hex()
    kind, co = translate_and_run(m2c, drv, text, hx, work, "s")
    shutil.rmtree(work, ignore_errors=True)
    print("selftest C20: translation pipeline kind=%s" % kind)
    return 0 if kind in ("ok", "cc_rejected", "translator_error") else 1
