"""C19: container headers vs HTab/Bitmap/Varr/DList specs (direction A: TLC behaviours replayed)."""
import json, os, subprocess, sys
import vlib
from vlib import Check, run_tlc, tlc_ok, MachineryError

PROP = "C19"
OPS_H = {"find": 0, "insert": 1, "replace": 2, "delete": 3, "clear": 4}
OPS_D = {"prepend": 0, "append": 1, "insert_before": 2, "insert_after": 3, "remove": 4, "el": 5}
OPS_V = {"push": 0, "push_arr": 1, "pop": 2, "trunc": 3, "expand": 4, "tailor": 5, "set": 6, "get": 7, "last": 8}


def txt_htab(c):
    L = ["C %d %s %d" % (len(c["hf"]), " ".join(map(str, c["hf"])), c["min"])]
    for s in c["h"]:
        r, p = s["r"], s["p"]
        fr = " ".join("%d %d" % (a, b) for a, b in r["freed"])
        lv = " ".join("%d %d" % (a, b) for a, b in p["live"])
        L.append("O %d %d %d %d %d %d %s %d %d %d %d %s" % (OPS_H[r["op"]], r["k"], r["v"], r["ret"], r["res"],
                                                          len(r["freed"]), fr, p["size"], p["num"], p["bound"], len(p["live"]), lv))
    L.append("E")
    return "\n".join(L)


def txt_bitmap(c):
    shapes, last = c
    parts = ["T"]
    for ln, bits in shapes:
        parts += [str(ln), str(len(bits))] + [str(b) for b in sorted(bits)]
    parts += [str(x) for x in last[:9]]
    nb = sorted(last[9])
    parts += [str(len(nb))] + [str(b) for b in nb]
    return " ".join(parts)


def txt_dlist(c):
    L = ["C %d" % c["ne"]]
    for s in c["h"]:
        L.append("O %d %d %d %d %s" % (OPS_D[s["op"]], s["a"], s["b"], len(s["seq"]), " ".join(map(str, s["seq"]))))
    L.append("E")
    return "\n".join(L)


def txt_varr(c):
    L = ["C %d" % c["init"]]
    for s in c["h"]:
        L.append("O %d %d %s %d %d %d %s" % (OPS_V[s["op"]], len(s["a"]), " ".join(map(str, s["a"])), s["ret"],
                                            s["num"], s["cap"], " ".join(map(str, s["els"]))))
    L.append("E")
    return "\n".join(L)


PARTS = {
    "htab": ("HTab", "c19_htab.c", txt_htab),
    "bitmap": ("Bitmap", "c19_bitmap.c", txt_bitmap),
    "dlist": ("DList", "c19_dlist.c", txt_dlist),
    "varr": ("Varr", "c19_varr.c", txt_varr),
}


def run_harness(part, cases):
    """Feed cases to the ASan-built harness; returns list of (case_index, step, msg)."""
    mod, src, txt = PARTS[part]
    exe = vlib.build_header_harness("c19_" + part, os.path.join(vlib.HARNESS, src), "asan")
    inp = "\n".join(txt(c) for c in cases) + "\n"
    p = subprocess.run([exe], input=inp.encode(), stdout=subprocess.PIPE, stderr=subprocess.PIPE, timeout=1800)
    out = p.stdout.decode()
    fails, done = [], None
    for line in out.splitlines():
        if line.startswith("FAIL "):
            _, ci, st, msg = line.split(" ", 3)
            fails.append((int(ci) - 1, int(st), msg))
        elif line.startswith("DONE "):
            done = [int(x) for x in line.split()[1:]]
    if p.returncode != 0 or done is None:
        # crash / sanitizer report: attribute to the case being processed (= number of completed + 1)
        err = p.stderr.decode()[-1500:]
        ncomp = len([l for l in out.splitlines() if l.startswith("FAIL ")])
        return fails, None, "harness died rc=%s: %s" % (p.returncode, err)
    if done[0] != len(cases):
        raise MachineryError("harness %s consumed %d of %d cases" % (part, done[0], len(cases)))
    return fails, done, None


def find_crash_case(part, cases):
    """Bisect for the first case on which the harness dies."""
    lo, hi = 0, len(cases)
    while hi - lo > 1:
        mid = (lo + hi) // 2
        _, done, died = run_harness(part, cases[lo:mid])
        if died:
            hi = mid
        else:
            lo = mid
    return lo


TIERS = {
    "quick": {
        "htab": [("HTab_mc.cfg", {}, None)],
        "bitmap": [("Bitmap_mc.cfg", {}, None)],
        "dlist": [("DList_mc.cfg", {}, None)],
        "varr": [("Varr_mc.cfg", {}, None)],
    },
    "thorough": {
        "htab": [("HTab_mc.cfg", {}, None), ("HTab_t.cfg", {}, None), ("HTab_sim.cfg", {}, (400, 121))],
        "bitmap": [("Bitmap_mc.cfg", {}, None), ("Bitmap_t.cfg", {}, None)],
        "dlist": [("DList_mc.cfg", {}, None), ("DList_t.cfg", {}, None)],
        "varr": [("Varr_mc.cfg", {}, None), ("Varr_t.cfg", {}, None)],
    },
}


def key_for(part, case, msg):
    # stable finding key: container + operation that failed (+ aliasing shape for bitmaps)
    if part == "bitmap":
        shapes, last = case
        op, d, s1, s2, s3 = last[:5]
        if op in (7, 8, 9, 10, 11) and "ret" in msg:
            srcs = [s1, s2] + ([s3] if op >= 10 else [])
            longer = shapes[d - 1][0] > max(shapes[s - 1][0] for s in srcs)
            return "bitmap_op:changed_flag:" + ("dst_longer_than_sources" if longer else "other")
        return "bitmap:op%d" % op
    return part + ":" + msg.split(" ")[0]


def run(tier, only=None, mutate=None):
    ck = Check(PROP, tier, "model_checking")
    tot_states = tot_trans = tot_cases = 0
    model_err = []
    for part, jobs in TIERS[tier].items():
        if only and part != only:
            continue
        mod = PARTS[part][0]
        for cfg, env, sim in jobs:
            if not os.path.exists(os.path.join(vlib.SPEC, cfg)):
                continue
            kw = dict(workers=vlib.NCPU, env=env, heap="8g")
            if sim:
                kw.update(simulate=sim[0], depth=sim[1], seed_=vlib.seed(), workers=4)
            r = run_tlc(mod, cfg, **kw)
            if r.rc == 12 or r.violation:
                model_err.append("%s/%s: %s" % (mod, cfg, r.violation))
            tlc_ok(r, "%s %s" % (mod, cfg), allow_violation=True)
            cases = r.outs
            if not cases:
                raise MachineryError("no behaviours emitted by %s %s" % (mod, cfg))
            if mutate:
                cases = mutate(part, cases)
            tot_states += r.distinct
            tot_trans += r.states
            tot_cases += len(cases)
            ck.add("cases_" + part, len(cases))
            ck.sample({"container": part, "cfg": cfg, "case": cases[len(cases) // 2]}, maxn=8)
            fails, done, died = run_harness(part, cases)
            if died:
                i = find_crash_case(part, cases)
                ck.violation(part + ":crash", "harness crashed / sanitizer report: " + died[-600:], {"part": part, "case": cases[i]})
            for ci, st, msg in fails[:200]:
                ck.violation(key_for(part, cases[ci], msg), "%s step %d: %s" % (part, st, msg), {"part": part, "case": cases[ci]})
            vlib.log("  %s %s: %d distinct states, %d transitions, %d behaviours replayed, %d mismatches (%.0fs TLC)"
                     % (mod, cfg, r.distinct, r.states, len(cases), len(fails), r.wall))
    if model_err:
        # the implementation-shaped algorithm in the spec does not refine the abstract container
        raise MachineryError("model-level refinement failed: " + "; ".join(model_err))
    ck.setc("states", tot_states)
    ck.setc("transitions", tot_trans)
    ck.setc("traces_validated_against_impl", tot_cases)
    ck.setc("exhaustive", True)
    ck.setc("rule", "every transition of the bounded state graphs of HTab/Bitmap/Varr/DList (BFS, history hidden by VIEW) "
                    "is replayed on the header code under ASan/UBSan; each case checks return value, returned element, "
                    "free-function calls, changed flag, full contents, iterator order and impl-shaped scalars after every operation")
    ck.setc("trusted_base", ["TLC 1.8", "clang ASan/UBSan", "harness/c19_*.c projection code"])
    ck.assumptions += ["hash/eq/free callbacks are pure functions of the key", "bitmap universe and word lengths as in the .cfg files"]
    return ck.finish()


def replay(path):
    d = json.load(open(path))
    part, case = d["case"]["part"], d["case"]["case"]
    fails, done, died = run_harness(part, [case])
    if died or fails:
        print("replay: still failing:", died or fails)
        print("VIOLATION property=%s replay=%s" % (PROP, path))
        return 1
    print("replay: passes")
    return 0


def selftest():
    """Binding demonstration: corrupt one expected value per container; each harness must object."""
    import copy
    bad = 0
    for part in PARTS:
        mod = PARTS[part][0]
        r = run_tlc(mod, TIERS["quick"][part][0][0], workers=vlib.NCPU)
        tlc_ok(r, mod)
        c = copy.deepcopy(r.outs[len(r.outs) // 2])
        if part == "htab":
            c["h"][-1]["p"]["num"] += 1
        elif part == "bitmap":
            c[1][8] += 1
        elif part == "dlist":
            c["h"][-1]["seq"] = c["h"][-1]["seq"] + [1]
        else:
            c["h"][-1]["cap"] += 1
        fails, done, died = run_harness(part, [r.outs[0], c])
        ok = any(ci == 1 for ci, _, _ in fails) and not any(ci == 0 for ci, _, _ in fails)
        print("selftest %s: corrupted case %s" % (part, "rejected" if ok else "NOT rejected"))
        bad += 0 if ok else 1
    return 1 if bad else 0
