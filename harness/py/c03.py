"""C03: behaviour is independent of the execution interface and of the order of first calls.
Histories (interface x optimisation level x order of entry calls x MIR_interp/public address) come from
spec/MIRExec.tla; programs (two entry functions in one module importing helpers from another: direct, indirect,
recursive calls, a C callback re-entering MIR, label addresses) and their expected observations from MIRProg/MIRSem."""
import json, collections
import vlib, progs, mirlib, families
from vlib import Check, run_tlc, tlc_ok, MachineryError

PROP = "C03"


def modules(A, B):
    fa, fb = A["prog"]["funcs"], B["prog"]["funcs"]
    protos = {i + 1: f["name"] for i, f in enumerate(fa)}
    L = ["m1: module", " import ext_i", "p_ext: proto i64, i64:id, i64:v"]
    for f in fa[1:]:
        L.append(progs.proto_line(f))
    L.append("gdat: bss 64")
    L.append(progs.GD_ITEMS)
    L.append(" forward " + ", ".join(f["name"] for f in fa[1:]))
    L.append(progs.RT_ITEMS)
    L.append(" export gdat, gd, gq, rt, " + ", ".join(f["name"] for f in fa[1:]))
    for i, f in list(enumerate(fa))[1:]:
        L.append(progs.render_func(i, f, protos))
    L.append(" endmodule")
    L += ["m2: module", " import ext_i, ext_cb, gdat, gd, gq, rt, " + ", ".join(f["name"] for f in fa[1:]),
          "p_ext: proto i64, i64:id, i64:v", "p_cb: proto i64, i64:id, p:f, i64:v"]
    for f in fa[1:]:
        L.append(progs.proto_line(f))
    L.append(" export eA, eB")
    for nm, fs in (("eA", fa), ("eB", fb)):
        body = progs.render_func(0, fs[0], protos)
        L.append(body.replace("main: func", nm + ": func").replace("Lmain_", "L%s_" % nm).replace("lr_main", "lr_" + nm))
    L.append(" endmodule")
    return "\n".join(L) + "\n"


def script_for(hist, A, B):
    text = modules(A, B)
    lk = hist[0]
    mixed = lk["a"] == "link" and lk.get("ih", lk["i"]) != lk["i"]
    if mixed:       # helper module first with its own interface, the entry module is loaded and linked afterwards
        k = text.index("m2: module")
        items = [("M", text[:k]), ("c", "I"), ("c", "J %s %d" % (lk["ih"], lk["l"])), ("M", text[k:]), ("c", "S")]
        checks = [None, ("ok",), ("ok",), None, ("ok",)]
    else:
        items = [("M", text), ("c", "I")]
        checks = [None, ("ok",)]
    buf = {"eA": progs.cells_bytes(A["buf0"])[0].hex(), "eB": progs.cells_bytes(B["buf0"])[0].hex()}
    for st in hist:
        if st["a"] == "link":
            items.append(("c", "J %s %d" % (st["i"], st["l"]))); checks.append(("ok",))
            for f in ("eA", "eB", "g1", "g2", "g5"):
                items.append(("c", "a %s" % f)); checks.append(("baseaddr", f))
        else:
            items.append(("c", ("ci" if st["via"] == "api" else "ca") + " %s %s" % (st["e"], buf[st["e"]]))); checks.append(("res", st["e"]))
            for f in ("eA", "eB", "g1", "g2", "g5"):
                items.append(("c", "a %s" % f)); checks.append(("addr", f))
    items.append(("c", "D")); checks.append(None)
    return items, checks


def judge(items, checks, outs, died, A, B):
    baddr = {}
    exp = {"eA": progs.spec_obs(A), "eB": progs.spec_obs(B)}
    for k, (it, ch, o) in enumerate(zip(items, checks, outs)):
        if died is not None and k >= died and o in (None, []):
            return "runner died at step %d (%s)" % (k, it[1][:24] if it[0] == "c" else "module")
        if ch is None:
            continue
        if o is None:
            return "no output for step %d" % k
        if any(x.startswith("E ") for x in o):
            return "MIR error at step %d: %s" % (k, [x for x in o if x.startswith("E ")][0][:160])
        if any(x.startswith("N") for x in o):
            return "context lost before step %d" % k
        if ch[0] in ("baseaddr", "addr"):
            p = next((x.split()[1] for x in o if x.startswith("P ")), None)
            if ch[0] == "baseaddr":
                baddr[ch[1]] = p
            elif p != baddr[ch[1]]:
                return "public address of %s changed (step %d)" % (ch[1], k)
        elif ch[0] == "res":
            so, nans = exp[ch[1]]
            rl = next((x for x in o if x.startswith("R ")), None)
            if rl is None:
                return "call of %s produced no result at step %d: %s" % (ch[1], k, o[:2])
            parts = rl.split(" ")
            ob = progs.Obs(mirlib.CallResult("ok" if parts[3] == "g" else "guard", parts[1], parts[2], [x for x in parts[5:] if x]))
            msg = progs.compare_obs(so, ob, nans, "spec", "impl")
            if msg:
                return "call %s (step %d): %s" % (ch[1], k, msg)
    return None


def hist_key(h):
    return ">".join((s["i"] + ("/" + s["ih"] if s.get("ih", s["i"]) != s["i"] else "") + str(s["l"])) if s["a"] == "link" else (s["e"] + ("@api" if s["via"] == "api" else "")) for s in h)


def run(tier, only=None):
    ck = Check(PROP, tier, "model_checking")
    r = run_tlc("MIRExec", "MIRExec_mc.cfg", workers=4)
    tlc_ok(r, "MIRExec")
    hists = [o["h"] for o in r.outs]
    ck.setc("states", r.distinct); ck.setc("transitions", r.states)
    if only:
        hists, pool = [only[0]], [only[1], only[2]]
    else:
        cases, rr = progs.generate(480 if tier == "quick" else 1600, seed=vlib.seed() + 4000, cfg="MIRProg_exec.cfg")
        pool = [c for c in cases if c["status"] == "done"]
    if len(pool) < 2:
        raise MachineryError("program pool too small")
    exe = mirlib.build_runner("plain")
    reps = 3 if tier == "quick" else 12
    jobs = []
    n = 0
    for rep in range(reps):
        for hst in hists:
            A = pool[n % len(pool)]; B = pool[(n * 5 + 1) % len(pool)]
            n += 1
            jobs.append((hst, A, B))

    def do(j):
        hst, A, B = j
        items, checks = script_for(hst, A, B)
        outs, died = mirlib.run_cmds(exe, items, timeout=300)
        msg = judge(items, checks, outs, died, A, B)
        if msg:      # re-run once
            outs, died = mirlib.run_cmds(exe, items, timeout=300)
            msg = judge(items, checks, outs, died, A, B)
        return j, msg
    from concurrent.futures import ThreadPoolExecutor
    with ThreadPoolExecutor(max_workers=vlib.NCPU) as ex:
        results = list(ex.map(do, jobs))
    byif = collections.Counter()
    for (hst, A, B), msg in results:
        byif[hst[0]["i"] + ("/" + hst[0]["ih"] if hst[0].get("ih", hst[0]["i"]) != hst[0]["i"] else "") + str(hst[0]["l"])] += 1
        if msg:
            ck.violation("exec:%s:%s" % (hst[0]["i"] + ("+" + hst[0]["ih"] if hst[0].get("ih", hst[0]["i"]) != hst[0]["i"] else ""), msg.split(" (step")[0][:50].replace(" ", "_")),
                         "history %s: %s" % (hist_key(hst), msg), {"hist": hst, "A": A, "B": B, "text": modules(A, B)})
    nfam = 0
    if not only:
        # parametric families (families.py, c01.py) on the lazy interfaces: single-module programs, expected observations from
        # MIRRun.tla; the lazy basic-block generator (versions of blocks by variable properties) is a code path of its own
        import c01
        fcases = families.property_cases() + families.jcall_cases() + families.clone_jmpi_cases() + c01.island_cases() + c01.loop_cases()[::3] + c01.gvar_cases() \
            + families.spill_index_cases()[::2] + families.fpcmp_cases(vals=("-0", "1.5", "nan"), fmts=("f", "ld")) + families.andext_cases()[::7]
        if tier == "thorough":
            fcases = families.property_cases() + families.jcall_cases() + families.clone_jmpi_cases() + c01.island_cases() + c01.loop_cases() + c01.gvar_cases() \
                + families.spill_index_cases() + families.fpcmp_cases() + families.andext_cases() + c01.memwin_cases(8, vlib.seed() % 8)
        fam, rf = progs.run_family(fcases)
        engines = ["bb0", "bb1", "bb2", "bb3", "lazy0", "lazy2", "ishim"] if tier == "thorough" else ["bb0", "bb2", "lazy2", "ishim"]
        fobs, ftexts = progs.run_cases(fam, engines)
        for i, per in sorted(fobs.items()):
            so, nans = progs.spec_obs(fam[i])
            for e in engines:
                nfam += 1
                msg = progs.compare_obs(so, per[e], nans, "spec", e)
                if msg:
                    again, _ = progs.run_cases([fam[i]], [e])
                    msg = progs.compare_obs(so, again[0][e], nans, "spec", e)
                if msg:
                    ck.violation("family:%s:%s" % (e, msg.split(" ")[0]), "family program %d on %s: %s" % (i, e, msg), {"family_case": fam[i], "engine": e, "text": ftexts[i]})
        # the same under ASan/UBSan: memory errors inside the lazy generator that do not change the result
        nprop = len(families.property_cases())
        sub = list(range(nprop)) + list(range(nprop, len(fam), 5 if tier == "thorough" else 23))
        aeng = ["bb0", "bb2", "lazy2"] if tier == "thorough" else ["bb0", "bb2"]
        aobs, atexts = progs.run_cases([fam[i] for i in sub], aeng, variant="asan")
        for k, per in sorted(aobs.items()):
            so, nans = progs.spec_obs(fam[sub[k]])
            for e in aeng:
                nfam += 1
                msg = progs.compare_obs(so, per[e], nans, "spec", e + "[asan]")
                if msg:
                    ck.violation("family:asan:%s:%s" % (e, msg.split(" ")[0]), "family program %d on %s under ASan/UBSan: %s" % (sub[k], e, msg),
                                 {"family_case": fam[sub[k]], "engine": e, "text": atexts[k], "variant": "asan"})
        ck.setc("family_cases", len(fam)); ck.setc("family_executions", nfam)
    ck.setc("histories", len(hists)); ck.setc("traces_validated_against_impl", len(jobs) + nfam)
    ck.setc("by_interface", dict(byif)); ck.setc("program_pool", len(pool))
    ck.setc("rule", "all histories of MIRExec.tla (interface x level x 3 entry calls in any order x call path) replayed on two-module "
                    "programs built by MIRProg.tla (exec vocabulary); results, memory, external-call logs must equal the specification's for "
                    "every interface, and item->addr of every function must not move")
    for hst in hists[:: max(1, len(hists) // 4)][:4]:
        ck.sample(hist_key(hst), maxn=5)
    return ck.finish()


def replay(path):
    d = json.load(open(path))["case"]
    if "family_case" in d:
        c = d["family_case"]
        obs, _ = progs.run_cases([c], [d["engine"]])
        so, nans = progs.spec_obs(c)
        msg = progs.compare_obs(so, obs[0][d["engine"]], nans, "spec", d["engine"])
        print("replay: %s" % (msg or "agrees with the specification"))
        return 1 if msg else 0
    return run("quick", only=(d["hist"], d["A"], d["B"]))


def selftest():
    cases, rr = progs.generate(32, seed=3, cfg="MIRProg_exec.cfg")
    pool = [c for c in cases if c["status"] == "done"]
    hst = [{"a": "link", "i": "lazy", "l": 2}, {"a": "call", "e": "eB", "via": "addr", "first": True}, {"a": "call", "e": "eA", "via": "addr", "first": True}]
    exe = mirlib.build_runner("plain")
    items, checks = script_for(hst, pool[0], pool[1])
    outs, died = mirlib.run_cmds(exe, items)
    ok1 = judge(items, checks, outs, died, pool[0], pool[1]) is None
    bad = json.loads(json.dumps(pool[1])); bad["result"][0]["w"][0] ^= 1
    ok2 = judge(items, checks, outs, died, pool[0], bad) is not None
    print("selftest C03: history accepted=%s corrupted expectation rejected=%s" % (ok1, ok2))
    return 0 if ok1 and ok2 else 1
