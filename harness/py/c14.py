"""C14: loaded data items form contiguous, correctly initialised sections (spec/MIRData.tla, direction A).

TLC enumerates every item sequence of the plan (alphabet x length) with its expected layout and contents;
harness/c14_data.c (ASan/UBSan build, user MIR_alloc_t) builds each through the API, loads, links, prepares
the label function and compares addresses, requested block sizes and every byte."""
import atexit, json, os, subprocess, sys, copy, threading
from concurrent.futures import ThreadPoolExecutor
import vlib
from vlib import Check, run_tlc, tlc_ok, MachineryError

PROP = "C14"
WORKERS = int(os.environ.get("VERIF_WORKERS", "8"))
KIND = {"data": 0, "bss": 1, "ref": 2, "lref": 3, "expr": 4, "proto": 5, "str": 6}
TYPES = ["i8", "u8", "i16", "u16", "i32", "u32", "i64", "u64", "f", "d", "ld", "p"]
TKIND = {"item": 0, "ext": 1, "mod": 2, "func": 3}
VIA = {"": 0, "fwd_exp": 1, "exp": 2, "exp_fwd": 3}
ENGINES = ["interp", "gen", "lazy_gen", "lazy_bb_gen"]


INT_T = {"i8": 1, "u8": 1, "i16": 2, "u16": 2, "i32": 4, "u32": 4, "i64": 8, "u64": 8}
EXPR_TXT = {"i8": "-91", "i16": "-19916", "i32": "-1985229329", "i64": "1234605616436508552", "f": "1.5f", "d": "-2.25", "ld": "1.5l"}


def esc(bs):
    """MIR string literal for the bytes: letters/digits as they are, everything else as a 3-digit octal escape"""
    return "".join(chr(b) if (48 <= b <= 57 or 65 <= b <= 90 or 97 <= b <= 122) else "\\%03o" % b for b in bs)


def render_text(case):
    """The module of the case as MIR text (None when an item has no textual form: float/pointer data values are not
    printed, an anonymous item cannot be the target of a textual ref)."""
    its, exp, decl = case["it"], case["exp"], case["decl"]
    T = ["m: module", "  import ext1, modd"]
    for i, it in enumerate(its, 1):
        if it[0] == "ref" and exp[i - 1][1] == "item" and (exp[i - 1][2] > i or it[8]):
            T += ["  %s d%d" % (w, exp[i - 1][2]) for w in {"": ["forward"], "fwd_exp": ["forward", "export"], "exp": ["export"],
                                                            "exp_fwd": ["export", "forward"]}[it[8]]]
    T += ["lf: func i64, i64:a, i64:out", "  local i64:r, i64:t", "  mov r, a", "  bt L2, r",
          "L1:", "  add r, r, 1", "L2:", "  add r, r, 2", "L3:", "  add r, r, 3",
          "  laddr t, L1", "  mov i64:(out), t", "  laddr t, L2", "  mov i64:8(out), t", "  laddr t, L3", "  mov i64:16(out), t",
          "  ret r", "  endfunc"]
    for t in sorted({it[2] for it in its if it[0] == "expr"}):
        T += ["e_%s: func %s" % (t, t), "  ret %s" % EXPR_TXT[t], "  endfunc"]
    for i, (it, ex) in enumerate(zip(its, exp), 1):
        k, nm, t, n, tg, d, l1, l2, via = it
        lab = ("d%d: " % i) if nm and k != "proto" else "  "
        if k == "data":
            if t not in INT_T:
                return None
            sz = INT_T[t]
            vals = [int.from_bytes(bytes(ex[1][j:j + sz]), "little", signed=(t[0] == "i")) for j in range(0, len(ex[1]), sz)]
            if not vals:
                return None          # the text syntax needs at least one value
            T.append("%s%s %s" % (lab, t, ", ".join(map(str, vals))))
        elif k == "bss":
            T.append("%sbss %d" % (lab, n))
        elif k == "ref":
            if ex[1] == "item":
                if not its[ex[2] - 1][1] or its[ex[2] - 1][0] == "proto":
                    return None
                tn = "d%d" % ex[2]
            else:
                tn = {"ext": "ext1", "mod": "modd", "func": "lf"}[ex[1]]
            T.append("%sref %s, %d" % (lab, tn, d))
        elif k == "lref":
            T.append("%slref L%d%s, %d" % (lab, l1, (", L%d" % l2) if l2 else "", d))
        elif k == "expr":
            T.append("%sexpr e_%s" % (lab, t))
        elif k == "str":
            T.append('%sstring "%s"' % (lab, esc(decl[i - 1])))
        else:
            T.append("pr%d: proto" % i)
    T += ["  export d%d" % i for i, x in enumerate(case["xp"], 1) if x]
    T.append("  endmodule")
    return "\n".join(T) + "\n"


def txt_case(idx, case, engine):
    its, lay, secs, exp = case["it"], case["lay"], case["secs"], case["exp"]
    form = 1 if case.get("form") == "text" else 0
    L = ["C %d %d %d %d" % (idx, engine, len(its), form)]
    for i, (it, la, se, ex) in enumerate(zip(its, lay, secs, exp)):
        k, nm, t, n, tg, d, l1, l2, via = it
        tk = ti = 0
        ed = d
        by = []
        if ex[0] == "b":
            by = ex[1]
        elif ex[0] == "r":
            tk, ti, ed = TKIND[ex[1]], ex[2], ex[3]
        elif ex[0] == "l":
            ed = ex[3]
            if (ex[1], ex[2]) != (l1, l2):
                raise MachineryError("lref labels mismatch in emitted case")
        init = case["decl"][i] if k == "str" else by
        init = case.get("init", {}).get(str(i), init)    # selftest only: declare other bytes than the expected ones
        L.append("I %d %d %d %d %d %d %d %d %d %d %d %d %d %d %d %d %d %s %d %s" % (
            KIND[k], nm, TYPES.index(t) if t else 0, n, d, l1, l2, la[0], la[1], la[2], se[0] if se else -1, tk, ti, VIA[via], ed, case["xp"][i],
            len(by), " ".join(map(str, by)), len(init), " ".join(map(str, init))))
    if form:
        text = case.get("text") or render_text(case)
        if engine == 3:          # one-label references for the lazy bb generator (see c14_data.c)
            text = text.replace("  endmodule\n", "lah: u8 0\n  lref L1\n  lref L2\n  lref L3\n  endmodule\n")
        L.append("T " + text.encode().hex())
    L.append("E")
    return "\n".join(L)


_exe = None
_exe_lock = threading.Lock()


def harness_exe():
    """Library objects of the current tree (vlib cache) + the driver, linked once per run into out/hbuild (the object
    cache may be pruned by concurrent checks while this one is running; the executable must not live there)."""
    global _exe
    with _exe_lock:
        if _exe is None:
            d, objs, cc, flags = vlib.build_lib("asan", units=("mir.c", "mir-gen.c"))
            hb = os.path.join(vlib.OUT, "hbuild")
            os.makedirs(hb, exist_ok=True)
            exe = os.path.join(hb, "c14_data-%d" % os.getpid())
            vlib.cc_link(cc, flags, [os.path.join(vlib.HARNESS, "c14_data.c")], objs, exe)
            atexit.register(lambda: os.path.exists(exe) and os.unlink(exe))
            _exe = exe
    return _exe


ENV = {"ASAN_OPTIONS": "detect_leaks=0:halt_on_error=0:allocator_may_return_null=1", "UBSAN_OPTIONS": "halt_on_error=1:print_stacktrace=1"}


def run_chunk(items):
    """items: list of (idx, case, engine) -> (fails [(idx, item, key, text)], died or None)"""
    inp = "\n".join(txt_case(i, c, e) for i, c, e in items) + "\n"
    env = dict(os.environ)
    env.update(ENV)
    try:
        p = subprocess.run([harness_exe()], input=inp.encode(), stdout=subprocess.PIPE, stderr=subprocess.PIPE, timeout=1500, env=env)
    except subprocess.TimeoutExpired:
        return [], "timeout"
    out = p.stdout.decode("utf-8", "replace")
    fails, done, last = [], None, None
    for line in out.splitlines():
        if line.startswith("P "):
            last = int(line[2:])
        elif line.startswith("FAIL "):
            _, ci, itn, key, msg = line.split(" ", 4)
            fails.append((int(ci), int(itn), key, msg))
        elif line.startswith("DONE "):
            done = [int(x) for x in line.split()[1:]]
    if p.returncode != 0 or done is None:
        err = p.stderr.decode("utf-8", "replace")
        summ = [l for l in err.splitlines() if "ERROR: AddressSanitizer" in l or "runtime error" in l or "SUMMARY" in l]
        return fails, (last, "harness died rc=%s: %s" % (p.returncode, " | ".join(summ)[:600] or err[-600:]))
    if done[0] != len(items):
        raise MachineryError("c14 harness consumed %d of %d cases" % (done[0], len(items)))
    return fails, None


def describe(case):
    return ("[text] " if case.get("form") == "text" else "") + "; ".join("%s%s" % ("N:" if it[1] else "", it[0] + (" %s[%d]" % (it[2], it[3]) if it[0] == "data" else
                                                            " %d" % it[3] if it[0] == "bss" else " " + it[2] if it[0] == "expr" else
                                                            " %s%+d" % (it[4], it[5]) if it[0] == "ref" else
                                                            "#%d" % it[3] if it[0] == "str" else ""))
                     for it in case["it"])


def finding_key(key, engine, case, itn):
    eng = ENGINES[engine]
    if key == "lref_not_filled":
        # which label references head a section?  (MIR_load_module looks for lref items only at section heads)
        heads = any(it[0] == "lref" and la[0] == i + 1 for i, (it, la) in enumerate(zip(case["it"], case["lay"])))
        return "lref_not_filled:%s" % ("some_lref_heads_a_section" if heads else "no_lref_heads_a_section")
    if key in ("lref_diff", "lref_addr", "lref_vs_laddr"):
        return "%s:%s" % (key, eng)
    if key == "crash":
        return "crash:%s" % eng
    return key


def replay_all(ck, cases, engine, tag):
    items = [(i, c, engine) for i, c in enumerate(cases)]
    if not items:
        return 0
    n = max(1, min(WORKERS, len(items) // 300 + 1))
    size = (len(items) + n - 1) // n
    chunks = [items[i:i + size] for i in range(0, len(items), size)]
    with ThreadPoolExecutor(max_workers=n) as ex:
        res = list(ex.map(run_chunk, chunks))
    bad = 0
    for chunk, (fails, died) in zip(chunks, res):
        guard = 0
        while died:
            if died == "timeout":
                raise MachineryError("c14 harness timed out")
            last, text = died
            pos = next((k for k, it_ in enumerate(chunk) if it_[0] == last), None)
            if pos is None:
                raise MachineryError("c14 harness died before the first case: " + text)
            idx, case, e = chunk[pos]
            guard += 1
            _, d2 = run_chunk([chunk[pos]])
            if d2:
                ck.violation(finding_key("crash", e, case, 0), "%s: harness crashed on [%s]: %s" % (tag, describe(case), d2[1][-500:]),
                             {"engine": e, "case": case})
                bad += 1
            chunk = chunk[pos + 1:]
            if not chunk:
                break
            if guard >= 10:
                ck.violation("crash:many", "%s: more than 10 crashes in one chunk; %d sequences not replayed" % (tag, len(chunk)), {"engine": e, "case": case})
                break
            f2, died = run_chunk(chunk)
            fails += f2
        first = {}
        for idx, itn, key, msg in fails:
            first.setdefault(idx, (itn, key, msg))
        if first:
            known = {idx for idx in first if ck.findings.is_known(PROP, finding_key(first[idx][1], engine, cases[idx], first[idx][0]))}
            for idx in sorted(known):          # counted as KNOWN-FINDING by Check.violation, never reported: no re-run needed
                itn, key, msg = first.pop(idx)
                ck.violation(finding_key(key, engine, cases[idx], itn), msg, None)
            ck.add("known_finding_hits", len(known))
            again = [(idx, cases[idx], engine) for idx in sorted(first)]     # rule 5: re-run once before reporting
            f2, d2 = run_chunk(again) if again else ([], None)
            still = set(first) if d2 else {f[0] for f in f2}
            for idx in sorted(first):
                itn, key, msg = first[idx]
                if idx not in still:
                    ck.add("unreproduced_mismatches")
                    continue
                bad += 1
                ck.violation(finding_key(key, engine, cases[idx], itn), "%s item %d [%s]: %s" % (tag, itn, ENGINES[engine], msg),
                             {"engine": engine, "case": cases[idx]})
    return bad


TIERS = {
    # (cfg, nparts, engines for the sequences with label references besides the interpreter)
    "quick": [("MIRData_mc.cfg", 1, (1, 3))],
    "thorough": [("MIRData_mc.cfg", 1, (1, 2, 3)), ("MIRData_t2.cfg", 1, (1, 2, 3)), ("MIRData_t.cfg", 6, ())],
}


def generate(cfg, part, nparts):
    r = run_tlc("MIRData", cfg, workers=WORKERS, env={"PART": part, "NPARTS": nparts}, heap="6g", timeout=1500)
    if r.rc == 12 or r.violation:
        raise MachineryError("model-level property violated in %s: %s\n%s" % (cfg, r.violation, r.out[-2000:]))
    tlc_ok(r, cfg)
    outs, skipped = [], 0
    for c in r.outs:
        if c.get("form") == "text":
            c["text"] = render_text(c)
            if c["text"] is None:
                skipped += 1            # no textual form for this sequence: only its API form is replayed
                continue
        outs.append(c)
    generate.skipped = skipped
    return outs, r.states, r.distinct, r.wall


def has_lref(case):
    return any(it[0] == "lref" for it in case["it"])


def run(tier, mutate=None):
    ck = Check(PROP, tier, "model_checking")
    harness_exe()
    tot_states = tot_trans = tot_cases = 0
    for cfg, nparts, lengines in TIERS[tier]:
        if not os.path.exists(os.path.join(vlib.SPEC, cfg)):
            raise MachineryError("missing " + cfg)
        c_states = c_cases = c_bad = c_gen = 0
        c_wall = 0.0
        for part in (range(1, nparts + 1) if nparts > 1 else [0]):
            cases, states, distinct, wall = generate(cfg, part, nparts)
            if not cases:
                raise MachineryError("no sequences emitted by %s part %d" % (cfg, part))
            if mutate:
                cases = mutate(cases)
            c_states += distinct
            c_wall += wall
            c_cases += len(cases)
            ck.sample({"cfg": cfg, "case": cases[len(cases) // 2]}, maxn=3)
            c_bad += replay_all(ck, cases, 0, cfg)
            lcases = [c for c in cases if has_lref(c)]     # label references depend on the engine: also under the generator
            for e in lengines:
                c_bad += replay_all(ck, lcases, e, cfg)
                ck.add("sequences_" + ENGINES[e], len(lcases))
            c_gen += len(lcases) * len(lengines)
            ck.add("sequences_interp", len(cases))
            ck.add("sequences_text_form", sum(1 for c in cases if c.get("form") == "text"))
            ck.add("text_form_not_expressible", generate.skipped)
            ck.add("items_checked", sum(len(c["it"]) for c in cases) + sum(len(c["it"]) for c in lcases) * len(lengines))
            ck.add("sections_checked", sum(1 for c in cases for s in c["secs"] if s))
            tot_cases += len(cases) + len(lcases) * len(lengines)
            del cases, lcases
        tot_states += c_states
        tot_trans += c_states
        vlib.log("  MIRData %s: %d states, %d sequences replayed under interp + %d replays under the generators, %d mismatching (%.0fs TLC)"
                 % (cfg, c_states, c_cases, c_gen, c_bad, c_wall))
    ck.setc("states", tot_states)
    ck.setc("transitions", tot_trans)
    ck.setc("traces_validated_against_impl", tot_cases)
    ck.setc("exhaustive", True)
    ck.setc("rule", "every item sequence of the plan (alphabet x length) is emitted with Layout/Contents of MIRData.tla and built "
                    "through MIR_new_data/string_data/bss/ref_data/lref_data/expr_data/proto (sequences with string items also as MIR text through "
                    "MIR_scan_string), loaded with a recording MIR_alloc_t and linked; "
                    "compared: head is a block of >= section size, addr(i)-addr(head)=offset, section_head_p, every byte of "
                    "data/bss/expr, ref = Addr(target)+disp, lref = A(l1)[-A(l2)]+disp after preparing the function (interp and gen)")
    ck.setc("trusted_base", ["TLC 1.8", "clang ASan/UBSan", "harness/c14_data.c"])
    ck.assumptions += ["x86-64 sizes (pointer 8, long double 16 with 10 value bytes compared)",
                       "label addresses are compared relationally: A(l) is what laddr gives inside the same function under the same engine",
                       "deviation modelled: DevTextStringTerminator (textual string gets no terminating zero when empty or already zero-terminated)",
                       "text form only for sequences with a string item whose other items have a textual form (integer data with >= 1 value, named ref targets)"]
    return ck.finish()


def replay(path):
    d = json.load(open(path))
    case, engine = d["case"]["case"], d["case"]["engine"]
    fails, died = run_chunk([(0, case, engine)])
    if died or fails:
        print("replay: still failing:", died[1] if died else fails)
        print("VIOLATION property=%s replay=%s" % (PROP, path))
        return 1
    print("replay: passes")
    return 0


def selftest():
    """Binding demonstration: corrupt one expected offset / byte / section size / ref displacement; the harness must object."""
    cases, _, _, _ = generate("MIRData_mc.cfg", 0, 1)
    bad = 0

    def pick(pred):
        for c in cases:
            if pred(c):
                return copy.deepcopy(c)
        raise MachineryError("selftest: no suitable case")

    tests = []
    c = pick(lambda c: len(c["it"]) == 2 and c["lay"][1][1] > 0)
    c["lay"][1][1] += 1
    tests.append(("offset of the second item + 1", c))
    c = pick(lambda c: c["exp"][0][0] == "b" and len(c["exp"][0][1]) > 2 and c["it"][0][0] == "data")
    c["init"] = {"0": list(c["exp"][0][1])}
    c["exp"][0][1][1] ^= 1                      # declared with the original bytes, one expected byte flipped
    tests.append(("one expected data byte flipped", c))
    c = pick(lambda c: c["it"][0][0] == "expr" and c["it"][0][2] == "i32")
    c["init"] = {"0": list(c["exp"][0][1])}
    c["exp"][0][1][3] ^= 0x80
    tests.append(("expected expr value changed", c))
    c = pick(lambda c: c.get("form") == "api" and len(c["it"]) == 2 and c["it"][1][0] == "str" and c["it"][1][3] == 7 and c["it"][0][0] == "str")
    c["exp"][1][1][3] ^= 2                      # byte after the embedded zero of "ab\\0cd"
    tests.append(("expected string byte after an embedded zero changed", c))
    c = pick(lambda c: c.get("form") == "text" and len(c["it"]) == 2 and c["it"][0][0] == "str" and c["it"][0][3] == 7 and c["lay"][1][1] == 6)
    c["lay"][1][1] = 5                          # as if the text form had no terminating zero
    tests.append(("text form: item after a string expected one byte earlier", c))
    c = pick(lambda c: len(c["it"]) == 2 and c["it"][1][0] == "lref" and c["it"][1][1] == 1 and c["it"][1][6] and c["it"][1][7] == 0)
    c["exp"][1][3] += 1
    tests.append(("expected lref displacement + 1", c))
    c = pick(lambda c: c["secs"][0] and c["secs"][0][0] >= 16)
    c["secs"][0][0] += 64
    tests.append(("section size + 64", c))
    c = pick(lambda c: len(c["it"]) == 3 and c["it"][2][0] == "ref" and c["exp"][2][1] == "item" and c["exp"][2][2] == 2
             and c["lay"][0][2] > 0)
    c["exp"][2][3] += 1
    tests.append(("expected ref displacement + 1", c))
    c = pick(lambda c: len(c["it"]) == 2 and c["it"][1][0] == "bss" and c["it"][1][3] == 9 and not c["it"][1][1] and c["it"][0][0] == "data")
    c["lay"][1][0] = 2
    c["lay"][1][1] = 0
    tests.append(("anonymous bss expected in its own section", c))
    good = cases[len(cases) // 3]
    for name, c in tests:
        if c is None:
            continue
        fails, died = run_chunk([(0, good, 0), (1, c, 0)])
        ok = any(f[0] == 1 for f in fails) and not any(f[0] == 0 for f in fails) and not died
        print("selftest %s: corrupted expectation %s" % (name, "rejected" if ok else "NOT rejected"))
        bad += 0 if ok else 1
    return 1 if bad else 0
