"""C02: every instruction computes its documented result (spec = MIRInsn.tla evaluated by TLC over the
boundary grid; each row replayed through one-instruction functions in every operand shape, on the
interpreter and on generated code)."""
import json, os, subprocess, collections, hashlib
import vlib, mirlib
from vlib import Check, run_tlc, tlc_ok, MachineryError
from mirlib import w64_to_int, int_to_hex_le, hex_le_to_int, s64, fp_bits, is_nan_bits, FP_BYTES

PROP = "C02"
OLD = 0x56781234abcdcdef   # must equal OldSlot in C02Table.tla  (<<52719, 43981, 4660, 22136>>)
BUF = 320
A, B, R, FL, X, Y, FR = 0, 8, 16, 24, 32, 48, 64
S_OPS = {'adds', 'subs', 'muls', 'divs', 'udivs', 'mods', 'umods', 'ands', 'ors', 'xors', 'lshs', 'rshs', 'urshs',
         'eqs', 'nes', 'lts', 'ults', 'les', 'ules', 'gts', 'ugts', 'ges', 'uges', 'addos', 'subos', 'mulos', 'umulos', 'negs'}
OVF = {'addo', 'addos', 'subo', 'subos', 'mulo', 'mulos', 'umulo', 'umulos'}
CMPS = {'eq', 'eqs', 'ne', 'nes', 'lt', 'lts', 'ult', 'ults', 'le', 'les', 'ule', 'ules', 'gt', 'gts', 'ugt', 'ugts', 'ge', 'ges', 'uge', 'uges'}


def imm(v):
    return str(s64(v))


def flag_defined(op, br):
    if op.startswith(('add', 'sub')):
        return True
    if op.startswith('mulo'):
        return br in ('bo', 'bno')
    return br in ('ubo', 'ubno')


class Plan:
    """functions (text) and calls: (fname, hexbuf, checker, rowref, shape)"""

    def __init__(self):
        self.funcs = {}      # name -> text
        self.calls = []      # (fname, hexbuf, expect dict, row, shape)
        self._names = {}

    def func(self, key, body, locs="i64:a, i64:b, i64:r, i64:fl, i64:one, i64:two"):
        if key in self._names:
            return self._names[key]
        name = "f%d" % len(self._names)
        self._names[key] = name
        body = body.replace("L1", name + "_1").replace("L2", name + "_2")   # labels are module-wide names in MIR text
        self.funcs[name] = "%s: func i64, p:buf\n local %s\n%s\n ret 0\n endfunc\n" % (name, locs, body)
        return name

    def call(self, fname, buf, expect, row, shape):
        self.calls.append((fname, buf.hex(), expect, row, shape))

    def text(self):
        return "m: module\n export " + ", ".join(self.funcs) + "\n" + "".join(self.funcs.values()) + " endmodule\n"


BIDS = (128, 200, 248, 256)       # displacements used together with base + index*8 (disp8/disp32 boundary of x86 addressing)


def mkbuf(a=0, b=0, x=None, y=None, fmt=None):
    buf = bytearray(b"\xc3" * BUF)
    for d in BIDS:
        buf[d + 8:d + 16] = a.to_bytes(8, "little")       # operand a again, reachable as i64:d(buf, one, 8)
    buf[304:312] = (1).to_bytes(8, "little")              # a run-time index value (not foldable)
    buf[A:A + 8] = a.to_bytes(8, "little")
    buf[B:B + 8] = b.to_bytes(8, "little")
    buf[R:R + 8] = OLD.to_bytes(8, "little")
    buf[FL:FL + 8] = (0x7777777777777777).to_bytes(8, "little")
    if x is not None:
        n = FP_BYTES[fmt]
        buf[X:X + n] = x.to_bytes(n, "little")
    if y is not None:
        n = FP_BYTES[fmt]
        buf[Y:Y + n] = y.to_bytes(n, "little")
    return buf


LOADAB = " mov a, i64:0(buf)\n mov b, i64:8(buf)\n"
STORER = " mov i64:16(buf), r\n"


def int_shapes(op, a, b, tier, unary):
    """yield (shape, key, body) for an integer value-producing op"""
    o = op
    if unary:
        yield "r", (o, "r"), LOADAB + " %s r, a\n" % o + STORER
        yield "m", (o, "m"), " %s r, i64:0(buf)\n" % o + STORER
        yield "dm", (o, "dm"), LOADAB + " %s i64:16(buf), a\n" % o
        yield "d1", (o, "d1"), LOADAB + " %s a, a\n mov i64:16(buf), a\n" % o
        yield "i", (o, "i", a), " %s r, %s\n" % (o, imm(a)) + STORER
        if tier == "thorough":
            yield "c", (o, "c", a), " mov a, %s\n %s r, a\n" % (imm(a), o) + STORER
        return
    yield "rr", (o, "rr"), LOADAB + " %s r, a, b\n" % o + STORER
    yield "rm", (o, "rm"), LOADAB + " %s r, a, i64:8(buf)\n" % o + STORER
    yield "mm", (o, "mm"), " %s i64:16(buf), i64:0(buf), i64:8(buf)\n" % o
    yield "idx", (o, "idx"), LOADAB + " mov one, 1\n mov two, 2\n %s r, i64:-16(buf, two, 8), i64:0(buf, one, 8)\n" % o + STORER
    yield "d1", (o, "d1"), LOADAB + " %s a, a, b\n mov i64:16(buf), a\n" % o
    yield "d2", (o, "d2"), LOADAB + " %s b, a, b\n mov i64:16(buf), b\n" % o
    yield "ri", (o, "ri", b), LOADAB + " %s r, a, %s\n" % (o, imm(b)) + STORER
    for d in (BIDS if tier == "thorough" else BIDS[0:1] + BIDS[2:3]):
        yield "bid%d" % d, (o, "bid", d), LOADAB + " mov one, i64:304(buf)\n %s r, i64:%d(buf, one, 8), b\n" % (o, d) + STORER
    if op in S_OPS:
        yield "s32", (o, "s32"), " %s r, i32:0(buf), u32:8(buf)\n" % o + STORER
        # 64-bit register (arbitrary upper half) against a 32-bit memory operand: the load is folded into the insn
        yield "rs32", (o, "rs32"), LOADAB + " %s r, a, i32:8(buf)\n" % o + STORER
        yield "ru32", (o, "ru32"), LOADAB + " %s r, a, u32:8(buf)\n" % o + STORER
    if a == b:
        yield "aa", (o, "aa"), LOADAB + " %s r, a, a\n" % o + STORER
    if tier == "thorough":
        yield "mr", (o, "mr"), LOADAB + " %s r, i64:0(buf), b\n" % o + STORER
        yield "ir", (o, "ir", a), LOADAB + " %s r, %s, b\n" % (o, imm(a)) + STORER
        yield "cc", (o, "cc", a, b), " mov a, %s\n mov b, %s\n %s r, a, b\n" % (imm(a), imm(b), o) + STORER
        yield "cd", (o, "cd", a, b), " mov a, %s\n mov b, %s\n bt L1, one\nL1:\n %s r, a, b\n" % (imm(a), imm(b), o) + STORER


FPFX = {"f": "f", "d": "d", "ld": "ld"}


def build_plan(rows, tier):
    P = Plan()
    host_req = []   # (insn, hex1, hex2, slot index into P.calls expectations)
    for row in rows:
        k = row["k"]
        if k == "uu":       # chains of two extension insns
            if not row["r"]["ok"]:
                continue
            o1, o2 = row["o1"], row["o2"]
            a = w64_to_int(row["a"]); v = w64_to_int(row["r"]["v"])
            for shape, body in (("rr", LOADAB + " %s b, a\n %s r, b\n" % (o1, o2) + STORER),
                                ("m", " %s b, i64:0(buf)\n %s r, b\n" % (o1, o2) + STORER),
                                ("d1", LOADAB + " %s a, a\n %s a, a\n mov i64:16(buf), a\n" % (o1, o2)),
                                ("dm", LOADAB + " %s b, a\n %s i64:16(buf), b\n" % (o1, o2))):
                P.call(P.func(("uu", o1, o2, shape), body), mkbuf(a, 0), {"r": v, "mask": (1 << 64) - 1}, row, shape)
            continue
        if k in ("u", "b"):
            op = row["op"]
            if not row["r"]["ok"]:
                continue
            a = w64_to_int(row["a"]); b = w64_to_int(row.get("b", [0, 0, 0, 0])); v = w64_to_int(row["r"]["v"])
            mask = 0xffffffff if op in S_OPS else (1 << 64) - 1
            for shape, key, body in int_shapes(op, a, b, tier, k == "u"):
                fn = P.func(key, body)
                P.call(fn, mkbuf(a, b), {"r": v, "mask": mask}, row, shape)
            if op in OVF:
                for br in ("bo", "bno", "ubo", "ubno"):
                    if not flag_defined(op, br):
                        continue
                    fl = row["fs"] if br in ("bo", "bno") else row["fu"]
                    taken = fl if br in ("bo", "ubo") else (not fl)
                    # "p": both flags are SET by an earlier overflow insn (MIN+MIN), "q": both CLEAR (0+0), so that a
                    # transformation that drops or reorders the flag producer is visible whatever the flags held before
                    for pre, pretext in (("", ""), ("p", " mov one, -9223372036854775808\n addo two, one, one\n"), ("q", " mov one, 0\n addo two, one, one\n")):
                        for shape, opnds in (("rr", "a, b"), ("ri", "a, %s" % imm(b)), ("rm", "a, i64:8(buf)"), ("md", "a, b")):
                            key = (op, br, pre + shape) + ((b,) if shape == "ri" else ())
                            if shape == "md":     # memory destination with displacement: the flag must survive the store
                                body = LOADAB + pretext + " %s i64:16(buf), a, b\n %s L1\n mov fl, 0\n jmp L2\nL1:\n mov fl, 1\nL2:\n mov i64:24(buf), fl\n" % (op, br)
                                fn = P.func(key, body)
                                P.call(fn, mkbuf(a, b), {"r": v, "mask": mask, "fl": int(taken)}, row, br + ":" + pre + shape)
                                continue
                            body = LOADAB + pretext + " %s r, %s\n %s L1\n mov fl, 0\n jmp L2\nL1:\n mov fl, 1\nL2:\n" % (op, opnds, br) + STORER + " mov i64:24(buf), fl\n"
                            fn = P.func(key, body)
                            P.call(fn, mkbuf(a, b), {"r": v, "mask": mask, "fl": int(taken)}, row, br + ":" + pre + shape)
        elif k in ("br1", "br2"):
            op = row["op"]
            a = w64_to_int(row["a"]); b = w64_to_int(row.get("b", [0, 0, 0, 0]))
            tail = "\n mov fl, 0\n jmp L2\nL1:\n mov fl, 1\nL2:\n mov i64:24(buf), fl\n"
            if k == "br1":
                shapes = [("r", (op, "r"), LOADAB + " %s L1, a" % op + tail),
                          ("m", (op, "m"), " %s L1, i64:0(buf)" % op + tail),
                          ("i", (op, "i", a), " %s L1, %s" % (op, imm(a)) + tail)]
            else:
                shapes = [("rr", (op, "rr"), LOADAB + " %s L1, a, b" % op + tail),
                          ("ri", (op, "ri", b), LOADAB + " %s L1, a, %s" % (op, imm(b)) + tail),
                          ("rm", (op, "rm"), LOADAB + " %s L1, a, i64:8(buf)" % op + tail)]
                if tier == "thorough":
                    shapes.append(("ir", (op, "ir", a), LOADAB + " %s L1, %s, b" % (op, imm(a)) + tail))
                    shapes.append(("cc", (op, "cc", a, b), " mov a, %s\n mov b, %s\n %s L1, a, b" % (imm(a), imm(b), op) + tail))
            for shape, key, body in shapes:
                P.call(P.func(key, body), mkbuf(a, b), {"fl": int(row["t"])}, row, shape)
        elif k == "ld":
            ty = row["op"]; a = w64_to_int(row["a"]); v = w64_to_int(row["r"]["v"])
            for shape, body in (("m", " mov r, %s:0(buf)\n" % ty + STORER),
                                ("idx", " mov one, 1\n mov r, %s:-8(buf, one, 8)\n" % ty + STORER),
                                ("mm", " mov i64:16(buf), %s:0(buf)\n" % ty)):
                P.call(P.func(("ld", ty, shape), body), mkbuf(a, 0), {"r": v, "mask": (1 << 64) - 1}, row, shape)
        elif k == "st":
            ty = row["op"]; a = w64_to_int(row["a"]); v = w64_to_int(row["r"]["v"])
            for shape, body in (("r", LOADAB + " mov %s:16(buf), a\n" % ty),
                                ("i", " mov %s:16(buf), %s\n" % (ty, imm(a))),
                                ("idx", LOADAB + " mov two, 2\n mov %s:0(buf, two, 8), a\n" % ty)):
                key = ("st", ty, shape) + ((a,) if shape == "i" else ())
                P.call(P.func(key, body), mkbuf(a, 0), {"r": v, "mask": (1 << 64) - 1}, row, shape)
        elif k in ("f2", "f1", "fc"):
            fmt = row["fmt"]; pf = FPFX[fmt]; n = FP_BYTES[fmt]
            xb = fp_bits(row["x"], fmt); yb = fp_bits(row["y"], fmt) if "y" in row else None
            locs = "i64:r, i64:fl, %s:x, %s:y, %s:z" % (fmt, fmt, fmt)
            ldxy = " %smov x, %s:32(buf)\n %smov y, %s:48(buf)\n" % (pf, fmt, pf, fmt)
            if k == "fc":
                op = row["op"]
                e = {"r": int(row["t"]), "mask": (1 << 64) - 1}
                P.call(P.func((fmt, op, "rr"), ldxy + " %s%s r, x, y\n" % (pf, op) + STORER, locs), mkbuf(0, 0, xb, yb, fmt), e, row, "rr")
                P.call(P.func((fmt, op, "rm"), ldxy + " %s%s r, x, %s:48(buf)\n" % (pf, op, fmt) + STORER, locs), mkbuf(0, 0, xb, yb, fmt), e, row, "rm")
                body = ldxy + " %sb%s L1, x, y\n mov fl, 0\n jmp L2\nL1:\n mov fl, 1\nL2:\n mov i64:24(buf), fl\n" % (pf, op)
                P.call(P.func((fmt, "b" + op, "rr"), body, locs), mkbuf(0, 0, xb, yb, fmt), {"fl": int(row["t"])}, row, "br")
                # comparison result consumed by bt / bf (the generator fuses the pair into one compare-and-branch)
                for br, taken in (("bt", row["t"]), ("bf", not row["t"])):
                    body = ldxy + " %s%s r, x, y\n %s L1, r\n mov fl, 0\n jmp L2\nL1:\n mov fl, 1\nL2:\n mov i64:24(buf), fl\n" % (pf, op, br)
                    P.call(P.func((fmt, op, br), body, locs), mkbuf(0, 0, xb, yb, fmt), {"fl": int(taken)}, row, "cmp+" + br)
                continue
            fr = row["fr"]
            insn = pf + row["op"]
            e = {"fp": fr, "fmt": fmt}
            if fr["c"] == "inexact":
                host_req.append((insn, int_to_hex_le(xb, n), int_to_hex_le(yb, n) if yb is not None else "", e))
            if k == "f1":
                P.call(P.func((fmt, "neg", "r"), ldxy + " %sneg z, x\n %smov %s:64(buf), z\n" % (pf, pf, fmt), locs), mkbuf(0, 0, xb, None, fmt), e, row, "r")
                P.call(P.func((fmt, "neg", "m"), " %sneg %s:64(buf), %s:32(buf)\n" % (pf, fmt, fmt), locs), mkbuf(0, 0, xb, None, fmt), e, row, "m")
            else:
                P.call(P.func((fmt, insn, "rr"), ldxy + " %s z, x, y\n %smov %s:64(buf), z\n" % (insn, pf, fmt), locs), mkbuf(0, 0, xb, yb, fmt), e, row, "rr")
                P.call(P.func((fmt, insn, "mm"), " %s %s:64(buf), %s:32(buf), %s:48(buf)\n" % (insn, fmt, fmt, fmt), locs), mkbuf(0, 0, xb, yb, fmt), e, row, "mm")
                P.call(P.func((fmt, insn, "d1"), ldxy + " %s x, x, y\n %smov %s:64(buf), x\n" % (insn, pf, fmt), locs), mkbuf(0, 0, xb, yb, fmt), e, row, "d1")
        elif k == "i2fp":
            op = row["op"]; fmt = op[len("ui2"):] if op.startswith("u") else op[len("i2"):]
            pf = FPFX[fmt]; a = w64_to_int(row["a"]); fr = row["fr"]
            e = {"fp": fr, "fmt": fmt}
            if fr["c"] == "inexact":
                host_req.append((op, int_to_hex_le(a, 8), "", e))
            locs = "i64:a, i64:b, %s:z" % fmt
            P.call(P.func((op, "r"), LOADAB + " %s z, a\n %smov %s:64(buf), z\n" % (op, pf, fmt), locs), mkbuf(a, 0), e, row, "r")
            P.call(P.func((op, "m"), " %s %s:64(buf), i64:0(buf)\n" % (op, fmt), locs), mkbuf(a, 0), e, row, "m")
            if tier == "thorough":
                P.call(P.func((op, "i", a), " %s z, %s\n %smov %s:64(buf), z\n" % (op, imm(a), pf, fmt), locs), mkbuf(a, 0), e, row, "i")
        elif k == "fp2i":
            op = row["op"]; fmt = op[:-2]; pf = FPFX[fmt]
            if not row["r"]["ok"]:
                continue
            xb = fp_bits(row["x"], fmt); v = w64_to_int(row["r"]["v"])
            locs = "i64:r, %s:x" % fmt
            e = {"r": v, "mask": (1 << 64) - 1}
            P.call(P.func((op, "r"), " %smov x, %s:32(buf)\n %s r, x\n" % (pf, fmt, op) + STORER, locs), mkbuf(0, 0, xb, None, fmt), e, row, "r")
            P.call(P.func((op, "m"), " %s i64:16(buf), %s:32(buf)\n" % (op, fmt), locs), mkbuf(0, 0, xb, None, fmt), e, row, "m")
        elif k == "fcv":
            op = row["op"]
            src = "ld" if op.startswith("ld") else op[0]
            dst = "ld" if op.endswith("ld") else op[-1]
            xb = fp_bits(row["x"], src); fr = row["fr"]
            e = {"fp": fr, "fmt": dst}
            if fr["c"] == "inexact":
                host_req.append((op, int_to_hex_le(xb, FP_BYTES[src]), "", e))
            locs = "%s:x, %s:z" % (src, dst) if src != dst else "%s:x" % src
            P.call(P.func((op, "r"), " %smov x, %s:32(buf)\n %s z, x\n %smov %s:64(buf), z\n" % (FPFX[src], src, op, FPFX[dst], dst), locs),
                   mkbuf(0, 0, xb, None, src), e, row, "r")
            P.call(P.func((op, "m"), " %s %s:64(buf), %s:32(buf)\n" % (op, dst, src), locs), mkbuf(0, 0, xb, None, src), e, row, "m")
    return P, host_req


def resolve_host(host_req):
    """fill expectation 'bits' for rows the exact domain left undecided, from the host-C oracle"""
    if not host_req:
        return 0
    exe = vlib.build_header_harness("hostfp", os.path.join(vlib.HARNESS, "hostfp.c"), "plain", extra_flags="-O0")
    uniq = {}
    for insn, h1, h2, e in host_req:
        uniq.setdefault((insn, h1, h2), []).append(e)
    keys = list(uniq)
    inp = "".join("%s %s %s\n" % k for k in keys)
    p = subprocess.run([exe], input=inp.encode(), stdout=subprocess.PIPE, timeout=300)
    outs = p.stdout.decode().split("\n")
    for k, o in zip(keys, outs):
        if o == "?" or not o:
            raise MachineryError("hostfp cannot do %s" % (k,))
        for e in uniq[k]:
            e["bits"] = hex_le_to_int(o)
    return len(keys)


def check_call(res, e):
    """returns None if ok else message"""
    if res.status != "ok":
        return "%s: %s" % (res.status, res.detail[:200])
    buf = bytes.fromhex(res.buf)
    if "r" in e:
        got = int.from_bytes(buf[R:R + 8], "little")
        if (got ^ e["r"]) & e["mask"]:
            return "result %016x expected %016x (mask %x)" % (got, e["r"], e["mask"])
    if "fl" in e:
        got = int.from_bytes(buf[FL:FL + 8], "little")
        if got != e["fl"]:
            return "branch/flag taken=%x expected %d" % (got, e["fl"])
    if "fp" in e:
        fmt = e["fmt"]; n = FP_BYTES[fmt]
        got = int.from_bytes(buf[FR:FR + n], "little")
        if "bits" in e:
            exp = e["bits"]
        else:
            exp = fp_bits(e["fp"], fmt)
        if is_nan_bits(exp, fmt):
            if not is_nan_bits(got, fmt):
                return "fp result %x expected a NaN" % got
        elif got != exp:
            return "fp result %x expected %x (%s)" % (got, exp, "hostC" if "bits" in e else "exact")
    return None


def finding_key(row, shape, engine):
    k = row["k"]
    op = row.get("op")
    if k == "b" and op in ("mulo", "mulos") and ":" in shape and shape.endswith("ri") and w64_to_int(row["b"]) == 1:
        return "simplify:mulo_by_1_drops_flag_producer"
    return "%s:%s:%s" % (k, (row.get("fmt", "") + op), shape)


def run(tier, rows_override=None, engines=None):
    ck = Check(PROP, tier, "model_checking")
    grid = "full" if tier == "thorough" else "quick"
    if rows_override is None:
        r = run_tlc("C02Table", "C02Table.cfg", workers=vlib.NCPU, env={"C02_GRID": grid}, heap="8g", timeout=3000)
        tlc_ok(r, "C02Table")
        rows = r.outs
        ck.setc("states", r.distinct); ck.setc("transitions", r.states)
    else:
        rows = rows_override
        ck.setc("states", len(rows)); ck.setc("transitions", len(rows))
    if not rows:
        raise MachineryError("empty table")
    P, host_req = build_plan(rows, tier)
    nhost = resolve_host(host_req)
    exe = mirlib.build_runner("plain")
    engines = engines or (["interp", "gen0", "gen1", "gen2", "gen3"] if tier == "thorough" else ["interp", "gen0", "gen2"])
    # split functions over processes: group calls by function, chunk functions
    byf = collections.OrderedDict()
    for c in P.calls:
        byf.setdefault(c[0], []).append(c)
    fnames = list(byf)
    nchunks = max(1, min(len(fnames) // 40, vlib.NCPU * 4))
    chunks = [fnames[i::nchunks] for i in range(nchunks)]
    jobs = []
    for eng in engines:
        for ch in chunks:
            jobs.append((eng, ch))

    def do(job):
        eng, ch = job
        text = "m: module\n export " + ", ".join(ch) + "\n" + "".join(P.funcs[f] for f in ch) + " endmodule\n"
        calls = [c for f in ch for c in byf[f]]
        res = mirlib.run_group(exe, text, eng, [(c[0], c[1]) for c in calls], timeout=1200)
        bad = []
        for c, rs in zip(calls, res):
            msg = check_call(rs, c[2])
            if msg:
                bad.append((c, msg, eng, text))
        return len(calls), bad

    from concurrent.futures import ThreadPoolExecutor
    total = 0
    allbad = []
    with ThreadPoolExecutor(max_workers=vlib.NCPU) as ex:
        for n, bad in ex.map(do, jobs):
            total += n
            allbad += bad
    for c, msg, eng, text in allbad[:3000]:
        fname, hexbuf, e, row, shape = c
        ck.violation(finding_key(row, shape, eng), "%s shape=%s engine=%s: %s" % (json.dumps(row)[:300], shape, eng, msg),
                     {"row": row, "shape": shape, "engine": eng, "func": P.funcs[fname], "buf": hexbuf,
                      "expect": {k: v for k, v in e.items()}})
    kinds = collections.Counter(r_["k"] for r_ in rows)
    ck.setc("rows", len(rows)); ck.setc("rows_by_kind", dict(kinds))
    ck.setc("functions", len(P.funcs)); ck.setc("executions", total)
    ck.setc("traces_validated_against_impl", total)
    ck.setc("host_oracle_rows", nhost)
    ck.setc("engines", engines)
    ck.setc("exhaustive", True)
    ck.setc("rule", "every opcode row of the table (opcode x boundary grid, %s grid) replayed in every operand shape "
                    "(reg/imm/mem with base, disp, index*scale; dst==src aliasing; constant operands) on each engine; "
                    "expected values come from MIRInsn.tla only (host C only for inexact FP results)" % grid)
    for s in rows[:: max(1, len(rows) // 5)][:5]:
        ck.sample(s, maxn=6)
    ck.assumptions += ["shift counts >= width, division by zero, INT_MIN/-1, FP->int out of range are undefined and not replayed",
                       "upper 32 bits of 32-bit results are not compared", "any NaN equals any NaN"]
    return ck.finish()


def replay(path):
    d = json.load(open(path))
    row = d["case"]["row"]
    return run("quick", rows_override=[row], engines=[d["case"]["engine"]])


def selftest():
    """flip one expected value: the replay must object"""
    r = run_tlc("C02Table", "C02Table.cfg", workers=vlib.NCPU, env={"C02_GRID": "quick"}, heap="8g")
    tlc_ok(r, "C02Table")
    row = next(x for x in r.outs if x["k"] == "b" and x["op"] == "add" and x["r"]["ok"])
    row = json.loads(json.dumps(row))
    row["r"]["v"][0] ^= 1
    P, hr = build_plan([row], "quick")
    exe = mirlib.build_runner("plain")
    res = mirlib.run_group(exe, P.text(), "interp", [(c[0], c[1]) for c in P.calls])
    bad = [check_call(rs, c[2]) for c, rs in zip(P.calls, res)]
    ok = all(bad)
    print("selftest C02: corrupted expectation %s" % ("rejected" if ok else "NOT rejected"))
    return 0 if ok else 1
