"""C09: c2mir's preprocessor vs spec/CPP.tla (direction A: TLC-generated cases rendered into C files).

Three families, all generated and decided by TLC from spec/CPP.tla:
  lex   lines of characters around pp-numbers (0xE+X is one token) lexed by the spec's maximal-munch lexer, then macro-replaced
  file  small source files: directives and invocations with comments (also spanning lines), new-lines and digraphs at every
        position; lexed, cut into lines and processed by the spec (translation phases 3 and 4)
  mac   macro definitions + invocation text, expected token sequence by Prosser's algorithm with hide sets
  cond  nestings of #if/#ifdef/#ifndef/#elif/#else/#endif with a marker in every group, expected markers
  if    #if expressions over the 64-bit boundary grid, expected truth / value / signedness (spec/lib/W64cpp.tla)
Binding: cases are rendered into batch files (marker lines between cases), run through `c2m -E` (built from the
working tree) and `gcc -E -P -std=c11`, outputs are re-lexed into preprocessing tokens and compared by spelling.
Two-oracle rule: VIOLATION only if spec == gcc and c2m differs; spec != gcc is SPEC-DISAGREES (exit 0, counted).
Cases the spec classifies Unspecified/undefined/ill-formed (st != "D") are never replayed.
"""
import collections, hashlib, json, os, re, shutil, subprocess, sys, time
from concurrent.futures import ThreadPoolExecutor
import vlib
from vlib import Check, run_tlc, tlc_ok, MachineryError

PROP = "C09"
WORK = os.path.join(vlib.OUT, "c09")
BATCH = 400
NPAR = max(2, min(16, vlib.NCPU))

# ----------------------------------------------------------------------------------------------- TLC jobs
# (name, cfg, nparts, simulate walks or None, depth)
# A tier is a list of groups; the TLC jobs of a group run concurrently, groups one after the other (memory).
_Q = [
    ("mac1", "CPP_mc.cfg", 6, None, None),       # 1 macro of every kind, list <= 3, balanced invocation <= 6: exhaustive
    ("mac2", "CPP_mc2.cfg", 4, None, None),      # 2 macros (object-like / 1 parameter), lists <= 2, any text <= 3: exhaustive
    ("mac2b", "CPP_mc2b.cfg", 2, None, None),    # 2 macros, lists <= 2 over {x,f,g,(}, balanced text <= 4 (f ( g ) ...): exhaustive
    ("macstr", "CPP_str_mc.cfg", 2, None, None), # stringification with literals and variable spacing: exhaustive
    ("lex2", "CPP_lex2_mc.cfg", 1, None, None),  # u8 u U L followed by quotes, digits, letters (literal prefix or identifier): exhaustive <= 4 chunks
    ("lex3", "CPP_lex3_mc.cfg", 1, None, None),  # % : < > # sequences (digraphs, %:%x) in text, as argument, under #: exhaustive <= 4 chunks
    ("lex", "CPP_lex_mc.cfg", 2, None, None),    # pp-number texts of <= 4 chunks next to a macro name, plain / argument / # / ##: exhaustive
    ("file", "CPP_file_mc.cfg", 4, None, None),  # 13 source-file skeletons x every placement of spaces, comments (also spanning lines) and new-lines
    ("macsim", "CPP_sim.cfg", 2, 2500, 60),      # 2 macros, lists <= 4, text <= 6: random walks
    ("cond", "CPP_cond_mc.cfg", 1, None, None),  # conditional nestings, 5 directive lines, depth 3: exhaustive
    ("if1", "CPP_if_mc.cfg", 4, None, None),     # one operator over an 18-value grid: exhaustive
    ("ifsim", "CPP_if_sim.cfg", 2, 2500, 60),    # depth <= 3 over the full grid: random walks
]
TIERS = {
    "quick": [_Q],
    "thorough": [
        _Q,
        [("mac1t", "CPP_t.cfg", 6, None, None)],
        [("mac2t", "CPP_t2.cfg", 9, None, None)],
        [("macstrt", "CPP_str_t.cfg", 4, None, None)],
        [("macsimt", "CPP_sim.cfg", 4, 40000, 60), ("macsim3", "CPP_sim3.cfg", 4, 40000, 60)],
        [("macsimp", "CPP_simp.cfg", 4, 40000, 60), ("condsim", "CPP_cond_sim.cfg", 2, 30000, 40)],
        [("condt", "CPP_cond_t.cfg", 8, None, None)],
        [("lext", "CPP_lex_t.cfg", 8, None, None), ("lexsim", "CPP_lex_sim.cfg", 2, 20000, 12)],
        [("lex2t", "CPP_lex2_t.cfg", 6, None, None), ("lex3t", "CPP_lex3_t.cfg", 5, None, None)],
        [("if1t", "CPP_if_t.cfg", 16, None, None), ("ifsimt", "CPP_if_sim.cfg", 6, 60000, 60)],
    ],
}
# selftest: one slice of each family (6th element = the parts that are run)
SELFTEST_JOBS = [("mac2", "CPP_mc2.cfg", 4, None, None, [1]), ("cond", "CPP_cond_mc.cfg", 5, None, None, [0]),
                 ("if1", "CPP_if_mc.cfg", 41, None, None, [5])]

# finding keys (all specific to one input family; see findings/known-findings.txt)
K_COND = "cpp:if:cond_expr_signedness"
K_SHIFT = "cpp:if:shift_result_signedness"
K_CMP = "cpp:if:cmp_result_signedness"
K_LIT32 = "cpp:if:hex_literal_uint_range_unsigned"
K_IFCOMB = "cpp:if:signedness_defects_combined"
K_SHARP = "cpp:stringify:param_after_stringified_param"
K_BSL = "cpp:stringify:backslash_escape_depends_on_next_token"
K_PLMCHAIN = "cpp:paste:two_empty_operands_in_chain"
K_GLUE = "cpp:E_text:space_lost_after_empty_paste_operand"
K_HANG = "cpp:rescan:painted_arg_reexpanded_past_list_end"
K_EOR2 = "cpp:rescan:call_args_past_two_list_ends"
K_EORWS = "cpp:rescan:space_before_list_end_hides_call"
K_DOTDOT = "cpp:lex:dot_dot_unget_order"
K_U8ID = "cpp:lex:u8_identifier_first_char"
K_PCP = "cpp:lex:percent_colon_percent_unget_order"
K_CALL0NL = "cpp:call:newline_in_empty_parens"


def build_c2m():
    """c2m driver from the current working tree of REPO; kept in out/c09 (build dirs of vlib may be pruned)."""
    os.makedirs(WORK, exist_ok=True)
    srcs = vlib.repo_sources()
    key = hashlib.sha256((vlib.tree_hash(srcs) + os.path.abspath(vlib.REPO)).encode()).hexdigest()[:12]
    exe = os.path.join(WORK, "c2m-" + key)
    if os.path.exists(exe):
        return exe
    for attempt in (0, 1):
        d, objs, cc, flags = vlib.build_lib("plain", units=("mir.c", "mir-gen.c", "c2mir/c2mir.c"))
        try:
            tmp = exe + ".tmp%d" % os.getpid()
            vlib.cc_link(cc, flags, [os.path.join(vlib.REPO, "c2mir", "c2mir-driver.c")], objs, tmp)
            os.replace(tmp, exe)
            break
        except MachineryError:
            if attempt:
                raise
    for old in os.listdir(WORK):
        p = os.path.join(WORK, old)
        if old.startswith("c2m-") and p != exe and time.time() - os.path.getmtime(p) > 3600:
            try:
                os.unlink(p)
            except OSError:
                pass
    return exe


# ----------------------------------------------------------------------------------------------- rendering
def m(s):
    """spec spelling -> C text: @ is a double quote, $ a backslash"""
    return s.replace("@", '"').replace("$", "\\")


OBS_T = ("T", "EQ", "S")
OBS_F = ("F", "NE", "UN")


def obs_tokens(o):
    return [OBS_T[i] if x == "1" else OBS_F[i] if x == "0" else "?" for i, x in enumerate(o)]


def expected(c):
    if c["fam"] == "if":
        return obs_tokens(c["obs"])
    return [m(x) for x in c["exp"]]


def render(c, i):
    L = ["VERIFCASE_%d" % i]
    if c["fam"] == "mac":
        for d in c["defs"]:
            L.append("#define " + m(d))
        L.append(m(c["inv"]).strip())
        L.append("VERIFEND_%d" % i)
        for n in c["names"]:
            L.append("#undef " + n)
    elif c["fam"] == "lex":
        L += [m(c["src"]), "VERIFEND_%d" % i]
    elif c["fam"] == "file":
        L += m(c["src"]).replace("~", "\n").rstrip("\n").split("\n")
        L += ["VERIFEND_%d" % i] + ["#undef " + n for n in FILE_NAMES]
    elif c["fam"] == "if":
        e = c["full"] if c.get("paren") else c["min"]
        L += ["#if " + e, "T", "#else", "F", "#endif",
              "#if (" + e + ") == " + c["vtxt"], "EQ", "#else", "NE", "#endif",
              "#if ((" + e + ") * 0 - 1) < 0", "S", "#else", "UN", "#endif", "VERIFEND_%d" % i]
    elif c["fam"] == "cond":
        for k, l in enumerate(c["lines"]):
            L += [l, "m%d" % (k + 1)]
        L += ["VERIFEND_%d" % i, "#undef D"]
    return L


FILE_NAMES = ("A", "F", "L", "D", "H", "Z", "S")     # macros the skeletons of the file family define
INC_NAME, INC_TEXT = "c09inc.h", "inc_tok\n"          # the header of the #include skeleton (written next to every batch file)
PRELUDE = {"if": "#define D 2u\n#define E (-1)\n", "mac": "", "cond": "", "file": "",
           "lex": "#define X 1\n#define S(x) #x\n#define T(x) S(x)\n#define C(x,y) x ## y\n#define I(x) x\n"}

TOK = re.compile(r'\s+|((?:u8|u|U|L)?"(?:[^"\\\n]|\\.)*"|(?:u|U|L)?\'(?:[^\'\\\n]|\\.)*\'|[A-Za-z_][A-Za-z_0-9]*'
                 r'|\.?[0-9](?:[eEpP][+-]|[A-Za-z_0-9.])*|%:%:|\.\.\.|\+\+|--|->|<<|>>|<:|:>|<%|%>|%:|&&|\|\||##|.)')


def lex(text, c2m):
    out = []
    for line in text.splitlines():
        if c2m and re.match(r"^#line \d+", line):     # c2m -E position lines (gcc runs with -P)
            continue
        for mm in TOK.finditer(line):
            if mm.group(1):
                out.append(mm.group(1))
    return out


def split_cases(tokens):
    res, cur = {}, None
    for t in tokens:
        mm = re.match(r"^VERIF(CASE|END)_(\d+)$", t)
        if mm:
            if mm.group(1) == "CASE":
                cur = []
                res[int(mm.group(2))] = cur
            else:
                cur = None
            continue
        if cur is not None:
            cur.append(t)
    return res


def run_file(c2m, cases, base, tag, keep=False):
    """Render cases[base..] into one file, run both preprocessors.
    Returns (c2m_results, gcc_results, c2m_status, gcc_status, path, errcases); results: index -> token list;
    errcases: indices of the cases on whose lines c2m or gcc printed a diagnostic "file:line:"."""
    d = os.path.join(WORK, "run-%d" % os.getpid())      # per process: several checks may run at once
    os.makedirs(d, exist_ok=True)
    fn = os.path.join(d, "%s_%d.c" % (tag, base))
    starts = []
    inc = os.path.join(d, INC_NAME)
    if cases[0]["fam"] == "file" and not os.path.exists(inc):
        with open(inc + ".tmp%d" % id(cases), "w") as f:
            f.write(INC_TEXT)
        os.replace(inc + ".tmp%d" % id(cases), inc)
    with open(fn, "w") as f:
        pre = PRELUDE[cases[0]["fam"]]
        f.write(pre)
        ln = pre.count("\n") + 1
        for i, c in enumerate(cases):
            L = render(c, base + i)
            starts.append(ln)
            ln += len(L)
            f.write("\n".join(L) + "\n")
    single = len(cases) == 1

    def errcases(text):
        res = set()
        for mm in re.finditer(re.escape(fn) + r":(\d+):", text):
            l = int(mm.group(1))
            k = 0
            while k + 1 < len(starts) and starts[k + 1] <= l:
                k += 1
            res.add(base + k)
        return res

    st1, a, ec = "ok", {}, set()
    try:
        with open(fn + ".err", "wb") as ferr:
            p1 = subprocess.run(["/bin/sh", "-c", 'ulimit -f 16384; ulimit -t 20; ulimit -v 4194304; exec "$0" -E "$1"', c2m, fn],
                                stdout=subprocess.PIPE, stderr=ferr, timeout=4 if single else 30)
        with open(fn + ".err", "rb") as ferr:
            err = ferr.read(1 << 20).decode("utf-8", "replace")
        a = split_cases(lex(p1.stdout.decode("utf-8", "replace"), True))
        if p1.returncode != 0:
            st1 = "rc%d:%s" % (p1.returncode, err.strip().splitlines()[0][-120:] if err.strip() else "")
            ec |= errcases(err)
            if not ec or p1.returncode != 1:
                ec |= set(range(base, base + len(cases)))       # crash or unattributable error: every case is re-run alone
    except subprocess.TimeoutExpired:
        st1 = "timeout"
        ec |= set(range(base, base + len(cases)))
    p2 = subprocess.run(["gcc", "-E", "-P", "-std=c11", fn], stdout=subprocess.PIPE, stderr=subprocess.PIPE, timeout=300)
    b = split_cases(lex(p2.stdout.decode("utf-8", "replace"), False))
    st2 = "ok"
    if p2.returncode != 0:
        e2 = p2.stderr.decode("utf-8", "replace")
        st2 = "rc%d:%s" % (p2.returncode, e2.strip().splitlines()[0][-160:])
        ec |= errcases(e2) or set(range(base, base + len(cases)))
    if not keep:
        for x in (fn, fn + ".err"):
            try:
                os.unlink(x)
            except OSError:
                pass
    return a, b, st1, st2, fn, ec


# ----------------------------------------------------------------------------------------------- verdicts
def despaced(ts):
    return "".join(ts)


def if_match(pred, got):
    t = obs_tokens(pred)
    return got is not None and len(got) == 3 and all(x == y or x == "?" for x, y in zip(t, got))


def classify(c, exp, got, st1):
    """c2m deviates while spec and gcc agree: stable key of the input family (known defects get their own key)."""
    ft = set(c.get("ft", []))
    if c["fam"] == "if":
        alt = c["alt"]
        errd = st1.startswith("rc")                     # c2m reported an error (e.g. its own division by zero)
        def ok(pred):
            return if_match(pred, got) or (errd and "?" in pred)
        for d, k in (("lit32", K_LIT32), ("cond", K_COND), ("shift", K_SHIFT), ("cmp", K_CMP)):
            if d in alt and alt[d] != c["obs"] and ok(alt[d]):
                return k
        if alt["all"] != c["obs"] and ok(alt["all"]):
            return K_IFCOMB
        return "cpp:if:wrong_result"
    if c["fam"] == "cond":
        return "cpp:cond:wrong_group_selected"
    glue = got is not None and got != exp and despaced(got) == despaced(exp)
    if "lex_dot_dot" in ft and st1 != "timeout":
        return K_DOTDOT
    if "lex_u8_identifier" in ft and st1 != "timeout":
        return K_U8ID
    if "lex_percent_colon_percent" in ft and st1 != "timeout":
        return K_PCP
    if "call0_newline_in_parens" in ft and got == exp and "too many args" in st1:
        return K_CALL0NL
    if st1 == "timeout":
        if "call_past_list_end_painted_arg" in ft:
            return K_HANG
        return "cpp:mac:hang"
    if "str_then_param" in ft:
        return K_SHARP
    if "paste_plm_chain" in ft:
        return K_PLMCHAIN
    if "str_bsl_next" in ft and not st1.startswith("rc"):
        return K_BSL
    if glue and "paste_plm" in ft and not st1.startswith("rc"):
        return K_GLUE
    if "call_past_2_list_ends" in ft and st1.startswith("rc") and "unfinished call" in st1:
        return K_EOR2
    if "call_past_list_end_painted_arg" in ft:
        return K_HANG
    if "call_name_ends_list" in ft and ft & {"arg_ends_with_fn_name", "arg_empty"} and not st1.startswith("rc"):
        return K_EORWS
    if glue:
        return "cpp:mac:tokens_glued_in_E_text"
    if st1.startswith("rc"):
        return "cpp:mac:error_on_valid_input"
    return "cpp:mac:wrong_tokens"


class Stats:
    def __init__(self):
        self.cnt = collections.Counter()
        self.feat = collections.Counter()
        self.spec_dis = []
        self.fail = []          # (case, exp, got, gcc, st1, key)


def judge_batches(c2m, cases, tag, stats):
    """Replay all cases (batched).  A case that fails in its batch is re-run before it counts (rule 5): alone, or - for the
    stateless #if cases when there are many - in a second, differently composed batch first."""
    jobs = [(cases[i:i + BATCH], i) for i in range(0, len(cases), BATCH)]
    redo = []

    def verdict(c, idx, ga, gb, st1, st2, final):
        """TRUE if decided"""
        e = expected(c)
        if gb != e or st2 != "ok":
            stats.cnt["spec_disagrees"] += 1
            stats.spec_dis.append((c, e, ga, gb, st2))
        elif ga == e and st1 == "ok":
            stats.cnt["pass"] += 1
            stats.cnt["pass_after_rerun"] += 1
        elif final:
            stats.fail.append((c, e, ga, gb, st1, classify(c, e, ga, st1)))
        else:
            return False
        return True

    with ThreadPoolExecutor(NPAR) as ex:
        for (cs, base), (a, b, st1, st2, fn, ec) in zip(jobs, ex.map(lambda j: run_file(c2m, j[0], j[1], tag), jobs)):
            for i, c in enumerate(cs):
                e = expected(c)
                if base + i in ec or a.get(base + i) != e or b.get(base + i) != e:
                    redo.append((c, base + i, a.get(base + i)))
                else:
                    stats.cnt["pass"] += 1
        nredo = len(redo)
        if len(redo) > 300 and cases[0]["fam"] == "if":
            # second batch run of the failing cases only; identical failure twice = confirmed
            redo2 = []
            j2 = [(redo[i:i + 100], i) for i in range(0, len(redo), 100)]
            for (rs, rb), (a, b, st1, st2, fn, ec) in zip(j2, ex.map(lambda j: run_file(c2m, [r[0] for r in j[0]], j[1], tag + "b"), j2)):
                for k, (c, idx, ga1) in enumerate(rs):
                    ga, gb = a.get(rb + k), b.get(rb + k)
                    if rb + k in ec or ga != ga1 or ga is None or gb != expected(c):
                        redo2.append((c, idx, ga1))
                    else:
                        verdict(c, idx, ga, gb, "ok", "ok", True)
            redo = redo2
        alone = list(ex.map(lambda r: run_file(c2m, [r[0]], r[1], tag + "s"), redo))
        again = []
        for (c, idx, _), (a, b, st1, st2, fn, ec) in zip(redo, alone):
            if not verdict(c, idx, a.get(idx), b.get(idx), st1, st2, False):
                again.append((c, idx, a.get(idx), b.get(idx), st1))
        # a failure seen alone is confirmed by one more run alone
        conf = list(ex.map(lambda r: run_file(c2m, [r[0]], r[1], tag + "r"), again))
        for (c, idx, ga, gb, st1), (a2, b2, st1b, st2b, fn, ec) in zip(again, conf):
            if a2.get(idx) == expected(c) and st1b == "ok":
                stats.cnt["flaky"] += 1
                stats.fail.append((c, expected(c), ga, gb, st1, "cpp:flaky_result"))
            else:
                verdict(c, idx, ga, gb, st1, "ok", True)
    return nredo


# ----------------------------------------------------------------------------------------------- TLC side
def gen_cases(jobs, stats, maxpar=None):
    """Run the TLC jobs (each split over JVMs by IOEnv PART/NPARTS); returns {jobname: [defined cases]}."""
    kws, owner = [], []
    for job in jobs:
        name, cfg, nparts, sim, depth = job[:5]
        if not os.path.exists(os.path.join(vlib.SPEC, cfg)):
            raise MachineryError("missing " + cfg)
        for p in (job[5] if len(job) > 5 else range(nparts)):
            kw = dict(module="CPP", cfg=cfg, workers=2 if sim else 4, env={"PART": p, "NPARTS": nparts}, heap="3g -Xss64m", timeout=1500)
            if sim:
                kw.update(simulate=max(1, sim // nparts), depth=depth, seed_=vlib.seed() * 1000 + p)
            kws.append(kw)
            owner.append(name)
    maxpar = maxpar or max(1, vlib.NCPU // 2)
    with ThreadPoolExecutor(maxpar) as ex:
        res = list(ex.map(lambda kw: run_tlc(**kw), kws))
    out = collections.OrderedDict((j[0], []) for j in jobs)
    seen = set()
    tot_states = tot_distinct = 0
    for name, kw, r in zip(owner, kws, res):
        tlc_ok(r, "CPP %s part %s" % (kw["cfg"], kw["env"]["PART"]))
        tot_states += r.states
        tot_distinct += r.distinct
        stats.cnt["tlc_wall_s"] += int(r.wall)
        for o in r.outs:
            k = json.dumps(o, sort_keys=True)
            if k in seen:
                continue
            seen.add(k)
            fam = o["fam"]
            stats.cnt["emitted_" + fam] += 1
            if o["st"] != "D":
                stats.cnt["dropped_%s_%s" % (fam, {"U": "unspecified", "I": "illformed", "Q": "oracle_quirk",
                                                   "G": "E_text_would_relex_differently"}[o["st"]])] += 1
                continue
            out[name].append(o)
    return out, tot_states, tot_distinct


def add_paren_variants(cases):
    """#if cases are rendered with minimal parentheses (tests precedence parsing); every 4th also fully parenthesised."""
    res = []
    for i, c in enumerate(cases):
        res.append(c)
        if c["fam"] == "if" and i % 4 == 0 and c["full"] != c["min"]:
            d = dict(c)
            d["paren"] = True
            res.append(d)
    return res


def run(tier, jobs=None, mutate=None):
    ck = Check(PROP, tier, "model_checking")
    c2m = build_c2m()
    stats = Stats()
    t_tlc = total = st = di = 0
    seen_jobs = set()
    for group in ([jobs] if jobs else TIERS[tier]):
        group = [j for j in group if j[0] not in seen_jobs or jobs]
        seen_jobs |= {j[0] for j in group}
        t0 = time.time()
        gen, st1, di1 = gen_cases(group, stats)
        t_tlc += time.time() - t0
        st += st1
        di += di1
        for name, cases in gen.items():
            if not cases:
                raise MachineryError("TLC job %s produced no defined case" % name)
            cases = add_paren_variants(cases)
            if mutate:
                cases = mutate(name, cases)
            for c in cases:
                for f in c.get("ft", []):
                    stats.feat[f] += 1
            nb = judge_batches(c2m, cases, name, stats)
            total += len(cases)
            ck.add("cases_" + cases[0]["fam"], len(cases))
            ck.add("cases_job_" + name, len(cases))
            ck.sample({"job": name, "case": cases[len(cases) // 2]}, maxn=10)
            vlib.log("  %-8s %7d cases replayed, %d re-run alone (%.0fs)" % (name, len(cases), nb, time.time() - t0))
        del gen
    known = collections.Counter()
    for c, e, ga, gb, st1, key in stats.fail:
        txt = "%s: expected %s, c2m %s%s, gcc %s; source: %s" % (
            c["fam"], " ".join(e), " ".join(ga) if ga is not None else "<nothing>", "" if st1 == "ok" else " [" + st1 + "]",
            " ".join(gb or []), " | ".join(render(c, 0)[1:-1])[:300])
        if not ck.violation(key, txt, c):
            known[key] += 1
    for c, e, ga, gb, st2 in stats.spec_dis[:20]:
        vlib.log("SPEC-DISAGREES: spec %s, gcc %s%s, c2m %s; source: %s" % (
            " ".join(e), " ".join(gb or []), "" if st2 == "ok" else " [" + st2 + "]", " ".join(ga or []), " | ".join(render(c, 0)[1:-1])[:300]))
    for k, v in sorted(stats.cnt.items()):
        ck.setc(k, v)
    ck.setc("known_finding_cases", dict(known))
    ck.setc("features_exercised", dict(stats.feat))
    ck.setc("states", di)
    ck.setc("transitions", st)
    ck.setc("traces_validated_against_impl", total)
    ck.setc("tlc_elapsed_s", round(t_tlc, 1))
    ck.setc("exhaustive", "BFS jobs enumerate every case of their .cfg bound; *sim* jobs are TLC -simulate walks seeded by VERIF_SEED")
    ck.setc("rule", "each TLC-generated case (macro environment + invocation text / conditional nesting / #if expression) carries the "
                    "result spec/CPP.tla computes; `c2m -E` and `gcc -E -P -std=c11` outputs are re-lexed and compared token by token; "
                    "VIOLATION iff spec == gcc != c2m, confirmed on the case alone twice; unspecified/undefined/ill-formed cases dropped")
    ck.setc("trusted_base", ["TLC", "gcc -E (second oracle)", "token re-lexer and renderer in harness/py/c09.py", "spec/lib/W64cpp.tla (cross-checked against host integers in selftest)"])
    ck.assumptions += [">> of a negative signed value is an arithmetic shift (implementation-defined, gcc/c2mir behaviour)",
                       "tokens of every source list are separated by white space (except the variable-spacing stringification jobs): "
                       "c2m -E does not re-insert separators between tokens it prints",
                       "gcc 12 -std=c11 is a conforming second oracle; a case where it disagrees with the spec is never a violation"]
    shutil.rmtree(os.path.join(WORK, "run-%d" % os.getpid()), ignore_errors=True)
    vlib.log("C09 %s: %d cases replayed (%s), dropped %s, spec-disagrees %d, known-finding cases %s, TLC %.0fs" % (
        tier, total, ", ".join("%s=%d" % (k[6:], v) for k, v in ck.cov.items() if k.startswith("cases_") and not k.startswith("cases_job")),
        {k[8:]: v for k, v in stats.cnt.items() if k.startswith("dropped_")}, stats.cnt["spec_disagrees"], dict(known), t_tlc))
    return ck.finish()


def replay(path):
    d = json.load(open(path))
    c = d["case"]
    c2m = build_c2m()
    a, b, st1, st2, fn, _ = run_file(c2m, [c], 0, "replay", keep=True)
    e = expected(c)
    print("source file:", fn)
    print(open(fn).read())
    print("expected (spec):", e)
    print("c2m -E         :", a.get(0), "" if st1 == "ok" else st1)
    print("gcc -E -P      :", b.get(0), "" if st2 == "ok" else st2)
    if b.get(0) != e:
        print("SPEC-DISAGREES: spec and gcc differ; not a violation")
        return 0
    if a.get(0) == e and st1 == "ok":
        print("replay: passes")
        return 0
    print("replay: still failing, key", classify(c, e, a.get(0), st1))
    print("VIOLATION property=%s replay=%s" % (PROP, path))
    return 1


def selftest():
    """Binding demonstration: (1) W64cpp against host integers; (2) one corrupted expectation per family must be objected to,
    its uncorrupted neighbours must pass."""
    bad = 0
    r = run_tlc("CPP", "CPP_w64.cfg", workers=4, env={"PART": 0, "NPARTS": 1})
    tlc_ok(r, "CPP_w64")
    nbad = sum(1 for o in r.outs if w64_host(o) != int(o["r"], 16))
    print("selftest w64: %d rows of W64cpp operations checked against host integers, %d differ" % (len(r.outs), nbad))
    bad += 1 if nbad or not r.outs else 0
    c2m = build_c2m()
    stats = Stats()
    gen, _, _ = gen_cases(SELFTEST_JOBS, stats)
    import copy

    def passes(c):
        st = Stats()
        judge_batches(c2m, [c], "selftest", st)
        return st.cnt["pass"] == 1 and not st.fail and not st.spec_dis

    for name, cases in gen.items():
        cand = [c for c in cases if c["fam"] != "mac" or (c["exp"] and c.get("ft"))]
        pick = [c for c in cand[len(cand) // 3:len(cand) // 3 + 40] if passes(c)][:2]
        if len(pick) < 2:
            raise MachineryError("selftest: no passing cases in slice " + name)
        good, c = pick[0], copy.deepcopy(pick[1])
        if c["fam"] == "if":
            c["obs"][0] = "0" if c["obs"][0] == "1" else "1"
        elif c["fam"] == "cond":
            c["exp"] = c["exp"][:-1]
        else:
            c["exp"][-1] = c["exp"][-1] + "x"
        st = Stats()
        judge_batches(c2m, [good, c], "selftest", st)
        objected = len(st.fail) + len(st.spec_dis) == 1 and st.cnt["pass"] == 1
        print("selftest %s: corrupted expectation %s (%s)" % (name, "rejected" if objected else "NOT rejected", " | ".join(render(c, 0)[1:-1])[:120]))
        bad += 0 if objected else 1
    return 1 if bad else 0


def w64_host(o):
    M = (1 << 64) - 1
    a, b, op = int(o["a"], 16), int(o["b"], 16), o["op"]
    n = b % 64
    s = lambda x: x - (1 << 64) if x >> 63 else x
    sa, sb = s(a), s(b)
    tdiv = lambda x, y: (abs(x) // abs(y)) * (-1 if (x < 0) != (y < 0) else 1)
    inr = lambda x: -(1 << 63) <= x < (1 << 63)
    undef = b == 0 or (sa == -(1 << 63) and sb == -1)
    return {
        "add": lambda: (a + b) & M, "sub": lambda: (a - b) & M, "mul": lambda: (a * b) & M, "mulhi": lambda: (a * b) >> 64,
        "and": lambda: a & b, "or": lambda: a | b, "xor": lambda: a ^ b, "shl": lambda: (a << n) & M, "lshr": lambda: a >> n,
        "ashr": lambda: (sa >> n) & M, "udiv": lambda: 0 if b == 0 else a // b, "urem": lambda: 0 if b == 0 else a % b,
        "sdiv": lambda: 0 if undef else tdiv(sa, sb) & M, "srem": lambda: 0 if undef else (sa - tdiv(sa, sb) * sb) & M,
        "ult": lambda: int(a < b), "slt": lambda: int(sa < sb), "addovf": lambda: int(not inr(sa + sb)),
        "subovf": lambda: int(not inr(sa - sb)), "mulovf": lambda: int(not inr(sa * sb)),
        "shlovf": lambda: int(sa < 0 or (sa << n) >= (1 << 63)), "neg": lambda: (-a) & M, "not": lambda: a ^ M,
    }[op]()
