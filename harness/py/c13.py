"""C13: imports bind to the most recently loaded export (spec/MIRLink.tla, direction A).

TLC explores every load / load_external / set_permission / link history within the constants of the
.cfg (BFS, history hidden by VIEW, every transition emitted with a shortest behaviour to it) and checks
BindLatest / RedefRejected / UndefinedReported / LocalBinding / OldBindingsStable on the model; every
emitted behaviour is replayed on a real MIR context by harness/c13_link.c."""
import atexit, json, os, subprocess, sys, copy, threading, time
from concurrent.futures import ThreadPoolExecutor
import vlib
from vlib import Check, run_tlc, tlc_ok, MachineryError

PROP = "C13"
WORKERS = int(os.environ.get("VERIF_WORKERS", "8"))
KIND = {"f": 0, "d": 1, "i": 2, "e": 3, "w": 4, "s": 5, "g": 6, "G": 7, "F": 8}
NAME = {"a": 0, "b": 1, "c": 2}
ERR = {"": 0, "repeated_decl": 1, "undeclared_op_ref": 2, "import_export": 3}
DEFT = {"mir": 0, "ext": 1, "res": 2}
DEFK = {"func": 0, "data": 1}


def txt_case(idx, case, engine):
    L = ["C %d %d" % (idx, engine)]
    for s in case["h"]:
        a = s["a"]
        if a == "load":
            d = " ".join("%d %d %d" % (KIND[x[0]], NAME[x[1]], NAME[x[2]] if len(x) > 2 else -1) for x in s["d"])
            L.append("L %d %d %d %s %d %d" % (s["s"], s["v"], len(s["d"]), d, ERR[s["cerr"]], ERR[s["err"]]))
        elif a == "ext":
            L.append("X %d %d" % (NAME[s["n"]], s["id"]))
        elif a == "permit":
            L.append("P %d" % (1 if s["b"] else 0))
        elif a == "link":
            mask = sum(1 << NAME[n] for n in s["R"])
            calls = " ".join(str(NAME[n]) for n in s["calls"])
            b = " ".join("%d %d %d %d %d %d %d %d" % (x[0], x[1], NAME[x[2]], DEFT[x[3]], x[4], x[5], DEFK[x[6]], x[7]) for x in s["bound"])
            L.append("K %d %d %d %d %s %d %s" % (1 if s["res"] else 0, mask, ERR[s["err"]], len(s["calls"]), calls, len(s["bound"]), b))
        else:
            raise MachineryError("unknown step " + a)
    fin = " ".join("%d %d %d %d %d" % (NAME[x[0]], {"none": -1, **DEFT}[x[1]], x[2], x[3], DEFK.get(x[4], 0)) for x in case["fin"])
    L.append("E %d %s" % (len(case["fin"]), fin))
    return "\n".join(L)


_exe = None
_exe_lock = threading.Lock()


def harness_exe():
    """Library objects of the current tree (vlib cache) + the driver, linked once per run into out/hbuild (the object
    cache may be pruned by concurrent checks while this one is running; the executable must not live there)."""
    global _exe
    with _exe_lock:
        if _exe is None:
            d, objs, cc, flags = vlib.build_lib("plain", units=("mir.c", "mir-gen.c"))
            hb = os.path.join(vlib.OUT, "hbuild")
            os.makedirs(hb, exist_ok=True)
            exe = os.path.join(hb, "c13_link-%d" % os.getpid())
            vlib.cc_link(cc, flags, [os.path.join(vlib.HARNESS, "c13_link.c")], objs, exe)
            atexit.register(lambda: os.path.exists(exe) and os.unlink(exe))
            _exe = exe
    return _exe


def run_chunk(items):
    """items: list of (idx, case, engine). Returns (fails [(idx, step, key, text)], died or None)."""
    inp = "\n".join(txt_case(i, c, e) for i, c, e in items) + "\n"
    try:
        p = subprocess.run([harness_exe()], input=inp.encode(), stdout=subprocess.PIPE, stderr=subprocess.PIPE, timeout=1500)
    except subprocess.TimeoutExpired:
        return [], "timeout"
    out = p.stdout.decode("utf-8", "replace")
    fails, done, last = [], None, None
    for line in out.splitlines():
        if line.startswith("P "):
            last = int(line[2:])
        elif line.startswith("FAIL "):
            _, ci, st, key, msg = line.split(" ", 4)
            fails.append((int(ci), int(st), key, msg))
        elif line.startswith("DONE "):
            done = [int(x) for x in line.split()[1:]]
    if p.returncode != 0 or done is None:
        return fails, (last, "harness died rc=%s (-14 = no answer from the library within 20 s): %s" % (p.returncode, p.stderr.decode("utf-8", "replace")[-800:]))
    if done[0] != len(items):
        raise MachineryError("c13 harness consumed %d of %d cases" % (done[0], len(items)))
    return fails, None


def replay_all(ck, cases, engine, tag):
    """Replays cases (list of dict) with the engine; records violations; returns number of mismatching cases."""
    items = [(i, c, engine) for i, c in enumerate(cases)]
    n = max(1, min(WORKERS, len(items) // 200 + 1))
    size = (len(items) + n - 1) // n
    chunks = [items[i:i + size] for i in range(0, len(items), size)]
    with ThreadPoolExecutor(max_workers=n) as ex:
        res = list(ex.map(run_chunk, chunks))
    bad = 0
    for chunk, (fails, died) in zip(chunks, res):
        guard = 0
        while died:
            if died == "timeout":
                raise MachineryError("c13 harness timed out")
            last, text = died
            pos = next((k for k, it_ in enumerate(chunk) if it_[0] == last), None)
            if pos is None:
                raise MachineryError("c13 harness died before the first case: " + text)
            idx, case, e = chunk[pos]
            guard += 1
            _, d2 = run_chunk([chunk[pos]])
            if d2:
                ck.violation("crash:" + ("gen" if e else "interp"), "%s: harness crashed or hung on this behaviour: %s" % (tag, d2[1][-500:]),
                             {"engine": e, "case": case})
                bad += 1
            chunk = chunk[pos + 1:]
            if not chunk:
                break
            if guard >= 10:
                ck.violation("crash:many", "%s: more than 10 crashes in one chunk; %d behaviours not replayed" % (tag, len(chunk)), {"engine": e, "case": case})
                break
            f2, died = run_chunk(chunk)
            fails += f2
        first = {}
        for idx, st, key, msg in fails:
            first.setdefault(idx, (st, key, msg))
        if first:
            # rule 5: every failing behaviour is re-run once (fresh process) before it is reported
            known = {idx for idx in first if ck.findings.is_known(PROP, finding_key(first[idx][1], engine, cases[idx], first[idx][0]))}
            for idx in sorted(known):          # counted as KNOWN-FINDING by Check.violation, never reported: no re-run needed
                st, key, msg = first[idx]
                ck.violation(finding_key(key, engine, cases[idx], st), msg, None)
                first.pop(idx)
            ck.add("known_finding_hits", len(known))
            again = [(idx, cases[idx], engine) for idx in sorted(first)]
            f2, d2 = run_chunk(again) if again else ([], None)
            still = {f[0] for f in f2}
            if d2:
                still = set(first)
            for idx in sorted(first):
                st, key, msg = first[idx]
                if idx not in still:
                    vlib.log("  note: mismatch on case %d did not reproduce: %s" % (idx, msg))
                    ck.add("unreproduced_mismatches")
                    continue
                bad += 1
                ck.violation(finding_key(key, engine, cases[idx], st), "%s step %d [%s]: %s" % (tag, st, "gen" if engine else "interp", msg),
                             {"engine": engine, "case": cases[idx]})
    return bad


def finding_key(key, engine, case, step):
    return "%s:%s" % (key, "gen" if engine else "interp")


TIERS = {
    # (cfg, engines, simulate)
    "quick": [("MIRLink_mc.cfg", (0,), None)],
    # _t2: every shape (incl. the calling functions 12, 13 and the big function 14) at depth 6, a superset of _mc;
    # _t: the shapes without calling functions at depth 7; _sim: long error-free histories over all of them
    "thorough": [("MIRLink_t2.cfg", (0, 1), None), ("MIRLink_t.cfg", (0, 1), None), ("MIRLink_sim.cfg", (0, 1), (200, 16))],
}


def generate(cfg, sim, chunk=100000):
    """One TLC run (BFS or simulation).  Returns (result, iterator over lists of at most `chunk` behaviours): the
    OUT lines are parsed lazily from the output file so that a million behaviours never sit in memory at once
    (partitioning the BFS over JVMs instead would explore states shared by several partitions repeatedly)."""
    out_file = os.path.join(vlib.scratch_dir("c13-"), "tlc.out")
    if sim:
        r = run_tlc("MIRLink", cfg, workers=min(4, WORKERS), simulate=sim[0], depth=sim[1] + 1, seed_=vlib.seed(), timeout=1500,
                    collect_out=False, out_file=out_file)
    else:
        r = run_tlc("MIRLink", cfg, workers=WORKERS, heap="6g", timeout=1500, collect_out=False, out_file=out_file)
    tail = "\n".join(l for l in r.out[-200000:].splitlines() if '"OUT' not in l)[-2000:]
    r.out = ""
    if r.rc == 12 or r.violation:
        raise MachineryError("model-level property violated in %s: %s\n%s" % (cfg, r.violation, tail))
    if r.rc != 0:
        raise MachineryError("TLC failed for %s (rc=%s):\n%s" % (cfg, r.rc, tail))

    def chunks():
        cur = []
        with open(out_file, errors="replace") as f:
            for line in f:
                if '"OUT' not in line:
                    continue
                for pay in vlib._OUT_RE.findall(line):
                    try:
                        cur.append(json.loads(vlib._unescape_tla(pay)))
                    except Exception:
                        raise MachineryError("cannot parse OUT line: " + line[:300])
                if len(cur) >= chunk:
                    yield cur
                    cur = []
        if cur:
            yield cur
        try:
            os.unlink(out_file)
            os.rmdir(os.path.dirname(out_file))
        except OSError:
            pass
    return r, chunks()


def run(tier, mutate=None):
    ck = Check(PROP, tier, "model_checking")
    harness_exe()
    tot_states = tot_trans = tot_cases = 0
    for cfg, engines, sim in TIERS[tier]:
        if not os.path.exists(os.path.join(vlib.SPEC, cfg)):
            raise MachineryError("missing " + cfg)
        c_cases = c_bad = 0
        t0 = time.time()
        r, chunks = generate(cfg, sim)
        c_states, c_trans, c_wall = r.distinct, r.states, r.wall
        for cases in chunks:
            if mutate:
                cases = mutate(cases)
            c_cases += len(cases)
            ck.sample({"cfg": cfg, "case": cases[len(cases) // 2]}, maxn=4)
            for e in engines:
                c_bad += replay_all(ck, cases, e, cfg)
                tot_cases += len(cases)
                ck.add("behaviours_" + ("gen" if e else "interp"), len(cases))
            ck.add("steps_replayed", sum(len(c["h"]) for c in cases) * len(engines))
            ck.add("link_steps", sum(1 for c in cases for s in c["h"] if s["a"] == "link") * len(engines))
            ck.add("error_endings", sum(1 for c in cases if c["h"][-1].get("err")) * len(engines))
            del cases
        if c_cases == 0:
            raise MachineryError("no behaviours emitted by " + cfg)
        if not sim and c_cases != c_trans - 1 and c_cases != c_trans:
            raise MachineryError("%s: %d behaviours parsed but TLC generated %d transitions" % (cfg, c_cases, c_trans))
        tot_states += c_states
        tot_trans += c_trans
        vlib.log("  MIRLink %s: %d distinct states, %d transitions, %d behaviours x %d engines replayed, %d mismatching (%.0fs TLC)"
                 % (cfg, c_states, c_trans, c_cases, len(engines), c_bad, c_wall))
    ck.setc("states", tot_states)
    ck.setc("transitions", tot_trans)
    ck.setc("traces_validated_against_impl", tot_cases)
    ck.setc("exhaustive", True)
    ck.setc("rule", "every transition of the bounded MIRLink state graph (BFS, history hidden by VIEW) is emitted with a "
                    "shortest behaviour and replayed through MIR_new_*/MIR_load_module/MIR_load_external/"
                    "MIR_set_func_redef_permission/MIR_link; after every link the address and the called value of every "
                    "import/forward of every module linked so far, the resolver call sequence and the error verdict "
                    "are compared with the model")
    ck.setc("trusted_base", ["TLC 1.8", "harness/c13_link.c", "MIR interpreter/generator executing the observer functions"])
    ck.assumptions += ["3 names, module shapes of MIRLink!AllShapes, bounds of the .cfg files",
                       "deviations modelled: DevRedefAnyEntry, DevResolverRegisters, DevDupDeclMerged, DevDanglingAccepted (see MIRLink.tla)"]
    return ck.finish()


def replay(path):
    d = json.load(open(path))
    case, engine = d["case"]["case"], d["case"]["engine"]
    fails, died = run_chunk([(0, case, engine)])
    if died or fails:
        print("replay: still failing:", died[1] if died else fails)
        print("VIOLATION property=%s replay=%s" % (PROP, path))
        return 1
    print("replay: passes")
    return 0


def selftest():
    """Binding demonstration: corrupt one expected binding / verdict / resolver call and show the harness objects."""
    cases = [c for ch in generate("MIRLink_mc.cfg", None)[1] for c in ch]
    bad = 0

    def pick(pred):
        for c in cases:
            if pred(c):
                return copy.deepcopy(c)
        raise MachineryError("selftest: no suitable case")

    # 1: a binding to version 2 of a function replaced by version 1
    c = pick(lambda c: c["h"][-1]["a"] == "link" and any(b[3] == "mir" and b[5] == 2 for b in c["h"][-1]["bound"]))
    for b in c["h"][-1]["bound"]:
        if b[3] == "mir" and b[5] == 2:
            b[5] = 1
            break
    tests = [("binding to an older version", c)]
    # 2: an expected redefinition error dropped
    c = pick(lambda c: c["h"][-1].get("err") == "repeated_decl")
    c["h"][-1]["err"] = ""
    tests.append(("redefinition error dropped", c))
    # 3: a resolver call dropped
    c = pick(lambda c: c["h"][-1]["a"] == "link" and c["h"][-1]["err"] == "" and len(c["h"][-1]["calls"]) > 0)
    c["h"][-1]["calls"] = c["h"][-1]["calls"][:-1]
    tests.append(("resolver call dropped", c))
    # 4: undefined import expected to link
    c = pick(lambda c: c["h"][-1].get("err") == "undeclared_op_ref")
    c["h"][-1]["err"] = ""
    tests.append(("undefined import accepted", c))
    good = cases[len(cases) // 2]
    for name, c in tests:
        fails, died = run_chunk([(0, good, 0), (1, c, 0)])
        # (the unchanged behaviour may hit the late-first-run finding; only the corrupted one is judged)
        ok = any(f[0] == 1 and not f[2].startswith("late_") for f in fails) and not any(f[0] == 0 and not f[2].startswith("late_") for f in fails) and not died
        print("selftest %s: corrupted behaviour %s" % (name, "rejected" if ok else "NOT rejected"))
        bad += 0 if ok else 1
    return 1 if bad else 0
