"""C11: binary MIR written by MIR_write reads back as the same module, deterministically.

Specification: spec/MIRBin.tla (token grammar of the binary format as a decoder TLC evaluates on byte strings, writer
obligations, and Encode), spec/MIRModule.tla (abstract modules), spec/MIRText.tla (I/O history machine, mode "bin").
Bindings:
 (i)   the bytes MIR_write_with_func / MIR_write produce are decompressed with the real reduce_decode and handed to
       TLC (JSON file + IOEnv): MIRBin.Decode must reconstruct exactly the abstract module the context was built from
       and find every writer obligation met (shortest tags, strings numbered by first occurrence, zero long double
       padding);
 (ii)  TLC generates token streams with MIRBin.Encode (label numbers / tag lengths / string counts crossing the
       1..8-byte boundaries), the real reduce_encode compresses them, MIR_read_with_func reads them: the projection
       must equal the abstract module;
 (iii) MIRText histories (write / read through callbacks and FILE*, output, execute) are replayed: projections,
       texts and byte strings must coincide as the machine says, programs of MIRProg.tla execute with the
       specification's observations after a binary round trip; sizes go from empty to several compression buffers."""
import json, os, re, copy, collections, random, tempfile
import vlib, progs, mirlib, c10
from vlib import Check, run_tlc, tlc_ok, MachineryError
from c10 import hx, diff, norm_mods, to_script, build_exe, run_cmds, blob, TYSIZE

PROP = "C11"


# ------------------------------------------------------------------------------------------------ MIRBin <-> canonical form

def _s(b):
    return bytes(b).decode("latin-1")


def _limbs(v, n):
    return [(v >> (16 * i)) & 0xffff for i in range(n)]


def unbin_op(o):
    o = dict(o)
    for f in ("name", "base", "index", "alias", "nonalias"):
        if f in o:
            o[f] = _s(o[f])
    return o


def unbin_mods(bmods):
    """module set decoded by MIRBin.tla (names as byte arrays) -> the JSON shape of MIRModule.tla (names as strings)"""
    out = []
    for m in bmods:
        items = []
        for it in m["items"]:
            it = dict(it)
            for f in ("name", "ref", "func"):
                if f in it:
                    it[f] = _s(it[f])
            if it["k"] == "data" and "elc" in it:
                it["els"] = [e for ch in it.pop("elc") for e in ch]
            if it["k"] == "lref":
                it["l1"] = [_s(it["l1"][0]), it["l1"][1]]
                it["l2"] = [_s(it["l2"][0]), it["l2"][1]] if it["l2"] else []
            if it["k"] in ("proto", "func"):
                it["args"] = [dict(a, name=_s(a["name"])) for a in it["args"]]
            if it["k"] == "func":
                it["locals"] = [dict(a, name=_s(a["name"])) for a in it["locals"]]
                it["globals"] = [dict(a, name=_s(a["name"]), hr=_s(a["hr"])) for a in it["globals"]]
                it["insns"] = [I if I["op"] == "label" else {"op": I["op"], "ops": [unbin_op(o) for o in I["ops"]]} for I in it["insns"]]
            items.append(it)
        out.append({"name": _s(m["name"]), "items": items})
    return out


def _b(s):
    return list(s.encode("latin-1"))


def bin_op(o):
    k = o["k"]
    if k in ("int", "uint"):
        return {"k": k, "w": _limbs(int(o["v"], 16), 4)}
    if k == "f":
        return {"k": k, "w": _limbs(int(o["v"], 16), 2)}
    if k == "d":
        return {"k": k, "w": _limbs(int(o["v"], 16), 4)}
    if k == "ld":
        return {"k": k, "w": _limbs(int(o["v"], 16), 5)}
    if k == "str":
        return {"k": k, "b": list(bytes.fromhex(o["b"]))}
    if k == "lab":
        return {"k": k, "n": o["n"]}
    if k in ("reg", "ref"):
        return {"k": k, "name": _b(o["name"])}
    if k == "mem":
        return {"k": k, "t": o["t"], "disp": _limbs(int(o["disp"], 16), 4), "base": _b(o["base"]), "index": _b(o["index"]), "scale": o["scale"],
                "alias": _b(o["alias"]), "nonalias": _b(o["nonalias"])}
    raise MachineryError("operand " + repr(o))


def bin_mods(M):
    """canonical form -> input of MIRBin.Encode (names as byte arrays, values as limb tuples)"""
    out = []
    for m in M["mods"]:
        items = []
        for it in m["items"]:
            k = it["k"]
            if k in ("import", "export", "forward"):
                r = {"k": k, "name": _b(it["name"])}
            elif k in ("proto", "func"):
                r = {"k": k, "name": _b(it["name"]), "va": bool(it["va"]), "res": list(it["res"]),
                     "args": [{"t": a["t"], "name": _b(a["name"]), "size": _limbs(int(a["size"], 16), 4)} for a in it["args"]]}
                if k == "func":
                    r["locals"] = [{"t": a["t"], "name": _b(a["name"])} for a in it["locals"]]
                    r["globals"] = [{"t": a["t"], "name": _b(a["name"]), "hr": _b(a["hr"])} for a in it["globals"]]
                    r["insns"] = [I if I["op"] == "label" else {"op": I["op"], "ops": [bin_op(o) for o in I["ops"]]} for I in it["insns"]]
            elif k == "bss":
                r = {"k": k, "name": _b(it["name"]), "len": _limbs(int(it["len"], 16), 4)}
            elif k == "data":
                sz = TYSIZE[it["t"]]
                raw = bytes.fromhex(it["hex"])
                nl = (sz + 1) // 2
                r = {"k": k, "name": _b(it["name"]), "t": it["t"], "els": [_limbs(int.from_bytes(raw[i:i + sz], "little"), nl) for i in range(0, len(raw), sz)]}
            elif k == "ref":
                r = {"k": k, "name": _b(it["name"]), "ref": _b(it["ref"]), "disp": _limbs(int(it["disp"], 16), 4)}
            elif k == "lref":
                r = {"k": k, "name": _b(it["name"]), "l1": [_b(it["l1"][0]), it["l1"][1]], "l2": ([_b(it["l2"][0]), it["l2"][1]] if it["l2"] else []),
                     "disp": _limbs(int(it["disp"], 16), 4)}
            elif k == "expr":
                r = {"k": k, "name": _b(it["name"]), "func": _b(it["func"])}
            else:
                raise MachineryError("item " + k)
            items.append(r)
        out.append({"name": _b(m["name"]), "items": items})
    return out


def tlc_bin(cases, task, workers=4, timeout=3000, tag="c11"):
    """run MIRBin.tla on cases (list of dicts with an "id"); returns {id: result record}"""
    if not cases:
        return {}, None
    d = vlib.scratch_dir(tag + "-")
    path = os.path.join(d, "cases.ndjson")
    with open(path, "w") as f:
        for c in cases:
            f.write(json.dumps(c, separators=(",", ":")) + "\n")
    r = run_tlc("MIRBin", "MIRBin_mc.cfg", workers=workers, env={"C11FILE": path, "C11TASK": task}, heap="6g -Xss512m", timeout=timeout)
    tlc_ok(r, "MIRBin " + task)
    import shutil
    shutil.rmtree(d, ignore_errors=True)
    res = {o["id"]: o for o in r.outs}
    if len(res) != len(cases):
        raise MachineryError("MIRBin %s: %d results for %d cases" % (task, len(res), len(cases)))
    return res, r
