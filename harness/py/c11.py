"""C11: binary MIR written by MIR_write reads back as the same module, deterministically.

Specification: spec/MIRBin.tla (token grammar of the binary format as a decoder TLC evaluates on byte strings, writer
obligations, and Encode), spec/MIRModule.tla (abstract modules), spec/MIRText.tla (I/O history machine, mode "bin").
Bindings:
 (i)   the bytes MIR_write_with_func / MIR_write produce are decompressed with the real reduce_decode and handed to
       TLC (JSON file + IOEnv): MIRBin.Decode must reconstruct exactly the abstract module the context was built from
       and find every writer obligation met (shortest tags, strings numbered by first occurrence, zero long double
       padding);
 (ii)  TLC generates token streams with MIRBin.Encode (label numbers / tag lengths / string counts crossing the
       1..8-byte boundaries), the real reduce_encode compresses them, MIR_read_with_func reads them: the projection
       must equal the abstract module;
 (iii) MIRText histories (write / read through callbacks and FILE*, output, execute) are replayed: projections,
       texts and byte strings must coincide as the machine says, programs of MIRProg.tla execute with the
       specification's observations after a binary round trip; sizes go from empty to several compression buffers."""
import json, os, re, copy, collections, random, tempfile
import vlib, progs, mirlib, c10
from vlib import Check, run_tlc, tlc_ok, MachineryError
from c10 import hx, diff, norm_mods, to_script, build_exe, run_cmds, blob, TYSIZE

PROP = "C11"


# ------------------------------------------------------------------------------------------------ MIRBin <-> canonical form

def _s(b):
    return bytes(b).decode("latin-1")


def _limbs(v, n):
    return [(v >> (16 * i)) & 0xffff for i in range(n)]


def unbin_op(o):
    o = dict(o)
    for f in ("name", "base", "index", "alias", "nonalias"):
        if f in o:
            o[f] = _s(o[f])
    return o


def unbin_mods(bmods):
    """module set decoded by MIRBin.tla (names as byte arrays) -> the JSON shape of MIRModule.tla (names as strings)"""
    out = []
    for m in bmods:
        items = []
        for it in m["items"]:
            it = dict(it)
            for f in ("name", "ref", "func"):
                if f in it:
                    it[f] = _s(it[f])
            if it["k"] == "data" and "elc" in it:
                it["els"] = [e for ch in it.pop("elc") for e in ch]
            if it["k"] == "lref":
                it["l1"] = [_s(it["l1"][0]), it["l1"][1]]
                it["l2"] = [_s(it["l2"][0]), it["l2"][1]] if it["l2"] else []
            if it["k"] in ("proto", "func"):
                it["args"] = [dict(a, name=_s(a["name"])) for a in it["args"]]
            if it["k"] == "func":
                it["locals"] = [dict(a, name=_s(a["name"])) for a in it["locals"]]
                it["globals"] = [dict(a, name=_s(a["name"]), hr=_s(a["hr"])) for a in it["globals"]]
                it["insns"] = [I if I["op"] == "label" else {"op": I["op"], "ops": [unbin_op(o) for o in I["ops"]]} for I in it["insns"]]
            items.append(it)
        out.append({"name": _s(m["name"]), "tmp": m.get("tmp", 0), "items": items})
    return out


def _b(s):
    return list(s.encode("latin-1"))


def bin_op(o):
    k = o["k"]
    if k in ("int", "uint"):
        return {"k": k, "w": _limbs(int(o["v"], 16), 4)}
    if k == "f":
        return {"k": k, "w": _limbs(int(o["v"], 16), 2)}
    if k == "d":
        return {"k": k, "w": _limbs(int(o["v"], 16), 4)}
    if k == "ld":
        return {"k": k, "w": _limbs(int(o["v"], 16), 5)}
    if k == "str":
        return {"k": k, "b": list(bytes.fromhex(o["b"]))}
    if k == "lab":
        return {"k": k, "n": o["n"]}
    if k in ("reg", "ref"):
        return {"k": k, "name": _b(o["name"])}
    if k == "mem":
        return {"k": k, "t": o["t"], "disp": _limbs(int(o["disp"], 16), 4), "base": _b(o["base"]), "index": _b(o["index"]), "scale": o["scale"],
                "alias": _b(o["alias"]), "nonalias": _b(o["nonalias"])}
    raise MachineryError("operand " + repr(o))


def bin_mods(M):
    """canonical form -> input of MIRBin.Encode (names as byte arrays, values as limb tuples)"""
    out = []
    for m in M["mods"]:
        items = []
        for it in m["items"]:
            k = it["k"]
            if k in ("import", "export", "forward"):
                r = {"k": k, "name": _b(it["name"])}
            elif k in ("proto", "func"):
                r = {"k": k, "name": _b(it["name"]), "va": bool(it["va"]), "res": list(it["res"]),
                     "args": [{"t": a["t"], "name": _b(a["name"]), "size": _limbs(int(a["size"], 16), 4)} for a in it["args"]]}
                if k == "func":
                    r["locals"] = [{"t": a["t"], "name": _b(a["name"])} for a in it["locals"]]
                    r["globals"] = [{"t": a["t"], "name": _b(a["name"]), "hr": _b(a["hr"])} for a in it["globals"]]
                    r["insns"] = [I if I["op"] == "label" else {"op": I["op"], "ops": [bin_op(o) for o in I["ops"]]} for I in it["insns"]]
            elif k == "bss":
                r = {"k": k, "name": _b(it["name"]), "len": _limbs(int(it["len"], 16), 4)}
            elif k == "data":
                sz = TYSIZE[it["t"]]
                raw = bytes.fromhex(it["hex"])
                nl = (sz + 1) // 2
                r = {"k": k, "name": _b(it["name"]), "t": it["t"], "els": [_limbs(int.from_bytes(raw[i:i + sz], "little"), nl) for i in range(0, len(raw), sz)]}
            elif k == "ref":
                r = {"k": k, "name": _b(it["name"]), "ref": _b(it["ref"]), "disp": _limbs(int(it["disp"], 16), 4)}
            elif k == "lref":
                r = {"k": k, "name": _b(it["name"]), "l1": [_b(it["l1"][0]), it["l1"][1]], "l2": ([_b(it["l2"][0]), it["l2"][1]] if it["l2"] else []),
                     "disp": _limbs(int(it["disp"], 16), 4)}
            elif k == "expr":
                r = {"k": k, "name": _b(it["name"]), "func": _b(it["func"])}
            else:
                raise MachineryError("item " + k)
            items.append(r)
        out.append({"name": _b(m["name"]), "items": items})
    return out


def tlc_bin(cases, task, workers=4, timeout=3000, tag="c11"):
    """run MIRBin.tla on cases (list of dicts with an "id"); returns {id: result record}"""
    if not cases:
        return {}, None
    d = vlib.scratch_dir(tag + "-")
    path = os.path.join(d, "cases.ndjson")
    with open(path, "w") as f:
        for c in cases:
            f.write(json.dumps(c, separators=(",", ":")) + "\n")
    r = run_tlc("MIRBin", "MIRBin_mc.cfg", workers=workers, env={"C11FILE": path, "C11TASK": task}, heap="6g -Xss512m", timeout=timeout)
    tlc_ok(r, "MIRBin " + task)
    import shutil
    shutil.rmtree(d, ignore_errors=True)
    res = {o["id"]: o for o in r.outs}
    if len(res) != len(cases):
        raise MachineryError("MIRBin %s: %d results for %d cases" % (task, len(res), len(cases)))
    return res, r


# ------------------------------------------------------------------------------------------------ probes of known defects

BIN_HIST = "wc1>rc1>wc2>rc2"
BIN_PROBES = {
    # feature: (finding key, matcher over the failures of the probe)
    "lref": ("bin:lref_labels_detached", lambda fs: all(f.stage == "proj_read" and "?detached" in f.text for f in fs)),
    "pdata": ("bin:data_p_rejected", lambda fs: fs[0].stage == "read" and "data_type_p_does_not_correspond" in fs[0].sig),
    "prop": ("bin:property_insns_rejected", lambda fs: fs[0].stage == "read" and "wrong_insn_code" in fs[0].sig),
    "undef_mem": ("bin:undef_mem_type", lambda fs: fs[0].stage == "read" and "wrong_memory_type" in fs[0].sig),
    "trail_label": ("bin:trailing_label_rejected", lambda fs: fs[0].stage == "read" and "endfunc_should_have_no_labels" in fs[0].sig),
    "globals": ("bin:global_var_rejected", lambda fs: fs[0].stage == "read" and "wrong_string_num" in fs[0].sig),
}
LD_KEY = "bin:ldouble_padding"


def has_ld(M):
    return any(o["k"] == "ld" for _, _, o in c10.all_ops(M)) or any(it["k"] == "data" and it["t"] == "ld" for _, it in c10.all_items(M))


def mask(raw, pads):
    b = bytearray(raw)
    for p in pads:
        b[p:p + 6] = bytes(6)
    return bytes(b)


def run_bin_probes(ck, exe, hists):
    P = c10.probe_modules()
    defective = set()
    h = c10.pick_hist(hists, "api", "canon", BIN_HIST)
    for feat, (key, match) in BIN_PROBES.items():
        M = P[feat]
        case = {"M": M, "NF": c10.text_nf(M)}
        (fails, _), = c10.replay_cases(exe, [(case, h)], maxpar=1)
        ck.add("probes")
        if not fails:
            continue
        defective.add(feat)
        k = key if match(fails) else "probe:%s:%s" % (feat, fails[0].key())
        ck.violation(k, "probe %s: %s" % (feat, "; ".join(f.text for f in fails[:3])), {"M": M, "NF": case["NF"], "hist": h})
    # text output of expr items (C10's finding): histories with an output step cannot be used on modules with expr items
    M = P["expr"]
    (fails, _), = c10.replay_cases(exe, [({"M": M, "NF": M}, c10.pick_hist(hists, "api", "canon", "o1>o1>o1>o1"))], maxpar=1)
    if fails:
        defective.add("expr_text")
    return defective


def ld_padding_probe(ck, exe, hists):
    """the same values with different padding bytes in the caller's long doubles must give the same byte string"""
    M = c10.probe_modules()["ld_padding"]
    case = {"M": M, "NF": M}
    h = c10.pick_hist(hists, "api", "canon", BIN_HIST)
    raws = []
    for pad in (0, 0xAB):
        (fails, rs), = c10.replay_cases(exe, [(case, h)], maxpar=1, pad=pad)
        fails = [f for f in fails if f.key() != "bin_identical:differs"]          # settled below, with the padding positions
        if fails or 0 not in rs["raws"]:
            ck.violation("probe:ld_padding:" + (fails[0].key() if fails else "nobytes"), "probe ld_padding: %s" % (fails[:2],), {"M": M, "NF": M, "hist": h})
            return True
        raws.append(rs["raws"][0])
    ck.add("probes")
    if raws[0] == raws[1]:
        return False
    res, _ = tlc_bin([{"id": 0, "bytes": list(raws[0])}, {"id": 1, "bytes": list(raws[1])}], "decode", workers=2)
    pads = res[0]["ldpad"]
    only_padding = len(raws[0]) == len(raws[1]) and mask(raws[0], pads) == mask(raws[1], pads)
    ck.violation(LD_KEY if only_padding else "probe:ld_padding:bytes_differ",
                 "the byte stream depends on the padding bytes of the caller's long doubles: padding 00 gives ...%s, padding ab gives ...%s"
                 % (raws[0][pads[0] - 2:pads[0] + 6].hex(), raws[1][pads[0] - 2:pads[0] + 6].hex()), {"M": M, "NF": M, "hist": h, "pad": 0xAB})
    return True


# ------------------------------------------------------------------------------------------------ the check

def big_env(tier):
    """sizes of the big data items: the raw stream is 1 byte (patterns low, rand7) / about 1.5 bytes (rand) / 2 bytes (rep) per u8 element"""
    B = 1 << 18
    if tier == "quick":
        specs = [(B - 60, "low", "u8"), (B - 59, "low", "u8"), (150000, "mix", "u8"), (2 * B + 5000, "low", "u8")]
    else:
        specs = [(B - 61, "low", "u8"), (B - 60, "low", "u8"), (B - 59, "low", "u8"), (2 * B - 60, "low", "u8"), (400000, "rand", "u8"),
                 (3 * B + 777, "rep", "u8"), (70000, "rand", "i64"), (40000, "rand", "ld"), (150000, "mix", "u8"), (300000, "rand7", "u8"),
                 (B + 3000, "rep", "u8")]
    # "mix": 120000 incompressible one-byte tokens (more symbols than the compressor's 2^16-element pool) followed, in the
    # same 2^18-byte buffer, by periodic content that is encoded as references
    env = {}
    for i, (n, p, t) in enumerate(specs, 1):
        env["C11_BIGN%d" % i] = n; env["C11_BIGP%d" % i] = p; env["C11_BIGT%d" % i] = t
    return env


def many_imports(n):
    return {"mods": [{"name": "m", "tmp": 0, "items": [{"k": "import", "name": "i%06d" % i} for i in range(n)]}]}


def per_module_io(exe, cases):
    """MIR_write_module_with_func of every module separately, all streams read into ONE fresh context"""
    bad = []
    for c in cases:
        nm = len(c["M"]["mods"])
        cmds = ["N 0", blob("A", 0, to_script(c["M"]))] + ["W 0 mod%d 0 %d" % (k, k) for k in range(nm)] + ["N 1"] + ["r 1 cb %d" % k for k in range(nm)] + ["P 1", "D 0", "D 1"]
        outs, died, err = run_cmds(exe, cmds)
        o = outs[3 + 2 * nm]
        if died is not None or o is None or o.kind != "J":
            bad.append((c, "per-module write/read failed: %s" % ([x for x in outs if x is not None and x.kind == "E"][:1] or err[-200:])))
            continue
        d = diff(c["M"], json.loads(o.val))
        if d:
            bad.append((c, "modules written one by one and read into one context: " + d))
    return bad


def run(tier):
    ck = Check(PROP, tier, "model_checking")
    rng = random.Random(vlib.seed())
    quick = tier == "quick"
    exe = build_exe("plain")
    exe_asan = None if quick else build_exe("asan")
    hists, hr = c10.gen_histories("bin", 4)
    states, trans = hr.distinct, hr.states
    cov = collections.Counter()
    defective = run_bin_probes(ck, exe_asan or exe, hists)
    ld_defect = ld_padding_probe(ck, exe, hists)
    strip = defective - {"expr_text"}

    # ---- modules (the generators run side by side)
    from concurrent.futures import ThreadPoolExecutor
    nwk = 6 if quick else vlib.NCPU
    gens = {
        "mc": lambda: c10.gen_modules("MIRModule_mc.cfg", workers=2),
        "sim": lambda: c10.gen_modules("MIRModule_sim11.cfg", n=480 if quick else 10000, workers=nwk, seed=vlib.seed() + 11),
        "prog": lambda: c10.safe_programs(32 if quick else 240, seed=vlib.seed() + 1100, workers=nwk, cfg="MIRProg_exec.cfg"),
        "big": lambda: c10.gen_modules("MIRModule_big.cfg", workers=2, env=big_env(tier), timeout=1200),
    }
    if not quick:
        gens["mci"] = lambda: c10.gen_modules("MIRModule_t.cfg", workers=vlib.NCPU, timeout=2400)
    with ThreadPoolExecutor(max_workers=len(gens) if quick else 2) as ex:
        futs = {k: ex.submit(f) for k, f in gens.items()}
        got = {k: f.result() for k, f in futs.items()}
    groups = []
    c_mc, r = got["mc"]
    states += r.distinct; trans += r.states
    groups.append(("items_exhaustive", c_mc))
    c_sim, r = got["sim"]
    states += r.states; trans += r.states
    groups.append(("simulated", c_sim))
    if not quick:
        c_mci, r = got["mci"]
        states += r.distinct; trans += r.states
        groups.append(("insns_exhaustive", c_mci[::5]))
    pc, rr = got["prog"]
    states += rr.states; trans += rr.states
    c_prog, skipped = c10.prog_cases(exe, pc)
    ck.setc("programs_executable", len(c_prog))
    groups.append(("programs", c_prog))
    c_big, r = got["big"]
    states += r.distinct; trans += r.states
    empty = {"M": {"mods": []}, "NF": {"mods": []}}
    nimp = [300] if quick else [300, 66000]
    c_str = [{"M": many_imports(n), "NF": many_imports(n)} for n in nimp]
    groups.append(("sizes", [empty] + c_big + c_str))

    vlib.log("  generation done at %.0fs" % (c10.time.time() - ck.t0))
    # ---- (iii) histories
    counts = collections.Counter()
    decode_jobs = {}                  # sha of raw -> [raw, expected abstract, case, hist, artefact]
    nrep = 0
    by_org = collections.defaultdict(list)
    for h in hists:
        by_org[(h["ctxs"][0]["org"], h["ctxs"][0]["num"], any(s["a"] == "output" for s in h["h"]), any(s["a"] == "exec" for s in h["h"]))].append(h)

    def choose(case, org):
        no_out = "expr_text" in defective and c10.FEATURES["expr"][0](case["M"])
        cand = [h for (o, n, out, ex), hs in by_org.items() if o == org and n in ("canon", "dup") and not (no_out and out) and (ex or not case.get("exec")) for h in hs]
        cand = [h for h in cand if any(s["a"] == "write" for s in h["h"][:2])] or cand
        return rng.choice(cand)
    for gname, cases in groups:
        c10.coverage_of(cases, cov)
        cases = [c10.strip_features(c, strip, counts) for c in cases]
        pairs = []
        for i, c in enumerate(cases):
            pairs.append((c, choose(c, "api")))
            if gname != "sizes" and (quick or i % 4 == 0) and c10.text_expressible(c["M"]) and not ("expr_text" in defective and c10.FEATURES["expr"][0](c["M"])):
                pairs.append((c, choose(c, "pytext")))
            # two module sets built in separate contexts (same label numbers), written separately, read into one context
            if gname in ("items_exhaustive", "simulated", "insns_exhaustive") and c["M"]["mods"] and i % (3 if quick else 4) == 0:
                mc = c10.merge_case(c)
                pairs.append((mc, choose(mc, "merge")))
        use = exe_asan if (exe_asan is not None and gname in ("items_exhaustive", "sizes")) else exe
        res = c10.replay_cases(use, pairs, maxpar=vlib.NCPU, batch=25 if gname != "sizes" else 1)
        if exe_asan is not None and gname == "programs":      # I/O of the programs under ASan too; execution is judged on the plain build
            sub = [({k: v for k, v in c.items() if k != "exec"}, h) for c, h in pairs]
            pairs, res = pairs + sub, res + c10.replay_cases(exe_asan, sub, maxpar=vlib.NCPU)
        # the same module built from long doubles with other padding bytes: same bytes expected
        ldp = [(c, h) for c, h in pairs if h["ctxs"][0]["org"] == "api" and has_ld(c["M"])][: (200 if quick else 3000)]
        res_ld = c10.replay_cases(exe, ldp, maxpar=vlib.NCPU, pad=0xAB) if ldp else []
        first_bin = {}
        nrep += len(pairs) + len(ldp)
        ck.add("modules_" + gname, len(cases)); ck.add("replays_" + gname, len(pairs) + len(ldp))
        nbad = 0
        for idx, ((case, h), (fails, rs)) in enumerate(zip(pairs, res)):
            for ai, raw in rs["raws"].items():
                if ai in rs["bins"]:
                    nf = h["arts"][ai]["nf"]
                    key = c10.hashlib.sha1(raw).hexdigest() + nf
                    if key not in decode_jobs:
                        decode_jobs[key] = [raw, case["M"] if nf == "id" else case["NF"], case, h, ai, gname]
            if h["ctxs"][0]["org"] == "api" and 0 in rs["raws"]:
                first_bin[id(case)] = (rs["raws"][0], h)
            keep = []
            for f in fails:
                if f.key() == "bin_identical:differs" and ld_defect and has_ld(case["M"]):
                    counts["bin_differs_with_long_double"] += 1          # settled below with the padding positions TLC finds
                    case.setdefault("_ldcheck", []).append((h, rs))
                    continue
                keep.append(f)
            if keep:
                nbad += 1
                if nbad <= 40:
                    (keep, _), = c10.replay_cases(use, [pairs[idx]], maxpar=1)
                    keep = [f for f in keep if not (f.key() == "bin_identical:differs" and ld_defect and has_ld(case["M"]))]
                for f in keep[:3]:
                    ck.violation(f.key(), "%s, history %s: %s" % (gname, c10.hist_name(h), f.text), c10.case_json(case, h))
        for (case, h), (fails, rs) in zip(ldp, res_ld):
            a = first_bin.get(id(case))
            if a is None or 0 not in rs["raws"] or fails:
                continue
            if a[0] != rs["raws"][0]:
                case.setdefault("_ldcheck", []).append((h, {"raws": {0: a[0], 1: rs["raws"][0]}, "bins": {}}))
                counts["bin_depends_on_caller_padding"] += 1
        vlib.log("  %s: %d modules, %d histories replayed, %d with mismatches" % (gname, len(cases), len(pairs) + len(ldp), nbad))

    # ---- sets of modules written one by one
    multi = [c10.strip_features(c, strip) for c in c_sim if len(c["M"]["mods"]) >= 2][: (60 if quick else 1500)]
    for c, msg in per_module_io(exe, multi):
        ck.violation("per_module_io", msg, {"M": c["M"], "NF": c["NF"], "hist": hists[0]})
    ck.setc("module_sets_written_one_by_one", len(multi))

    vlib.log("  histories replayed at %.0fs" % (c10.time.time() - ck.t0))
    # ---- (i) TLC parses the writer's output
    budget = 300000 if quick else 8000000
    # smallest first; streams needed to settle a byte-string difference (long double padding) before the others
    jobs = sorted(decode_jobs.values(), key=lambda j: (0 if j[2].get("_ldcheck") else 1, len(j[0])))
    sel, tot = [], 0
    for j in jobs:
        if tot + len(j[0]) > budget:
            continue
        sel.append(j); tot += len(j[0])
    bigj = [j for j in jobs if j[5] == "sizes" and len(j[0]) > 2 * (1 << 18) and j not in sel]
    if bigj and not quick:
        sel.append(bigj[0]); tot += len(bigj[0][0])
    tcases = [{"id": i, "bytes": list(j[0])} for i, j in enumerate(sel)]
    nw = 8 if quick else vlib.NCPU
    parts = [tcases[k::nw] for k in range(nw)]
    parts = [p for p in parts if p]
    t0 = c10.time.time()
    with ThreadPoolExecutor(max_workers=len(parts) or 1) as ex:
        rs = list(ex.map(lambda p: tlc_bin(p, "decode", workers=1, timeout=5000), parts))
    dres = {}
    for res_, r_ in rs:
        dres.update(res_)
        if r_ is not None:
            states += r_.distinct; trans += r_.states
    ck.setc("streams_parsed_by_tlc", len(sel)); ck.setc("bytes_parsed_by_tlc", tot); ck.setc("tlc_parse_wall_s", round(c10.time.time() - t0, 1))
    ck.setc("streams_not_parsed_over_budget", len(jobs) - len(sel))
    padpos = {}
    nobl = 0
    for i, j in enumerate(sel):
        o = dres[i]
        raw, expect, case, h, ai, gname = j
        padpos[c10.hashlib.sha1(raw).hexdigest()] = o["ldpad"]
        D = norm_mods(unbin_mods(o["mods"]))
        d = diff(expect, D)
        errs = [e for e in o["errs"]]
        if d and not any(e.startswith("FATAL") for e in errs):
            ck.violation("decode:module_differs", "%s: MIRBin.Decode of the written bytes differs from the abstract module at %s" % (gname, d), c10.case_json(case, h))
        pad_errs = [e for e in errs if e.startswith("long double padding")]
        other = [e for e in errs if not e.startswith("long double padding")]
        if pad_errs:
            nobl += 1
            if not ld_defect or nobl == 1:          # the known defect is reported once (with the probe), every instance is counted
                ck.violation(LD_KEY if ld_defect else "obligation:ld_padding", "%s: %s (history %s)" % (gname, pad_errs[0], c10.hist_name(h)), c10.case_json(case, h))
        for e in other[:2]:
            ck.violation("obligation:" + c10.err_sig(e), "%s: writer obligation / grammar: %s (history %s)" % (gname, e, c10.hist_name(h)), c10.case_json(case, h))
    # byte strings that differ although the machine says they are equal: only long double padding may be the reason (known defect)
    for gname, cases in groups:
        pass
    for j in jobs:
        case = j[2]
        for h, rs_ in case.pop("_ldcheck", []):
            raws = [rs_["raws"][k] for k in sorted(rs_["raws"])]
            base = raws[0]
            pads = padpos.get(c10.hashlib.sha1(base).hexdigest())
            ok = pads is not None and all(len(x) == len(base) and mask(x, pads) == mask(base, pads) for x in raws[1:])
            if ok:
                counts["byte_strings_differing_only_in_ld_padding"] += 1
                if counts["byte_strings_differing_only_in_ld_padding"] == 1:
                    ck.violation(LD_KEY, "two byte strings of the same module differ only in long double padding bytes", c10.case_json(case, h))
            elif pads is not None:
                ck.violation("bin_identical:differs", "byte strings of equal contexts differ outside long double padding (history %s)" % c10.hist_name(h), c10.case_json(case, h))
            else:
                counts["bin_differs_unsettled_over_budget"] += 1

    vlib.log("  %d streams (%d bytes) parsed by TLC at %.0fs" % (len(sel), tot, c10.time.time() - ck.t0))
    # ---- (ii) token streams generated by TLC (MIRBin.Encode) through the real compressor into the real reader
    enc_src = [c for c in c_mc[:: (6 if quick else 1)]] + c_sim[: (90 if quick else 2000)] + [c_str[0]]
    enc_src = [c10.strip_features(c, strip | ({"expr"} if False else set())) for c in enc_src]
    ecases = []
    for i, c in enumerate(enc_src):
        ecases.append({"id": i, "mods": bin_mods(c["M"]), "labbase": [1, 250, 65530, 1][i % 4], "slack": [0, 0, 0, 1, 2, 7][i % 6]})
    parts = [ecases[k::nw] for k in range(nw)]
    parts = [p for p in parts if p]
    with ThreadPoolExecutor(max_workers=len(parts) or 1) as ex:
        rs = list(ex.map(lambda p: tlc_bin(p, "encode", workers=1, timeout=5000), parts))
    eres = {}
    for res_, r_ in rs:
        eres.update(res_)
        if r_ is not None:
            states += r_.distinct; trans += r_.states
    nenc = 0
    for grp in vlib.chunks(list(range(len(ecases))), 20):
        cmds = []
        for i in grp:
            o = eres[i]
            D = norm_mods(unbin_mods(o["mods"]))
            if diff(enc_src[i]["M"], D) or (ecases[i]["slack"] == 0 and o["errs"]):
                raise MachineryError("MIRBin: Decode(Encode(m)) # m or canonical encoding breaks an obligation: %s %s" % (diff(enc_src[i]["M"], D), o["errs"][:2]))
            cmds += ["Z " + bytes(o["bytes"]).hex()]
        outs, died, err = run_cmds(exe, cmds)
        cmds2 = []
        for k, i in enumerate(grp):
            if outs[k] is None or outs[k].kind != "H":
                raise MachineryError("reduce_encode failed in the harness")
            cmds2 += ["N 0", "R 0 %s %s" % (["cb", "file"][i % 2], outs[k].val.hex()), "P 0"]
        outs2, died, err = run_cmds(exe_asan or exe, cmds2 + ["D 0"])
        for k, i in enumerate(grp):
            rd, pj = outs2[3 * k + 1], outs2[3 * k + 2]
            nenc += 1
            hh = {"h": [], "ctxs": [{"org": "api", "num": "canon", "nf": "id", "src": 0}], "arts": []}
            if died is not None and (rd is None or pj is None):
                ck.violation("encoded_stream:crash", "the reader did not return on a stream generated by MIRBin.Encode (labbase %d slack %d): %s"
                             % (ecases[i]["labbase"], ecases[i]["slack"], err[-300:]), c10.case_json(enc_src[i], hh))
                break
            if rd.kind != "K":
                ck.violation("encoded_stream:read_" + c10.err_sig(rd.val or ""), "stream generated by MIRBin.Encode (labbase %d slack %d) rejected: %s"
                             % (ecases[i]["labbase"], ecases[i]["slack"], rd.val), c10.case_json(enc_src[i], hh))
                continue
            d = diff(enc_src[i]["M"], json.loads(pj.val))
            if d:
                ck.violation("encoded_stream:module_differs", "stream generated by MIRBin.Encode (labbase %d slack %d): projection of what was read differs at %s"
                             % (ecases[i]["labbase"], ecases[i]["slack"], d), c10.case_json(enc_src[i], hh))
    vlib.log("  %d streams generated by TLC read by the implementation at %.0fs" % (nenc, c10.time.time() - ck.t0))
    ck.setc("streams_generated_by_tlc_read_by_impl", nenc)
    ck.setc("streams_with_nonzero_ld_padding", nobl)

    for k, v in counts.items():
        ck.setc(k, v)
    ck.setc("states", states); ck.setc("transitions", trans)
    ck.setc("traces_validated_against_impl", nrep + nenc + len(sel)); ck.setc("histories", len(hists))
    ck.setc("defective_features", sorted(defective) + (["ld_padding"] if ld_defect else []))
    ck.setc("vocabulary", {k: v for k, v in sorted(cov.items())})
    ck.setc("samples", [c10.hist_name(h) for h in hists[:: max(1, len(hists) // 4)][:4]])
    ck.setc("rule", "modules of spec/MIRModule.tla (incl. non-finite FP immediates, strings with NULs, two-module contexts, data items over 1, 2 and 3 "
                    "compression buffers) and MIRProg programs: MIRText histories in mode bin (write/read through callbacks and FILE*, output, execute) "
                    "are replayed; projections, texts, byte strings and observations must coincide; the written bytes are decompressed with the real "
                    "decoder and parsed by TLC with MIRBin.Decode (module = abstract module, writer obligations); streams generated with MIRBin.Encode "
                    "are compressed with the real encoder and read by MIR_read*")
    ck.assumptions += ["label numbers travel in the stream: equal contexts means equal numbering", "x86-64: long double = 10 value bytes + 6 padding bytes"]
    return ck.finish()


def replay(path):
    rec = json.load(open(path))
    d = rec["case"]
    if not d["hist"]["h"]:
        # an encoded-stream case: re-encode with TLC and feed the reader
        exe = build_exe("asan")
        M = d["M"]
        bad = 0
        for lb, sl in ((1, 0), (250, 0), (65530, 0), (1, 1), (1, 7)):
            res, _ = tlc_bin([{"id": 0, "mods": bin_mods(M), "labbase": lb, "slack": sl}], "encode", workers=1)
            outs, died, err = run_cmds(exe, ["Z " + bytes(res[0]["bytes"]).hex()])
            outs2, died, err = run_cmds(exe, ["N 0", "R 0 cb " + outs[0].val.hex(), "P 0"])
            if died is not None or outs2[1].kind != "K" or diff(M, json.loads(outs2[2].val)):
                print("replay: still failing (labbase %d slack %d): %s" % (lb, sl, outs2[1]))
                bad += 1
        if bad:
            print("VIOLATION property=%s replay=%s" % (PROP, path))
        else:
            print("replay: passes")
        return 1 if bad else 0
    if d.get("pad"):
        ck_fail = ld_padding_probe(_Quiet(), build_exe("plain"), c10.gen_histories("bin", 4)[0])
        print("replay: %s" % ("still failing" if ck_fail else "passes"))
        if ck_fail and not vlib.Findings().is_known(PROP, rec.get("key", "")):
            print("VIOLATION property=%s replay=%s" % (PROP, path))
            return 1
        return 0
    return c10.replay_file(PROP, path, [build_exe("plain"), build_exe("asan")])


class _Quiet:
    def add(self, *a):
        pass

    def violation(self, key, text, case):
        print("replay: " + text[:300])


def selftest():
    """binding demonstration: TLC's decoder accepts the writer's bytes and objects to a widened tag, a swapped string
    table entry, non-zero long double padding and a changed immediate; the replay objects to a corrupted expectation"""
    exe = build_exe("plain")
    hists, _ = c10.gen_histories("bin", 4)
    h = c10.pick_hist(hists, "api", "canon", BIN_HIST)
    I, R, ins, lab, mem = c10._I, c10._R, c10._ins, c10._lab, c10._mem
    f = c10._func("f", [ins("mov", R("x"), I(300)), lab(1), ins("ldmov", mem("ld", 16, "x"), {"k": "ld", "v": "3fffc000000000000000"}),
                        ins("bt", {"k": "lab", "n": 1}, R("x")), ins("ret", R("x"))])
    M = c10._mod([{"k": "import", "name": "ext"}, {"k": "data", "name": "d1", "t": "i16", "nel": 2, "hex": "ffff0100", "via": "data"}, f])
    case = {"M": M, "NF": M}
    (f1, rs), = c10.replay_cases(exe, [(case, h)], maxpar=1)
    raw = rs["raws"][0]
    ok1 = not f1
    i300 = raw.find(bytes([10, 0x2c, 0x01]))                   # I2 300
    wide = raw[:i300] + bytes([11, 0x2c, 0x01, 0]) + raw[i300 + 3:]
    ild = raw.find(bytes([19]) + bytes.fromhex("00000000000000c0ff3f"))
    padded = raw[:ild + 11] + b"\x01" + raw[ild + 12:]
    changed = raw[:i300] + bytes([10, 0x2d, 0x01]) + raw[i300 + 3:]
    res, _ = tlc_bin([{"id": 0, "bytes": list(raw)}, {"id": 1, "bytes": list(wide)}, {"id": 2, "bytes": list(padded)}, {"id": 3, "bytes": list(changed)}], "decode", workers=2)
    dec = lambda i: diff(M, norm_mods(unbin_mods(res[i]["mods"])))
    ok2 = dec(0) is None and not res[0]["errs"]
    ok3 = dec(1) is None and any("longer than its value needs" in e for e in res[1]["errs"])
    ok4 = any("padding" in e for e in res[2]["errs"])
    ok5 = dec(3) is not None
    bad = c10.copy.deepcopy(case)
    bad["M"]["mods"][0]["items"][1]["hex"] = "feff0100"
    (f2, _), = c10.replay_cases(exe, [({"M": M, "NF": bad["M"]}, c10.pick_hist(hists, "pytext", "canon", BIN_HIST))], maxpar=1)
    ok6 = any(x.stage.startswith("proj_") for x in f2)
    print("selftest C11: real bytes accepted by the replay=%s and by MIRBin.Decode=%s; widened tag objected=%s; padding objected=%s; changed immediate detected=%s; "
          "corrupted expectation rejected=%s" % (ok1, ok2, ok3, ok4, ok5, ok6))
    return 0 if all((ok1, ok2, ok3, ok4, ok5, ok6)) else 1
