"""C08: c2mir data layout and by-value passing vs spec/CLayout.tla and gcc (direction A, two-oracle rule).

Layout: TLC enumerates struct/union declarations (spec/CLayout.tla) and gives size, alignment, every leaf's offset /
bit position / width / signedness and the eightbyte classes.  Batches of declarations are rendered into a C translation
unit that prints sizeof, _Alignof, offsetof of every non-bit-field leaf and, for bit-fields, the byte dump of a zeroed
object after storing all-ones and the value read back.  The unit is run by c2m (-ei; -eg -O2 too in thorough) and by gcc.
VIOLATION iff spec == gcc and c2m differs (confirmed by a second run in another unit); spec != gcc is SPEC-DISAGREES
(exit 0, counted).  A mismatch that equals the prediction of one of the deviation models of the spec (L(T, v), v # {})
gets that deviation's finding key, anything else a key made of the aspect and the declaration's signature.
Static objects: `c2m -S` must emit at least sizeof bytes for uninitialised file-scope / block-scope static objects.
By-value: for the distinct (classes, size, leaf signature) shapes found by TLC, caller/callee pairs where one side is
compiled by c2m and the other by gcc (shared library given to c2m with -L/-l; gcc -> c2m through callbacks), both
directions, as arguments (first, mixed with scalars, after the integer / SSE registers are exhausted, all registers
used, four aggregates, and six two-aggregate calls with a partly used register file where the aggregate that does not
fit goes to memory and the next one must still get the free register, and seven calls where scalars that travel in
memory (long double, float/double beyond xmm7, long beyond r9) precede the aggregate with the integer / SSE scalars
counted so that it lands exactly on the last free registers) and as return values, plus c2m -> c2m and gcc -> gcc controls.
Classification: the spec's classes are compared with where gcc really takes a lone aggregate argument from
(harness/c08_probe.S loads every argument register and stack slot with its own byte pattern).
"""
import collections, hashlib, json, os, random, re, subprocess, sys, time
from concurrent.futures import ThreadPoolExecutor
import vlib
from vlib import Check, run_tlc, tlc_ok, MachineryError

PROP = "C08"
WORK = os.path.join(vlib.OUT, "c08")
RUN = os.path.join(WORK, "run%d" % os.getpid())     # per-process scratch: concurrent checks must not share unit files
NPAR = max(2, min(8, vlib.NCPU // 2))
BATCH = 300

CTYPE = {"char": "char", "schar": "signed char", "uchar": "unsigned char", "short": "short", "ushort": "unsigned short",
         "int": "int", "uint": "unsigned int", "long": "long", "ulong": "unsigned long", "llong": "long long",
         "ullong": "unsigned long long", "bool": "_Bool", "float": "float", "double": "double", "ldouble": "long double",
         "ptr": "void *", "enum": "enum E"}


# ----------------------------------------------------------------------------------------------- c2m
def build_c2m():
    """c2m driver from the current working tree of REPO; kept in out/c08 (build dirs of vlib may be pruned)."""
    os.makedirs(WORK, exist_ok=True)
    srcs = vlib.repo_sources()
    key = hashlib.sha256((vlib.tree_hash(srcs) + os.path.abspath(vlib.REPO)).encode()).hexdigest()[:12]
    exe = os.path.join(WORK, "c2m-" + key)
    if os.path.exists(exe):
        return exe
    for attempt in (0, 1):
        d, objs, cc, flags = vlib.build_lib("plain", units=("mir.c", "mir-gen.c", "c2mir/c2mir.c"))
        try:
            tmp = exe + ".tmp%d" % os.getpid()
            vlib.cc_link(cc, flags, [os.path.join(vlib.REPO, "c2mir", "c2mir-driver.c")], objs, tmp)
            os.replace(tmp, exe)
            break
        except MachineryError:
            if attempt:
                raise
    for old in os.listdir(WORK):
        p = os.path.join(WORK, old)
        if old.startswith("c2m-") and p != exe and time.time() - os.path.getmtime(p) > 3600:
            try:
                os.unlink(p)
            except OSError:
                pass
    return exe


# ----------------------------------------------------------------------------------------------- rendering
# enumerator value kinds of spec/CLayout.tla (EnumVals) as C constants
EVAL = {"nbig": "(-4294967296L)", "nmin": "(-2147483647 - 1)", "neg1": "(-1)", "zero": "0", "imax": "2147483647",
        "umax": "4294967295u", "huge": "4294967296L", "lmax": "9223372036854775807L", "ubig": "9223372036854775808ul"}


def ctype(T):
    """C spelling of a scalar type record"""
    if T["t"] == "en":
        return "enum EN_" + "_".join(T["ev"])
    return CTYPE[T["t"]]


def enums_of(T, acc):
    if T["k"] == "s":
        if T["t"] == "en":
            acc.add(tuple(T["ev"]))
    elif T["k"] == "a":
        enums_of(T["el"], acc)
    else:
        for m in T["ms"]:
            if m["m"] != "b":
                enums_of(m["ty"], acc)
    return acc


def enum_decls(rows):
    """definitions of the enumerated types used by the declarations (enumerators in the order the spec gives)"""
    acc = set()
    for r in rows:
        enums_of(r["d"], acc)
    L = []
    for ev in sorted(acc):
        n = "EN_" + "_".join(ev)
        L.append("enum %s { %s };" % (n, ", ".join("%s_%d = %s" % (n, k, EVAL[v]) for k, v in enumerate(ev))))
    return L

def render_members(ms, pre, ind):
    """C text of a member list; names as in spec/CLayout.tla (positional, anonymous members pass a prefix down)."""
    L = []
    for i, m in enumerate(ms, 1):
        nm = "%sm%d" % (pre, i)
        if m["m"] == "b":
            L.append("%s%s %s: %d;" % (ind, CTYPE[m["t"]], nm if m["nm"] else "", m["w"]))
        elif m["m"] == "an":
            T = m["ty"]
            L.append("%s%s {" % (ind, "struct" if T["k"] == "st" else "union"))
            L += render_members(T["ms"], nm + "_", ind + "  ")
            L.append("%s};" % ind)
        else:
            L += render_decl(m["ty"], nm, ind)
    return L


def render_decl(T, name, ind):
    suffix = ""
    while T["k"] == "a":
        suffix += "[%d]" % T["n"]
        T = T["el"]
    if T["k"] == "s":
        return ["%s%s %s%s;" % (ind, ctype(T), name, suffix)]
    L = ["%s%s {" % (ind, "struct" if T["k"] == "st" else "union")]
    L += render_members(T["ms"], "", ind + "  ")
    L.append("%s} %s%s;" % (ind, name, suffix))
    return L


def render_type(T, tag):
    L = ["%s %s {" % ("struct" if T["k"] == "st" else "union", tag)]
    L += render_members(T["ms"], "", "  ")
    L.append("};")
    return L


def py_paths(T, path="", pre=""):
    """leaf paths in the spec's order (cross-check of the naming scheme)"""
    if T["k"] == "s":
        return [path]
    if T["k"] == "a":
        r = []
        for i in range(T["n"]):
            r += py_paths(T["el"], "%s[%d]" % (path, i), "")
        return r
    r = []
    for i, m in enumerate(T["ms"], 1):
        nm = "%sm%d" % (pre, i)
        full = nm if not path else path + "." + nm
        if m["m"] == "b":
            r.append(full if m["nm"] else "")
        elif m["m"] == "f":
            r += py_paths(m["ty"], full, "")
        else:
            r += py_paths(m["ty"], path, nm + "_")
    return r


def decl_text(T):
    return " ".join(x.strip() for x in render_type(T, "S"))


PRELUDE = """#include <stdio.h>
#include <stddef.h>
#include <string.h>
enum E { E0, E1, E2 };
static void dump(const void *p, size_t n) {
  const unsigned char *b = (const unsigned char *) p;
  for (size_t i = 0; i < n; i++) printf("%02x", b[i]);
  printf("\\n");
}
"""


def kw(T):
    return "struct" if T["k"] == "st" else "union"


def render_layout_tu(rows, base):
    L = [PRELUDE] + enum_decls(rows)
    for j, r in enumerate(rows):
        i = base + j
        T = r["d"]
        tn = "%s S%d" % (kw(T), i)
        L += render_type(T, "S%d" % i)
        L.append("static void t%d(void) {" % i)
        L.append("  %s s;" % tn)
        L.append('  printf("D %d %%zu %%zu\\n", sizeof(%s), _Alignof(%s));' % (i, tn, tn))
        for k, lf in enumerate(r["lv"]):
            if not lf["p"]:
                continue
            if lf["bit"] < 0:
                L.append('  printf("O %d %d %%zu\\n", offsetof(%s, %s));' % (i, k, tn, lf["p"]))
            else:
                L.append("  memset(&s, 0, sizeof s); s.%s = %s;" % (lf["p"], "1" if lf["t"] == "bool" else "-1"))
                L.append('  printf("B %d %d %%llu %%d ", (unsigned long long) s.%s, s.%s < 0); dump(&s, sizeof s);'
                         % (i, k, lf["p"], lf["p"]))
        L.append("}")
    L.append("int main(void) {")
    for j in range(len(rows)):
        L.append("  t%d();" % (base + j))
    L.append('  printf("END\\n");')
    L.append("  return 0;\n}")
    return "\n".join(L) + "\n"


def expected_obs(r):
    """what the translation unit prints for row r if the compiler follows the spec"""
    o = {"sz": r["sz"], "al": r["al"]}
    for k, lf in enumerate(r["lv"]):
        if not lf["p"]:
            continue
        if lf["bit"] < 0:
            o["o%d" % k] = lf["off"]
        else:
            w = lf["w"]
            val = (1 << 64) - 1 if lf["sg"] else (1 << w) - 1
            o["b%d" % k] = (val, 1 if lf["sg"] else 0, lf["bit"], w)
    return o


def parse_obs(text, sizes=None):
    """stdout of a layout unit -> {decl index: observation}; bit-field dumps become (value, negative, first bit, count)
    with count = -1 when the ones are not contiguous"""
    obs = collections.defaultdict(dict)
    ended = False
    for line in text.splitlines():
        f = line.split()
        if not f:
            continue
        try:
            if f[0] == "D":
                obs[int(f[1])].update(sz=int(f[2]), al=int(f[3]))
            elif f[0] == "O":
                obs[int(f[1])]["o" + f[2]] = int(f[3])
            elif f[0] == "B":
                raw = bytes.fromhex(f[5]) if len(f) > 5 else b""
                v = int.from_bytes(raw, "little")
                ones = bin(v).count("1")
                first = (v & -v).bit_length() - 1 if v else -1
                contiguous = v != 0 and (v >> first) == (1 << ones) - 1
                obs[int(f[1])]["b" + f[2]] = (int(f[3]), int(f[4]), first, ones if contiguous else -1)
            elif f[0] == "END":
                ended = True
        except (ValueError, IndexError):
            continue
    return obs, ended


def run_cmd(cmd, timeout=120, cwd=None):
    try:
        p = subprocess.run(cmd, stdout=subprocess.PIPE, stderr=subprocess.PIPE, timeout=timeout, cwd=cwd)
        return p.returncode, p.stdout.decode("utf-8", "replace"), p.stderr.decode("utf-8", "replace")
    except subprocess.TimeoutExpired:
        return -9, "", "timeout"


def run_layout_unit(c2m, rows, base, tag, engines, keep=False):
    """returns ({engine: (obs, ok, diag)}, gcc (obs, ok, diag), path)"""
    d = os.path.join(RUN, "tu")
    os.makedirs(d, exist_ok=True)
    fn = os.path.join(d, "%s_%d.c" % (tag, base))
    with open(fn, "w") as f:
        f.write(render_layout_tu(rows, base))
    res = {}
    for eng in engines:
        rc, out, err = run_cmd([c2m, fn] + eng.split(), timeout=300)
        obs, ended = parse_obs(out)
        res[eng] = (obs, rc == 0 and ended, "rc=%s %s" % (rc, err[-300:]))
    exe = fn[:-2] + ".gcc"
    rc, out, err = run_cmd(["gcc", "-std=gnu11", "-O0", "-w", fn, "-o", exe], timeout=300)
    if rc != 0:
        g = ({}, False, "gcc compile rc=%s %s" % (rc, err[-600:]))
    else:
        rc, out, err = run_cmd([exe], timeout=120)
        obs, ended = parse_obs(out)
        g = (obs, rc == 0 and ended, "rc=%s %s" % (rc, err[-300:]))
        try:
            os.unlink(exe)
        except OSError:
            pass
    if not keep:
        try:
            os.unlink(fn)
        except OSError:
            pass
    return res, g, fn


# ----------------------------------------------------------------------------------------------- layout judging
FLAGKEY = {"bb": "layout:bitfield:after_bitfield_in_later_unit_overlaps_unit_0",
           "ua": "layout:bitfield:unnamed_nonzero_width_raises_alignment",
           "za": "layout:bitfield:zero_width_raises_struct_alignment",
           "zu": "layout:bitfield:zero_width_at_offset_0_allocates_unit"}


def sig(T):
    """compact signature of a type: kinds and scalar types, no widths"""
    if T["k"] == "s":
        return "enum<%s>" % ",".join(T["ev"]) if T["t"] == "en" else T["t"]
    if T["k"] == "a":
        return sig(T["el"]) + "[]"
    parts = []
    for m in T["ms"]:
        if m["m"] == "b":
            parts.append(("b." if m["nm"] else "u0." if m["w"] == 0 else "u.") + m["t"])
        elif m["m"] == "an":
            parts.append("anon." + sig(m["ty"]))
        else:
            parts.append(sig(m["ty"]))
    return "%s(%s)" % (T["k"], ",".join(parts))


def layout_keys(row, obs):
    """finding keys for a c2m observation that differs from spec == gcc"""
    if obs is None:
        return ["layout:no_output:" + sig(row["d"])]
    for alt in sorted(row["alts"], key=lambda a: (len(a["v"]), a["v"])):
        if expected_obs(alt) == obs:
            return [FLAGKEY[f] for f in sorted(alt["v"])]
    e = expected_obs(row)
    for k in ["sz", "al"] + [x for x in e if x[0] == "o"] + [x for x in e if x[0] == "b"]:
        if obs.get(k) != e[k]:
            if k[0] == "b":
                ev, ov = e[k], obs.get(k) or (None,) * 4
                asp = "bitfield_position" if ev[2:] != tuple(ov[2:]) else "bitfield_value"
            else:
                asp = {"sz": "sizeof", "al": "alignof"}.get(k, "offsetof")
            return ["layout:%s:%s" % (asp, sig(row["d"]))]
    return ["layout:extra_output:" + sig(row["d"])]


def obs_diff(e, o):
    if o is None:
        return "no output"
    return ", ".join("%s: expected %s got %s" % (k, e[k], o.get(k)) for k in e if o.get(k) != e[k]) or "extra output"


class LayoutStats:
    def __init__(self):
        self.units = self.decls = self.spec_disagrees = self.mismatch = self.confirmed = 0
        self.c2m_fail = 0
        self.disagree_samples = []


def _run_batches(c2m, jobs, tag, engines):
    with ThreadPoolExecutor(max_workers=NPAR) as ex:
        return list(ex.map(lambda j: run_layout_unit(c2m, j[0], j[1], tag, engines), jobs))


def judge_layout(c2m, rows, tag, engines, st, mutate=None):
    """three-way comparison of every row; returns list of (row index, engine, keys, text)"""
    per = {}                      # row index -> (res by engine, gcc)
    jobs = [(rows[b:b + BATCH], b) for b in range(0, len(rows), BATCH)]
    redo = []
    for (rs, base), (res, g, fn) in zip(jobs, _run_batches(c2m, jobs, tag, engines)):
        st.units += 1
        bad = not g[1] or any(not res[e][1] for e in engines)
        if bad and len(rs) > 1:
            redo.append((rs, base))
            continue
        for j in range(len(rs)):
            per[base + j] = ({e: (res[e][0].get(base + j), res[e][1], res[e][2]) for e in engines},
                             (g[0].get(base + j), g[1], g[2]))
    # a unit that does not compile / crashes (for gcc or for an engine): halve it until the rows are alone
    pending = redo
    budget = 300
    while pending:
        nxt = []
        halves = []
        for rs, base in pending:
            h = len(rs) // 2
            halves += [(rs[:h], base), (rs[h:], base + h)]
        if budget <= 0:
            raise MachineryError("cannot isolate the declarations on which a layout unit fails (%d units left): %s" % (len(halves), tag))
        budget -= len(halves)
        for (rs, base), (res, g, fn) in zip(halves, _run_batches(c2m, halves, tag + "i", engines)):
            st.units += 1
            bad = not g[1] or any(not res[e][1] for e in engines)
            if bad and len(rs) > 1:
                nxt.append((rs, base))
                continue
            for j in range(len(rs)):
                per[base + j] = ({e: (res[e][0].get(base + j), res[e][1], res[e][2]) for e in engines},
                                 (g[0].get(base + j), g[1], g[2]))
        pending = nxt
    found = []
    suspects = []
    for i, r in enumerate(rows):
        st.decls += 1
        e = expected_obs(r)
        if mutate:
            e = mutate(r, e)
        res, g = per[i]
        if not g[1] or g[0] != e:
            st.spec_disagrees += 1
            if len(st.disagree_samples) < 10:
                st.disagree_samples.append("%s: spec %s, gcc %s" % (decl_text(r["d"]), e, g[0] if g[1] else g[2]))
            continue
        for eng in engines:
            o, ok, diag = res[eng]
            if not ok or o != e:
                suspects.append((i, eng))
    st.mismatch += len(suspects)
    # soundness rule 5: every mismatch is re-run once, in units of a different composition
    by_eng = collections.defaultdict(list)
    for i, eng in suspects:
        by_eng[eng].append(i)
    for eng, idxs in by_eng.items():
        sub = [rows[i] for i in idxs]
        jobs = [(sub[b:b + 97], b) for b in range(0, len(sub), 97)]
        again = {}
        lone = []
        for (rs, base), (res, g, fn) in zip(jobs, _run_batches(c2m, jobs, tag + "r", [eng])):
            st.units += 1
            if not res[eng][1]:
                lone += list(range(base, base + len(rs)))
            else:
                for j in range(len(rs)):
                    again[base + j] = (res[eng][0].get(base + j), True, "")
        dropped = lone[60:]                 # a c2m that fails on whole units: the first rows are isolated and reported
        lone = lone[:60]
        for k in dropped:
            again[k] = (expected_obs(sub[k]) if not mutate else mutate(sub[k], expected_obs(sub[k])), True, "")
        st.c2m_fail_not_isolated = getattr(st, "c2m_fail_not_isolated", 0) + len(dropped)
        jobs = [([sub[k]], k) for k in lone]
        for (rs, k), (res, g, fn) in zip(jobs, _run_batches(c2m, jobs, tag + "q", [eng])):
            st.units += 1
            again[k] = (res[eng][0].get(k), res[eng][1], res[eng][2])
        for k, i in enumerate(idxs):
            r = rows[i]
            e = expected_obs(r)
            if mutate:
                e = mutate(r, e)
            o, ok, diag = again[k]
            if ok and o == e:
                continue                       # not reproducible: dropped
            st.confirmed += 1
            if not ok and o is None or not ok and o == e:
                st.c2m_fail += 1
                msg = re.findall(r"\.c:\d+:\d+: *([^\n]+)", diag)
                if msg:      # c2m rejects the declaration with a message: the message is the construct
                    keys = ["layout:c2m_rejects:" + re.sub(r"[^a-z0-9]+", "_", msg[-1].lower()).strip("_")[:80]]
                else:
                    keys = ["layout:c2m_fails:" + sig(r["d"])]
                text = "%s: gcc and spec agree, c2m %s fails: %s" % (decl_text(r["d"]), eng, diag.strip()[-200:])
            else:
                keys = layout_keys(r, o)
                text = "%s: spec == gcc, c2m %s differs: %s" % (decl_text(r["d"]), eng, obs_diff(e, o))
            found.append((i, eng, keys, text))
    return found


# ----------------------------------------------------------------------------------------------- by-value passing
NSEED = 3            # value sets per shape (for unions each set activates another member)
TESTS = ["a1", "a2", "a3", "a4", "a5", "a6", "r", "r2", "a7", "a8", "a9", "a10", "a11", "a12",
         "a13", "a14", "a15", "a16", "a17", "a18", "a19"]


def has_union(T):
    if T["k"] == "s":
        return False
    if T["k"] == "a":
        return has_union(T["el"])
    return T["k"] == "un" or any(m["m"] != "b" and has_union(m["ty"]) for m in T["ms"])


def leaf_kinds(r):
    """which kinds of leaves an aggregate of at most 16 bytes has (i integer, f float, d double, L long double,
    b bit-field) and whether members are overlaid (u): the classes of an eightbyte depend on the mix, so every mix of
    a (classes, size) group gets its own by-value representatives; "" for larger aggregates (MEMORY by size)"""
    if r["sz"] > 16:
        return ""
    ks = set()
    for l in r["lv"]:
        if l["p"]:
            ks.add("b" if l["bit"] >= 0 else {"float": "f", "double": "d", "ldouble": "L"}.get(l["t"], "i"))
    # a bit-field (named or not) that ends exactly on an eightbyte boundary (E) / starts on the second eightbyte (S):
    # the classification loops over the eightbytes a bit-field touches, an off-by-one there shows only in these
    edge = set()
    for l in r["lv"]:
        if l["bit"] >= 0 and l["w"] > 0:
            if (l["bit"] + l["w"]) % 64 == 0:
                edge.add("E%d" % ((l["bit"] + l["w"]) // 64))
            if l["bit"] == 64:
                edge.add("S")
    return "".join(sorted(ks)) + ("u" if has_union(r["d"]) else "") + "".join(sorted(edge))


def leaf_sig(r):
    return tuple((l["off"] if l["bit"] < 0 else l["bit"], l["t"] if l["bit"] < 0 else "bf%d" % l["w"]) for l in r["lv"] if l["p"])


def _lit(rng, lf):
    """a C literal (text) of a value representable in the leaf"""
    t = lf["t"]
    if lf["bit"] >= 0:
        w = lf["w"]
        if t == "bool":
            return str(rng.randint(0, 1))
        if lf["sg"]:
            v = rng.randint(-(1 << (w - 1)) + (1 if w == 64 else 0), (1 << (w - 1)) - 1)
            return "%dLL" % v
        return "%dULL" % rng.randint(0, (1 << w) - 1)
    if t == "bool":
        return str(rng.randint(0, 1))
    if t == "enum":
        return "E%d" % rng.randint(0, 2)
    if t == "en":
        return "EN_%s_%d" % ("_".join(lf["ev"]), rng.randrange(len(lf["ev"])))
    if t == "float":
        return "%d.0f" % rng.randint(-(1 << 20), 1 << 20)
    if t == "double":
        return "%d.0" % rng.randint(-(1 << 50), 1 << 50)
    if t == "ldouble":
        return "%d.0L" % rng.randint(-(1 << 62), 1 << 62)
    if t == "ptr":
        return "(void *) %dUL" % rng.randint(1, (1 << 64) - 1)
    w = {"char": 8, "schar": 8, "uchar": 8, "short": 16, "ushort": 16, "int": 32, "uint": 32}.get(t, 64)
    if t in ("uchar", "ushort", "uint", "ulong", "ullong"):
        return "(%s) %dULL" % (CTYPE[t], rng.randint(0, (1 << w) - 1))
    return "(%s) %dLL" % (CTYPE[t], rng.randint(-(1 << (w - 1)) + 1, (1 << (w - 1)) - 1))


def active_leaves(T, rng, k0=0):
    """leaf indexes (spec order) holding the value of an object of type T: all members of a struct, one randomly
    chosen member (with a named leaf) of a union.  Returns (list of leaf indexes, number of leaves of T)."""
    if T["k"] == "s":
        return [k0], 1
    if T["k"] == "a":
        out, k = [], k0
        for _ in range(T["n"]):
            a, n = active_leaves(T["el"], rng, k)
            out += a
            k += n
        return out, k - k0
    per = []
    k = k0
    for m in T["ms"]:
        if m["m"] == "b":
            per.append(([k] if m["nm"] else [], 1))
            k += 1
        else:
            a, n = active_leaves(m["ty"], rng, k)
            per.append((a, n))
            k += n
    if T["k"] == "st":
        return [x for a, n in per for x in a], k - k0
    cand = [a for a, n in per if a]
    return (rng.choice(cand) if cand else []), k - k0


def gen_shape_common(i, r, rng):
    """type, fill and check functions of shape i (text shared by both sides)"""
    T = r["d"]
    tn = "%s S%d" % (kw(T), i)
    L = render_type(T, "S%d" % i)
    L.append("typedef %s T%d;" % (tn, i))
    fills, chks = [], []
    for s in range(NSEED):
        act, n = active_leaves(T, rng)
        f, c = [], []
        for k in act:
            lf = r["lv"][k]
            lit = _lit(rng, lf)
            f.append("p->%s = %s;" % (lf["p"], lit))
            c.append("bad += p->%s != %s;" % (lf["p"], lit))
        fills.append(" ".join(f))
        chks.append(" ".join(c))
    L.append("static void fill%d(T%d *p, int s) {" % (i, i))
    L.append("  memset(p, 0xa5, sizeof *p);")
    L.append("  switch (s %% %d) {" % NSEED)
    for s in range(NSEED):
        L.append("  case %d: %s break;" % (s, fills[s]))
    L.append("  }\n}")
    L.append("static int chk%d(const T%d *p, int s) {" % (i, i))
    L.append("  int bad = 0;")
    L.append("  switch (s %% %d) {" % NSEED)
    for s in range(NSEED):
        L.append("  case %d: %s break;" % (s, chks[s]))
    L.append("  }\n  return bad;\n}")
    return L


LONGS = lambda a, b: ", ".join("long i%d" % k for k in range(a, b + 1))
DBLS = lambda a, b: ", ".join("double d%d" % k for k in range(a, b + 1))


def protos(P, i):
    """name -> (return type, parameter text) of the by-value functions of shape i with prefix P"""
    T = "T%d" % i
    return collections.OrderedDict([
        ("a1", ("int", "%s a, int s" % T)),
        ("a2", ("int", "int x, double y, %s a, int s" % T)),
        ("a3", ("int", "%s, %s a, long i6, %s b, int s" % (LONGS(1, 5), T, T))),
        ("a4", ("int", "%s, %s a, double d8, %s b, int s" % (DBLS(1, 7), T, T))),
        ("a5", ("int", "%s, %s, %s a, int s" % (LONGS(1, 6), DBLS(1, 8), T))),
        ("a6", ("int", "%s a, %s b, %s c, %s d, int s" % (T, T, T, T))),
        ("r", (T, "int s")),
        ("r2", (T, "%s a, int s" % T)),
        # two aggregates of different types with a partly used register file: the one that does not fit goes to memory
        # as a whole and must leave the registers to the next one (K1/K2: one/two INTEGER eightbytes, KD1/KD2: SSE)
        ("a7", ("int", "%s, %s a, struct K1 k1, int s" % (LONGS(1, 5), T))),
        ("a8", ("int", "%s, %s a, struct KD1 kd1, int s" % (DBLS(1, 7), T))),
        ("a9", ("int", "%s, struct K2 k2, %s a, int s" % (LONGS(1, 5), T))),
        ("a10", ("int", "%s, struct KD2 kd2, %s a, int s" % (DBLS(1, 7), T))),
        ("a11", ("int", "%s, %s a, struct KD1 kd1, struct K1 k1, int s" % (LONGS(1, 6), T))),
        ("a12", ("int", "%s, %s a, struct K1 k1, struct KD1 kd1, int s" % (DBLS(1, 8), T))),
        # scalars that are passed in memory (long double; double/float beyond xmm7) take no register: with 4 / 5 integer
        # (6 / 7 SSE) scalars in front an aggregate of 2 / 1 INTEGER (SSE) eightbytes lands exactly on the last registers
        ("a13", ("int", "long double w, %s, %s a, int s" % (LONGS(1, 4), T))),
        ("a14", ("int", "long i1, long double w, %s, %s a, int s" % (LONGS(2, 5), T))),
        ("a15", ("int", "%s, double d9, %s, %s a, int s" % (DBLS(1, 8), LONGS(1, 4), T))),
        ("a16", ("int", "%s, float f9, long double w, %s, %s a, int s" % (DBLS(1, 8), LONGS(1, 5), T))),
        ("a17", ("int", "long double w, %s, %s a, int s" % (DBLS(1, 6), T))),
        ("a18", ("int", "double d1, long double w, %s, %s a, int s" % (DBLS(2, 7), T))),
        ("a19", ("int", "%s, long i7, double d1, %s a, int s" % (LONGS(1, 6), T))),
    ])


def gen_shape_funcs(P, i, defs=True):
    """callee functions, the driver that calls them through a table, and the table type"""
    T = "T%d" % i
    pr = protos(P, i)
    L = []
    if not defs:
        for n, (rt, ps) in pr.items():
            L.append("extern %s %s%s_%d(%s);" % (rt, P, n, i, ps))
        L.append("extern int %sdrv_%d(const struct cb%d *cb);" % (P, i, i))
        L.append("extern int %sself_%d(void);" % (P, i))
        return L
    li = " + ".join("(i%d != %d + s)" % (k, 100 * k) for k in range(1, 6))
    l6 = li + " + (i6 != 600 + s)"
    d7 = " + ".join("(d%d != %d.5 + s)" % (k, k) for k in range(1, 8))
    d8 = d7 + " + (d8 != 8.5 + s)"
    L.append("int %sa1_%d(%s) { return chk%d(&a, s); }" % (P, i, pr["a1"][1], i))
    L.append("int %sa2_%d(%s) { return chk%d(&a, s) + (x != 11 + s) + (y != 2.5 + s); }" % (P, i, pr["a2"][1], i))
    L.append("int %sa3_%d(%s) { return chk%d(&a, s) + chk%d(&b, s + 1) + %s; }" % (P, i, pr["a3"][1], i, i, l6))
    L.append("int %sa4_%d(%s) { return chk%d(&a, s) + chk%d(&b, s + 1) + %s; }" % (P, i, pr["a4"][1], i, i, d8))
    L.append("int %sa5_%d(%s) { return chk%d(&a, s) + %s + %s; }" % (P, i, pr["a5"][1], i, l6, d8))
    L.append("int %sa6_%d(%s) { return chk%d(&a, s) + chk%d(&b, s + 1) + chk%d(&c, s + 2) + chk%d(&d, s + 3); }"
             % (P, i, pr["a6"][1], i, i, i, i))
    L.append("%s %sr_%d(%s) { %s x; fill%d(&x, s); return x; }" % (T, P, i, pr["r"][1], T, i))
    L.append("%s %sr2_%d(%s) { %s x; if (chk%d(&a, s)) { memset(&x, 0x5a, sizeof x); return x; } fill%d(&x, s + 1); return x; }"
             % (T, P, i, pr["r2"][1], T, i, i))
    L.append("int %sa7_%d(%s) { return chk%d(&a, s) + ck1(&k1, s) + %s; }" % (P, i, pr["a7"][1], i, li))
    L.append("int %sa8_%d(%s) { return chk%d(&a, s) + ckd1(&kd1, s) + %s; }" % (P, i, pr["a8"][1], i, d7))
    L.append("int %sa9_%d(%s) { return chk%d(&a, s) + ck2(&k2, s) + %s; }" % (P, i, pr["a9"][1], i, li))
    L.append("int %sa10_%d(%s) { return chk%d(&a, s) + ckd2(&kd2, s) + %s; }" % (P, i, pr["a10"][1], i, d7))
    L.append("int %sa11_%d(%s) { return chk%d(&a, s) + ckd1(&kd1, s) + ck1(&k1, s) + %s; }" % (P, i, pr["a11"][1], i, l6))
    L.append("int %sa12_%d(%s) { return chk%d(&a, s) + ck1(&k1, s) + ckd1(&kd1, s) + %s; }" % (P, i, pr["a12"][1], i, d8))
    l4 = " + ".join("(i%d != %d + s)" % (k, 100 * k) for k in range(1, 5))
    d6 = " + ".join("(d%d != %d.5 + s)" % (k, k) for k in range(1, 7))
    wc = "(w != 1234.5L + s)"
    L.append("int %sa13_%d(%s) { return chk%d(&a, s) + %s + %s; }" % (P, i, pr["a13"][1], i, wc, l4))
    L.append("int %sa14_%d(%s) { return chk%d(&a, s) + %s + %s; }" % (P, i, pr["a14"][1], i, wc, li))
    L.append("int %sa15_%d(%s) { return chk%d(&a, s) + (d9 != 9.5 + s) + %s + %s; }" % (P, i, pr["a15"][1], i, d8, l4))
    L.append("int %sa16_%d(%s) { return chk%d(&a, s) + (f9 != 9.25f + s) + %s + %s + %s; }" % (P, i, pr["a16"][1], i, wc, d8, li))
    L.append("int %sa17_%d(%s) { return chk%d(&a, s) + %s + %s; }" % (P, i, pr["a17"][1], i, wc, d6))
    L.append("int %sa18_%d(%s) { return chk%d(&a, s) + %s + %s; }" % (P, i, pr["a18"][1], i, wc, d7))
    L.append("int %sa19_%d(%s) { return chk%d(&a, s) + (i7 != 700 + s) + (d1 != 1.5 + s) + %s; }" % (P, i, pr["a19"][1], i, l6))
    L.append(gen_driver(P, i))
    L.append("int %sself_%d(void) { static const struct cb%d cb = {%s}; return %sdrv_%d(&cb); }"
             % (P, i, i, ", ".join("%s%s_%d" % (P, n, i) for n in pr), P, i))
    return L


def call_args(n, sv):
    """argument text for calling test n with seed expression sv (aggregates a,b,c,d already filled)"""
    li = ", ".join("%d + %s" % (100 * k, sv) for k in range(1, 6))
    l6 = li + ", 600 + %s" % sv
    d7 = ", ".join("%d.5 + %s" % (k, sv) for k in range(1, 8))
    d8 = d7 + ", 8.5 + %s" % sv
    l4 = ", ".join("%d + %s" % (100 * k, sv) for k in range(1, 5))
    d6 = ", ".join("%d.5 + %s" % (k, sv) for k in range(1, 7))
    return {"a1": "a, %s" % sv, "a2": "11 + %s, 2.5 + %s, a, %s" % (sv, sv, sv),
            "a3": "%s, a, 600 + %s, b, %s" % (li, sv, sv), "a4": "%s, a, 8.5 + %s, b, %s" % (d7, sv, sv),
            "a5": "%s, %s, a, %s" % (l6, d8, sv), "a6": "a, b, c, d, %s" % sv, "r": sv, "r2": "a, %s" % sv,
            "a7": "%s, a, k1, %s" % (li, sv), "a8": "%s, a, kd1, %s" % (d7, sv), "a9": "%s, k2, a, %s" % (li, sv),
            "a10": "%s, kd2, a, %s" % (d7, sv), "a11": "%s, a, kd1, k1, %s" % (l6, sv),
            "a12": "%s, a, k1, kd1, %s" % (d8, sv),
            "a13": "1234.5L + %s, %s, a, %s" % (sv, l4, sv),
            "a14": "100 + %s, 1234.5L + %s, %s, a, %s" % (sv, sv, ", ".join("%d + %s" % (100 * k, sv) for k in range(2, 6)), sv),
            "a15": "%s, 9.5 + %s, %s, a, %s" % (d8, sv, l4, sv),
            "a16": "%s, 9.25f + %s, 1234.5L + %s, %s, a, %s" % (d8, sv, sv, li, sv),
            "a19": "%s, 700 + %s, 1.5 + %s, a, %s" % (l6, sv, sv, sv),
            "a17": "1234.5L + %s, %s, a, %s" % (sv, d6, sv),
            "a18": "1.5 + %s, 1234.5L + %s, %s, a, %s" % (sv, sv, ", ".join("%d.5 + %s" % (k, sv) for k in range(2, 8)), sv)}[n]


def gen_driver(P, i):
    """calls every function of a table with filled aggregates; bit k of the result = test k failed"""
    T = "T%d" % i
    L = ["int %sdrv_%d(const struct cb%d *cb) {" % (P, i, i),
         "  %s a, b, c, d, x; int m = 0, s;" % T, COMP_DECL,
         "  for (s = 0; s < %d; s++) {" % NSEED,
         "    fill%d(&a, s); fill%d(&b, s + 1); fill%d(&c, s + 2); fill%d(&d, s + 3); %s" % (i, i, i, i, COMP_FILL)]
    for k, n in enumerate(TESTS):
        if n == "r":
            L.append("    x = cb->r(s); if (chk%d(&x, s)) m |= %d;" % (i, 1 << k))
        elif n == "r2":
            L.append("    x = cb->r2(a, s); if (chk%d(&x, s + 1)) m |= %d;" % (i, 1 << k))
        else:
            L.append("    if (cb->%s(%s)) m |= %d;" % (n, call_args(n, "s"), 1 << k))
    L += ["  }", "  return m;", "}"]
    return "\n".join(L)


def gen_cb_type(i):
    pr = protos("", i)
    return "struct cb%d { %s };" % (i, " ".join("%s (*%s)(%s);" % (rt, n, ps) for n, (rt, ps) in pr.items()))


_SELFTEST_LIE = None
BV_PRELUDE = """#include <stdio.h>
#include <string.h>
enum E { E0, E1, E2 };
/* companion aggregates of fixed classes: K1 INTEGER, K2 INTEGER,INTEGER, KD1 SSE, KD2 SSE,SSE */
struct K1 { int x, y; };
struct K2 { long a, b; };
struct KD1 { double d; };
struct KD2 { double a, b; };
static void mk1(struct K1 *k, int s) { k->x = 7001 + s; k->y = -9002 - s; }
static int ck1(const struct K1 *k, int s) { return (k->x != 7001 + s) + (k->y != -9002 - s); }
static void mk2(struct K2 *k, int s) { k->a = 0x123456789abcL + s; k->b = -0x3456789abcdeL - s; }
static int ck2(const struct K2 *k, int s) { return (k->a != 0x123456789abcL + s) + (k->b != -0x3456789abcdeL - s); }
static void mkd1(struct KD1 *k, int s) { k->d = 4096.25 + s; }
static int ckd1(const struct KD1 *k, int s) { return k->d != 4096.25 + s; }
static void mkd2(struct KD2 *k, int s) { k->a = -77.5 - s; k->b = 123456.125 + s; }
static int ckd2(const struct KD2 *k, int s) { return (k->a != -77.5 - s) + (k->b != 123456.125 + s); }
"""
COMP_DECL = "  struct K1 k1; struct K2 k2; struct KD1 kd1; struct KD2 kd2;"
COMP_FILL = "mk1(&k1, s); mk2(&k2, s); mkd1(&kd1, s); mkd2(&kd2, s);"


def gen_byvalue_units(shapes, base, seed_):
    """(text of the gcc side library, text of the c2m side main program) for a batch of shapes"""
    lib, main = [BV_PRELUDE] + enum_decls(shapes), [BV_PRELUDE] + enum_decls(shapes)
    main.append('static void say(int i, const char *t, int v) { printf("V %d %s %d\\n", i, t, v); fflush(stdout); }')
    main.append('static void mark(int i, const char *t) { printf("T %d %s\\n", i, t); fflush(stdout); }')
    for j, r in enumerate(shapes):
        i = base + j
        common = gen_shape_common(i, r, random.Random(seed_ * 1000003 + i))
        common.append(gen_cb_type(i))
        lib += common + gen_shape_funcs("g_", i)
        cf = gen_shape_funcs("c_", i)
        if _SELFTEST_LIE and _SELFTEST_LIE(r):       # selftest only: the c2m-compiled a1 callee sees one wrong member
            cf = [("#ifdef __mirc__\n#define chk%d(p, s) (chk%d(p, s) + 1)\n#endif\n%s\n#undef chk%d" % (i, i, l, i))
                  if l.startswith("int c_a1_%d(" % i) else l for l in cf]
        main += common + gen_shape_funcs("g_", i, defs=False) + cf
        T = "T%d" % i
        R = ["static void run%d(void) {" % i, "#ifndef SKIP_%d" % i,
             "  %s a, b, c, d, x; int s, m;" % T, COMP_DECL,
             "  static const struct cb%d cb = {%s};" % (i, ", ".join("c_%s_%d" % (n, i) for n in TESTS)),
             '  mark(%d, "gccself"); say(%d, "gccself", g_self_%d());' % (i, i, i),
             '  mark(%d, "c2mself"); say(%d, "c2mself", c_self_%d());' % (i, i, i),
             "  for (s = 0; s < %d; s++) {" % NSEED,
             "    fill%d(&a, s); fill%d(&b, s + 1); fill%d(&c, s + 2); fill%d(&d, s + 3); %s" % (i, i, i, i, COMP_FILL)]
        for n in TESTS:
            R.append('    mark(%d, "cg_%s");' % (i, n))
            if n == "r":
                R.append('    x = g_r_%d(s); say(%d, "cg_r", chk%d(&x, s));' % (i, i, i))
            elif n == "r2":
                R.append('    x = g_r2_%d(a, s); say(%d, "cg_r2", chk%d(&x, s + 1));' % (i, i, i))
            else:
                R.append('    say(%d, "cg_%s", g_%s_%d(%s));' % (i, n, n, i, call_args(n, "s")))
        R += ["  }", '  mark(%d, "gc");' % i, "  m = g_drv_%d(&cb);" % i]
        for k, n in enumerate(TESTS):
            R.append('  say(%d, "gc_%s", (m >> %d) & 1);' % (i, n, k))
        R += ["#endif", "}"]
        main += R
    main.append("int main(void) {")
    for j in range(len(shapes)):
        main.append("  run%d();" % (base + j))
    main.append('  printf("END\\n");\n  return 0;\n}')
    return "\n".join(lib) + "\n", "\n".join(main) + "\n"


def parse_bv(out):
    """stdout of a by-value main -> ({(shape, test): worst result}, last mark, ended)"""
    res, last, ended = {}, None, False
    for line in out.splitlines():
        f = line.split()
        try:
            if len(f) == 4 and f[0] == "V":
                k = (int(f[1]), f[2])
                res[k] = max(res.get(k, 0), int(f[3]))
            elif len(f) == 3 and f[0] == "T":
                last = (int(f[1]), f[2])
            elif f and f[0] == "END":
                ended = True
        except ValueError:
            continue
    return res, last, ended


def run_byvalue_unit(c2m, shapes, base, tag, engines, seed_):
    """build both sides, run; returns {engine: {(shape, test): result or 'crash:<signal>'}}, gcc-side diagnostics"""
    d = os.path.join(RUN, "bv")
    os.makedirs(d, exist_ok=True)
    name = "%s_%d" % (tag, base)
    lib, main = gen_byvalue_units(shapes, base, seed_)
    libc, mainc, so = os.path.join(d, name + "_lib.c"), os.path.join(d, name + "_main.c"), os.path.join(d, "lib%s.so" % name)
    with open(libc, "w") as f:
        f.write(lib)
    with open(mainc, "w") as f:
        f.write(main)
    rc, out, err = run_cmd(["gcc", "-shared", "-fPIC", "-O1", "-std=gnu11", "-w", libc, "-o", so], timeout=600)
    if rc != 0:
        raise MachineryError("gcc cannot compile the by-value library %s: %s" % (libc, err[-1500:]))
    # reference run: gcc on both sides (validates the generated program: every test must pass)
    exe = os.path.join(d, name + ".gcc")
    rc, out, err = run_cmd(["gcc", "-std=gnu11", "-O1", "-w", mainc, "-L" + d, "-l" + name, "-Wl,-rpath," + d, "-o", exe], timeout=600)
    if rc != 0:
        raise MachineryError("gcc cannot compile the by-value main %s: %s" % (mainc, err[-1500:]))
    rc, out, err = run_cmd([exe], timeout=300)
    gres, _, gended = parse_bv(out)
    if rc != 0 or not gended:
        raise MachineryError("gcc/gcc by-value reference run failed rc=%s: %s" % (rc, err[-500:]))
    results = {}
    for eng in engines:
        skip, acc = [], {}
        for attempt in range(40):
            cmd = [c2m, "-L" + d, "-l" + name] + ["-DSKIP_%d" % i for i in skip] + [mainc] + eng.split()
            rc, out, err = run_cmd(cmd, timeout=600)
            res, last, ended = parse_bv(out)
            for k, v in res.items():
                acc.setdefault(k, v)
            if ended and rc == 0:
                break
            if last is None or last[0] in skip:
                # c2m does not get to a test at all (it rejects / crashes on the unit): the caller halves the unit
                acc = {"__fail__": "rc=%s %s" % (rc, err.strip()[-300:])}
                break
            acc[last] = "crash:rc=%s" % rc          # the test announced last did not return
            for t in ["gccself", "c2mself"] + ["cg_" + n for n in TESTS] + ["gc_" + n for n in TESTS]:
                acc.setdefault((last[0], t), "skipped")   # the rest of this shape is not run
            skip.append(last[0])
        else:
            raise MachineryError("c2m %s: too many crashing shapes in %s" % (eng, mainc))
        results[eng] = acc
    for p in (exe, ):
        try:
            os.unlink(p)
        except OSError:
            pass
    return results, gres


# ----------------------------------------------------------------------------------------------- classification probe (spec vs gcc)
SRC_INT = [0x01, 0x02, 0x03, 0x04, 0x05, 0x06]
SRC_SSE = [0x11, 0x12, 0x13, 0x14, 0x15, 0x16, 0x17, 0x18]
SRC_MEM = [0x21, 0x22, 0x23, 0x24, 0x25, 0x26, 0x27, 0x28]


def value_bytes(r):
    """byte offsets of the object that belong to a named leaf"""
    s = set()
    for lf in r["lv"]:
        if not lf["p"]:
            continue
        if lf["bit"] >= 0:
            s.update(range(lf["bit"] // 8, (lf["bit"] + lf["w"] - 1) // 8 + 1))
        else:
            n = {"ldouble": 10}.get(lf["t"])
            if n is None and "sz" in lf:
                n = lf["sz"]
            if n is None:
                n = {"char": 1, "schar": 1, "uchar": 1, "bool": 1, "short": 2, "ushort": 2, "int": 4, "uint": 4, "float": 4,
                     "enum": 4}.get(lf["t"], 8)
            s.update(range(lf["off"], lf["off"] + n))
    return s


def expected_sources(r):
    """source byte (register / stack word id) of every eightbyte of a lone aggregate argument, by the spec's classes"""
    n = (r["sz"] + 7) // 8
    cls = r["cls"]
    if cls == ["MEMORY"] or "X87" in cls:
        return [SRC_MEM[j] if j < 8 else None for j in range(n)]
    ni = nx = 0
    out = []
    for c in cls:
        if c == "INTEGER":
            out.append(SRC_INT[ni]); ni += 1
        elif c == "SSE":
            out.append(SRC_SSE[nx]); nx += 1
        else:
            out.append(None)           # NO_CLASS: nothing is passed for this eightbyte
    return out


def run_class_probe(rows, tag):
    """gcc-only: where do the bytes of a by-value argument come from?  returns list of (row, expected, observed)"""
    d = os.path.join(RUN, "probe")
    os.makedirs(d, exist_ok=True)
    L = ["#include <stdio.h>", "#include <string.h>", "enum E { E0, E1, E2 };",
         "extern void c08_call(void (*fn)(void), const unsigned long *regs);",
         "static unsigned char out[64];", "static unsigned long regs[22];",
         "static void show(int i, unsigned n) { printf(\"P %d \", i); for (unsigned k = 0; k < n && k < 64; k++) printf(\"%02x\", out[k]); printf(\"\\n\"); }"]
    L += enum_decls(rows)
    for i, r in enumerate(rows):
        L += render_type(r["d"], "S%d" % i)
        L.append("__attribute__((noinline)) void p%d(%s S%d a) { memcpy(out, &a, sizeof a > 64 ? 64 : sizeof a); }" % (i, kw(r["d"]), i))
    L.append("int main(void) {")
    L.append("  static const unsigned char ids[22] = {%s};" % ", ".join(str(x) for x in SRC_INT + SRC_SSE + SRC_MEM))
    L.append("  for (int k = 0; k < 22; k++) regs[k] = 0x0101010101010101UL * ids[k];")
    for i, r in enumerate(rows):
        L.append("  memset(out, 0, sizeof out); c08_call((void (*)(void)) p%d, regs); show(%d, sizeof(%s S%d));" % (i, i, kw(r["d"]), i))
    L.append('  printf("END\\n"); return 0;\n}')
    src = os.path.join(d, tag + ".c")
    exe = os.path.join(d, tag + ".exe")
    with open(src, "w") as f:
        f.write("\n".join(L) + "\n")
    rc, out, err = run_cmd(["gcc", "-std=gnu11", "-O1", "-w", src, os.path.join(vlib.HARNESS, "c08_probe.S"), "-o", exe], timeout=600)
    if rc != 0:
        raise MachineryError("classification probe does not compile: " + err[-1500:])
    rc, out, err = run_cmd([exe], timeout=120)
    if rc != 0 or "END" not in out:
        raise MachineryError("classification probe failed rc=%s %s" % (rc, err[-500:]))
    obs = {}
    for line in out.splitlines():
        f = line.split()
        if len(f) == 3 and f[0] == "P":
            obs[int(f[1])] = bytes.fromhex(f[2])
    res = []
    for i, r in enumerate(rows):
        b = obs.get(i, b"")
        vb = value_bytes(r)
        exp = expected_sources(r)
        got = []
        for j in range((min(r["sz"], 64) + 7) // 8):
            srcs = set(b[k] for k in range(8 * j, min(8 * j + 8, len(b))) if k in vb)
            got.append(sorted(srcs))
        ok = True
        for j, g in enumerate(got):
            e = exp[j] if j < len(exp) else None
            if not g:
                continue                     # no named byte in this eightbyte: nothing observable
            if e is None or g != [e]:
                ok = False
        res.append((r, exp, got, ok))
    try:
        os.unlink(exe)
    except OSError:
        pass
    return res


# ----------------------------------------------------------------------------------------------- static objects
K_BSS = "layout:static_object:tail_padding_not_allocated"


def run_static_unit(c2m, rows, base, tag):
    """sizes of uninitialised file-scope and block-scope static objects: c2m (-S, bss items) and gcc (nm -S)"""
    d = os.path.join(RUN, "st")
    os.makedirs(d, exist_ok=True)
    L = ["enum E { E0, E1, E2 };"] + enum_decls(rows)
    for j, r in enumerate(rows):
        i = base + j
        L += render_type(r["d"], "S%d" % i)
        L.append("%s S%d g%d;" % (kw(r["d"]), i, i))
        L.append("void *f%d(void) { static %s S%d l%d; return &l%d; }" % (i, kw(r["d"]), i, i, i))
    fn = os.path.join(d, "%s_%d.c" % (tag, base))
    with open(fn, "w") as f:
        f.write("\n".join(L) + "\n")
    mir = fn[:-2] + ".mir"
    rc, out, err = run_cmd([c2m, fn, "-S", "-o", mir], timeout=300)
    cs = {}
    if rc == 0 and os.path.exists(mir):
        for line in open(mir):
            m = re.match(r"^(?:g|S\d+_f\d+_l)(\d+):\s+bss\s+(\d+)\s*$", line)
            if m:
                key = ("g" if line[0] == "g" else "l") + m.group(1)
                cs[key] = int(m.group(2))
    obj = fn[:-2] + ".o"
    gs = {}
    rc2, out, err2 = run_cmd(["gcc", "-std=gnu11", "-O0", "-w", "-fno-common", "-c", fn, "-o", obj], timeout=300)
    if rc2 == 0:
        rc2, out, err2 = run_cmd(["nm", "-S", obj])
        for line in out.splitlines():
            f = line.split()
            if len(f) == 4:
                m = re.match(r"^(g|l)(\d+)(?:\.\d+)?$", f[3])
                if m:
                    gs[m.group(1) + m.group(2)] = int(f[1], 16)
    for p in (obj, mir):
        try:
            os.unlink(p)
        except OSError:
            pass
    return cs, gs, (rc, err[-300:]), fn


# ----------------------------------------------------------------------------------------------- tiers
# (name, cfg, JVMs (IOEnv PART/NPARTS), simulation walks per worker or None, depth)
TIERS = {
    "quick": {
        "jobs": [("flat3", "CLayout_mc.cfg", 1, None, None), ("flat2", "CLayout_mc2.cfg", 1, None, None),
                 ("nest", "CLayout_nest.cfg", 1, None, None), ("ld", "CLayout_ld.cfg", 1, None, None), ("anon", "CLayout_anon.cfg", 1, None, None), ("edge", "CLayout_edge.cfg", 1, None, None), ("enum", "CLayout_enum.cfg", 1, None, None), ("enumx", "CLayout_enumx.cfg", 1, None, None),
                 ("sim", "CLayout_sim.cfg", 1, 1500, 60)],
        "layout_engines": ["-ei"], "bv_engines": ["-ei", "-eg -O2"], "per_group": 1, "mem_sizes": 10, "per_mem": 1,
        "probe": 3000, "static": 2000, "tlc_par": 3,
    },
    "thorough": {
        "jobs": [("flat3", "CLayout_mc.cfg", 1, None, None), ("flat2", "CLayout_mc2.cfg", 1, None, None),
                 ("nest", "CLayout_nest.cfg", 1, None, None), ("ld", "CLayout_ld.cfg", 1, None, None), ("anon", "CLayout_anon.cfg", 1, None, None), ("edge", "CLayout_edge.cfg", 1, None, None), ("enum", "CLayout_enum.cfg", 1, None, None), ("enumx", "CLayout_enumx.cfg", 1, None, None),
                 ("flat2w", "CLayout_t.cfg", 3, None, None), ("flat3m", "CLayout_t2.cfg", 3, None, None),
                 ("nestw", "CLayout_nest_t.cfg", 3, None, None), ("sim", "CLayout_sim.cfg", 2, 6000, 60)],
        "layout_engines": ["-ei", "-eg -O2"], "bv_engines": ["-ei", "-eg -O0", "-eg -O2"], "per_group": 12, "mem_sizes": 60,
        "per_mem": 2, "probe": 20000, "static": 20000, "tlc_par": 3,
    },
}
ENG_TAG = {"-ei": "interp", "-eg -O0": "gen_O0", "-eg -O2": "gen_O2", "-eg": "gen"}
POS = {"a1": "arg_first", "a2": "arg_mixed_with_scalars", "a3": "arg_after_int_regs", "a4": "arg_after_sse_regs",
       "a5": "arg_all_regs_used", "a6": "four_aggregate_args", "r": "ret", "r2": "arg_and_ret",
       "a7": "arg_after_5_int_regs_then_1_eightbyte_int_aggregate", "a8": "arg_after_7_sse_regs_then_1_eightbyte_sse_aggregate",
       "a9": "arg_after_spilled_2_eightbyte_int_aggregate", "a10": "arg_after_spilled_2_eightbyte_sse_aggregate",
       "a11": "arg_after_6_int_regs_then_sse_and_int_aggregates", "a12": "arg_after_8_sse_regs_then_int_and_sse_aggregates",
       "a13": "arg_after_long_double_and_4_int_regs", "a14": "arg_after_long_double_and_5_int_regs",
       "a15": "arg_after_stack_double_and_4_int_regs", "a16": "arg_after_stack_float_long_double_and_5_int_regs",
       "a17": "arg_after_long_double_and_6_sse_regs", "a18": "arg_after_long_double_and_7_sse_regs",
       "a19": "arg_after_stack_long_and_1_sse_reg"}
# defects of the argument bookkeeping that do not depend on engine or direction (both sides of c2m use the same code):
K_OVER_SSE = "abi:args:integer_class_aggregate_after_more_than_8_sse_scalars_sent_to_memory"
K_OVER_INT = "abi:args:sse_class_aggregate_after_more_than_6_integer_scalars_sent_to_memory"
K_ALIGN16 = "abi:args:16_byte_aligned_memory_aggregate_after_odd_number_of_stack_eightbytes_not_aligned"


def bookkeeping_key(r, n):
    """key of a known family if test n on shape r is one of its instances (decided from the spec's classes), else None"""
    cls = r["cls"]
    in_mem = cls == ["MEMORY"] or "X87" in cls
    ni, nx = cls.count("INTEGER"), cls.count("SSE")
    # a15: all SSE registers are taken, a19: all INTEGER registers are taken; one stack eightbyte (d9 / i7) precedes
    on_stack = in_mem or (n == "a15" and nx > 0) or (n == "a19" and ni > 0)
    if n in ("a15", "a19") and on_stack and r["al"] == 16:
        return K_ALIGN16
    if not in_mem and nx == 0 and ((n == "a15" and ni <= 2) or (n == "a16" and ni == 1)):
        return K_OVER_SSE           # nine SSE scalars before it, the integer registers it needs are free
    if not in_mem and ni == 0 and nx >= 1 and n == "a19":
        return K_OVER_INT           # seven integer scalars before it, xmm1.. are free
    return None
K_CLS = {"nc": "abi:classify:nested_aggregate_offset_ignored",
         "zc": "abi:classify:zero_width_bitfield_counts_as_integer"}


def cleanup_scratch(keep_own=False):
    import shutil
    for n in os.listdir(WORK) if os.path.isdir(WORK) else []:
        p_ = os.path.join(WORK, n)
        if n.startswith("run") and os.path.isdir(p_):
            own = p_ == RUN
            if (own and not keep_own) or (not own and time.time() - os.path.getmtime(p_) > 7200):
                shutil.rmtree(p_, ignore_errors=True)


def tlc_jobs(tier):
    jobs = []
    for name, cfg, nparts, sim, depth in TIERS[tier]["jobs"]:
        for part in range(nparts):
            kw_ = dict(module="CLayout", cfg=cfg, workers=4, env={"PART": part, "NPARTS": nparts}, heap="6g", timeout=1500)
            if sim:
                kw_.update(simulate=sim, depth=depth, seed_=vlib.seed() * 101 + part, env={})
            jobs.append((name, kw_))
    return jobs


def bv_keys(r, eng, test, v):
    """finding key of one failing by-value test"""
    # c2m against itself: the classes c2m works with (those of the deviation model where it deviates)
    cl = r.get("dcls", r["cls"]) if test == "c2mself" else r["cls"]
    cs = set(cl)
    cls = ("INT" if cs == {"INTEGER"} else "SSE" if cs == {"SSE"} else "MEM" if cs == {"MEMORY"} else "X87" if "X87" in cs
           else "INT_SSE" if cl == ["INTEGER", "SSE"] else "SSE_INT" if cl == ["SSE", "INTEGER"] else "_".join(cl))
    cls += "%d" % (1 if r["sz"] <= 8 else 2 if r["sz"] <= 16 else 3)          # one eightbyte / two / more
    if isinstance(v, str) and v.startswith("c2m fails"):
        return ["abi:%s:c2m_fails_on_unit:%s" % (ENG_TAG.get(eng, eng), cls)]
    if test == "c2mself":
        return ["abi:%s:c2m_to_c2m:%s:%s" % (ENG_TAG.get(eng, eng), POS[n], cls) for k, n in enumerate(TESTS)
                if not isinstance(v, int) or (v >> k) & 1]
    if test in ("gc", "gccself"):          # only as the last test announced before a crash
        if r["cdev"] and test == "gc":
            return [K_CLS[f] for f in sorted(r["cdev"])]
        return ["abi:%s:%s:crash:%s" % (ENG_TAG.get(eng, eng), "gcc_to_c2m" if test == "gc" else "gcc_to_gcc_called_from_c2m", cls)]
    d, n = test.split("_", 1)
    if bookkeeping_key(r, n):
        return [bookkeeping_key(r, n)]
    if r["cdev"]:
        return [K_CLS[f] for f in sorted(r["cdev"])]
    return ["abi:%s:%s:%s:%s" % (ENG_TAG.get(eng, eng), "c2m_to_gcc" if d == "cg" else "gcc_to_c2m", POS[n], cls)]


def _bv_units(c2m, jobs, tag, engines, seed_):
    """run by-value units; a unit on which c2m fails before any test is halved until the shape is alone"""
    with ThreadPoolExecutor(max_workers=NPAR) as ex:
        outs = list(ex.map(lambda j: run_byvalue_unit(c2m, j[0], j[1], tag, engines, seed_), jobs))
    done_jobs, done_outs = [], []
    budget = 60
    for (rs, base), (res, gres) in zip(jobs, outs):
        failing = [e for e in engines if "__fail__" in res[e]]
        if not failing:
            done_jobs.append((rs, base)); done_outs.append((res, gres))
            continue
        good = [e for e in engines if e not in failing]
        if good:
            done_jobs.append((rs, base)); done_outs.append(({e: res[e] for e in good}, gres))
        if len(rs) == 1 or budget <= 0:
            fake = {e: {(base + j, "cg_a1"): "c2m fails on the unit: " + res[e]["__fail__"] for j in range(len(rs))} for e in failing}
            done_jobs.append((rs, base)); done_outs.append((fake, {}))
            continue
        budget -= 2
        h = len(rs) // 2
        j2, o2 = _bv_units(c2m, [(rs[:h], base), (rs[h:], base + h)], tag + "h", failing, seed_)
        done_jobs += j2; done_outs += o2
    return done_jobs, done_outs


def judge_byvalue(c2m, shapes, tag, engines, seed_, stats, batch=40):
    """returns list of (shape index, engine, test, value) that failed twice"""
    jobs = [(shapes[b:b + batch], b) for b in range(0, len(shapes), batch)]
    jobs, outs = _bv_units(c2m, jobs, tag, engines, seed_)
    fails = collections.defaultdict(dict)           # shape -> {(eng, test): v}
    for (rs, base), (res, gres) in zip(jobs, outs):
        bad = [k for k, v in gres.items() if v != 0]
        if bad:
            raise MachineryError("the generated by-value program fails with gcc on both sides: %s" % bad[:5])
        for eng in res:
            for (i, t), v in res[eng].items():
                stats["tests"] += 1
                if v == "skipped":
                    stats["skipped"] += 1
                elif v != 0:
                    fails[i][(eng, t)] = v
    stats["first_pass_failing_shapes"] += len(fails)
    confirmed = []
    if fails:
        idx = sorted(fails)
        sub = [shapes[i] for i in idx]
        jobs = [(sub[b:b + 7], b) for b in range(0, len(sub), 7)]
        jobs, outs = _bv_units(c2m, jobs, tag + "r", engines, seed_ + 1)
        for (rs, base), (res, gres) in zip(jobs, outs):
            for eng in res:
                for (k, t), v in res[eng].items():
                    i = idx[k]
                    if v not in (0, "skipped") and (eng, t) in fails[i]:
                        confirmed.append((i, eng, t, v))
    return confirmed


def run(tier, mutate=None, only=None):
    ck = Check(PROP, tier, "model_checking")
    P = TIERS[tier]
    c2m = build_c2m()
    seed_ = vlib.seed()
    t0 = time.time()
    jobs = tlc_jobs(tier)
    if only:
        jobs = [j for j in jobs if j[0] in only]
    results = []
    with ThreadPoolExecutor(max_workers=P["tlc_par"]) as ex:
        futs = [(name, ex.submit(run_tlc, **kw_)) for name, kw_ in jobs]
        lst = LayoutStats()
        seen = set()
        groups = collections.defaultdict(dict)     # by-value shape groups
        probe_pool, static_pool = [], []
        states = trans = 0
        nfound = collections.Counter()
        rng = random.Random(seed_)
        for name, fut in futs:
            r = fut.result()
            tlc_ok(r, "CLayout " + name)
            if not r.outs:
                raise MachineryError("no declarations emitted by " + name)
            states += r.distinct
            trans += r.states
            rows = []
            for x in r.outs:
                h = hashlib.md5(json.dumps(x["d"], sort_keys=True).encode()).digest()[:10]
                if h not in seen:
                    seen.add(h)
                    rows.append(x)
            r.outs = None
            r.out = ""
            rows.sort(key=lambda x: json.dumps(x["d"], sort_keys=True))      # TLC's workers emit in no fixed order
            for x in rows[:50]:
                if py_paths(x["d"]) != [l["p"] for l in x["lv"]]:
                    raise MachineryError("member naming of the spec and of the renderer differ: %s" % decl_text(x["d"]))
            ck.add("decls_" + name, len(rows))
            if rows:
                ck.sample({"job": name, "decl": decl_text(rows[len(rows) // 2]["d"]),
                           "expected": {k: rows[len(rows) // 2][k] for k in ("sz", "al", "cls")}}, maxn=8)
            found = judge_layout(c2m, rows, name, P["layout_engines"], lst, mutate=mutate)
            for i, eng, keys, text in found:
                case = {"kind": "layout", "row": rows[i], "engine": eng}
                unknown = [k for k in keys if not ck.findings.is_known(PROP, k)]
                for k in (unknown[:1] or keys):
                    nfound[k] += 1
                    ck.violation(k, text, case)
            for x in rows:
                if not x["alts"]:
                    groups[(tuple(x["cls"]), tuple(sorted(x["cdev"])), x["sz"], leaf_kinds(x))].setdefault(leaf_sig(x), x)
            pool = [x for x in rows if x["sz"] <= 32]
            probe_pool += rng.sample(pool, min(len(pool), P["probe"] // len(jobs) + 1))
            pool = [x for x in rows if not x["alts"]]
            static_pool += rng.sample(pool, min(len(pool), P["static"] // len(jobs) + 1))
            vlib.log("  %s: %d states, %d new declarations, %d mismatches so far (TLC %.0fs, total %.0fs)"
                     % (name, r.distinct, len(rows), lst.confirmed, r.wall, time.time() - t0))
            rows = None
    # ---- by-value shapes
    shapes = []
    memk = sorted(k for k in groups if k[0] == ("MEMORY",) and k[2] > 16)
    keep = set(memk) if len(memk) <= P["mem_sizes"] else set(memk[:P["mem_sizes"] // 2]) | set(rng.sample(memk[P["mem_sizes"] // 2:], P["mem_sizes"] - P["mem_sizes"] // 2))
    for k in sorted(groups, key=lambda k: (k[2], k[0], k[1], k[3])):
        v = [groups[k][s] for s in sorted(groups[k])]
        rng.shuffle(v)
        if k in keep:
            shapes += v[:P["per_mem"]]
        elif not (k[0] == ("MEMORY",) and k[2] > 16):
            shapes += v[:P["per_group"]]
    bst = collections.Counter()
    t1 = time.time()
    conf = judge_byvalue(c2m, shapes, "bv", P["bv_engines"], seed_, bst)
    by_shape = collections.defaultdict(list)
    for i, eng, t, v in conf:
        by_shape[(i, eng)].append((t, v))
    for (i, eng), lst_ in sorted(by_shape.items()):
        r = shapes[i]
        for t, v in lst_:
            keys = bv_keys(r, eng, t, v)
            text = "%s (classes %s, size %d): %s under c2m %s: %s" % (
                decl_text(r["d"]), "/".join(r["cls"]), r["sz"], t,
                eng, ("mask of failing positions 0x%x" % v if t == "c2mself" else "%s member(s)/scalar(s) wrong" % v) if isinstance(v, int) else v)
            for k in keys:
                nfound[k] += 1
                ck.violation(k, text, {"kind": "byvalue", "row": r, "engine": eng, "seed": seed_, "test": t})
    vlib.log("  by-value: %d shapes of %d groups (%d distinct leaf signatures), %d tests, %d confirmed failures (%.0fs)"
             % (len(shapes), len(groups), sum(len(v) for v in groups.values()), bst["tests"], len(conf), time.time() - t1))
    # ---- classification of the spec against gcc (probe), on by-value shapes and a sample of all declarations
    t1 = time.time()
    pr = []
    pool = shapes + probe_pool
    with ThreadPoolExecutor(max_workers=NPAR) as ex:
        for res in ex.map(lambda b: run_class_probe(pool[b:b + 1500], "p%d" % b), range(0, len(pool), 1500)):
            pr += res
    cls_dis = [(r, e, g) for r, e, g, ok in pr if not ok]
    vlib.log("  classification probe: %d declarations, %d where gcc's argument placement differs from the spec's classes (%.0fs)"
             % (len(pr), len(cls_dis), time.time() - t1))
    # ---- static objects
    t1 = time.time()
    nst = nst_bad = st_dis = 0
    jobs2 = [(static_pool[b:b + BATCH], b) for b in range(0, len(static_pool), BATCH)]
    with ThreadPoolExecutor(max_workers=NPAR) as ex:
        outs = list(ex.map(lambda j: run_static_unit(c2m, j[0], j[1], "st"), jobs2))
    for (rs, base), (cs, gs, diag, fn) in zip(jobs2, outs):
        for j, r in enumerate(rs):
            for sc in ("g", "l"):
                k = "%s%d" % (sc, base + j)
                nst += 1
                if gs.get(k) != r["sz"]:
                    st_dis += 1
                    continue
                if k not in cs:
                    continue           # c2m emitted something else than one bss item: not judged here
                if cs[k] < r["sz"]:
                    nst_bad += 1
                    nfound[K_BSS] += 1
                    ck.violation(K_BSS, "%s: sizeof is %d (spec == gcc) but the uninitialised %s object gets `bss %d`"
                                 % (decl_text(r["d"]), r["sz"], "file-scope" if sc == "g" else "block-scope static", cs[k]),
                                 {"kind": "static", "row": r})
    vlib.log("  static objects: %d checked, %d smaller than sizeof (%.0fs)" % (nst, nst_bad, time.time() - t1))
    # ---- report
    nd = lst.spec_disagrees + len(cls_dis) + st_dis
    for s in lst.disagree_samples[:10]:
        vlib.log("SPEC-DISAGREES: " + s)
    for r, e, g in cls_dis[:10]:
        vlib.log("SPEC-DISAGREES: %s: spec classes %s (sources %s), gcc takes the bytes from %s" % (decl_text(r["d"]), r["cls"], e, g))
    vlib.log("  SPEC-DISAGREES total: %d (layout %d, classification %d, static size %d)" % (nd, lst.spec_disagrees, len(cls_dis), st_dis))
    for k, n in sorted(nfound.items()):
        vlib.log("  %6d x %s" % (n, k))
    ck.setc("states", states)
    ck.setc("transitions", trans)
    ck.setc("declarations", lst.decls)
    ck.setc("layout_units_run", lst.units)
    ck.setc("layout_mismatches_confirmed", lst.confirmed)
    ck.setc("byvalue_shapes", len(shapes))
    ck.setc("byvalue_shape_groups", len(groups))
    ck.setc("byvalue_tests", bst["tests"])
    ck.setc("byvalue_failures_confirmed", len(conf))
    ck.setc("class_probe_declarations", len(pr))
    ck.setc("static_objects", nst)
    ck.setc("spec_disagrees", nd)
    ck.setc("engines", {"layout": P["layout_engines"], "byvalue": P["bv_engines"]})
    ck.setc("traces_validated_against_impl", lst.decls + len(shapes))
    ck.setc("exhaustive", True)
    ck.setc("rule", "TLC enumerates struct/union declarations (CLayout.tla: BFS over the member-by-member construction, every complete "
                    "declaration emitted once; exhaustive for the vocabularies/bounds of the .cfg files, random walks over the full "
                    "vocabulary with nesting depth 2 beyond) with size, alignment, leaf offsets, bit-field position/width/sign and "
                    "eightbyte classes; each is printed by a generated unit under c2m and gcc; VIOLATION iff spec == gcc != c2m "
                    "(re-run once); by-value: representatives of every (classes, size, leaf signature) group are passed and returned "
                    "between c2m- and gcc-compiled code in both directions; the spec's classes are checked against gcc's actual argument "
                    "registers with an assembly trampoline")
    ck.setc("trusted_base", ["TLC 1.8", "gcc 12 (reference compiler)", "harness/py/c08.py rendering", "harness/c08_probe.S"])
    ck.assumptions += ["gcc 12 on x86-64 Linux is the platform ABI reference (incl. its treatment of zero-width bit-fields, GCC >= 12.1)",
                       "natural alignment only (no packed/aligned attributes, no #pragma pack)",
                       "plain char and plain int bit-fields are signed",
                       "by-value values: padding bytes and inactive union members are not compared"]
    rc = ck.finish()
    cleanup_scratch()
    return rc


# ----------------------------------------------------------------------------------------------- replay / selftest
def replay(path):
    d = json.load(open(path))
    case = d["case"]
    r = case["row"]
    c2m = build_c2m()
    print("declaration:", decl_text(r["d"]))
    if case["kind"] == "layout":
        engines = [case["engine"]]
        res, g, fn = run_layout_unit(c2m, [r], 0, "replay", engines, keep=True)
        e = expected_obs(r)
        print("translation unit:", fn)
        print("spec :", e)
        print("gcc  :", g[0].get(0) if g[1] else g[2])
        bad = False
        for eng in engines:
            o, ok, diag = res[eng]
            print("c2m %s:" % eng, o.get(0) if ok else diag)
            if g[1] and g[0].get(0) == e and (not ok or o.get(0) != e):
                bad = True
                print("  -> " + obs_diff(e, o.get(0)) + "; keys " + ", ".join(layout_keys(r, o.get(0))))
    elif case["kind"] == "byvalue":
        st = collections.Counter()
        conf = judge_byvalue(c2m, [r], "replay", [case["engine"]], case.get("seed", 1), st, batch=1)
        for i, eng, t, v in conf:
            print("c2m %s: %s -> %s  keys %s" % (eng, t, v, ", ".join(bv_keys(r, eng, t, v))))
        print("sources:", os.path.join(RUN, "bv", "replay_0_main.c"), os.path.join(RUN, "bv", "replay_0_lib.c"))
        bad = bool(conf)
    else:
        cs, gs, diag, fn = run_static_unit(c2m, [r], 0, "replay")
        print("unit:", fn, "sizeof (spec):", r["sz"], "gcc object sizes:", gs, "c2m bss sizes:", cs)
        bad = any(gs.get(k) == r["sz"] and v < r["sz"] for k, v in cs.items())
    if bad:
        print("replay: still failing")
        print("VIOLATION property=%s replay=%s" % (PROP, path))
        return 1
    print("replay: passes")
    return 0


def selftest():
    """Binding demonstration: (1) a corrupted expected value is noticed, and as spec != gcc it is a SPEC-DISAGREES, not a
    violation; (2) a c2m whose output deviates for one declaration is a violation for exactly that declaration;
    (3) a c2m-compiled callee that misreads one aggregate is reported by the by-value part."""
    import copy, stat
    c2m = build_c2m()
    r = run_tlc("CLayout", "CLayout_mc2.cfg", workers=4)
    tlc_ok(r, "CLayout_mc2")
    rows = sorted((x for x in r.outs if not x["alts"]), key=lambda x: json.dumps(x["d"], sort_keys=True))[:400]
    bad = 0
    # (1)
    rows1 = copy.deepcopy(rows)
    rows1[7]["sz"] += rows1[7]["al"]
    st = LayoutStats()
    found = judge_layout(c2m, rows1, "self1", ["-ei"], st)
    ok = st.spec_disagrees == 1 and not found
    print("selftest 1 (expected size corrupted): %s" % ("counted as SPEC-DISAGREES, no violation" if ok else "NOT handled: %s %s" % (vars(st), found[:2])))
    bad += not ok
    # (2) a wrapper around c2m that reports size 13 for every declaration of size 12
    os.makedirs(RUN, exist_ok=True)
    wrap = os.path.join(RUN, "c2m-liar.sh")
    with open(wrap, "w") as f:
        f.write("#!/bin/sh\n%s \"$@\" | sed -E 's/^D ([0-9]+) 12 /D \\1 13 /'\n" % c2m)
    os.chmod(wrap, os.stat(wrap).st_mode | stat.S_IEXEC)
    st = LayoutStats()
    found = judge_layout(wrap, rows, "self2", ["-ei"], st)
    want = [i for i, x in enumerate(rows) if x["sz"] == 12]
    ok = want and sorted(i for i, eng, keys, text in found) == want and st.spec_disagrees == 0
    print("selftest 2 (c2m output falsified for the %d declarations of size 12): %s"
          % (len(want), "exactly those reported, e.g. " + found[0][3][:150] if ok else "NOT detected: %s" % found[:3]))
    bad += not ok
    # (3)
    global _SELFTEST_LIE
    shapes = [x for x in rows if x["sz"] in (8, 12, 16) and not x["cdev"]][:6]
    target = json.dumps(shapes[2]["d"], sort_keys=True)
    _SELFTEST_LIE = lambda x: json.dumps(x["d"], sort_keys=True) == target
    try:
        conf = judge_byvalue(c2m, shapes, "self3", ["-eg -O2"], 1, collections.Counter())
    finally:
        _SELFTEST_LIE = None
    # instances of the argument-bookkeeping families (genuine findings of the unchanged tree) are not what is tested here
    hit = sorted(set((i, t) for i, eng, t, v in conf if "_" not in t or not bookkeeping_key(shapes[i], t.split("_", 1)[1])))
    ok = (2, "gc_a1") in hit and all(i == 2 for i, t in hit)
    print("selftest 3 (c2m-compiled callee misreads its aggregate argument, %s): %s"
          % (decl_text(shapes[2]["d"]), "reported: %s" % hit if ok else "NOT detected: %s" % conf[:5]))
    bad += not ok
    cleanup_scratch()
    return 1 if bad else 0
