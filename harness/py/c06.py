"""C06: MIR functions are correct C-ABI callees and preserve the caller's machine state.

Direction A + B.  The signatures are the prototypes TLC derives from spec/SysVABI.tla (every transition of the
placement machine, `...` variants, every legal result list, random long signatures).  For each signature a MIR
function from a small body family (leaf / high register pressure / calls / alloca+calls / variadic consumer)
records every parameter it observes and returns a position-sensitive checksum in every result slot.  An assembly
trampoline (harness/c06_tramp.S) places the arguments according to the spec, fills callee-saved registers with
sentinels, sets non-default MXCSR / x87 control words and calls the function through its public address under the
interpreter shim, generated code -O0..-O3 and the lazy-generation thunk.  The recorded Call/Obs/Ret events are
validated by spec/TraceABI.tla, which recomputes every expectation from the raw machine image."""
import json, os, random, struct, subprocess, sys, time, copy
import vlib, c05
from vlib import Check, MachineryError
from c05 import BLK_T, defbytes, neight, rnd_f64, case_label

PROP = "C06"
ENG_NAME = {"i": "interp-shim", "0": "gen-O0", "1": "gen-O1", "2": "gen-O2", "3": "gen-O3", "L": "lazy-gen(first call)", "l": "lazy-gen(second call)"}
TIERS = {"quick": {"engines": "i 2 L", "bodies": 1, "stride": 1, "res_stride": 3, "sim_stride": 1},
         "thorough": {"engines": "i 0 1 2 3 M", "bodies": 2, "stride": 1, "res_stride": 1, "sim_stride": 2}}
M32 = 281470681808895          # 0x0000FFFF0000FFFF
NLIVE_I, NLIVE_D = 20, 8
ASZ = [1, 8, 24, 100, 1000, 4104, 16, 40]
MXCSR = 0xBF80                 # FTZ, round down, all exceptions masked (default 0x1F80)
X87CW = 0x077F                 # round down, extended precision, all masked (default 0x037F)
INNER = [0x555555555555557F, 1007]   # c06_clobber(42), g(1000)


def limbs(b):
    v = int.from_bytes(b, "little")
    return [(v >> (16 * k)) & 0xffff for k in range((len(b) + 1) // 2)]


# ------------------------------------------------------------------ MIR text of the function under test

def param_decl(a, i):
    t = a["t"]
    if t in BLK_T or t == "rblk":
        return "%s:%d(a%d)" % ("blk" if t == "blk0" else t, a["n"], i)
    return "%s:a%d" % (t, i)


class Body:
    def __init__(self):
        self.L = []
        self.w = 0          # words accumulated so far (weight = index)

    def acc(self, t):
        self.w += 1
        self.L += ["and e, %s, %d" % (t, M32), "ursh o, %s, 16" % t, "and o, o, %d" % M32,
                   "mul e, e, %d" % self.w, "add sE, sE, e", "mul o, o, %d" % self.w, "add sO, sO, o"]

    def record(self, t, off):
        self.L.append("mov i64:%d(ob), %s" % (off, t))
        self.acc(t)


def observe(B, a, src, off, via_addr):
    """emit code recording the words of one argument. src: register holding the value (scalar parameter) or the
    address (block parameter / va_arg result when via_addr)."""
    t = a["t"]
    SCR = 5120
    if via_addr:                               # src is the address of the argument in memory
        if t == "ld":
            B.L.append("mov t, i64:(%s)" % src); B.record("t", off)
            B.L.append("mov t, u16:8(%s)" % src); B.record("t", off + 8)
            return 2
        if t in BLK_T:
            nb = a["n"]
            for j in range(neight(a)):
                B.L.append("mov t, i64:%d(%s)" % (8 * j, src))
                k = min(8, nb - 8 * j)
                if k < 8:
                    B.L.append("and t, t, %d" % ((1 << (8 * k)) - 1))
                B.record("t", off + 8 * j)
            return neight(a)
        B.L.append("mov t, i64:(%s)" % src); B.record("t", off)      # i64 / d read as a bit pattern
        return 1
    if t == "f":
        B.L += ["fmov f:%d(ob), %s" % (SCR, src), "mov t, u32:%d(ob)" % SCR]; B.record("t", off); return 1
    if t == "d":
        B.L += ["dmov d:%d(ob), %s" % (SCR, src), "mov t, i64:%d(ob)" % SCR]; B.record("t", off); return 1
    if t == "ld":
        B.L += ["mov i64:%d(ob), 0" % (SCR + 8), "ldmov ld:%d(ob), %s" % (SCR, src), "mov t, i64:%d(ob)" % SCR]
        B.record("t", off)
        B.L.append("mov t, u16:%d(ob)" % (SCR + 8)); B.record("t", off + 8)
        return 2
    B.record(src, off)
    return 1


def func_text(case, cid, body, restypes, asz):
    """MIR module with f<cid> (function under test) and g<cid> (a MIR callee that itself calls native code)"""
    args = case["args"]
    nfix = case["nfix"] if case["nfix"] >= 0 else len(args)
    fixed, tail = args[:nfix], args[nfix:]
    hdr = list(restypes) + [param_decl(a, i) for i, a in enumerate(fixed)] + (["..."] if case["nfix"] >= 0 else [])
    L = ["m%s: module" % cid, "pc%s: proto i64, i64:x" % cid, "pg%s: proto i64, i64:x" % cid,
         "import c06_obs, c06_clobber",
         "g%s: func i64, i64:x" % cid, "local i64:r, i64:t", "call pc%s, c06_clobber, t, x" % cid, "add r, x, 7", "ret r", "endfunc",
         "f%s: func %s" % (cid, ", ".join(hdr))]
    loc = ["i64:ob", "i64:t", "i64:e", "i64:o", "i64:sE", "i64:sO", "i64:S", "i64:t1", "i64:t2", "i64:ic", "i64:ig",
           "i64:va", "i64:ap", "i64:bb", "i64:p1", "i64:p2"]
    live = body in ("press", "calls", "vacalls", "alloca")
    if live:
        loc += ["i64:k%d" % i for i in range(NLIVE_I)] + ["d:q%d" % i for i in range(NLIVE_D)]
    B = Body()
    B.L += ["mov ob, c06_obs", "mov sE, 0", "mov sO, 0"]
    if live:
        B.L += ["mov k%d, i64:%d(ob)" % (i, 4096 + 8 * i) for i in range(NLIVE_I)]
        B.L += ["dmov q%d, d:%d(ob)" % (i, 4096 + 8 * (NLIVE_I + i)) for i in range(NLIVE_D)]
    # parameters
    wi = 0
    for i, a in enumerate(fixed):
        wi += observe(B, a, "a%d" % i, 8 * wi, a["t"] in BLK_T)
    npw = wi
    inner = "call pc%s, c06_clobber, ic, 42" % cid
    if body in ("calls", "vacalls"):
        B.L += [inner, "call pg%s, g%s, ig, 1000" % (cid, cid)]
    if body == "alloca":
        for k, (p, sz) in enumerate((("p1", asz[0]), ("p2", asz[1]))):
            B.L.append("alloca %s, %d" % (p, sz))
            B.L.append(("mov i64:0(%s), k%d" if sz >= 8 else "mov u8:0(%s), k%d") % (p, k))
            if sz >= 16:
                B.L.append("mov i64:%d(%s), k%d" % ((sz - 8) // 8 * 8, p, k))
            B.L.append(inner)
            if k == 0:
                B.L.append("call pg%s, g%s, ig, 1000" % (cid, cid))
        for k, (p, sz) in enumerate((("p1", asz[0]), ("p2", asz[1]))):
            o = 4608 + 24 * k
            B.L.append("mov i64:%d(ob), %s" % (o, p))
            B.L += [("mov t, i64:0(%s)" if sz >= 8 else "mov t, u8:0(%s)") % p, "mov i64:%d(ob), t" % (o + 8)]
            if sz >= 16:
                B.L += ["mov t, i64:%d(%s)" % ((sz - 8) // 8 * 8, p), "mov i64:%d(ob), t" % (o + 16)]
    # variadic tail
    vw = 0
    if body in ("va", "vacalls"):
        B.L += ["alloca va, 32", "va_start va"]
        for a in tail:
            t = a["t"]
            if t in BLK_T:
                B.L += ["add bb, ob, 5632"] + ["mov i64:%d(bb), 0" % (8 * j) for j in range(neight(a) + 1)]
                B.L.append("va_block_arg bb, va, %d, %d" % (a["n"], int(t[3])))
                vw += observe(B, a, "bb", 2048 + 8 * vw, True)
            else:
                B.L.append("va_arg ap, va, %s:0" % t)
                vw += observe(B, a, "ap", 2048 + 8 * vw, True)
            if body == "vacalls":
                B.L.append(inner)
        B.L.append("va_end va")
    if live:
        B.L += ["mov i64:%d(ob), k%d" % (4352 + 8 * i, i) for i in range(NLIVE_I)]
        B.L += ["dmov d:%d(ob), q%d" % (4352 + 8 * (NLIVE_I + i), i) for i in range(NLIVE_D)]
    if body in ("calls", "vacalls", "alloca"):
        B.L += ["mov i64:%d(ob), ic" % (4352 + 8 * (NLIVE_I + NLIVE_D)), "mov i64:%d(ob), ig" % (4352 + 8 * (NLIVE_I + NLIVE_D + 1))]
    # checksum and results
    B.L += ["and sE, sE, %d" % M32, "and sO, sO, %d" % M32, "lsh sO, sO, 16", "or S, sE, sO"]
    SCR = 5120
    rops = []
    for j, t in enumerate(restypes):
        rot = 16 * (j % 4)
        if rot:
            B.L += ["lsh t1, S, %d" % rot, "ursh t2, S, %d" % (64 - rot), "or t1, t1, t2"]
        else:
            B.L.append("mov t1, S")
        if t == "f":
            loc.append("f:r%d" % j)
            B.L += ["and t1, t1, 8388607", "or t1, t1, 1065353216", "mov u32:%d(ob), t1" % SCR, "fmov r%d, f:%d(ob)" % (j, SCR)]
        elif t == "d":
            loc.append("d:r%d" % j)
            B.L += ["and t1, t1, 4503599627370495", "or t1, t1, 4607182418800017408", "mov i64:%d(ob), t1" % SCR, "dmov r%d, d:%d(ob)" % (j, SCR)]
        elif t == "ld":
            loc.append("ld:r%d" % j)
            B.L += ["or t1, t1, -9223372036854775808", "mov i64:%d(ob), t1" % SCR, "mov u16:%d(ob), 16383" % (SCR + 8), "ldmov r%d, ld:%d(ob)" % (j, SCR)]
        else:
            loc.append("i64:r%d" % j)
            B.L.append("mov r%d, t1" % j)
        rops.append("r%d" % j)
    B.L.append("ret " + ", ".join(rops) if rops else "ret")
    L.append("local " + ", ".join(loc))
    L += B.L
    L += ["endfunc", "endmodule"]
    return "\n".join(L) + "\n", npw, vw


# ------------------------------------------------------------------ the native caller's image

def build_image(case, vals, rng, al=None):
    """c06_in (first 320 bytes) and the stack eightbytes: arguments at the locations the spec emitted, every
    byte the ABI leaves undefined filled with junk"""
    gpr = [rng.getrandbits(64).to_bytes(8, "little") for _ in range(6)]
    xmm = [rng.getrandbits(128).to_bytes(16, "little") for _ in range(8)]
    nstk = case["stack"] // 8 + 2
    if nstk % 2:
        nstk += 1
    stk = [rng.getrandbits(64).to_bytes(8, "little") for _ in range(nstk)]
    for a, v in zip(case["args"], vals):
        nd = defbytes(a)
        for j, loc in enumerate(a["locs"]):
            k = min(8, nd - 8 * j)
            if k <= 0:
                continue
            piece = v[8 * j:8 * j + k]
            if loc["c"] == "gpr":
                gpr[loc["i"]] = piece + gpr[loc["i"]][k:]
            elif loc["c"] == "xmm":
                xmm[loc["i"]] = piece + xmm[loc["i"]][k:]
            else:
                w = loc["i"] // 8
                stk[w] = piece + stk[w][k:]
    if al is None:
        al = rng.randrange(case["almin"], case["almax"] + 1) if case["nfix"] >= 0 else rng.getrandbits(8)
    rax = (rng.getrandbits(56) << 8) | al
    sent = [rng.getrandbits(64).to_bytes(8, "little") for _ in range(6)]
    img = b"".join(gpr) + rax.to_bytes(8, "little") + bytes(8) + b"".join(xmm) + b"".join(sent)
    img += struct.pack("<QQ", MXCSR, X87CW)
    return img, gpr, xmm, stk, sent, al


def seeds_for(rng):
    s = [rng.getrandbits(64).to_bytes(8, "little") for _ in range(NLIVE_I)]
    s += [rnd_f64(rng).to_bytes(8, "little") for _ in range(NLIVE_D)]
    return s


# ------------------------------------------------------------------ jobs

BODIES_FIX = ("leaf", "press", "calls", "alloca")
BODIES_VA = ("va", "vacalls")


def plan(cases, tier, rng0):
    """[(jid, case, body, restypes, asz, vals, image...)]"""
    T = TIERS[tier]
    reslists = [[r["t"] for r in c["res"]] for c in cases if c["tag"] == "res"] or [[]]
    jobs = []
    for ci, c in enumerate(cases):
        rng = random.Random(rng0.getrandbits(64))
        if ci % T["stride"]:
            continue
        if c["tag"] == "res" and (ci // 1) % T["res_stride"]:
            continue        # quick tier: every res_stride-th result list (all of them in the thorough tier and in C05)
        if c["tag"] == "sim" and ci % T["sim_stride"]:
            continue
        if c["nfix"] == 0:
            continue        # MIR defines no variadic *function* without a named parameter (soundness rule 1)
        restypes = [r["t"] for r in c["res"]] if c["tag"] in ("res", "sim") else reslists[(ci * 7) % len(reslists)]
        kinds = BODIES_VA if c["nfix"] >= 0 else BODIES_FIX
        for b in range(T["bodies"]):
            body = kinds[(ci + b) % len(kinds)] if T["bodies"] < len(kinds) else kinds[b % len(kinds)]
            asz = [ASZ[(ci // 4) % len(ASZ)], ASZ[(ci // 4 + 3) % len(ASZ)]]
            vals = [v if a["t"] != "f" else v[:4] + rng.getrandbits(32).to_bytes(4, "little") for a, v in
                    zip(c["args"], c05.arg_values(c, rng))]
            img = build_image(c, vals, rng)
            seeds = seeds_for(rng)
            jobs.append({"jid": "%d%s" % (ci, body[0] + body[-1]), "ci": ci, "case": c, "body": body, "res": restypes, "asz": asz,
                         "vals": vals, "img": img, "seeds": seeds})
    return jobs


def write_input(path, jobs, engines):
    with open(path, "w") as f:
        for j in jobs:
            text, npw, nvw = func_text(j["case"], j["jid"], j["body"], j["res"], j["asz"])
            j["npw"], j["nvw"] = npw, nvw
            img, gpr, xmm, stk, sent, al = j["img"]
            nst = sum(1 for t in j["res"] if t == "ld")
            head = bytearray(img + bytes(320 - len(img)))
            head[256:264] = struct.pack("<Q", nst)
            head[264:272] = struct.pack("<Q", len(stk))
            f.write("C %s\nT %d\n%s" % (j["jid"], text.count("\n"), text))
            f.write("F f%s\nI %s\nS %s\nD %s\nP %d %d %d %d\nE %s\nX\n" % (j["jid"], bytes(head).hex(), b"".join(stk).hex(),
                                                                    b"".join(j["seeds"]).hex(), npw, nvw, NLIVE_I + NLIVE_D + 2, 6,
                                                                    j.get("engs") or engines))


def build_harness():
    d, objs, cc, flags = vlib.build_lib("plain", units=("mir.c", "mir-gen.c"))
    exe = os.path.join(d, "c06_harness")
    srcs = [os.path.join(vlib.HARNESS, "c06_harness.c"), os.path.join(vlib.HARNESS, "c06_tramp.S")]
    stamp = vlib.tree_hash(srcs)
    sf = exe + ".stamp"
    if not (os.path.exists(exe) and os.path.exists(sf) and open(sf).read() == stamp):
        vlib.cc_link(cc, flags, srcs, objs, exe)
        open(sf, "w").write(stamp)
    return exe


def run_harness(exe, inp, njobs, timeout=1500):
    res, first = {}, 0
    while first < njobs:
        p = subprocess.run([exe, inp, str(first)], stdout=subprocess.PIPE, stderr=subprocess.PIPE, timeout=timeout)
        lines = p.stdout.decode("utf-8", "replace").splitlines()
        done, last_begin, order, seen = None, None, [], set()
        for ln in lines:
            w = ln.split(" ")
            if w[0] == "BEGIN":
                last_begin = (w[1], w[2])
                if w[1] not in seen:
                    seen.add(w[1]); order.append(w[1])
            elif w[0] == "R" and len(w) >= 6:
                res[(w[1], w[2])] = ("R", w[3], w[4], w[5])
            elif w[0] == "ERR":
                res[(w[1], w[2])] = ("ERR", " ".join(w[3:]))
            elif w[0] == "CRASH":
                res[(w[1], w[2])] = ("CRASH", w[3])
            elif w[0] == "DONE":
                done = int(w[1])
        if done is not None and p.returncode == 0:
            break
        if last_begin is None:
            raise MachineryError("c06 harness died before the first case (rc=%s): %s" % (p.returncode, p.stderr.decode()[-1500:]))
        if last_begin not in res:
            res[last_begin] = ("CRASH", "rc=%s" % p.returncode)
        first += len(order)
    return res


def chunked_run(exe, jobs, engines, workdir, nproc=4):
    from concurrent.futures import ThreadPoolExecutor
    parts = [p for p in (jobs[i::nproc] for i in range(nproc)) if p]
    def one(ix):
        inp = os.path.join(workdir, "in%d.txt" % ix)
        write_input(inp, parts[ix], engines)
        return run_harness(exe, inp, len(parts[ix]))
    out = {}
    with ThreadPoolExecutor(max_workers=nproc) as ex:
        for r in ex.map(one, range(len(parts))):
            out.update(r)
    return out


# ------------------------------------------------------------------ events

def s64(v):
    return v - (1 << 64) if v >> 63 else v


def events(j, eng, r):
    """Call / Obs / Ret records of one execution (format conversion only: hex -> 16-bit limbs)"""
    c = j["case"]
    img, gpr, xmm, stk, sent, al = j["img"]
    out = bytes.fromhex(r[1]); obs = bytes.fromhex(r[2]); aux = bytes.fromhex(r[3])
    W = lambda b: limbs(b)
    nl = NLIVE_I + NLIVE_D
    call = {"e": "Call", "id": j["jid"], "eng": eng, "body": j["body"], "sig": [{"t": a["t"], "n": a["n"]} for a in c["args"]],
            "nfix": c["nfix"], "res": j["res"], "gpr": [W(x) for x in gpr], "xmm": [W(x[:8]) for x in xmm], "stk": [W(x) for x in stk],
            "al": al, "cs": [x.hex() for x in sent], "mxcsr": MXCSR, "cw": X87CW, "seeds": [W(x) for x in j["seeds"]],
            "asz": j["asz"], "inner": [W(x.to_bytes(8, "little")) for x in INNER],
            "nclob": {"calls": 2, "alloca": 3, "vacalls": 2 + max(0, len(c["args"]) - c["nfix"])}.get(j["body"], 0)}
    o = 0
    words = [W(obs[o + 8 * k:o + 8 * k + 8]) for k in range(j["npw"])]; o += 8 * j["npw"]
    va = [W(obs[o + 8 * k:o + 8 * k + 8]) for k in range(j["nvw"])]; o += 8 * j["nvw"]
    live = [W(obs[o + 8 * k:o + 8 * k + 8]) for k in range(nl)]; o += 8 * nl
    inner = [W(obs[o + 8 * k:o + 8 * k + 8]) for k in range(2)]; o += 16
    rsp_before = int.from_bytes(out[96:104], "little")
    al_ = []
    for k in range(2):
        p = int.from_bytes(obs[o:o + 8], "little")
        below = rsp_before - p
        al_.append({"m16": p % 16, "below": below if 0 <= below < (1 << 30) else -1, "rb0": W(obs[o + 8:o + 16]), "rb1": W(obs[o + 16:o + 24])})
        o += 24
    ob = {"e": "Obs", "words": words, "va": va, "live": live, "inner": inner, "alloca": al_,
          "nclob": int.from_bytes(aux[0:8], "little"), "calign": int.from_bytes(aux[8:16], "little"),
          "cx87": int.from_bytes(aux[16:24], "little"), "cdf": int.from_bytes(aux[24:32], "little")}
    tag = int.from_bytes(out[136:144], "little")
    drsp = s64((int.from_bytes(out[104:112], "little") - rsp_before) % (1 << 64))
    ret = {"e": "Ret", "rax": W(out[0:8]), "rdx": W(out[8:16]), "xmm0": W(out[16:24]), "xmm1": W(out[32:40]),
           "st0": W(out[160:170]), "st1": W(out[176:186]), "cs": [out[48 + 8 * k:56 + 8 * k].hex() for k in range(6)],
           "drsp": drsp if abs(drsp) < (1 << 30) else (1 << 30), "mxcsr": int.from_bytes(out[112:116], "little"),
           "cw": int.from_bytes(out[120:122], "little"), "df": 1 if int.from_bytes(out[128:136], "little") & 0x400 else 0,
           "x87n": sum(1 for k in range(8) if (tag >> (2 * k)) & 3 != 3)}
    return [call, ob, ret]


def validate(evs, workdir, nchunks=6):
    """run TraceABI over the events (split at Call boundaries); returns {(id, eng): [fail records]}"""
    triples = [evs[k:k + 3] for k in range(0, len(evs), 3)]
    if not triples:
        return {}, 0
    if len(triples) > 60000:
        nchunks = max(nchunks, min(8, vlib.NCPU // 2))
    per = (len(triples) + nchunks - 1) // nchunks
    jobs = []
    for k in range(0, len(triples), per):
        path = os.path.join(workdir, "trace%d.ndjson" % (k // per))
        with open(path, "w") as f:
            for t in triples[k:k + per]:
                for e in t:
                    f.write(json.dumps(e) + "\n")
        jobs.append(dict(module="TraceABI", cfg="TraceABI.cfg", workers=1, env={"TRACE": path}, heap="2g", timeout=1500))
    rs = vlib.parallel_tlc(jobs, maxpar=nchunks)
    fails, nst = {}, 0
    for r in rs:
        if r.rc != 0:
            tail = "\n".join(l for l in r.out.splitlines() if '"OUT' not in l)[-2500:]
            raise MachineryError("TraceABI did not consume its trace (rc=%s):\n%s" % (r.rc, tail))
        nst += r.distinct
        for o in r.outs:
            fails.setdefault((o["id"], o["eng"]), []).extend(o["fails"])
    return fails, nst


# ------------------------------------------------------------------ finding keys

def eng_class(eng):
    return "shim" if eng == "i" else ("lazy" if eng in "Ll" else "gen")


def fail_key(j, eng, f):
    """stable key of one failed TraceABI check"""
    k = f["k"]
    pre = eng_class(eng)
    if k in ("param", "va"):
        return "%s:%s:%s" % (pre, k, f["t"])
    if k == "result":
        return "%s:result:%s" % (pre, f["t"])
    if k == "callee_saved":
        return "%s:callee_saved:%s" % (pre, f["t"])
    return "%s:%s" % (pre, k)


def fail_text(j, eng, f):
    hx = lambda w: "".join("%04x" % x for x in reversed(w)) if isinstance(w, list) and w and all(isinstance(x, int) for x in w) else str(w)
    return "%s body=%s: %s[%s] %s expected %s got %s" % (ENG_NAME[eng], j["body"], f["k"], f["a"], f["t"], hx(f["exp"]), hx(f["got"]))


def execute(jobs, engines, ck, workdir, mutate=None, exe=None):
    exe = exe or build_harness()
    t0 = time.time()
    res = chunked_run(exe, jobs, engines, workdir)
    t1 = time.time()
    engs = []
    for e in engines.split():
        engs += ["L", "l"] if e == "M" else [e]
    evs, index, nexec = [], {}, 0
    hard = []
    for j in jobs:
        for eng in engs:
            r = res.get((j["jid"], eng))
            if r is None:
                if eng == "l" and res.get((j["jid"], "L"), ("",))[0] in ("ERR", "CRASH"):
                    continue
                continue
            nexec += 1
            if r[0] == "ERR":
                hard.append((j, eng, "%s:mir_error" % eng_class(eng), "MIR reported an error for a legal function: %s" % r[1]))
            elif r[0] == "CRASH":
                hard.append((j, eng, "%s:crash" % eng_class(eng), "crash (signal %s) while the native caller ran the function" % r[1]))
            else:
                e3 = events(j, eng, r)
                if mutate:
                    e3 = mutate(j, eng, e3)
                evs += e3
                index[(j["jid"], eng)] = j
    fails, nst = validate(evs, workdir)
    vlib.log("  c06: %d executions in %.1fs, %d events validated by TraceABI in %.1fs" % (nexec, t1 - t0, len(evs), time.time() - t1))
    return nexec, nst, len(evs), fails, index, hard


def sig_label(j):
    return "%s %s" % (case_label(dict(j["case"], res=[{"t": t} for t in j["res"]])), j["body"])


def report(ck, fails, index, hard, cured):
    for (jid, eng), fl in sorted(fails.items()):
        j = index[(jid, eng)]
        keys = {}
        for f in fl:
            keys.setdefault(fail_key(j, eng, f), f)
        if (jid, eng) in cured:
            f = fl[0]
            ck.violation(cured[(jid, eng)], "%s  %s [%d failed checks, all cured by the proposed repair series up to %s]"
                         % (sig_label(j), fail_text(j, eng, f), len(fl), cured[(jid, eng)]), replay_rec(j, eng))
            continue
        for key, f in keys.items():
            ck.violation(key, "%s  %s" % (sig_label(j), fail_text(j, eng, f)), replay_rec(j, eng))
    for j, eng, key, txt in hard:
        k = cured.get((j["jid"], eng), key)
        ck.violation(k, "%s  %s: %s%s" % (sig_label(j), ENG_NAME[eng], txt, " [cured by the proposed repair]" if k != key else ""), replay_rec(j, eng))


def replay_rec(j, eng):
    return {"case": j["case"], "body": j["body"], "res": j["res"], "asz": j["asz"], "engine": eng, "jid": j["jid"],
            "vals": [v.hex() for v in j["vals"]], "img": [j["img"][0].hex(), [x.hex() for x in j["img"][1]], [x.hex() for x in j["img"][2]],
                                                         [x.hex() for x in j["img"][3]], [x.hex() for x in j["img"][4]], j["img"][5]],
            "seeds": [x.hex() for x in j["seeds"]]}


def job_from_rec(rec):
    im = rec["img"]
    return {"jid": rec["jid"], "ci": 0, "case": rec["case"], "body": rec["body"], "res": rec["res"], "asz": rec["asz"],
            "vals": [bytes.fromhex(v) for v in rec["vals"]],
            "img": (bytes.fromhex(im[0]), [bytes.fromhex(x) for x in im[1]], [bytes.fromhex(x) for x in im[2]],
                    [bytes.fromhex(x) for x in im[3]], [bytes.fromhex(x) for x in im[4]], im[5]),
            "seeds": [bytes.fromhex(x) for x in rec["seeds"]]}


# ------------------------------------------------------------------ attribution of failures to listed findings
# A failure is keyed as a listed finding only if the proposed minimal repair of that finding cures it: the failing
# executions are re-run, with identical inputs, on copies of the tree under test to which the repairs in
# findings/proposed/ have been applied (a series, each step adding one repair).  The key is the repair that first
# makes the execution pass.  Everything the repairs do not cure keeps its raw key and alarms.  When a repair does
# not apply to the tree under test (any more), it is skipped and nothing is attributed to it.
FIX_SERIES = [("callee:va_block_arg_sse", "C06-va-block-arg-sse.diff"),
              ("callee:ld_stack_unaligned", "C05-ld-stack-align.diff"),
              ("callee:gen_va_start", "C06-gen-va-start.diff"),          # (edits the loop the previous repair touches)
              ("callee:gvn_va_block_arg", "C06-gvn-va-block-arg.diff")]


def patched_harnesses():
    """[(key, harness exe)] for the prefixes of FIX_SERIES that apply and build; built in parallel subprocesses"""
    import glob, shutil
    files = [f for f in glob.glob(os.path.join(vlib.REPO, "*.c")) + glob.glob(os.path.join(vlib.REPO, "*.h"))]
    pdir = os.path.join(vlib.VERIF, "findings", "proposed")
    patches = [os.path.join(pdir, p) for _, p in FIX_SERIES]
    th = vlib.tree_hash(files + [p for p in patches if os.path.exists(p)])
    dirs, prev, applied = [], None, []
    for k, (key, pf) in enumerate(FIX_SERIES):
        path = os.path.join(pdir, pf)
        if not os.path.exists(path):
            continue
        applied = applied + [pf]
        d = os.path.join(vlib.OUT, "build", "c06fix-%s-%s" % (th, vlib.tree_hash(applied)[:8]))   # (hash of the patch *names* applied so far)
        if not os.path.exists(os.path.join(d, ".ok")):
            shutil.rmtree(d, ignore_errors=True)
            os.makedirs(d)
            for f in (files if prev is None else glob.glob(os.path.join(prev, "*.[ch]"))):
                shutil.copy(f, d)
            rc, o, e = vlib.sh("patch -p1 -s -f -d %s < %s" % (d, path), timeout=60)
            if rc != 0:
                # e.g. the repair has been committed to the tree under test already: nothing is attributed to it
                vlib.log("  c06: proposed repair %s does not apply to the tree under test; skipped" % pf)
                shutil.rmtree(d, ignore_errors=True)
                applied = applied[:-1]
                continue
            open(os.path.join(d, ".ok"), "w").write("ok")
        dirs.append((key, d))
        prev = d
    procs = []
    for key, d in dirs:
        env = dict(os.environ, VERIF_REPO=d)
        procs.append((key, subprocess.Popen([sys.executable, "-c", "import sys; sys.path.insert(0, %r); import c06; print('EXE=' + c06.build_harness())"
                                             % os.path.join(vlib.HARNESS, "py")], env=env, stdout=subprocess.PIPE, stderr=subprocess.STDOUT)))
    out = []
    for key, p in procs:
        o, _ = p.communicate()
        exe = [l[4:] for l in o.decode().splitlines() if l.startswith("EXE=")]
        if p.returncode != 0 or not exe:
            vlib.log("  c06: tree with repairs up to %s does not build; attribution stops here" % key)
            break
        out.append((key, exe[0]))
    for old in glob.glob(os.path.join(vlib.OUT, "build", "c06fix-*")):
        if not os.path.basename(old).startswith("c06fix-%s-" % th) and time.time() - os.path.getmtime(old) > 600:
            shutil.rmtree(old, ignore_errors=True)
    return out


def attribute(fails, index, hard, engines, workdir):
    """{(jid, eng): finding key} for failing executions cured by the proposed repairs: every failing execution is
    re-run on every tree of the repair series, all runs are validated by one TraceABI pass, the key is the first
    repair of the series from which on the execution passes"""
    bad = set(fails) | set((j["jid"], eng) for j, eng, _, _ in hard)
    for j, eng, _, _ in hard:
        index[(j["jid"], eng)] = j
    if not bad:
        return {}
    series = patched_harnesses()
    if not series:
        return {}
    byjid = {}
    for be in sorted(bad):
        jb = byjid.setdefault(be[0], dict(index[be], engs=""))
        e = "M" if be[1] == "l" else be[1]
        cur = jb["engs"].split()
        if e == "L" and "M" in cur:
            continue
        if e == "M":
            cur = [x for x in cur if x != "L"]
        if e not in cur:
            cur.append(e)
        jb["engs"] = " ".join(cur)
    jobs = list(byjid.values())
    vlib.log("  c06: attribution: %d failing executions of %d functions re-run on %d repaired trees" % (len(bad), len(jobs), len(series)))
    evs, ran, still = [], [set() for _ in series], [set() for _ in series]
    for k, (key, exe) in enumerate(series):
        d = os.path.join(workdir, "fix%d" % k)
        os.makedirs(d, exist_ok=True)
        res = chunked_run(exe, jobs, engines, d)
        for jb in jobs:
            for e in jb["engs"].split():
                for eng in (["L", "l"] if e == "M" else [e]):
                    r = res.get((jb["jid"], eng))
                    if r is None:
                        continue
                    ran[k].add((jb["jid"], eng))
                    if r[0] != "R":
                        still[k].add((jb["jid"], eng))
                        continue
                    e3 = events(jb, eng, r)
                    e3[0]["id"] = "%s@%d" % (jb["jid"], k)
                    evs += e3
    f2, _ = validate(evs, workdir)
    for (tid, eng) in f2:
        jid, k = tid.rsplit("@", 1)
        still[int(k)].add((jid, eng))
    cured = {}
    for be in sorted(bad):
        # first k such that the execution passes on tree k and on every later tree of the series
        ok = [be in ran[k] and be not in still[k] for k in range(len(series))]
        k = len(series)
        while k > 0 and ok[k - 1]:
            k -= 1
        if k < len(series):
            cured[be] = series[k][0]
    return cured


def run(tier, mutate=None):
    ck = Check(PROP, tier, "model_checking")
    T = TIERS[tier]
    cases, stats = c05.tlc_cases(tier)
    c05.selfcheck_placement(cases)
    workdir = vlib.scratch_dir("c06-")
    rng0 = random.Random(vlib.seed() * 7919 + 3)
    jobs = plan(cases, tier, rng0)
    nexec, nst, nev, fails, index, hard = execute(jobs, T["engines"], ck, workdir, mutate=mutate)
    cured = attribute(fails, index, hard, T["engines"], workdir) if (fails or hard) and not mutate else {}
    ck.setc("executions_failing", len(set(fails) | set((j["jid"], e) for j, e, _, _ in hard)))
    ck.setc("executions_cured_by_proposed_repairs", len(cured))
    report(ck, fails, index, hard, cured)
    ck.setc("states", stats["states"] + nst)
    ck.setc("transitions", stats["transitions"] + nev)
    ck.setc("placement_graph_states", stats.get("graph_states", 0))
    ck.setc("placement_graph_transitions", stats.get("graph_transitions", 0))
    ck.setc("signatures", len(cases))
    ck.setc("functions", len(jobs))
    ck.setc("executions", nexec)
    ck.setc("trace_events_validated", nev)
    ck.setc("traces_validated_against_impl", nexec)
    ck.setc("interfaces", [ENG_NAME["L" if e == "M" else e] for e in T["engines"].split()] + (["lazy-gen(second call)"] if "M" in T["engines"] else []))
    from collections import Counter
    ck.setc("bodies", dict(Counter(j["body"] for j in jobs)))
    for j in jobs[len(jobs) // 3::max(1, len(jobs) // 3)][:3]:
        ck.sample({"signature": sig_label(j), "tag": j["case"]["tag"]})
    ck.setc("exhaustive", True)
    ck.setc("rule", "every transition of the psABI placement machine, its `...` variant, every legal result list and random long signatures: "
                    "a MIR function with that signature is called by an assembly trampoline that places arguments per spec; TraceABI.tla "
                    "recomputes from the raw image what the function must observe (per parameter, per va_arg read), the checksum it must "
                    "return in every result slot, and checks callee-saved registers, rsp, MXCSR control bits, x87 CW, DF, x87 depth, alloca "
                    "alignment/validity and inner-call stack alignment")
    ck.setc("trusted_base", ["TLC", "gcc assembler", "harness/c06_tramp.S", "harness/c06_harness.c", "hex->limb conversion in harness/py/c06.py"])
    ck.assumptions += ["x86-64 Linux SysV only", "bit patterns avoid NaNs; long doubles are normal numbers",
                       "an integer parameter of a narrow type is observed sign/zero-extended from its declared width (MIR.md: integer variables are i64)"]
    import shutil
    shutil.rmtree(workdir, ignore_errors=True)
    return ck.finish()


def replay(path):
    d = json.load(open(path))
    rec = d["case"]
    j = job_from_rec(rec)
    eng = rec["engine"]
    workdir = vlib.scratch_dir("c06r-")
    nexec, nst, nev, fails, index, hard = execute([j], "M" if eng in "Ll" else eng, None, workdir)
    bad = [(k, t) for _, e, k, t in hard]
    for (jid, e), fl in fails.items():
        if e == eng:
            bad += [(fail_key(j, e, f), fail_text(j, e, f)) for f in fl]
    for k, t in bad[:10]:
        print("  mismatch key=%s: %s" % (k, t))
    if bad:
        print("replay: still failing")
        print("VIOLATION property=%s replay=%s" % (PROP, path))
        return 1
    print("replay: passes")
    return 0


def selftest():
    """Binding demonstration (direction B): corrupt one recorded event field at a time; TraceABI must object to
    exactly those executions and accept the untouched ones."""
    cases, _ = c05.tlc_cases("quick", want=("res",))
    cases = [c for c in cases if len(c["res"]) >= 2][:6]
    workdir = vlib.scratch_dir("c06s-")
    jobs = plan(cases, "thorough", random.Random(11))[::2][:6]
    muts = ["none", "callee_saved", "rsp", "mxcsr", "param", "result"]
    for j, m in zip(jobs, muts):
        j["mut"] = m
    def mutate(j, eng, e3):
        call, ob, ret = copy.deepcopy(e3)
        m = j.get("mut", "none")
        if m == "callee_saved":
            ret["cs"][2] = "00" * 8
        elif m == "rsp":
            ret["drsp"] = 8
        elif m == "mxcsr":
            ret["mxcsr"] ^= 0x2000
        elif m == "param":
            ob["words"][0][0] ^= 1
        elif m == "result":
            ret["rax"][0] ^= 1; ret["xmm0"][0] ^= 1; ret["st0"][0] ^= 1
        return [call, ob, ret]
    nexec, nst, nev, fails, index, hard = execute(jobs, "2", None, workdir, mutate=mutate)
    bad = 0
    for j in jobs:
        fl = fails.get((j["jid"], "2"), [])
        kinds = sorted(set(f["k"] for f in fl))
        want = {"none": [], "callee_saved": ["callee_saved"], "rsp": ["rsp"], "mxcsr": ["mxcsr_control"], "param": ["param", "result"],   # the returned checksum is checked against the recorded words
                "result": ["result"]}[j["mut"]]
        ok = kinds == want
        print("selftest corrupt=%-12s -> TraceABI reports %s : %s" % (j["mut"], kinds or "nothing", "ok" if ok else "UNEXPECTED"))
        bad += 0 if ok else 1
    return 1 if bad or hard else 0
