"""--setup: sanity of the toolchain, nothing fetched.  --baseline-off: repository tests with the guard off."""
import os, shutil, subprocess, sys, tempfile
import vlib


def run():
    for tool in ("gcc", "clang", "java", "python3"):
        if not shutil.which(tool):
            print("missing tool", tool)
            return 1
    os.makedirs(vlib.OUT, exist_ok=True)
    # parse every spec once so that a syntax error is a setup failure, not a check failure
    bad = 0
    specs = sorted(f for f in os.listdir(vlib.SPEC) if f.endswith(".tla"))
    for f in specs:
        rc, o, e = vlib.sh(["java", "-cp", vlib.TLA_JAR + ":" + vlib.SPEC + ":" + os.path.join(vlib.SPEC, "lib"),
                            "tla2sany.SANY", f], cwd=vlib.SPEC, timeout=120)
        if rc != 0 or "Semantic errors" in o or "Parsing or semantic analysis failed" in o or "*** Errors" in o:
            print("SANY failed on", f)
            print(o[-2000:])
            bad += 1
    print("setup: %d specs parsed, %d with SANY diagnostics (reported only; a check whose spec is broken fails as MACHINERY-ERROR)" % (len(specs), bad))
    return 0


def baseline_off():
    """Build /repo with cmake exactly as the baseline does (guard off) in a scratch dir and run ctest."""
    d = tempfile.mkdtemp(prefix="mir-baseline-")
    try:
        if subprocess.run(["cmake", "-G", "Ninja", "-DCMAKE_BUILD_TYPE=RelWithDebInfo", "-S", vlib.REPO, "-B", d]).returncode != 0:
            return 1
        # the optional l2m target does not compile against the installed LLVM in the pinned tree
        # (it is not part of the 45 baseline tests): keep going past it, ctest decides
        subprocess.run(["cmake", "--build", d, "--", "-k", "0"])
        return subprocess.run(["ctest", "--test-dir", d, "-j8", "--timeout", "900"]).returncode
    finally:
        shutil.rmtree(d, ignore_errors=True)
