"""C05: calls from MIR code to native functions follow the SysV x86-64 C ABI for every prototype.

Direction A.  spec/SysVABI.tla is the psABI placement machine; TLC explores its state graph
(ni x nx x stack parity x next argument kind) and emits one prototype per transition with the expected
location of every argument eightbyte, plus `...` variants, every legal result list and long random
prototypes (simulation).  Every prototype is executed through the real MIR call path (interpreter FFI
and generated code) against (a) the assembly probe harness/c05_probe.S, whose captured register/stack
image is compared with the spec's placement, and (b) a gcc-compiled C callee generated from the same
prototype that records what it receives.  Shared helpers (prototype -> MIR text, values, images) are
also used by c06.py."""
import json, os, random, struct, subprocess, time
import vlib
from vlib import Check, run_tlc, tlc_ok, MachineryError

PROP = "C05"
INT_T = ("i8", "u8", "i16", "u16", "i32", "u32", "i64", "u64", "p")
BLK_T = ("blk0", "blk1", "blk2", "blk3", "blk4")
NSTK_MAX = 192
ENG_NAME = {"i": "interp", "0": "gen-O0", "1": "gen-O1", "2": "gen-O2", "3": "gen-O3"}

# ------------------------------------------------------------------ TLC side

TIERS = {
    # (cfg, simulate, engines)
    "quick": {"graph": "SysVABI_mc.cfg", "res": "SysVABI_res.cfg", "sim": 25, "engines": "i 2"},
    "thorough": {"graph": "SysVABI_t.cfg", "res": "SysVABI_rest.cfg", "sim": 420, "engines": "i 0 1 2 3"},
}


def tlc_cases(tier, ck=None, want=("graph", "res", "sim")):
    """Run TLC; returns (cases, stats).  Each case is the JSON record Case(..) of SysVABI.tla."""
    T = TIERS[tier]
    cases, stats = [], {"states": 0, "transitions": 0}
    if "graph" in want:
        r = run_tlc("SysVABI", T["graph"], workers=4, heap="4g", timeout=900)
        if r.rc == 12 or r.violation:
            raise MachineryError("SysVABI.tla violates its own invariant %s (%s)" % (r.violation, T["graph"]))
        tlc_ok(r, "SysVABI " + T["graph"])
        stats["states"] += r.distinct
        stats["transitions"] += r.states - 1
        stats["graph_states"] = r.distinct
        stats["graph_transitions"] = r.states - 1
        stats["graph_wall"] = round(r.wall, 1)
        cases += r.outs
    if "res" in want:
        r = run_tlc("SysVABI", T["res"], workers=4, heap="4g", timeout=900)
        tlc_ok(r, "SysVABI " + T["res"])
        stats["result_lists"] = len(r.outs)
        stats["states"] += r.distinct
        stats["transitions"] += len(r.outs)
        cases += r.outs
    if "sim" in want and T["sim"]:
        r = run_tlc("SysVABI", "SysVABI_sim.cfg", workers=4, simulate=T["sim"], depth=25, seed_=vlib.seed(),
                    heap="4g", timeout=900)
        if r.rc == 12 or r.violation:
            raise MachineryError("SysVABI.tla violates its own invariant %s (simulation)" % r.violation)
        tlc_ok(r, "SysVABI sim")
        stats["sim_prototypes"] = len(r.outs)
        cases += r.outs
    cases.sort(key=lambda c: json.dumps(c, sort_keys=True))     # TLC workers interleave: make the order canonical
    return cases, stats


# ------------------------------------------------------------------ prototype helpers

def defbytes(a):
    """number of bytes of the passed object that the prototype defines"""
    if a["t"] in BLK_T:
        return a["n"]
    return (a["bits"] + 7) // 8


def neight(a):
    return (a["bytes"] + 7) // 8


def rnd_f32(rng):
    while True:
        b = rng.getrandbits(32)
        if (b >> 23) & 0xff != 0xff:
            return b


def rnd_f64(rng):
    while True:
        b = rng.getrandbits(64)
        if (b >> 52) & 0x7ff != 0x7ff and (b >> 23) & 0xff != 0xff:   # also a non-NaN float in the low half
            return b


def rnd_ld(rng):
    """a normal 80-bit extended value: explicit integer bit set, exponent in 1..0x7ffe"""
    mant = rng.getrandbits(63) | (1 << 63)
    se = (rng.getrandbits(1) << 15) | rng.randrange(1, 0x7fff)
    return mant.to_bytes(8, "little") + se.to_bytes(2, "little")


def rnd_arg(a, rng):
    """value bytes of an argument as they sit in the MIR caller's buffer (full register width)"""
    t = a["t"]
    if t == "f":
        return rnd_f32(rng).to_bytes(4, "little") + bytes(4)
    if t == "d":
        return rnd_f64(rng).to_bytes(8, "little")
    if t == "ld":
        return rnd_ld(rng) + bytes(6)
    if t in BLK_T:
        n = a["n"]
        # blocks whose eightbytes travel in SSE registers hold non-NaN patterns (soundness rule 3)
        out = b""
        while len(out) < n:
            out += rnd_f64(rng).to_bytes(8, "little")
        return out[:n]
    return rng.getrandbits(64).to_bytes(8, "little")


def arg_values(case, rng):
    return [rnd_arg(a, rng) for a in case["args"]]


def ret_image(case, rng):
    """image of the probe's c05_ret and the list of raw result patterns per declared result"""
    rax, rdx = rng.getrandbits(64), rng.getrandbits(64)
    x0 = rnd_f64(rng).to_bytes(8, "little") + rng.getrandbits(64).to_bytes(8, "little")
    x1 = rnd_f64(rng).to_bytes(8, "little") + rng.getrandbits(64).to_bytes(8, "little")
    st0, st1 = rnd_ld(rng), rnd_ld(rng)
    nst = sum(1 for r in case["res"] if r["reg"] in ("st0", "st1"))
    img = struct.pack("<QQ", rax, rdx) + x0 + x1 + struct.pack("<Q", nst) + bytes(8) + st0 + bytes(6) + st1 + bytes(6)
    img += bytes(128 - len(img))
    raw = {"rax": rax.to_bytes(8, "little"), "rdx": rdx.to_bytes(8, "little"), "xmm0": x0[:8], "xmm1": x1[:8],
           "st0": st0, "st1": st1}
    return img, raw


def ext(raw8, bits, sg):
    """the value a MIR register must hold for a result of `bits` bits, signedness sg (spec: Bits, Signed)"""
    v = int.from_bytes(raw8, "little") & ((1 << bits) - 1)
    if sg and bits < 64 and v >> (bits - 1):
        v |= ((1 << 64) - 1) ^ ((1 << bits) - 1)
    return v.to_bytes(8, "little")


def expected_results(case, raw):
    """[(offset in out buffer, expected bytes)] : the MIR caller stores result k at out + 16*k"""
    exp = []
    for k, r in enumerate(case["res"]):
        t = r["t"]
        if t in INT_T:
            exp.append((16 * k, ext(raw[r["reg"]], r["bits"], r["sg"])))
        elif t == "f":
            exp.append((16 * k, raw[r["reg"]][:4]))
        elif t == "d":
            exp.append((16 * k, raw[r["reg"]][:8]))
        else:
            exp.append((16 * k, raw[r["reg"]][:10]))
    return exp


def proto_arg(a, i):
    t = a["t"]
    if t in BLK_T or t == "rblk":
        return "%s:%d(a%d)" % ("blk" if t == "blk0" else t, a["n"], i)
    return "%s:a%d" % (t, i)


def proto_text(case, name):
    parts = [r["t"] for r in case["res"]]
    nfix = case["nfix"] if case["nfix"] >= 0 else len(case["args"])
    parts += [proto_arg(a, i) for i, a in enumerate(case["args"][:nfix])]
    if case["nfix"] >= 0:
        parts.append("...")
    return "%s: proto %s" % (name, ", ".join(parts))


def layout(case):
    """offsets of the argument values in the caller's buffer: scalars at 16*i, block data after them"""
    n = len(case["args"])
    off, boff = [], 16 * n + 16
    for i, a in enumerate(case["args"]):
        if a["t"] in BLK_T:
            off.append(boff)
            boff += (a["n"] + 15) // 16 * 16 + 16
        else:
            off.append(16 * i)
    return off, boff


def arg_buffer(case, vals):
    off, total = layout(case)
    buf = bytearray(b"\xa5" * total)
    for o, v in zip(off, vals):
        buf[o:o + len(v)] = v
    return bytes(buf)


def caller_text(case, cid):
    """MIR module: a caller that loads every argument from buf, calls callee<cid> through the prototype and
    stores every result at out + 16*k"""
    off, _ = layout(case)
    L = ["m%s: module" % cid, proto_text(case, "p%s" % cid), "import callee%s" % cid, "export caller%s" % cid,
         "caller%s: func i64:buf, i64:out" % cid]
    loc, ins, ops = [], [], []
    for i, a in enumerate(case["args"]):
        t = a["t"]
        if t == "f":
            loc.append("f:v%d" % i); ins.append("fmov v%d, f:%d(buf)" % (i, off[i])); ops.append("v%d" % i)
        elif t == "d":
            loc.append("d:v%d" % i); ins.append("dmov v%d, d:%d(buf)" % (i, off[i])); ops.append("v%d" % i)
        elif t == "ld":
            loc.append("ld:v%d" % i); ins.append("ldmov v%d, ld:%d(buf)" % (i, off[i])); ops.append("v%d" % i)
        elif t in BLK_T:
            loc.append("i64:v%d" % i); ins.append("add v%d, buf, %d" % (i, off[i]))
            ops.append("%s:%d(v%d)" % ("blk" if t == "blk0" else t, a["n"], i))
        elif t == "rblk":
            loc.append("i64:v%d" % i); ins.append("mov v%d, i64:%d(buf)" % (i, off[i]))
            ops.append("rblk:%d(v%d)" % (a["n"], i))
        else:
            loc.append("i64:v%d" % i); ins.append("mov v%d, i64:%d(buf)" % (i, off[i])); ops.append("v%d" % i)
    rops, rst = [], []
    for k, r in enumerate(case["res"]):
        t = r["t"]
        if t == "f":
            loc.append("f:r%d" % k); rst.append("fmov f:%d(out), r%d" % (16 * k, k))
        elif t == "d":
            loc.append("d:r%d" % k); rst.append("dmov d:%d(out), r%d" % (16 * k, k))
        elif t == "ld":
            loc.append("ld:r%d" % k); rst.append("ldmov ld:%d(out), r%d" % (16 * k, k))
        else:
            loc.append("i64:r%d" % k); rst.append("mov i64:%d(out), r%d" % (16 * k, k))
        rops.append("r%d" % k)
    if loc:
        L.append("local " + ", ".join(loc))
    L += ins
    L.append("call " + ", ".join(["p%s" % cid, "callee%s" % cid] + rops + ops))
    L += rst
    L += ["ret", "endfunc", "endmodule"]
    return "\n".join(L) + "\n"


# ------------------------------------------------------------------ placement (finding classification only)

def place(args, dev=frozenset()):
    """Python transcription of SysVABI!PlaceArg.  With dev = {} it must reproduce the locations TLC emitted
    (checked for every case: a disagreement is a MachineryError).  With named deviations it predicts the image
    of a *known, listed* defect so that exactly that defect - and nothing else - can be keyed as a finding."""
    ni = nx = sp = 0
    out = []
    for a in args:
        t, n = a["t"], a["n"]
        if t in INT_T or t == "rblk":
            cl = ["I"]
        elif t in ("f", "d"):
            cl = ["S"]
        elif t in ("ld", "blk0"):
            cl = []
        elif t == "blk1":
            cl = ["I"] * ((n + 7) // 8)
        elif t == "blk2":
            cl = ["S"] * ((n + 7) // 8)
        elif t == "blk3":
            cl = ["I", "S"]
        else:
            cl = ["S", "I"]
        need_i, need_x = cl.count("I"), cl.count("S")
        if cl and (need_i == 0 or ni + need_i <= 6) and (need_x == 0 or nx + need_x <= 8):
            locs = []
            xi = nx
            if t == "blk3" and "blk3_sse_reg" in dev:
                xi = nx + 1                      # SSE eightbyte loaded into xmm(n+1)
            for c in cl:
                if c == "I":
                    locs.append({"c": "gpr", "i": ni}); ni += 1
                else:
                    # (with the counter at 8 the ff-call encodes xmm8, which the instruction encoding wraps to xmm0)
                    locs.append({"c": "xmm", "i": xi % 8 if "blk3_sse_reg" in dev else xi}); xi += 1; nx += 1
            if t == "blk1" and "blk1_xmm_advance" in dev:
                nx += need_i                     # INTEGER eightbytes also advance the xmm counter
            if t in ("blk3", "blk4") and "blk34_two_xmm" in dev:
                nx += 1                          # INTEGER,SSE pair consumes two xmm registers
            if any(l["c"] == "xmm" and l["i"] > 7 for l in locs):
                return None                  # beyond the register file: not a prediction any more
        else:
            al = 16 if (t == "ld" and "ld_stack_unaligned" not in dev) else 8
            sp = (sp + al - 1) // al * al
            k = (a["bytes"] + 7) // 8
            locs = [{"c": "stk", "i": sp + 8 * j} for j in range(k)]
            sp += 8 * k
        out.append(locs)
    return out


DEVIATIONS = ("blk1_xmm_advance", "blk3_sse_reg", "blk34_two_xmm", "ld_stack_unaligned")


def subsets(items):
    out = [frozenset()]
    for it in items:
        out += [s | {it} for s in out]
    return sorted(out, key=len)


# ------------------------------------------------------------------ images and comparison

class Cap:
    def __init__(self, hexs):
        b = bytes.fromhex(hexs)
        self.raw = b
        self.gpr = [b[8 * i:8 * i + 8] for i in range(6)]
        self.rax = int.from_bytes(b[48:56], "little")
        self.rsp = int.from_bytes(b[56:64], "little")
        self.xmm = [b[64 + 16 * i:64 + 16 * i + 16] for i in range(8)]
        self.rflags = int.from_bytes(b[192:200], "little")
        self.x87tag = int.from_bytes(b[200:208], "little")
        self.ncalls = int.from_bytes(b[224:232], "little")
        self.stk = [b[256 + 8 * i:264 + 8 * i] for i in range((len(b) - 256) // 8)]

    def at(self, loc):
        if loc["c"] == "gpr":
            return self.gpr[loc["i"]]
        if loc["c"] == "xmm":
            return self.xmm[loc["i"]][:8]
        j = loc["i"] // 8
        return self.stk[j] if j < len(self.stk) else None


def arg_mismatches(args, locs, vals, cap, overwrite=False):
    """[(arg index, eightbyte, loc, expected, got)] comparing only the bytes the prototype defines.
    The spec's placement never overlaps (invariant Disjoint).  overwrite=True is for deviant machines only: writes
    are applied in argument order and a later argument overwrites an earlier one at the same location."""
    img = {}
    for i, a in enumerate(args):
        nd = defbytes(a)
        for j, loc in enumerate(locs[i]):
            k = min(8, nd - 8 * j)
            if k > 0:
                img[(loc["c"], loc["i"]) if overwrite else (i, j)] = (i, j, loc, vals[i][8 * j:8 * j + k])
    bad = []
    for i, j, loc, e in sorted(img.values(), key=lambda x: (x[0], x[1])):
        g = cap.at(loc)
        if g is None or g[:len(e)] != e:
            bad.append((i, j, loc, e.hex(), None if g is None else g[:len(e)].hex()))
    return bad


def locname(l):
    return "%s%d" % (l["c"], l["i"]) if l["c"] != "stk" else "stk+%d" % l["i"]


def find_value(cap, e):
    if len(e) < 4:
        return "?"
    for i in range(6):
        if cap.gpr[i][:len(e)] == e:
            return "gpr%d" % i
    for i in range(8):
        if cap.xmm[i][:len(e)] == e:
            return "xmm%d" % i
    for i, w in enumerate(cap.stk):
        if w[:len(e)] == e:
            return "stk+%d" % (8 * i)
    return "nowhere"


def check_probe(case, vals, raw, capx, outx, eng):
    """compare one probe execution with the spec; returns list of (key, text)"""
    cap = Cap(capx)
    out = bytes.fromhex(outx)
    args = case["args"]
    locs = [a["locs"] for a in args]
    pre = "ffcall" if eng == "i" else "gen"
    R = []
    if cap.ncalls != 1:
        return [("%s:callee_not_called_once" % pre, "probe called %d times" % cap.ncalls)]
    bad = arg_mismatches(args, locs, vals, cap)
    if bad:
        # is the whole image explained by a listed deviation of the placement machine?
        expl, best = None, (len(bad), frozenset(), bad)
        for dv in subsets(DEVIATIONS)[1:]:
            dl = place(args, dv)
            if dl is None:
                continue
            db = arg_mismatches(args, dl, vals, cap, overwrite=True)
            if not db:
                expl = dv
                break
            if len(db) < best[0]:
                best = (len(db), dv, db)
        def describe(b, n):
            i, j, loc, e, g = b
            a = args[i]
            return ("%s: argument %d (%s%s) eightbyte %d expected at %s = %s, found %s there; value is at %s; %d eightbytes wrong"
                    % (ENG_NAME[eng], i, a["t"], ":%d" % a["n"] if a["n"] else "", j, locname(loc), e, g,
                       find_value(cap, bytes.fromhex(e)), n))
        if expl:
            txt = describe(bad[0], len(bad))
            for d in sorted(expl):
                R.append(("%s:%s" % (pre, d), txt + " [image matches the placement machine with deviation %s]" % "+".join(sorted(expl))))
        else:
            n, dv, db = best
            txt = describe(db[0], n)
            if dv:
                txt += " [relative to the placement machine with the listed deviations %s, which explain the rest]" % "+".join(sorted(dv))
            a = args[db[0][0]]
            R.append(("%s:arg:%s:%s" % (pre, a["t"], db[0][2]["c"]), txt))
    if (cap.rsp + 8) % 16 != 0:
        R.append(("%s:stack_alignment" % pre, "%s: rsp at the call instruction = 0x%x, not 16-byte aligned" % (ENG_NAME[eng], cap.rsp + 8)))
    if case["nfix"] >= 0:
        al = cap.rax & 0xff
        if not (case["almin"] <= al <= case["almax"]):
            # listed deviation: %al = min(8, number of float/double arguments), SSE eightbytes of blocks not counted
            xb = any(a["t"] in ("blk2", "blk3", "blk4") and any(l["c"] == "xmm" for l in a["locs"]) for a in args)
            nfd = min(8, sum(1 for a in args if a["t"] in ("f", "d")))
            key = "%s:al_ignores_blk_sse" % pre if (xb and al == nfd) else "%s:al" % pre
            R.append((key, "%s: %%al = %d for a `...` call using %d vector registers (legal %d..%d)"
                      % (ENG_NAME[eng], al, case["nx"], case["almin"], case["almax"])))
    if cap.x87tag != 0xffff:
        R.append(("%s:x87_not_empty_at_call" % pre, "%s: x87 tag word 0x%x at callee entry" % (ENG_NAME[eng], cap.x87tag)))
    if cap.rflags & 0x400:
        R.append(("%s:df_set_at_call" % pre, "%s: DF set at callee entry" % ENG_NAME[eng]))
    for (o, e), r in zip(expected_results(case, raw), case["res"]):
        g = out[o:o + len(e)]
        if g != e:
            R.append(("%s:result:%s:%s" % (pre, r["t"], r["reg"]),
                      "%s: result %s from %s: MIR register holds %s, expected %s" % (ENG_NAME[eng], r["t"], r["reg"], g.hex(), e.hex())))
    return R


# ------------------------------------------------------------------ C callee generation (second oracle: gcc)

def c_type(a):
    t, n = a["t"], a["n"]
    m = {"i8": "int8_t", "u8": "uint8_t", "i16": "int16_t", "u16": "uint16_t", "i32": "int32_t", "u32": "uint32_t",
         "i64": "int64_t", "u64": "uint64_t", "p": "void *", "rblk": "void *", "f": "float", "d": "double", "ld": "long double"}
    if t in m:
        return m[t], None
    if t == "blk0":
        if n < 3:
            return None, None              # no C type of this size is passed in MEMORY
        if n <= 16:
            # psABI 3.2.3: an aggregate that "contains unaligned fields" has class MEMORY (gcc implements this)
            return "B0_%d" % n, "typedef struct __attribute__ ((packed)) { char c; short x;%s } B0_%d;" % (" char r[%d];" % (n - 3) if n > 3 else "", n)
        name = "B0_%d" % n
        body = "long a[%d];" % (n // 8) if n % 8 == 0 else ("int a[%d];" % (n // 4) if n % 4 == 0 else "char a[%d];" % n)
    elif t == "blk1":
        name = "B1_%d" % n
        body = "long a[%d];" % (n // 8) if n % 8 == 0 else ("int a[%d];" % (n // 4) if n % 4 == 0 else "char a[%d];" % n)
    elif t == "blk2":
        if n % 4:
            return None, None
        name = "B2_%d" % n
        body = "double a[%d];" % (n // 8) if n % 8 == 0 else "float a[%d];" % (n // 4)
    elif t == "blk3":
        if n not in (12, 16):
            return None, None
        name = "B3_%d" % n
        body = "long a; double b;" if n == 16 else "long a; float b;"
    else:
        if n not in (12, 16):
            return None, None
        name = "B4_%d" % n
        body = "double a; long b;" if n == 16 else "double a; int b;"
    return name, "typedef struct { %s } %s;" % (body, name)


def c_ret(case):
    """C return type + return expression, or None when no C type is returned in these registers"""
    rs = [r["t"] for r in case["res"]]
    m = {"i8": "int8_t", "u8": "uint8_t", "i16": "int16_t", "u16": "uint16_t", "i32": "int32_t", "u32": "uint32_t",
         "i64": "int64_t", "u64": "uint64_t", "p": "void *", "f": "float", "d": "double", "ld": "long double"}
    if not rs:
        return "void", ""
    if len(rs) == 1:
        t = rs[0]
        src = {"f": "c05_retv.f0", "d": "c05_retv.d0", "ld": "c05_retv.st0"}.get(t, "c05_retv.rax")
        return m[t], "return (%s) %s;" % (m[t], src)
    w64 = ("i64", "u64", "p")
    if len(rs) == 2:
        if rs[0] in w64 and rs[1] in w64:
            return "R_ii", "{ R_ii r = {c05_retv.rax, c05_retv.rdx}; return r; }"
        if rs == ["d", "d"]:
            return "R_dd", "{ R_dd r = {c05_retv.d0, c05_retv.d1}; return r; }"
        if rs[0] in w64 and rs[1] == "d":
            return "R_id", "{ R_id r = {c05_retv.rax, c05_retv.d0}; return r; }"
        if rs[0] == "d" and rs[1] in w64:
            return "R_di", "{ R_di r = {c05_retv.d0, c05_retv.rax}; return r; }"
        if rs == ["ld", "ld"]:
            return "_Complex long double", "{ _Complex long double r; __real__ r = c05_retv.st0; __imag__ r = c05_retv.st1; return r; }"
    return None


C_PRELUDE = r"""
#include <stdint.h>
#include <stdarg.h>
#include <string.h>
#include <stddef.h>
/* image of the probe's c05_ret: rax rdx xmm0[16] xmm1[16] nst pad st0[16] st1[16] */
struct retv { uint64_t rax, rdx; union { double d0; float f0; char x0[16]; }; union { double d1; float f1; char x1[16]; };
              uint64_t nst, pad; long double st0, st1; };
struct retv c05_retv;
unsigned char c05_rec[8192];
size_t c05_rec_len;
typedef struct { int64_t a, b; } R_ii;
typedef struct { double a, b; } R_dd;
typedef struct { int64_t a; double b; } R_id;
typedef struct { double a; int64_t b; } R_di;
#define REC(i, x, n) memcpy (c05_rec + 64 * (i), &(x), (n))
"""


def c_signature_key(case):
    return json.dumps([[(a["t"], a["n"]) for a in case["args"]], case["nfix"], [r["t"] for r in case["res"]]])


def c_callee(case, name):
    """C source of a callee with the prototype's C signature, or None"""
    ret = c_ret(case)
    if ret is None:
        return None, []
    tds, params, body = [], [], []
    nfix = case["nfix"] if case["nfix"] >= 0 else len(case["args"])
    for i, a in enumerate(case["args"]):
        ct, td = c_type(a)
        if ct is None:
            return None, []
        if td:
            tds.append(td)
        nb = defbytes(a)
        if i < nfix:
            params.append("%s a%d" % (ct, i))
            body.append("  REC (%d, a%d, %d);" % (i, i, nb))
        else:
            body.append("  { %s v = va_arg (ap, %s); REC (%d, v, %d); }" % (ct, ct, i, nb))
    if case["nfix"] >= 0:
        if nfix == 0:
            return None, []                   # ISO C needs a named parameter before `...`
        params.append("...")
        body = ["  va_list ap;", "  va_start (ap, a%d);" % (nfix - 1)] + body + ["  va_end (ap);"]
    src = "%s %s (%s) {\n%s\n  c05_rec_len = %d;\n  %s\n}\n" % (ret[0], name, ", ".join(params) or "void", "\n".join(body),
                                                             64 * len(case["args"]), ret[1])
    return src, tds


def check_c(case, vals, raw, recx, outx, eng):
    rec = bytes.fromhex(recx) if recx != "-" else b""
    out = bytes.fromhex(outx)
    pre = "ffcall" if eng == "i" else "gen"
    R = []
    if len(rec) != 64 * len(case["args"]):
        return [("%s:c_callee_not_called" % pre, "C callee did not run to completion")]
    for i, a in enumerate(case["args"]):
        nb = defbytes(a)
        if rec[64 * i:64 * i + nb] != vals[i][:nb]:
            R.append(("c:%s:arg:%s" % (pre, a["t"]), "%s: gcc-compiled callee received %s for argument %d (%s%s), expected %s"
                      % (ENG_NAME[eng], rec[64 * i:64 * i + nb].hex(), i, a["t"], ":%d" % a["n"] if a["n"] else "", vals[i][:nb].hex())))
            break
    for (o, e), r in zip(expected_results(case, raw), case["res"]):
        if out[o:o + len(e)] != e:
            R.append(("c:%s:result:%s" % (pre, r["t"]), "%s: result %s returned by the gcc-compiled callee in %s: MIR register holds %s, expected %s"
                      % (ENG_NAME[eng], r["t"], r["reg"], out[o:o + len(e)].hex(), e.hex())))
    return R


# ------------------------------------------------------------------ build + run

def build_harness():
    d, objs, cc, flags = vlib.build_lib("plain", units=("mir.c", "mir-gen.c"))
    exe = os.path.join(d, "c05_harness")
    srcs = [os.path.join(vlib.HARNESS, "c05_harness.c"), os.path.join(vlib.HARNESS, "c05_probe.S")]
    stamp = vlib.tree_hash(srcs)
    sf = exe + ".stamp"
    if not (os.path.exists(exe) and os.path.exists(sf) and open(sf).read() == stamp):
        vlib.cc_link(cc, flags + " -rdynamic", srcs, objs, exe)
        open(sf, "w").write(stamp)
    return exe


def build_callees(cases, workdir):
    """one shared object with a C callee per distinct signature; returns (so path, {case index: symbol})"""
    sym, srcs, tdefs, by_key = {}, [], {}, {}
    for ci, c in enumerate(cases):
        k = c_signature_key(c)
        if k not in by_key:
            name = "cc_%d" % len(by_key)
            src, tds = c_callee(c, name)
            by_key[k] = name if src else None
            if src:
                srcs.append(src)
                for td in tds:
                    tdefs[td] = 1
        if by_key[k]:
            sym[ci] = by_key[k]
    if not srcs:
        return None, {}
    nparts = 8
    objs, procs = [], []
    for p in range(nparts):
        part = srcs[p::nparts]
        if not part:
            continue
        cf = os.path.join(workdir, "callees%d.c" % p)
        with open(cf, "w") as f:
            f.write(C_PRELUDE.replace("struct retv c05_retv;", "extern struct retv c05_retv;" if p else "struct retv c05_retv;")
                    .replace("unsigned char c05_rec[8192];", "extern unsigned char c05_rec[8192];" if p else "unsigned char c05_rec[8192];")
                    .replace("size_t c05_rec_len;", "extern size_t c05_rec_len;" if p else "size_t c05_rec_len;"))
            f.write("\n".join(tdefs) + "\n")
            f.write("\n".join(part))
        o = cf[:-2] + ".o"
        objs.append(o)
        procs.append(subprocess.Popen(["gcc", "-O1", "-fPIC", "-w", "-c", cf, "-o", o], stdout=subprocess.PIPE, stderr=subprocess.STDOUT))
    for p in procs:
        o, _ = p.communicate()
        if p.returncode != 0:
            raise MachineryError("gcc failed on generated callees:\n" + o.decode()[-3000:])
    so = os.path.join(workdir, "callees.so")
    rc, o, e = vlib.sh(["gcc", "-shared", "-o", so] + objs, timeout=300)
    if rc != 0:
        raise MachineryError("linking callees.so failed: " + e[-2000:])
    return so, sym


def nstk_for(case):
    # enough for every argument to travel on the stack (a deviant placement may use more than the spec's)
    return min(NSTK_MAX, sum(neight(a) + (1 if a["t"] == "ld" else 0) for a in case["args"]) + 2)


def write_input(path, jobs):
    """jobs: [(jid, case, vals, retimg, callee, engines)]"""
    with open(path, "w") as f:
        for jid, case, vals, retimg, callee, engs in jobs:
            text = caller_text(case, jid)
            f.write("C %s\nT %d\n%s" % (jid, text.count("\n"), text))
            f.write("B %s\nO %d\nR %s\nS %d\nK %s\nE %s\nX\n" % (arg_buffer(case, vals).hex(), max(16, 16 * len(case["res"])),
                                                           retimg.hex(), nstk_for(case), callee, engs))


def run_harness(exe, inp, so, njobs, timeout=1500):
    """returns {(jid, eng): ("R", cap, out, rec) | ("ERR", msg) | ("CRASH", sig)}"""
    res, first = {}, 0
    while first < njobs:
        p = subprocess.run([exe, inp, so or "-", str(first)], stdout=subprocess.PIPE, stderr=subprocess.PIPE, timeout=timeout)
        lines = p.stdout.decode("utf-8", "replace").splitlines()
        done, last_begin = None, None
        seen = set()
        order = []
        for ln in lines:
            w = ln.split(" ")
            if w[0] == "BEGIN":
                last_begin = (w[1], w[2])
                if w[1] not in seen:
                    seen.add(w[1]); order.append(w[1])
            elif w[0] == "R" and len(w) >= 6:
                res[(w[1], w[2])] = ("R", w[3], w[4], w[5])
            elif w[0] == "ERR":
                res[(w[1], w[2])] = ("ERR", " ".join(w[3:]))
            elif w[0] == "CRASH":
                res[(w[1], w[2])] = ("CRASH", w[3])
            elif w[0] == "DONE":
                done = int(w[1])
        if done is not None and p.returncode == 0:
            break
        if last_begin is None:
            raise MachineryError("harness died before the first case (rc=%s): %s" % (p.returncode, p.stderr.decode()[-1500:]))
        if last_begin not in res:
            res[last_begin] = ("CRASH", "rc=%s" % p.returncode)
        # resume after the case that crashed (its remaining engines are skipped)
        first += len(order)
    return res


def chunked_run(exe, jobs, so, workdir, nproc=4):
    from concurrent.futures import ThreadPoolExecutor
    parts = [jobs[i::nproc] for i in range(nproc)]
    parts = [p for p in parts if p]
    def one(ix):
        inp = os.path.join(workdir, "in%d.txt" % ix)
        write_input(inp, parts[ix])
        return run_harness(exe, inp, so, len(parts[ix]))
    out = {}
    with ThreadPoolExecutor(max_workers=nproc) as ex:
        for r in ex.map(one, range(len(parts))):
            out.update(r)
    return out


def selfcheck_placement(cases):
    """the Python transcription used for finding classification must agree with the TLC-emitted placement"""
    for c in cases:
        if place(c["args"]) != [a["locs"] for a in c["args"]]:
            raise MachineryError("python place() disagrees with SysVABI.tla on " + json.dumps(c["args"])[:400])


def case_label(c):
    nfix = c["nfix"]
    parts = []
    for i, a in enumerate(c["args"]):
        if i == nfix:
            parts.append("...")
        parts.append(a["t"] + (":%d" % a["n"] if a["n"] else ""))
    if nfix == len(c["args"]):
        parts.append("...")
    return "(%s) -> (%s)" % (", ".join(parts), ", ".join(r["t"] for r in c["res"]))


def execute(cases, engines, ck, workdir, mutate=None, rerun=True):
    """run all cases on probe + C callee; report through ck. Returns number of executions."""
    exe = build_harness()
    so, csym = build_callees(cases, workdir)
    rng0 = random.Random(vlib.seed() * 1000003 + 17)
    jobs, meta = [], {}
    for ci, c in enumerate(cases):
        rng = random.Random(rng0.getrandbits(64))
        vals = arg_values(c, rng)
        retimg, raw = ret_image(c, rng)
        jid = "%dp" % ci
        jobs.append((jid, c, vals, retimg, "probe", engines))
        meta[jid] = (ci, vals, raw, "probe")
        if ci in csym:
            jid = "%dc" % ci
            jobs.append((jid, c, vals, retimg, csym[ci], engines))
            meta[jid] = (ci, vals, raw, "c")
    res = chunked_run(exe, jobs, so, workdir)
    nexec = 0
    fails = {}   # (ci, eng) -> {"probe": [...], "c": [...]}
    for jid, (ci, vals, raw, kind) in meta.items():
        c = cases[ci]
        for eng in engines.split():
            r = res.get((jid, eng))
            if r is None:
                # skipped because an earlier engine of the same case crashed the process
                continue
            nexec += 1
            if r[0] == "ERR":
                R = [("%s:mir_error" % ("ffcall" if eng == "i" else "gen"), "%s: MIR reported an error for a legal prototype: %s" % (ENG_NAME[eng], r[1]))]
            elif r[0] == "CRASH":
                R = [("%s:crash" % ("ffcall" if eng == "i" else "gen"), "%s: crash (signal %s) while calling through the prototype" % (ENG_NAME[eng], r[1]))]
            elif kind == "probe":
                capx, outx = r[1], r[2]
                if mutate:
                    capx, outx = mutate(c, capx, outx)
                R = check_probe(c, vals, raw, capx, outx, eng)
            else:
                R = check_c(c, vals, raw, r[3], r[2], eng)
            if R:
                fails.setdefault((ci, eng), {})[kind] = R
    # verdicts: spec (probe) and gcc (C callee) must agree against the implementation where both exist
    spec_only = 0
    for (ci, eng), d in sorted(fails.items()):
        c = cases[ci]
        has_c = ci in csym
        pr, cr = d.get("probe", []), d.get("c", [])
        rec = {"case": c, "engine": eng, "seed": vlib.seed(), "index": ci}
        lab = case_label(c)
        if pr and has_c and not cr:
            # only conditions a C callee cannot observe (alignment, %al, x87 state, result regs without C type) stay spec-only
            hard = [x for x in pr if x[0].split(":")[1] in ("stack_alignment", "al", "al_ignores_blk_sse", "x87_not_empty_at_call", "df_set_at_call")]
            soft = [x for x in pr if x not in hard]
            if soft:
                spec_only += 1
                vlib.log("SPEC-DISAGREES: %s %s: %s (gcc-compiled callee received everything correctly)" % (lab, ENG_NAME[eng], soft[0][1][:300]))
            pr = hard
        for key, txt in pr:
            ck.violation(key, "%s  %s" % (lab, txt), rec)
        if cr and not pr:
            for key, txt in cr[:1]:
                ck.violation(key, "%s  %s" % (lab, txt), rec)
    ck.add("spec_only_disagreements", spec_only)
    return nexec, len(csym)


def run(tier, mutate=None):
    ck = Check(PROP, tier, "model_checking")
    T = TIERS[tier]
    t0 = time.time()
    cases, stats = tlc_cases(tier)
    selfcheck_placement(cases)
    workdir = vlib.scratch_dir("c05-")
    nexec, nc = execute(cases, T["engines"], ck, workdir, mutate=mutate)
    ck.setc("states", stats["states"])
    ck.setc("transitions", stats["transitions"])
    ck.setc("placement_graph_states", stats.get("graph_states", 0))
    ck.setc("placement_graph_transitions", stats.get("graph_transitions", 0))
    ck.setc("result_lists", stats.get("result_lists", 0))
    ck.setc("sim_prototypes", stats.get("sim_prototypes", 0))
    ck.setc("prototypes", len(cases))
    ck.setc("prototypes_with_c_callee", nc)
    ck.setc("executions", nexec)
    ck.setc("traces_validated_against_impl", nexec)
    ck.setc("engines", [ENG_NAME[e] for e in T["engines"].split()])
    for c in cases[len(cases) // 3::max(1, len(cases) // 3)][:3]:
        ck.sample({"prototype": case_label(c), "tag": c["tag"], "first_arg_locs": [a["locs"] for a in c["args"][:4]]})
    ck.setc("exhaustive", True)
    ck.setc("rule", "every transition of the psABI placement machine (ni x nx x stack parity x next argument kind), its `...` variant, "
                    "every legal result list of length 0..4 and random prototypes of 8/16/24 arguments are executed through the "
                    "interpreter FFI and generated code against an assembly probe (register/stack image vs. spec placement, %al bound, "
                    "rsp alignment, x87 empty, result extension) and a gcc-compiled callee of the same C signature")
    ck.setc("trusted_base", ["TLC", "gcc (C callee, assembler)", "harness/c05_probe.S", "harness/c05_harness.c", "comparison code in harness/py/c05.py"])
    ck.assumptions += ["x86-64 Linux SysV only", "argument bit patterns avoid NaNs; long doubles are normal numbers",
                       "narrow integers compared on their declared width only; %al checked as a bound",
                       "blk1/blk2 of 1..16 bytes, blk3/blk4 of 9..16 bytes (MIR defines no other sizes)"]
    import shutil
    shutil.rmtree(workdir, ignore_errors=True)
    return ck.finish()


def replay(path):
    d = json.load(open(path))
    rec = d["case"]
    c, eng = rec["case"], rec["engine"]
    os.environ["VERIF_SEED"] = str(rec.get("seed", 1))
    workdir = vlib.scratch_dir("c05r-")
    # values are a function of (seed, case index): regenerate the same stream position
    cases = [c]
    rng0 = random.Random(vlib.seed() * 1000003 + 17)
    for _ in range(rec.get("index", 0)):
        rng0.getrandbits(64)
    exe = build_harness()
    so, csym = build_callees(cases, workdir)
    rng = random.Random(rng0.getrandbits(64))
    vals = arg_values(c, rng)
    retimg, raw = ret_image(c, rng)
    jobs = [("0p", c, vals, retimg, "probe", eng)]
    if 0 in csym:
        jobs.append(("0c", c, vals, retimg, csym[0], eng))
    res = chunked_run(exe, jobs, so, workdir, nproc=1)
    bad = []
    for jid, *_ in jobs:
        r = res.get((jid, eng))
        if r is None or r[0] != "R":
            bad.append(("run", str(r)))
        elif jid.endswith("p"):
            bad += check_probe(c, vals, raw, r[1], r[2], eng)
        else:
            bad += check_c(c, vals, raw, r[3], r[2], eng)
    for k, t in bad:
        print("  mismatch key=%s: %s" % (k, t))
    if bad:
        print("replay: still failing")
        print("VIOLATION property=%s replay=%s" % (PROP, path))
        return 1
    print("replay: passes")
    return 0


def selftest():
    """Binding demonstration: corrupt (a) one expected location, (b) the captured %al / rsp, (c) one result;
    the comparison must object each time and accept the untouched capture."""
    cases, _ = tlc_cases("quick", want=("res",))
    cases = [c for c in cases if len(c["res"]) == 3][:3]
    g, _ = tlc_cases("quick", want=("graph",))
    clean = lambda c: (place(c["args"], frozenset(DEVIATIONS)) == [a["locs"] for a in c["args"]]
                       and not any(a["t"] in ("blk2", "blk3", "blk4") for a in c["args"]))     # not touched by a listed finding
    cl = [c for c in g if c["tag"] == "vedge" and clean(c)]
    cases += cl[len(cl) // 2:len(cl) // 2 + 3]
    workdir = vlib.scratch_dir("c05s-")
    exe = build_harness()
    rng = random.Random(5)
    bad = 0
    for ci, c in enumerate(cases):
        vals = arg_values(c, rng)
        retimg, raw = ret_image(c, rng)
        inp = os.path.join(workdir, "st.txt")
        write_input(inp, [("s%d" % ci, c, vals, retimg, "probe", "2")])
        r = run_harness(exe, inp, None, 1).get(("s%d" % ci, "2"))
        if not r or r[0] != "R":
            raise MachineryError("selftest run failed: %s" % (r,))
        base = check_probe(c, vals, raw, r[1], r[2], "2")
        import copy
        c2 = copy.deepcopy(c)
        l = c2["args"][0]["locs"][0]
        l["i"] = (l["i"] + 1) % 6 if l["c"] != "stk" else l["i"] + 8
        m1 = check_probe(c2, vals, raw, r[1], r[2], "2")
        capb = bytearray(bytes.fromhex(r[1]))
        capb[56] ^= 8                                     # rsp off by 8
        capb[48] = 9                                      # %al = 9
        m2 = check_probe(c, vals, raw, capb.hex(), r[2], "2")
        m3 = []
        if c["res"]:
            ob = bytearray(bytes.fromhex(r[2])); ob[0] ^= 1
            m3 = check_probe(c, vals, raw, r[1], ob.hex(), "2")
        ok = (not base) and m1 and any("stack_alignment" in k for k, _ in m2) and (not c["res"] or m3) \
            and (c["nfix"] < 0 or any(":al" in k for k, _ in m2))
        print("selftest %s: untouched %s; moved location %s; rsp/%%al corrupted %s; result corrupted %s"
              % (case_label(c)[:60], "accepted" if not base else "REJECTED " + str(base[:1]), "rejected" if m1 else "NOT rejected",
                 "rejected" if m2 else "NOT rejected", "rejected" if m3 else ("n/a" if not c["res"] else "NOT rejected")))
        bad += 0 if ok else 1
    return 1 if bad else 0
