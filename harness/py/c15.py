"""C15: ill-formed IR is rejected through the error callback, well-formed IR is accepted.

TLC evaluates the complete table of spec/MIRCheck.tla (every documented opcode x operand position x
operand kind, arity, ret vs result types, call vs prototype, context rules, declarations) and the
transition graph of spec/MIRApi.tla (protocol of the construction calls).  Every row / path is built
through the real API by harness/c15_check.c in a forked child with a recording error function; this
module only translates rows to the harness' line protocol and compares verdicts.  No well-formedness
knowledge lives here: expected verdict, allowed error codes and the `unspec` classification come from
the specification."""
import binascii, collections, copy, json, os, subprocess, sys, time
from concurrent.futures import ThreadPoolExecutor
import vlib
from vlib import Check, run_tlc, tlc_ok, MachineryError

PROP = "C15"
SRC = os.path.join(vlib.HARNESS, "c15_check.c")
TLC_WORKERS = int(os.environ.get("VERIF_C15_TLC_WORKERS", "2"))   # per JVM
TLC_JVMS = int(os.environ.get("VERIF_C15_TLC_JVMS", "4"))
HARNESS_PAR = int(os.environ.get("VERIF_C15_HARNESS_PAR", "6"))

TABLE_JOBS = [("kind", "0"), ("kind", "1"), ("kind", "2"), ("kind", "3"),
              ("arity", None), ("ret", None), ("call", None), ("ctx", None), ("decl", None), ("meta", None)]


# ------------------------------------------------------------------ harness

_exe_cache = {}


def harness_exe(variant):
    if variant not in _exe_cache:
        d, objs, cc, flags = vlib.build_lib(variant, units=("mir.c", "mir-gen.c"))
        exe = os.path.join(d, "c15_check")
        src_m = os.path.getmtime(SRC)
        if not os.path.exists(exe) or os.path.getmtime(exe) < src_m:
            vlib.cc_link(cc, flags, [SRC], objs, exe + ".tmp%d" % os.getpid())
            os.replace(exe + ".tmp%d" % os.getpid(), exe)
        _exe_cache[variant] = exe
    return _exe_cache[variant]


def opnd_tok(o):
    k = o["k"]
    if k == "reg":
        return "r:" + o["t"]
    if k == "ref":
        return "ref:" + o["t"]
    if k == "mem":
        return "mem:%s:%s:%s:%d" % (o["t"], o["b"], o["x"], o["d"])
    return k


def row_line(cid, r):
    """Translate one table row (JSON from TLC) to the harness' line protocol."""
    if r["grp"] == "decl":
        if r["what"] == "greg":
            steps = list(r["pre"]) + [r["step"]]
            return "GDECL %s %d %d %s" % (cid, 0 if r["exp"] == "unspec" else 1, len(steps),
                                          " ".join("%s %s %s" % (s["n"], s["t"], s["hr"]) for s in steps))
        if r["what"] == "gfn":
            def gtok(o):
                if o["k"] == "reg":
                    return "rn:" + o["kind"][2:] if o["kind"].startswith("v:") else "r:" + o["kind"][2:]
                if o["k"] == "mem":
                    _, b, x = o["kind"].split(":")
                    return "memn:%s:%s:%s:%d" % (o["t"], b, x, o["d"])
                return o["k"]
            L = ["GFN", cid, "0" if r["exp"] == "unspec" else "1", "1" if r["exec"] and r["exp"] == "ok" else "0", str(len(r["decls"]))]
            for d in r["decls"]:
                L += [d["n"], d["t"], d["hr"]]
            L += ["NI", str(len(r["insns"]))]
            for ins in r["insns"]:
                L += ["INS", ins["op"], str(len(ins["ops"]))] + [gtok(o) for o in ins["ops"]]
            return " ".join(L)
        if r["what"] == "reg":
            pre = " ".join("%s %s" % (p["n"], p["t"]) for p in r["pre"])
            return "DREG %s %d %s %s %s" % (cid, len(r["pre"]), pre, r["name"], r["t"])
        return "DFUNC %s %d %d %s %d %s" % (cid, 1 if r["va"] else 0, len(r["res"]), " ".join(r["res"]), len(r["args"]),
                                          " ".join("%s %s %d" % (a["n"], a["t"], a["sz"]) for a in r["args"]))
    fn, p = r["fn"], r["proto"]
    L = ["ROW", cid, "FN", "1" if fn["vararg"] else "0", str(len(fn["res"]))] + list(fn["res"])
    L += ["PROTO", "1" if p["va"] else "0", str(len(p["res"]))] + list(p["res"]) + [str(len(p["args"]))]
    for a in p["args"]:
        L += [a["t"], str(a["sz"])]
    L += ["NI", str(len(r["insns"]))]
    for ins in r["insns"]:
        L += ["INS", ins["op"], str(len(ins["ops"]))] + [opnd_tok(o) for o in ins["ops"]]
    # what MIR.md calls well-formed must be usable (load, link, run); rows it leaves open are only built
    L += ["USE", "0" if r["exp"] == "unspec" else "1", "EXEC", "1" if r["exec"] and r["exp"] == "ok" else "0"]
    return " ".join(L)


def path_line(cid, c):
    return "PATH %s %d %s" % (cid, len(c["h"]), " ".join("%s %s" % (s["act"], s["n"]) for s in c["h"]))


# ---- the same rows as MIR text (thorough): only what the textual syntax can express

TEXT_TYPES = {"blk0": "blk"}


def _text_opnd(o, op, pos, labels):
    """MIR text of an operand or None when the textual syntax cannot express it at this position."""
    k = o["k"]
    label_pos = ((op in ("prbeq", "prbne") or _is_branch(op)) and pos == 0) or (op == "laddr" and pos == 1) or (op == "switch" and pos > 0)
    if k == "label":
        if not label_pos:
            return None            # a bare unknown name is "undeclared name" (syntax), not a label operand
        labels.append("L%d" % (len(labels) + 1))
        return labels[-1]
    if k in ("reg", "ref") and label_pos:
        return None                # a name at a label position is read as a label
    if k == "reg":
        return {"i64": "ri", "f": "rf", "d": "rd", "ld": "rld"}.get(o["t"])      # undeclared: inexpressible
    if k == "int":
        return "5"
    if k == "float":
        return "1.25f"
    if k == "double":
        return "2.25"
    if k == "ldouble":
        return "3.25L"
    if k == "str":
        return '"str"'
    if k == "ref":
        return {"func": "callee", "proto": "p0", "import": "imp", "data": "dat", "bss": "bs"}.get(o["t"])
    if k == "mem":
        if o["t"] == "undef":
            return None
        regs = {"i": "rb", "f": "rf", "d": "rd", "ld": "rld", "undecl": "zz"}
        s = "%s:%d(%s" % (TEXT_TYPES.get(o["t"], o["t"]), o["d"], regs[o["b"]])
        if o["x"] != "none":
            s += ", " + ("ri" if o["x"] == "i" else regs[o["x"]])
        return s + ")"
    return None                    # uint: the scanner only produces signed integers


_BR = set("jmp bt bts bf bfs bo ubo bno ubno".split())


def _is_branch(op):
    if op in _BR:
        return True
    for pre in ("f", "d", "ld", "u", ""):
        for c in ("beq", "bne", "blt", "ble", "bgt", "bge"):
            if op in (pre + c, pre + c + "s"):
                return True
    return False


def row_text(r):
    """MIR text of an instruction row, or None."""
    if r["grp"] == "decl" or any(i["op"] in ("use", "phi", "label", "invalid-insn", "unspec") for i in r["insns"]):
        return None
    fn, p = r["fn"], r["proto"]

    def targ(a):
        t = TEXT_TYPES.get(a["t"], a["t"])
        return "%s:%d(pa)" % (t, a["sz"]) if "blk" in a["t"] else "%s:pa" % t
    if any(a["t"] == "undef" for a in p["args"]):
        return None
    body, labels = [], []
    for ins in r["insns"]:
        ops = []
        for pos, o in enumerate(ins["ops"]):
            t = _text_opnd(o, ins["op"], pos, labels)
            if t is None:
                return None
            ops.append(t)
        body.append("  %s %s" % (ins["op"], ", ".join(ops)))
    if not body and labels:
        return None
    if labels:      # a label needs an insn on its line (`L: endfunc` is a syntax error): define them at the first insn
        body[0] = " ".join("%s:" % l for l in labels) + body[0]
    L = ["m: module",
         "p0: proto " + ", ".join(list(p["res"]) + [targ(a) for a in p["args"]] + (["..."] if p["va"] else [])),
         "import imp", "forward callee", "export callee", "callee: func", "endfunc",
         "dat: i64 1, 2, 3, 4", "bs: bss 64",
         "f: func " + ", ".join(list(fn["res"]) + ["i64:a1"] + (["..."] if fn["vararg"] else [])),
         "  local i64:ri, f:rf, d:rd, ld:rld, i64:rb"] + body + ["endfunc", "endmodule", ""]
    return "\n".join(L)


def text_line(cid, text, use=True):
    return "TEXT %s %d %s" % (cid, 1 if use else 0, binascii.hexlify(text.encode()).decode())


def run_harness(lines, variant="plain", par=None):
    """Feed lines to c15_check (split over `par` processes); returns {id: result dict}."""
    exe = harness_exe(variant)
    par = par or HARNESS_PAR
    n = max(1, min(par, (len(lines) + 199) // 200))
    parts = [lines[i::n] for i in range(n)]

    def one(part):
        env = dict(os.environ)
        env["ASAN_OPTIONS"] = "detect_leaks=0:abort_on_error=1:allocator_may_return_null=1"
        env["UBSAN_OPTIONS"] = "print_stacktrace=0"
        p = subprocess.run([exe], input=("\n".join(part) + "\n").encode(), stdout=subprocess.PIPE, stderr=subprocess.PIPE,
                           timeout=3000, env=env)
        return p.returncode, p.stdout.decode("utf-8", "replace"), p.stderr.decode("utf-8", "replace"), len(part)
    with ThreadPoolExecutor(max_workers=n) as ex:
        outs = list(ex.map(one, parts))
    res = {}
    for rc, out, err, npart in outs:
        done = None
        for line in out.splitlines():
            f = line.split(" ", 5)
            if f[0] == "MACHINERY":
                raise MachineryError("c15_check: " + line)
            if f[0] == "DONE":
                done = int(f[1])
                continue
            if len(f) < 2:
                continue
            d = res.setdefault(f[1], {"stages": {}, "steps": [], "crash": None, "end": False})
            if f[0] == "RES":
                if f[3] == "ERROR":
                    d["stages"][f[2]] = ("ERROR", f[5].split(" ", 1)[0] if len(f) > 5 else "?", f[5] if len(f) > 5 else "")
                elif f[3] == "NOOPCODE":
                    d["stages"][f[2]] = ("NOOPCODE", f[4], "")
                else:
                    d["stages"][f[2]] = (f[3], None, "")
            elif f[0] == "STEP":
                if f[3] == "ERROR":
                    rest = line.split(" ", 6)
                    d["steps"].append(("ERROR", rest[5], rest[6] if len(rest) > 6 else ""))
                else:
                    d["steps"].append(("ACCEPT", None, ""))
            elif f[0] == "LOOK":
                d.setdefault("look", {})[int(f[2])] = (f[3], f[4])
            elif f[0] == "OPS":
                d["ops"] = line.split(" ")[2:]
            elif f[0] == "END":
                d["end"] = True
            elif f[0] == "CRASH":
                d["crash"] = f[2]
        if rc != 0 or done != npart:
            raise MachineryError("c15_check died rc=%s done=%s/%s: %s" % (rc, done, npart, err[-800:]))
    return res


# ------------------------------------------------------------------ comparison (verdicts come from the spec)

def judge_gdecl(exp, res):
    """Declaration sequence: the verdict of the spec is about the last step, given that the code accepted the
    earlier ones (an earlier step MIR.md leaves open and the code rejects ends the row: nothing to compare)."""
    steps = res["steps"]
    npre = len(exp["pre"])
    for i, pe in enumerate(exp["preexp"]):
        if i >= len(steps):
            return ("crash", "the library died (%s) in declaration step %d" % (res["crash"], i + 1))
        if steps[i][0] != "ACCEPT":
            if pe == "unspec":
                return None
            return ("reject", "earlier declaration %s rejected (%s_error), MIR.md allows it" % (exp["pre"][i], steps[i][1]))
    if npre >= len(steps):
        return ("crash", "the library died (%s) in declaration step %d" % (res["crash"], npre + 1))
    r2 = dict(res)
    r2["stages"] = dict(res["stages"])
    r2["stages"]["build"] = steps[npre] if steps[npre][0] == "ERROR" else ("ACCEPT", None, "")
    v = judge(exp, r2, _plain=True)
    if v is None and exp["exp"] == "ok":
        lk = res.get("look", {}).get(npre + 1)
        if lk is None or lk[0] != lk[1]:
            return ("lookup", "MIR_reg (name) after the accepted declaration gives %s, the declaration returned %s" % (lk[1] if lk else None, lk[0] if lk else None))
    return v


def judge(exp, res, _plain=False):
    """exp: dict with exp/codes/anycode (+exec); res: harness result.  Returns (kind, text) or None.
    kind in accept / reject / code / crash / unusable."""
    if res is None:
        return ("crash", "no result from the harness")
    if exp.get("what") == "greg" and not _plain:
        return judge_gdecl(exp, res)
    if exp.get("what") == "gfn" and not _plain:
        # the declarations come first; one that MIR.md leaves open (a second name for a tied hard register)
        # and the code rejects ends the row, a well-formed one must be accepted
        for i, pe in enumerate(exp["preexp"]):
            if i >= len(res["steps"]):
                return ("crash", "the library died (%s) in declaration %d" % (res["crash"], i + 1))
            if res["steps"][i][0] != "ACCEPT":
                if pe == "unspec":
                    return None
                return ("reject", "declaration %s rejected (%s_error), MIR.md allows it" % (exp["decls"][i], res["steps"][i][1]))
        return judge(exp, res, _plain=True)
    b = res["stages"].get("build")
    if res["crash"] and b is None:
        return ("crash", "the library died (signal/exit %s) while the row was built" % res["crash"])
    if b is None:
        return ("crash", "no build verdict")
    if b[0] == "NOOPCODE" or (b[0] == "ERROR" and b[1] == "syntax" and "Unknown insn" in b[2]):
        op = b[1] if b[0] == "NOOPCODE" else b[2].split("Unknown insn", 1)[1].split()[0]
        return ("missing_opcode", "MIR.md documents insn '%s' but the implementation has no such opcode" % op, op)
    if exp["exp"] == "err":
        if b[0] == "ACCEPT":
            return ("accept", "accepted, but MIR.md forbids it (rules %s)" % ",".join(sorted(exp["rules"])))
        if not exp["anycode"] and b[1] not in exp["codes"]:
            return ("code", "rejected with %s_error, rules %s allow %s: %s" % (b[1], ",".join(sorted(exp["rules"])), sorted(exp["codes"]), b[2][:160]))
        return None
    if exp["exp"] == "ok":
        if b[0] != "ACCEPT":
            return ("reject", "rejected (%s_error: %s), but MIR.md allows it" % (b[1], b[2][:200]))
    if b[0] == "ACCEPT":
        # what the library accepted must be usable: load, link and (if executable in isolation) one interpretation
        for st in ("load", "link", "exec"):
            s = res["stages"].get(st)
            if s is not None and s[0] == "ERROR":
                return ("unusable", "accepted, then %s failed with %s_error: %s" % (st, s[1], s[2][:160]))
        if res["crash"]:
            last = [st for st in ("build", "load", "link", "exec") if st in res["stages"]][-1]
            return ("crash", "accepted, then the library died (signal/exit %s) after stage %s" % (res["crash"], last))
    return None


def finding_key(v, r):
    """Stable, specific key of a mismatch: verdict kind + opcode/position/kind (ret rows: the violated rules)."""
    if v[0] == "missing_opcode":
        return "missing_opcode:" + v[2]
    return "%s:%s" % (v[0], r.get("fkey", r["key"]))


def judge_path(c, res):
    """Protocol path: steps before the last must be accepted, the last one as the spec says."""
    h = c["h"]
    if res is None:
        return ("crash", "no result")
    steps = res["steps"]
    for i, s in enumerate(h):
        last = i == len(h) - 1
        if i >= len(steps):
            if res["crash"]:
                return ("crash", "the library died (%s) in step %d %s %s" % (res["crash"], i + 1, s["act"], s["n"]))
            return ("crash", "no verdict for step %d" % (i + 1))
        st = steps[i]
        if s["exp"] == "ok":
            if st[0] != "ACCEPT":
                return ("reject", "step %d %s %s rejected with %s_error (%s), MIR.md allows it" % (i + 1, s["act"], s["n"], st[1], st[2][:120]))
        elif s["exp"] == "err":
            if st[0] == "ACCEPT":
                return ("accept", "step %d %s %s accepted, rules %s require an error" % (i + 1, s["act"], s["n"], ",".join(sorted(s["rules"]))))
            if not s["anycode"] and st[1] not in s["codes"]:
                return ("code", "step %d %s %s raised %s_error, allowed %s" % (i + 1, s["act"], s["n"], st[1], sorted(s["codes"])))
        if not last and s["exp"] != "ok":
            raise MachineryError("spec emitted a path that continues after a non-ok step")
    if res["crash"] and h[-1]["exp"] != "unspec":
        return ("crash", "the library died (%s) after the last step" % res["crash"])
    if res["crash"] and len(steps) < len(h):
        return ("crash", "the library died (%s)" % res["crash"])
    return None


def path_key(c):
    """Stable finding key of a protocol mismatch: the call and the abstract state it was made in
    (module open?, function open?, what the name already denotes in the current module)."""
    s = c["h"][-1]
    mod, cur, defs = "nomod", "nofunc", {}
    for p in c["h"][:-1]:
        a = p["act"]
        if a == "new_module":
            mod, defs = "mod", {}
        elif a == "finish_module":
            mod = "nomod"
        elif a == "new_func":
            cur = "infunc"
            defs.setdefault(p["n"], []).append("func")
        elif a == "finish_func":
            cur = "nofunc"
        elif a == "new_func_reg":
            defs.setdefault("reg " + p["n"], []).append("reg")
        elif a.startswith("new_"):
            defs.setdefault(p["n"], []).append(a[4:])
    n = ("reg " + s["n"]) if s["act"] == "new_func_reg" else s["n"]
    return "api:%s:%s,%s,%s" % (s["act"], mod, cur, "+".join(defs.get(n, [])) or "-")


# ------------------------------------------------------------------ generation

def gen_table():
    jobs = []
    for grp, part in TABLE_JOBS:
        env = {"GRP": grp}
        if part is not None:
            env["PART"] = part
        jobs.append(dict(module="MIRCheck", cfg="MIRCheck_mc.cfg", workers=TLC_WORKERS, env=env, heap="2g", timeout=900))
    rs = vlib.parallel_tlc(jobs, maxpar=TLC_JVMS)
    rows, states, trans = [], 0, 0
    for (grp, part), r in zip(TABLE_JOBS, rs):
        tlc_ok(r, "MIRCheck %s %s" % (grp, part))
        if not r.outs:
            raise MachineryError("MIRCheck %s %s emitted no rows" % (grp, part))
        if r.distinct != len(r.outs):
            raise MachineryError("MIRCheck %s %s: %d distinct rows but %d emitted" % (grp, part, r.distinct, len(r.outs)))
        rows += r.outs
        states += r.distinct if grp != "meta" else 0
        trans += r.states
    meta = [r for r in rows if r["grp"] == "meta"]
    rows = [r for r in rows if r["grp"] != "meta"]
    gen_table.meta = meta[0]
    keys = collections.Counter(r["key"] for r in rows)
    dup = [k for k, n in keys.items() if n > 1]
    if dup:
        raise MachineryError("duplicate row keys: %s" % dup[:5])
    rows.sort(key=lambda r: (r["grp"], r["key"]))
    return rows, states, trans


def gen_paths(cfg):
    r = run_tlc("MIRApi", cfg, workers=min(4, TLC_WORKERS * 2), heap="4g", timeout=1500)
    if r.rc == 12 or r.violation:
        raise MachineryError("MIRApi model-level invariant violated: %s" % r.violation)
    tlc_ok(r, "MIRApi " + cfg)
    if not r.outs:
        raise MachineryError("MIRApi emitted no paths")
    return r.outs, r.distinct, r.states


# ------------------------------------------------------------------ the check

def check_rows(ck, rows, variant, mode, mutate=None):
    """Replay rows (mode api|text); record violations; returns stats Counter."""
    st = collections.Counter()
    ids, lines = {}, []
    for i, r in enumerate(rows):
        cid = "%s%d" % (mode[0], i)
        if mode == "text":
            t = row_text(r)
            if t is None:
                st["text_inexpressible"] += 1
                continue
            lines.append(text_line(cid, t, r["exp"] != "unspec"))
        else:
            lines.append(row_line(cid, r))
        ids[cid] = r
    res = run_harness(lines, variant)
    bad = []
    for cid, r in ids.items():
        exp = mutate(r) if mutate else r
        rr = res.get(cid)
        b = rr["stages"].get("build") if rr else None
        if rr and exp.get("what") == "greg":       # the verdict of a declaration row is that of its last step
            npre = len(exp["pre"])
            if len(rr["steps"]) > npre:
                b = rr["steps"][npre]
            elif rr["steps"] and rr["steps"][-1][0] == "ERROR":
                st["unspec_prefix_rejected"] += 1
        st["replayed"] += 1
        st["exp_" + exp["exp"]] += 1
        if b is not None:
            st["accepted" if b[0] == "ACCEPT" else "rejected"] += 1
            if exp["exp"] == "unspec":
                st["unspec_accepted" if b[0] == "ACCEPT" else "unspec_rejected"] += 1
            if rr["stages"].get("link", ("",))[0] == "OK":
                st["linked"] += 1
            if rr["stages"].get("exec", ("",))[0] == "OK":
                st["executed"] += 1
        v = judge(exp, rr)
        if v:
            bad.append((cid, r, exp, v))
    # soundness rule 5: a failing case is re-run once, alone, before it is reported
    first = {}
    for b in bad:
        first.setdefault(finding_key(b[3], b[1]), b)
    st["mismatch"] += len(bad) - len(first)
    for cid, r, exp, v in list(first.values())[:600]:
        line = text_line(cid, row_text(r), r["exp"] != "unspec") if mode == "text" else row_line(cid, r)
        v2 = judge(exp, run_harness([line], variant, par=1).get(cid))
        if v2 is None or v2[0] != v[0]:
            st["flaky_not_reported"] += 1
            continue
        key = finding_key(v, r)
        st["mismatch"] += 1
        if key in ck.c15_seen:
            continue        # one report per defect key (e.g. every ret with a wrong operand count)
        ck.c15_seen.add(key)
        ck.violation(key, "[%s/%s] %s: %s" % (mode, variant, r["key"], v[1]), {"mode": mode, "variant": variant, "row": r})
    return st


def check_paths(ck, paths, variant, mutate=None):
    st = collections.Counter()
    ids, lines = {}, []
    for i, c in enumerate(paths):
        cid = "p%d" % i
        ids[cid] = c
        lines.append(path_line(cid, c))
    res = run_harness(lines, variant)
    bad = []
    for cid, c in ids.items():
        c2 = mutate(c) if mutate else c
        st["replayed"] += 1
        st["exp_" + c2["h"][-1]["exp"]] += 1
        rr = res.get(cid)
        if rr and len(rr["steps"]) == len(c["h"]) and c2["h"][-1]["exp"] == "unspec":
            st["unspec_accepted" if rr["steps"][-1][0] == "ACCEPT" else "unspec_rejected"] += 1
        v = judge_path(c2, rr)
        if v:
            bad.append((cid, c, c2, v))
    seen = set()
    for cid, c, c2, v in bad[:400]:
        v2 = judge_path(c2, run_harness([path_line(cid, c)], variant, par=1).get(cid))
        if v2 is None or v2[0] != v[0]:
            st["flaky_not_reported"] += 1
            continue
        key = "%s:%s" % (v[0], path_key(c))
        st["mismatch"] += 1
        if key in seen or key in ck.c15_seen:
            continue        # the same call in the same abstract state reached by a longer path
        seen.add(key)
        ck.c15_seen.add(key)
        ck.violation(key, "[api/%s] %s: %s" % (variant, " ; ".join("%s %s" % (s["act"], s["n"]) for s in c["h"]), v[1]),
                     {"mode": "path", "variant": variant, "path": c})
    return st


def run(tier, mutate_rows=None, mutate_paths=None):
    ck = Check(PROP, tier, "model_checking")
    ck.c15_seen = set()
    t0 = time.time()
    rows, states, trans = gen_table()
    paths, pstates, ptrans = gen_paths("MIRApi_mc.cfg" if tier == "quick" else "MIRApi_t.cfg")
    tgen = time.time() - t0
    vlib.log("  TLC: %d table rows, %d protocol transitions (%d distinct protocol states) in %.0fs" % (len(rows), len(paths), pstates, tgen))
    total = collections.Counter()
    by_grp = collections.Counter(r["grp"] for r in rows)
    st = check_rows(ck, rows, "plain", "api", mutate_rows)
    vlib.log("  api/plain: %s" % dict(st))
    total.update(st)
    sp = check_paths(ck, paths, "plain", mutate_paths)
    vlib.log("  paths/plain: %s" % dict(sp))
    ntext = 0
    if tier == "thorough":
        stt = check_rows(ck, rows, "plain", "text", mutate_rows)
        vlib.log("  text/plain: %s" % dict(stt))
        ntext = stt["replayed"]
        ck.setc("text_rows_replayed", stt["replayed"])
        ck.setc("text_rows_inexpressible", stt["text_inexpressible"])
        ck.setc("text_mismatches", stt["mismatch"])
        sta = check_rows(ck, rows, "asan", "api", mutate_rows)
        vlib.log("  api/asan: %s" % dict(sta))
        spa = check_paths(ck, paths, "asan", mutate_paths)
        ck.setc("asan_rows_replayed", sta["replayed"] + spa["replayed"])
        ck.setc("asan_mismatches", sta["mismatch"] + spa["mismatch"])
    # opcodes of the implementation the specification does not know (MIR.md does not document them): recorded only
    impl_ops = set(run_harness(["OPCODES o0"], "plain", par=1)["o0"].get("ops", []))
    spec_ops = set(gen_table.meta["documented"]) | set(gen_table.meta["internal"])
    ck.setc("documented_opcodes", len(gen_table.meta["documented"]))
    ck.setc("impl_opcodes_unknown_to_spec", sorted(impl_ops - spec_ops))
    ck.setc("documented_opcodes_missing_in_impl", sorted(set(gen_table.meta["documented"]) - impl_ops))
    ck.setc("states", states + pstates)
    ck.setc("transitions", trans + ptrans)
    ck.setc("traces_validated_against_impl", st["replayed"] + sp["replayed"] + ntext)
    ck.setc("table_rows", len(rows))
    ck.setc("table_rows_by_group", dict(by_grp))
    ck.setc("protocol_transitions", len(paths))
    ck.setc("protocol_distinct_states", pstates)
    ck.setc("expected_ok", st["exp_ok"] + sp["exp_ok"])
    ck.setc("expected_err", st["exp_err"] + sp["exp_err"])
    ck.setc("unspecified", st["exp_unspec"] + sp["exp_unspec"])
    ck.setc("unspecified_accepted_by_code", st["unspec_accepted"] + sp["unspec_accepted"])
    ck.setc("unspecified_rejected_by_code", st["unspec_rejected"] + sp["unspec_rejected"])
    ck.setc("rows_accepted_by_code", st["accepted"])
    ck.setc("rows_rejected_by_code", st["rejected"])
    ck.setc("accepted_rows_loaded_and_linked", st["linked"])
    ck.setc("accepted_rows_interpreted", st["executed"])
    ck.setc("mismatching_rows", st["mismatch"] + sp["mismatch"])
    ck.setc("flaky_not_reported", st["flaky_not_reported"] + sp["flaky_not_reported"])
    ck.setc("exhaustive", True)
    ck.setc("tlc_seconds", round(tgen, 1))
    ck.setc("rule", "TLC evaluates Verdict() of spec/MIRCheck.tla (written from MIR.md) on the complete table: every documented "
                    "opcode x operand position x 46 operand kinds with the other positions valid, arity 0/-1/+1, ret operand lists "
                    "x result type lists, call/inline/jcall x 8 prototypes x positions x kinds incl. block arguments and vararg tail, "
                    "overflow-branch / va_start / jret context rules, register and function declarations; and every transition of "
                    "the MIRApi protocol graph.  Each row is built through the API in a forked child in a fresh context with a "
                    "recording error function; accept/reject is compared exactly, the error code against the set the violated rules "
                    "allow; accepted rows are loaded, linked and, when executable in isolation, interpreted once; a dead child is a violation")
    ck.setc("trusted_base", ["TLC 1.8", "harness/c15_check.c (row construction)", "row_line/judge in harness/py/c15.py"])
    for r in (rows[0], rows[len(rows) // 3], rows[2 * len(rows) // 3]):
        ck.sample({"key": r["key"], "exp": r["exp"], "codes": r["codes"], "unspec": r["unspec"]}, maxn=6)
    ck.sample({"path": [s["act"] + " " + s["n"] for s in paths[len(paths) // 2]["h"]], "exp": paths[len(paths) // 2]["h"][-1]["exp"]}, maxn=6)
    ck.assumptions += ["x86-64 Linux: long double is a distinct 80-bit type",
                       "rows classified `unspec` (MIR.md silent or ambiguous) are replayed and counted, never alarmed on, except for a dead child",
                       "error codes: MIR.md assigns none; a rule allows the codes of mir.h whose name states its subject (RuleCodes in the spec)"]
    return ck.finish()


def replay(path):
    d = json.load(open(path))
    c = d["case"]
    variant = c.get("variant", "plain")
    if c["mode"] == "path":
        v = judge_path(c["path"], run_harness([path_line("p0", c["path"])], variant, par=1).get("p0"))
    else:
        r = c["row"]
        line = text_line("t0", row_text(r), r["exp"] != "unspec") if c["mode"] == "text" else row_line("a0", r)
        v = judge(r, run_harness([line], variant, par=1).get(line.split(" ")[1]))
    if v:
        print("replay: still failing: %s: %s" % (v[0], v[1]))
        print("VIOLATION property=%s replay=%s" % (PROP, path))
        return 1
    print("replay: passes")
    return 0


def selftest():
    """Binding demonstration: corrupt expected values of rows the code handles correctly; the check must object.
    Also: a child that dies must be reported."""
    rows, _, _ = gen_table()
    by = {r["key"]: r for r in rows}
    bad = 0

    def expect(name, exp, line, want):
        nonlocal bad
        cid = line.split(" ")[1]
        v = judge(exp, run_harness([line], "plain", par=1).get(cid))
        got = v[0] if v else None
        ok = got == want
        print("selftest %-48s -> %-8s %s" % (name, got, "ok" if ok else "NOT DETECTED (wanted %s)" % want))
        bad += 0 if ok else 1
    r = by["add:2:r_i"]
    expect("unchanged ok row add:2:r_i", r, row_line("s0", r), None)
    c = copy.deepcopy(r)
    c.update(exp="err", rules=["Class"], codes=["op_mode"], anycode=False)
    expect("ok row with expectation flipped to err", c, row_line("s1", r), "accept")
    r = by["add:1:float"]
    expect("unchanged err row add:1:float", r, row_line("s2", r), None)
    c = copy.deepcopy(r)
    c.update(exp="ok", rules=[], codes=[])
    expect("err row with expectation flipped to ok", c, row_line("s3", r), "reject")
    c = copy.deepcopy(r)
    c.update(codes=["ops_num"])
    expect("err row with a wrong allowed code set", c, row_line("s4", r), "code")
    # an accepted row whose execution must happen: drop the exec stage result -> still fine; corrupt operand -> crash detection
    r = by["mov:2:m_i64"]
    c = copy.deepcopy(r)
    c["insns"][0]["ops"][1]["b"] = "none"      # i64:0 absolute address 0: the interpreter dereferences NULL
    expect("accepted row dereferencing address 0 when run", c, row_line("s5", c), "crash")
    paths, _, _ = gen_paths("MIRApi_mc.cfg")
    p = next(x for x in paths if x["h"][-1]["exp"] == "err" and len(x["h"]) >= 3)
    v = judge_path(p, run_harness([path_line("p0", p)], "plain", par=1).get("p0"))
    print("selftest unchanged protocol path                            -> %s" % (v[0] if v else None))
    bad += 1 if v else 0
    c = copy.deepcopy(p)
    c["h"][-1].update(exp="ok", codes=[], rules=[])
    v = judge_path(c, run_harness([path_line("p1", p)], "plain", par=1).get("p1"))
    print("selftest protocol path, last step flipped to ok             -> %s" % (v[0] if v else "NOT DETECTED"))
    bad += 0 if v and v[0] == "reject" else 1
    c = copy.deepcopy(p)
    del c["h"][0]                                    # drop the first call (new_module) from the replayed path only
    v = judge_path(p, run_harness([path_line("p2", c)], "plain", par=1).get("p2"))
    print("selftest protocol path replayed with its first call dropped -> %s" % (v[0] if v else "NOT DETECTED"))
    bad += 0 if v else 1
    return 1 if bad else 0
