/* C17 drivers: run real API histories on a context created with MIR_init2 (ledger allocators) and
   record the allocator-call trace (harness/c17_ledger.c).

   usage: c17 <trace.ndjson> <history> [<history> ...]
   history = comma separated key=value list:
     src=api:loop | api:sieve | api:memop | scan:<file.mir> | scanstr:sieve | bin:<file.mir> | c2m:<name or file.c>
         | adt  (no MIR context: mir-varr.h / mir-htab.h used directly with the ledger allocator)
         | scanstr:jcall     jcall through a variadic prototype + jret (generated, never executed)
         | scanstr:manyargs  main calls an external variadic function with 70 arguments
         | scanstr:irreducible  a loop with a second entry (jump into the middle of its body)
         | movectx           context A scans a module (functions with a global variable tied to a hard register),
                             MIR_change_module_ctx (A, m, B), MIR_finish (A); B outputs, writes, loads, links,
                             generates the moved module; MIR_finish (B).  One execution: both contexts share the ledger
         | bigcode           modules of functions with hundreds of call sites are loaded, linked and generated
                             one after the other until rep code patches straddled a page boundary
     link=none|interp|gen|lazy|lazybb      interface passed to MIR_link
     opt=0..3                              MIR_gen_set_optimize_level
     run=0|1                               execute `main` (if the module has one) through the interface
     out=0|1                               MIR_output to /dev/null and MIR_write to a scratch file
     rep=<n>                               repeat gen_init .. gen_finish n times inside one context
     tier=0|1                              1: the function is first executed with MIR_interp and only then called through
                                           its address (tiered execution; matters for the lazy interfaces, where the
                                           first call generates code for a function the interpreter has prepared)
   bin:<file> = context 1: scan + MIR_write + finish; context 2 (a new execution): MIR_read + the rest.
   One line per history on stdout: "H <index> <status> <events>" with status ok|abort:<why>. */
#define _GNU_SOURCE
#include <stdio.h>
#include <stdlib.h>
#include <string.h>
#include <setjmp.h>
#include <stdarg.h>
#include <dlfcn.h>
#include <unistd.h>
#include "c17_ledger.h"
#include "mir.h"
#include "mir-gen.h"
#include "c2mir/c2mir.h"

#include "mir-tests/api-loop.h"
#include "mir-tests/api-sieve.h"
#include "mir-tests/api-memop.h"
#include "mir-tests/scan-sieve.h"
#include "mir-htab.h"

typedef long c17_el_t;
DEF_VARR (c17_el_t);
DEF_HTAB (c17_el_t);

static jmp_buf err_jmp;
static char err_msg[200];
static FILE *devnull;
static const char *scratch_dir = ".";

static void MIR_NO_RETURN on_error (MIR_error_type_t t, const char *fmt, ...) {
  va_list ap;
  int n = snprintf (err_msg, sizeof (err_msg), "mir-error-%d:", (int) t);
  va_start (ap, fmt);
  vsnprintf (err_msg + n, sizeof (err_msg) - n, fmt, ap);
  va_end (ap);
  longjmp (err_jmp, 1);
}

/* externals visible to MIR programs: never the library's business */
static int q_printf (const char *fmt, ...) {
  va_list ap;
  int r;
  va_start (ap, fmt);
  r = vfprintf (devnull, fmt, ap);
  va_end (ap);
  return r;
}
static int q_puts (const char *s) { return fputs (s, devnull); }
static int q_putchar (int c) { return fputc (c, devnull); }
static void q_exit (long code) { (void) code; } /* the tests call exit (0) as their last statement */

static long q_sumv (long n, ...) {
  va_list ap;
  long s = 0;
  va_start (ap, n);
  while (n-- > 0) s += va_arg (ap, long);
  va_end (ap);
  return s;
}

static void *resolver (const char *name) {
  if (strcmp (name, "sumv") == 0) return q_sumv;
  if (strcmp (name, "printf") == 0) return q_printf;
  if (strcmp (name, "puts") == 0) return q_puts;
  if (strcmp (name, "putchar") == 0) return q_putchar;
  if (strcmp (name, "exit") == 0) return q_exit;
  return dlsym (RTLD_DEFAULT, name);
}

/* ---------------------------------------------------------------- small C inputs for c2mir */
static const char *c_inputs[][2] = {
  {"fib",
   "int printf (const char *, ...);\n"
   "#define N 15\n"
   "#define ADD(a, b) ((a) + (b))\n"
   "static int fib (int n) { return n < 2 ? n : ADD (fib (n - 1), fib (n - 2)); }\n"
   "int main (void) { printf (\"%d\\n\", fib (N)); return fib (N) != 610; }\n"},
  {"prepro",
   "#define A 1\n#define B(x, y) x##y\n#define STR(x) #x\n#define V(...) __VA_ARGS__\n"
   "#if A\n#define C 3\n#else\n#define C 4\n#endif\n"
   "#ifdef NOPE\n#error no\n#elif defined(A) && C == 3\nstatic int B(va, l) = C;\n#endif\n"
   "#undef A\n#ifndef A\nstatic const char *s = STR (hello world);\n#endif\n"
   "#if __has_include(\"nonexistent.h\")\n#endif\n"
   "static int arr[] = {V (1, 2, 3)};\n"
   "int main (void) { return val != 3 || s[0] != 'h' || arr[2] != 3 || __LINE__ < 1; }\n"},
  {"structs",
   "typedef struct { int a; double d; char c[5]; } S;\n"
   "struct L { struct L *next; long v; };\n"
   "static S mk (int a) { S s = {a, a * 0.5, \"abcd\"}; return s; }\n"
   "static long sum (struct L *l) { long r = 0; for (; l; l = l->next) r += l->v; return r; }\n"
   "enum E { E0, E1 = 5, E2 };\n"
   "union U { int i; float f; unsigned char b[4]; };\n"
   "int main (void) {\n"
   "  struct L c = {0, 3}, b = {&c, 2}, a = {&b, 1};\n"
   "  S s = mk (4); union U u; u.i = 0; u.b[0] = 1;\n"
   "  switch (s.a) { case 4: break; default: return 1; }\n"
   "  return !(sum (&a) == 6 && s.d == 2.0 && s.c[3] == 'd' && E2 == 6 && u.i != 0);\n"
   "}\n"},
  {"loops",
   "static unsigned long long mix (unsigned long long x) { x ^= x >> 13; x *= 0x9E3779B97F4A7C15ull; return x ^ (x >> 7); }\n"
   "static int tab[64];\n"
   "static long double ld (long double x) { return x * 2.5L; }\n"
   "static float ff (float a, double b) { return (float) (a + b); }\n"
   "int main (void) {\n"
   "  unsigned long long h = 1; int i, j, n = 0;\n"
   "  for (i = 0; i < 64; i++) { h = mix (h + i); tab[i] = (int) (h & 0xff); }\n"
   "  for (i = 0; i < 64; i++) for (j = i + 1; j < 64; j++) if (tab[i] > tab[j]) { int t = tab[i]; tab[i] = tab[j]; tab[j] = t; n++; }\n"
   "  do { n--; } while (n > 10);\n"
   "  while (i-- > 0) if (i > 0 && tab[i - 1] > tab[i]) goto bad;\n"
   "  return !(ld (2.0L) == 5.0L && ff (1.5f, 2.5) == 4.0f);\n"
   "bad: return 1;\n"
   "}\n"},
  {"funcptr",
   "#include <stdarg.h>\n#include <stddef.h>\n"
   "int printf (const char *, ...);\n"
   "typedef int (*op_t) (int, int);\n"
   "static int add (int a, int b) { return a + b; }\n"
   "static int mul (int a, int b) { return a * b; }\n"
   "static int apply (op_t f, int a, int b) { return f (a, b); }\n"
   "static int vsum (int n, ...) { va_list ap; int s = 0; va_start (ap, n); while (n-- > 0) s += va_arg (ap, int); va_end (ap); return s; }\n"
   "static const op_t ops[] = {add, mul};\n"
   "_Static_assert (sizeof (long) == 8, \"lp64\");\n"
   "int main (void) { char buf[16]; int i; size_t z = sizeof (buf); for (i = 0; i < 16; i++) buf[i] = (char) i;\n"
   "  printf (\"%s %d\\n\", \"x\", apply (ops[1], 6, 7));\n"
   "  return !(apply (ops[0], 2, 3) == 5 && apply (ops[1], 6, 7) == 42 && vsum (3, 1, 2, 3) == 6 && buf[15] == 15 && z == 16); }\n"},
  {"incomplete", /* identifiers first declared with an incomplete type and completed later */
   "extern int tab[];\n"
   "struct S;\n"
   "extern struct S gs;\n"
   "struct S *ps = &gs;\n"
   "int t[];\n"
   "static int sum (int n) { int s = 0; for (int i = 0; i < n; i++) s += tab[i]; return s; }\n"
   "int tab[4] = {1, 2, 3, 4};\n"
   "struct S { int x, y; };\n"
   "struct S gs = {5, 6};\n"
   "int t[3];\n"
   "int f (int); int f (int a) { return a + 1; }\n"
   /* only t[0] is touched: c2mir emits `t: bss 4` AND `t: bss 12` for the two declarations of t and binds uses to
      the first, so t[2] would be a store behind the section (a miscompilation, not an allocator matter) */
   "int main (void) { t[0] = 7; return !(sum (4) + (int) (sizeof (tab) / sizeof (tab[0])) == 14 && ps->y == 6 && t[0] == 7 && f (1) == 2); }\n"},
  {"macros", /* preprocessor-heavy: function-like macros with 0/1/n parameters and empty argument lists, variadic
                 macros, nested expansion, stringification, pasting, #if arithmetic, the built-in headers */
   "#include <stddef.h>\n"
   "#include <stdarg.h>\n"
   "#include <limits.h>\n"
   "#include <stdint.h>\n"
   "#include <float.h>\n"
   "#include <stdbool.h>\n"
   "#include <iso646.h>\n"
   "#include <stdalign.h>\n"
   "#include <stdnoreturn.h>\n"
   "#define ZERO() 0\n"
   "#define ONE( ) (ZERO () + 1)\n"
   "#define ID(x) x\n"
   "#define ADD3(a, b, c) ((a) + (b) + (c))\n"
   "#define APPLY(m, ...) m (__VA_ARGS__)\n"
   "#define CNT(...) CNT_ (__VA_ARGS__, 3, 2, 1, 0)\n"
   "#define CNT_(a, b, c, n, ...) n\n"
   "#define XSTR(x) STR_ (x)\n"
   "#define STR_(x) #x\n"
   "#define CAT(a, b) CAT_ (a, b)\n"
   "#define CAT_(a, b) a##b\n"
   "#define EMPTY\n"
   "#define NOARG_OBJ ZERO\n"
   "#define TWICE(f) f () + f ()\n"
   "#define LOG(fmt, ...) vsum (CNT (__VA_ARGS__), __VA_ARGS__)\n"
   "static int vsum (int n, ...) { va_list ap; int s = 0; va_start (ap, n); while (n-- > 0) s += va_arg (ap, int); va_end (ap); return s; }\n"
   "static const char *name = XSTR (CAT (ab, ZERO ()));\n"
   "#if ZERO () || !defined(ID) || ONE () != 1\n"
   "#error unexpected\n"
   "#elif ADD3 (1, 2, 3) == 6 && CNT (x, y) == 2\n"
   "enum { OK = ONE () };\n"
   "#endif\n"
   "int main (void) {\n"
   "  int CAT (v, 1) = ID (ID (ZERO ())) + APPLY (ADD3, 1, ONE (), 3) EMPTY;\n"
   "  bool b = true and not false;\n"
   "  size_t z = offsetof (struct { char c; int32_t i; }, i);\n"
   "  return !(v1 == 5 && OK == 1 && TWICE (ONE) == 2 && NOARG_OBJ () == 0 && LOG (\"x\", 1, 2, 3) == 6 && name[0] == 'a' && name[2] == '0'\n"
   "           && b && z == alignof (int) && INT_MAX > 0 && DBL_DIG >= 10 && ZERO( ) == 0);\n"
   "}\n"},
  {"empty", "int main (void) { return 0; }\n"},
};

/* MIR_JCALL through a variadic prototype: at -O0 the x86-64 generator keeps a per-insn bitmap of the hard
   registers used for the call (AX = number of vector arguments).  `run` is only generated, never executed. */
static const char *jcall_prog
  = "m: module\n"
    "p_t: proto i64:x, ...\n"
    "export run\n"
    "target: func i64:x, ...\n"
    "  jret x\n"
    "  endfunc\n"
    "run: func i64, i64:c\n"
    "  local i64:r\n"
    "  mov r, 42\n"
    "  bf done, c\n"
    "  jcall p_t, target, c, r\n"
    "done:\n"
    "  add r, r, c\n"
    "  ret r\n"
    "  endfunc\n"
    "  endmodule\n";

/* an irreducible loop: the loop L1..blt has a second entry at L2 */
static const char *irreducible_prog
  = "m: module\n"
    "export main\n"
    "f:    func i64, i64:n\n"
    "      local i64:i, i64:s\n"
    "      mov i, 0\n"
    "      mov s, 0\n"
    "      bgt L2, n, 5\n"
    "L1:\n"
    "      add s, s, i\n"
    "L2:\n"
    "      add s, s, 1\n"
    "      add i, i, 1\n"
    "      blt L1, i, n\n"
    "      ret s\n"
    "      endfunc\n"
    "pf:   proto i64, i64:n\n"
    "main: func i64\n"
    "      local i64:a, i64:b\n"
    "      call pf, f, a, 3\n"
    "      call pf, f, b, 8\n"
    "      mul a, a, 100\n"
    "      add a, a, b\n"
    "      ret a\n"
    "      endfunc\n"
    "      endmodule\n";

/* functions with a global variable tied to a hard register (moved between contexts by run_movectx) */
static const char *movectx_prog
  = "m1: module\n"
    "export get, set\n"
    "set: func i64:v\n"
    "  global i64:acc:r12\n"
    "  mov acc, v\n"
    "  ret\n"
    "endfunc\n"
    "get: func i64, i64:k\n"
    "  global i64:acc:r12\n"
    "  local i64:t\n"
    "  mul t, acc, k\n"
    "  ret t\n"
    "endfunc\n"
    "endmodule\n";

static char *manyargs_prog (void) { /* call p, sumv, r, 70, 1, 2, ..., 70 */
  static char buf[2000];
  char *s = buf;
  int i;
  s += sprintf (s, "m: module\np: proto i64, i64:n, ...\nimport sumv\nmain: func i64\n  local i64:r\n  call p, sumv, r, 70");
  for (i = 1; i <= 70; i++) s += sprintf (s, ", %d", i);
  s += sprintf (s, "\n  sub r, r, 2485\n  ret r\n  endfunc\n  endmodule\n");
  return buf;
}

struct str_in {
  const char *s;
  size_t i;
};
static int str_getc (void *d) {
  struct str_in *in = d;
  return in->s[in->i] == 0 ? EOF : (unsigned char) in->s[in->i++];
}

static char *read_text (const char *path) {
  FILE *f = fopen (path, "rb");
  long n;
  char *s;
  if (f == NULL) return NULL;
  fseek (f, 0, SEEK_END);
  n = ftell (f);
  rewind (f);
  s = malloc ((size_t) n + 1);
  if (fread (s, 1, (size_t) n, f) != (size_t) n) n = 0;
  s[n] = 0;
  fclose (f);
  return s;
}

/* ---------------------------------------------------------------- one history */
struct hist {
  char src[300], link[16];
  int opt, run, out, rep, tier;
};

static void parse_hist (const char *spec, struct hist *h) {
  char buf[600], *tok, *save = NULL;
  memset (h, 0, sizeof (*h));
  strcpy (h->src, "api:loop");
  strcpy (h->link, "interp");
  h->opt = 2;
  h->run = 1;
  h->rep = 1;
  snprintf (buf, sizeof (buf), "%s", spec);
  for (tok = strtok_r (buf, ",", &save); tok != NULL; tok = strtok_r (NULL, ",", &save)) {
    char *eq = strchr (tok, '=');
    if (eq == NULL) continue;
    *eq++ = 0;
    if (strcmp (tok, "src") == 0) snprintf (h->src, sizeof (h->src), "%s", eq);
    else if (strcmp (tok, "link") == 0) snprintf (h->link, sizeof (h->link), "%s", eq);
    else if (strcmp (tok, "opt") == 0) h->opt = atoi (eq);
    else if (strcmp (tok, "run") == 0) h->run = atoi (eq);
    else if (strcmp (tok, "out") == 0) h->out = atoi (eq);
    else if (strcmp (tok, "rep") == 0) h->rep = atoi (eq);
    else if (strcmp (tok, "tier") == 0) h->tier = atoi (eq);
  }
}

#define API(name) c17_api (name)

/* the function to execute: `main`, else the API-built `loop` (one i64 argument) / `sieve` */
static MIR_item_t find_main (MIR_context_t ctx) {
  MIR_module_t m;
  MIR_item_t it, res = NULL;
  for (m = DLIST_HEAD (MIR_module_t, *MIR_get_module_list (ctx)); m != NULL; m = DLIST_NEXT (MIR_module_t, m))
    for (it = DLIST_HEAD (MIR_item_t, m->items); it != NULL; it = DLIST_NEXT (MIR_item_t, it))
      if (it->item_type == MIR_func_item
          && (strcmp (it->u.func->name, "main") == 0 || strcmp (it->u.func->name, "loop") == 0
              || strcmp (it->u.func->name, "sieve") == 0))
        res = it;
  return res;
}

/* build modules in ctx according to src; returns 0 if the source cannot be built (history discarded) */
static int build (MIR_context_t ctx, struct hist *h, int *c2m_active) {
  const char *s = h->src;
  if (strcmp (s, "api:loop") == 0) {
    MIR_module_t m;
    API ("build_api");
    create_mir_func_with_loop (ctx, &m);
  } else if (strcmp (s, "api:sieve") == 0) {
    MIR_module_t m;
    API ("build_api");
    create_mir_func_sieve_api (ctx, &m);
  } else if (strcmp (s, "api:memop") == 0) {
    MIR_module_t m;
    API ("build_api");
    create_mir_example2 (ctx, &m);
  } else if (strcmp (s, "scanstr:jcall") == 0) {
    API ("MIR_scan_string");
    MIR_scan_string (ctx, jcall_prog);
  } else if (strcmp (s, "scanstr:irreducible") == 0) {
    API ("MIR_scan_string");
    MIR_scan_string (ctx, irreducible_prog);
  } else if (strcmp (s, "scanstr:manyargs") == 0) {
    API ("MIR_scan_string");
    MIR_scan_string (ctx, manyargs_prog ());
  } else if (strcmp (s, "scanstr:sieve") == 0) {
    MIR_module_t m;
    API ("MIR_scan_string");
    create_mir_func_sieve (ctx, NULL, &m);
  } else if (strncmp (s, "scan:", 5) == 0) {
    char *text = read_text (s + 5);
    if (text == NULL) {
      snprintf (err_msg, sizeof (err_msg), "cannot read %s", s + 5);
      return 0;
    }
    API ("MIR_scan_string");
    MIR_scan_string (ctx, text);
    free (text);
  } else if (strncmp (s, "read:", 5) == 0) {
    FILE *f = fopen (s + 5, "rb");
    if (f == NULL) {
      snprintf (err_msg, sizeof (err_msg), "cannot read %s", s + 5);
      return 0;
    }
    API ("MIR_read");
    MIR_read (ctx, f);
    fclose (f);
  } else if (strncmp (s, "c2m:", 4) == 0) {
    struct c2mir_options ops;
    struct str_in in;
    char *text = NULL;
    size_t i;
    int ok;
    in.s = NULL;
    in.i = 0;
    for (i = 0; i < sizeof (c_inputs) / sizeof (c_inputs[0]); i++)
      if (strcmp (c_inputs[i][0], s + 4) == 0) in.s = c_inputs[i][1];
    if (in.s == NULL) in.s = text = read_text (s + 4);
    if (in.s == NULL) {
      snprintf (err_msg, sizeof (err_msg), "cannot read %s", s + 4);
      return 0;
    }
    memset (&ops, 0, sizeof (ops));
    ops.message_file = devnull;
    ops.ignore_warnings_p = 1;
    API ("c2mir_init");
    c2mir_init (ctx);
    *c2m_active = 1;
    API ("c2mir_compile");
    ok = c2mir_compile (ctx, &ops, str_getc, &in, "c17-input.c", NULL);
    free (text);
    if (!ok) {
      snprintf (err_msg, sizeof (err_msg), "c2mir_compile reported errors");
      return 0;
    }
  } else {
    snprintf (err_msg, sizeof (err_msg), "unknown src %s", s);
    return 0;
  }
  return 1;
}

/* The container headers with the user's allocator and no MIR context: growth by more than one element while
   the array is not full, tailoring down and up, hash table growth/rebuild, clear, destroy. */
static htab_hash_t adt_hash (c17_el_t e, void *arg) { (void) arg; return (htab_hash_t) (e * 2654435761u); }
static int adt_eq (c17_el_t a, c17_el_t b, void *arg) { (void) arg; return a == b; }

static const char *run_adt (const char *name) {
  VARR (c17_el_t) * v, *w;
  HTAB (c17_el_t) * h;
  c17_el_t buf[300], t;
  long i;
  c17_start (name);
  API ("VARR");
  for (i = 0; i < 300; i++) buf[i] = i;
  VARR_CREATE (c17_el_t, v, c17_alloc (), 4);
  VARR_CREATE (c17_el_t, w, c17_alloc (), 0);
  for (i = 0; i < 3; i++) VARR_PUSH (c17_el_t, v, i);
  VARR_EXPAND (c17_el_t, v, 100);              /* 3 elements in a 4-slot array */
  VARR_PUSH_ARR (c17_el_t, v, buf, 300);       /* 3 elements, 150 slots */
  VARR_TAILOR (c17_el_t, v, 50);
  VARR_TAILOR (c17_el_t, v, 500);
  VARR_TRUNC (c17_el_t, v, 10);
  VARR_EXPAND (c17_el_t, v, 2000);
  for (i = 0; i < 100; i++) VARR_PUSH (c17_el_t, w, i);
  VARR_TAILOR (c17_el_t, w, 100);
  VARR_PUSH_ARR (c17_el_t, w, buf, 7);
  API ("HTAB");
  HTAB_CREATE (c17_el_t, h, c17_alloc (), 2, adt_hash, adt_eq, NULL);
  for (i = 0; i < 200; i++) HTAB_DO (c17_el_t, h, i * 7, HTAB_INSERT, t);
  for (i = 0; i < 200; i += 3) HTAB_DO (c17_el_t, h, i * 7, HTAB_DELETE, t);
  for (i = 200; i < 300; i++) HTAB_DO (c17_el_t, h, i * 7, HTAB_REPLACE, t);
  HTAB_CLEAR (c17_el_t, h);
  for (i = 0; i < 40; i++) HTAB_DO (c17_el_t, h, i, HTAB_INSERT, t);
  HTAB_DESTROY (c17_el_t, h);
  VARR_DESTROY (c17_el_t, v);
  VARR_DESTROY (c17_el_t, w);
  c17_finish ();
  return NULL;
}

/* Generated code larger than a page with many in-place patches (call sites are rewritten to rel32 calls after
   the code is published).  Modules are added (load, link with the generator interface) until at least `rep`
   mem_protect requests of a patch covered two pages, i.e. the patched bytes straddled a page boundary. */
#define BIG_CALLS 700
#define BIG_MAX_MODULES 12
static const char *run_bigcode (struct hist *h, const char *name) {
  static char prog[BIG_CALLS * 40 + 4096];
  MIR_context_t ctx;
  MIR_module_t m;
  int k, i;
  long res = 0;

  c17_start (name);
  if (setjmp (err_jmp)) return err_msg;
  API ("MIR_init2");
  ctx = MIR_init2 (c17_alloc (), c17_code_alloc ());
  MIR_set_error_func (ctx, on_error);
  API ("MIR_gen_init");
  MIR_gen_init (ctx);
  MIR_gen_set_optimize_level (ctx, (unsigned) h->opt);
  MIR_scan_string (ctx, "m0: module\nexport callee\ncallee: func i64, i64:x\n  local i64:r\n  add r, x, 1\n  ret r\n  endfunc\n  endmodule\n");
  for (k = 0; k < BIG_MAX_MODULES && c17_straddling_protects () < h->rep; k++) {
    char *s = prog, fname[32];
    MIR_item_t it, f = NULL;
    s += sprintf (s, "m%d: module\nimport callee\np: proto i64, i64:x\nf%d: func i64, i64:x\n  local i64:r\n  mov r, x\n", k + 1, k);
    for (i = 0; i < k % 7; i++) s += sprintf (s, "  add r, r, %d\n", 1000 + i); /* shift the layout */
    for (i = 0; i < BIG_CALLS; i++) {
      s += sprintf (s, "  call p, callee, r, r\n");
      if ((i * 7 + k) % 5 == 0) s += sprintf (s, "  add r, r, %d\n", (i + k) % 3 == 0 ? 1 : 300); /* vary the spacing */
    }
    s += sprintf (s, "  ret r\n  endfunc\n  endmodule\n");
    API ("MIR_scan_string");
    MIR_scan_string (ctx, prog);
    API ("MIR_load_module");
    for (m = DLIST_HEAD (MIR_module_t, *MIR_get_module_list (ctx)); m != NULL; m = DLIST_NEXT (MIR_module_t, m))
      if (DLIST_NEXT (MIR_module_t, m) == NULL || k == 0) MIR_load_module (ctx, m);
    API ("MIR_link");
    MIR_link (ctx, strcmp (h->link, "lazy") == 0 ? MIR_set_lazy_gen_interface : MIR_set_gen_interface, resolver);
    sprintf (fname, "f%d", k);
    m = DLIST_TAIL (MIR_module_t, *MIR_get_module_list (ctx));
    for (it = DLIST_HEAD (MIR_item_t, m->items); it != NULL; it = DLIST_NEXT (MIR_item_t, it))
      if (it->item_type == MIR_func_item && strcmp (it->u.func->name, fname) == 0) f = it;
    if (f == NULL) return "bigcode: function not found";
    API ("call_main");
    res += ((long (*) (long)) f->addr) (5);
  }
  c17_note ("main_result", res);
  c17_note ("bigcode_modules", k);
  c17_note ("straddling_protects", c17_straddling_protects ());
  API ("MIR_gen_finish");
  MIR_gen_finish (ctx);
  API ("MIR_finish");
  MIR_finish (ctx);
  c17_finish ();
  return NULL;
}

/* A module is built in context A, moved to context B, A is finished, B goes on using the module. */
static const char *run_movectx (struct hist *h, const char *name) {
  MIR_context_t a, b;
  MIR_module_t m;
  MIR_item_t it;
  FILE *f;
  int gen_used = strcmp (h->link, "interp") != 0 && strcmp (h->link, "none") != 0;

  c17_start (name);
  if (setjmp (err_jmp)) return err_msg;
  API ("MIR_init2");
  a = MIR_init2 (c17_alloc (), c17_code_alloc ());
  MIR_set_error_func (a, on_error);
  API ("MIR_init2");
  b = MIR_init2 (c17_alloc (), c17_code_alloc ());
  MIR_set_error_func (b, on_error);
  API ("MIR_scan_string");
  MIR_scan_string (a, movectx_prog);
  m = DLIST_HEAD (MIR_module_t, *MIR_get_module_list (a));
  API ("MIR_change_module_ctx");
  MIR_change_module_ctx (a, m, b);
  API ("MIR_finish");
  MIR_finish (a); /* everything context A owned is released here */
  API ("MIR_output");
  MIR_output (b, devnull);
  if ((f = fopen ("/dev/null", "wb")) == NULL) return "cannot open output";
  API ("MIR_write");
  MIR_write (b, f);
  fclose (f);
  if (strcmp (h->link, "none") != 0) {
    API ("MIR_load_module");
    MIR_load_module (b, m);
    if (gen_used) {
      API ("MIR_gen_init");
      MIR_gen_init (b);
      MIR_gen_set_optimize_level (b, (unsigned) h->opt);
    }
    API ("MIR_link");
    MIR_link (b,
              strcmp (h->link, "interp") == 0 ? MIR_set_interp_interface
              : strcmp (h->link, "gen") == 0  ? MIR_set_gen_interface
              : strcmp (h->link, "lazy") == 0 ? MIR_set_lazy_gen_interface
                                              : MIR_set_lazy_bb_gen_interface,
              resolver);
    if (gen_used) {
      API ("MIR_gen");
      for (it = DLIST_HEAD (MIR_item_t, m->items); it != NULL; it = DLIST_NEXT (MIR_item_t, it))
        if (it->item_type == MIR_func_item) MIR_gen (b, it);
      API ("MIR_gen_finish");
      MIR_gen_finish (b);
    }
    API ("MIR_output");
    MIR_output (b, devnull);
  }
  API ("MIR_finish");
  MIR_finish (b);
  c17_finish ();
  return NULL;
}

/* returns NULL when the history completed, else the reason it was abandoned */
static const char *run_ctx (struct hist *h, const char *name, const char *write_to) {
  MIR_context_t ctx;
  MIR_module_t m;
  MIR_item_t main_func, it;
  int c2m_active = 0, gen_active = 0, gen_used = strcmp (h->link, "interp") != 0 && strcmp (h->link, "none") != 0;
  int rep;

  c17_start (name);
  if (setjmp (err_jmp)) return err_msg; /* MIR error callback: the context is abandoned */
  API ("MIR_init2");
  ctx = MIR_init2 (c17_alloc (), c17_code_alloc ());
  MIR_set_error_func (ctx, on_error);
  if (!build (ctx, h, &c2m_active)) return err_msg;
  if (h->out || write_to != NULL) {
    char path[400];
    FILE *f;
    API ("MIR_output");
    MIR_output (ctx, devnull);
    snprintf (path, sizeof (path), "%s", write_to != NULL ? write_to : "/dev/null");
    f = fopen (path, "wb");
    if (f == NULL) return "cannot open output";
    API ("MIR_write");
    MIR_write (ctx, f);
    fclose (f);
  }
  if (strcmp (h->link, "none") != 0) {
    API ("MIR_load_module");
    for (m = DLIST_HEAD (MIR_module_t, *MIR_get_module_list (ctx)); m != NULL; m = DLIST_NEXT (MIR_module_t, m))
      MIR_load_module (ctx, m);
    API ("MIR_load_external");
    MIR_load_external (ctx, "abort", abort);
    MIR_load_external (ctx, "exit", q_exit);
    MIR_load_external (ctx, "printf", q_printf);
    MIR_load_external (ctx, "sumv", q_sumv);
    main_func = find_main (ctx);
    for (rep = 0; rep < h->rep; rep++) {
      if (gen_used) {
        API ("MIR_gen_init");
        MIR_gen_init (ctx);
        gen_active = 1;
        MIR_gen_set_optimize_level (ctx, (unsigned) h->opt);
        if (h->out) {
          MIR_gen_set_debug_file (ctx, devnull);
          MIR_gen_set_debug_level (ctx, 1); /* level 2 would disassemble through popen (gcc, objdump) */
        }
      }
      API ("MIR_link");
      MIR_link (ctx,
                strcmp (h->link, "interp") == 0 ? MIR_set_interp_interface
                : strcmp (h->link, "gen") == 0  ? MIR_set_gen_interface
                : strcmp (h->link, "lazy") == 0 ? MIR_set_lazy_gen_interface
                                                : MIR_set_lazy_bb_gen_interface,
                resolver);
      if (strcmp (h->link, "gen") == 0) { /* explicit MIR_gen of every function (a second request is legal) */
        API ("MIR_gen");
        for (m = DLIST_HEAD (MIR_module_t, *MIR_get_module_list (ctx)); m != NULL; m = DLIST_NEXT (MIR_module_t, m))
          for (it = DLIST_HEAD (MIR_item_t, m->items); it != NULL; it = DLIST_NEXT (MIR_item_t, it))
            if (it->item_type == MIR_func_item) MIR_gen (ctx, it);
      }
      if (h->run && main_func != NULL && main_func->u.func->nargs <= 1 && main_func->u.func->nres <= 1) {
        int na = (int) main_func->u.func->nargs; /* `loop` takes the iteration count */
        if (strcmp (h->link, "interp") == 0) {
          MIR_val_t v, a;
          v.i = 0;
          a.i = 1000;
          API ("MIR_interp");
          MIR_interp_arr (ctx, main_func, &v, (size_t) na, &a);
          c17_note ("main_result", (long) v.i);
        } else {
          long (*fn) (long);
          if (h->tier) { /* tier 0: the interpreter, although the interface is a generator one */
            MIR_val_t v, a;
            v.i = 0;
            a.i = 1000;
            API ("MIR_interp");
            MIR_interp_arr (ctx, main_func, &v, (size_t) na, &a);
            c17_note ("interp_result", (long) v.i);
          }
          fn = main_func->addr;
          API ("call_main");
          c17_note ("main_result", fn (1000));
          if (h->tier) c17_note ("main_result", fn (1000)); /* and once more, now certainly generated */
        }
      }
      if (gen_active) {
        API ("MIR_gen_finish");
        MIR_gen_finish (ctx);
        gen_active = 0;
      }
    }
    if (h->out) {
      API ("MIR_output");
      MIR_output (ctx, devnull); /* after simplification / inlining */
    }
  }
  if (c2m_active) {
    API ("c2mir_finish");
    c2mir_finish (ctx);
  }
  API ("MIR_finish");
  MIR_finish (ctx);
  c17_finish ();
  return NULL;
}

int main (int argc, char **argv) {
  int i;
  if (argc < 3) {
    fprintf (stderr, "usage: %s <trace.ndjson> <history>...\n", argv[0]);
    return 2;
  }
  devnull = fopen ("/dev/null", "w");
  if (getenv ("C17_SCRATCH") != NULL) scratch_dir = getenv ("C17_SCRATCH");
  c17_open (argv[1]);
  for (i = 2; i < argc; i++) {
    struct hist h;
    const char *why;
    long e0 = c17_events ();
    parse_hist (argv[i], &h);
    if (strncmp (h.src, "bin:", 4) == 0) { /* two executions: writer context, then reader context */
      struct hist w = h;
      char path[400], rsrc[300];
      snprintf (path, sizeof (path), "%s/c17-%d-%d.bmir", scratch_dir, (int) getpid (), i);
      snprintf (w.src, sizeof (w.src), "scan:%s", h.src + 4);
      strcpy (w.link, "none");
      why = run_ctx (&w, argv[i], path);
      if (why == NULL) {
        c17_reset ();
        snprintf (rsrc, sizeof (rsrc), "read:%s", path);
        snprintf (h.src, sizeof (h.src), "%s", rsrc);
        why = run_ctx (&h, argv[i], NULL);
      }
      unlink (path);
    } else if (strcmp (h.src, "adt") == 0) {
      why = run_adt (argv[i]);
    } else if (strcmp (h.src, "movectx") == 0) {
      why = run_movectx (&h, argv[i]);
    } else if (strcmp (h.src, "bigcode") == 0) {
      why = run_bigcode (&h, argv[i]);
    } else {
      why = run_ctx (&h, argv[i], NULL);
    }
    if (why != NULL) c17_abort (why);
    c17_reset ();
    printf ("H %d %s%s %ld\n", i - 2, why == NULL ? "ok" : "abort:", why == NULL ? "" : why, c17_events () - e0);
    fflush (stdout);
  }
  c17_close ();
  return 0;
}
