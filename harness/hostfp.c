/* Host-arithmetic oracle for the floating-point results the exact FPx domain cannot decide
   (inexact rounding).  Independent of MIR: plain C compiled by gcc -O0.
   stdin lines:  <insn> <hex bytes of operand 1> [<hex bytes of operand 2>]   (little-endian bytes)
   stdout:       <hex bytes of result> */
#include <stdio.h>
#include <string.h>
#include <stdint.h>
static int hv (int c) { return c <= '9' ? c - '0' : (c | 32) - 'a' + 10; }
static void rd (const char *h, void *p, int n) { unsigned char *b = p; memset (p, 0, n); for (int i = 0; i < n && h[2 * i] && h[2 * i + 1]; i++) b[i] = hv (h[2 * i]) * 16 + hv (h[2 * i + 1]); }
static void wr (const void *p, int n) { const unsigned char *b = p; for (int i = 0; i < n; i++) printf ("%02x", b[i]); printf ("\n"); }
int main (void) {
  char op[32], h1[64], h2[64];
  char line[256];
  while (fgets (line, sizeof (line), stdin)) {
    volatile float fa, fb, fr; volatile double da, db, dr; volatile long double la, lb, lr; volatile int64_t ia; volatile uint64_t ua;
    int n = sscanf (line, "%31s %63s %63s", op, h1, h2);
    if (n < 2) continue;
    if (n < 3) h2[0] = 0;
    float f1, f2; double d1, d2; long double l1 = 0, l2 = 0; int64_t i1;
    rd (h1, &f1, 4); rd (h2, &f2, 4); rd (h1, &d1, 8); rd (h2, &d2, 8); rd (h1, &l1, 10); rd (h2, &l2, 10); rd (h1, &i1, 8);
    fa = f1; fb = f2; da = d1; db = d2; la = l1; lb = l2; ia = i1; ua = (uint64_t) i1;
#define F2(name, expr) if (!strcmp (op, "f" name)) { fr = fa expr fb; float t = fr; wr (&t, 4); continue; } \
                       if (!strcmp (op, "d" name)) { dr = da expr db; double t = dr; wr (&t, 8); continue; } \
                       if (!strcmp (op, "ld" name)) { lr = la expr lb; long double t = lr; wr (&t, 10); continue; }
    F2 ("add", +) F2 ("sub", -) F2 ("mul", *) F2 ("div", /)
    if (!strcmp (op, "i2f")) { float t = (float) ia; wr (&t, 4); continue; }
    if (!strcmp (op, "i2d")) { double t = (double) ia; wr (&t, 8); continue; }
    if (!strcmp (op, "i2ld")) { long double t = (long double) ia; wr (&t, 10); continue; }
    if (!strcmp (op, "ui2f")) { float t = (float) ua; wr (&t, 4); continue; }
    if (!strcmp (op, "ui2d")) { double t = (double) ua; wr (&t, 8); continue; }
    if (!strcmp (op, "ui2ld")) { long double t = (long double) ua; wr (&t, 10); continue; }
    if (!strcmp (op, "d2f")) { float t = (float) da; wr (&t, 4); continue; }
    if (!strcmp (op, "ld2f")) { float t = (float) la; wr (&t, 4); continue; }
    if (!strcmp (op, "ld2d")) { double t = (double) la; wr (&t, 8); continue; }
    if (!strcmp (op, "f2d")) { double t = (double) fa; wr (&t, 8); continue; }
    if (!strcmp (op, "f2ld")) { long double t = (long double) fa; wr (&t, 10); continue; }
    if (!strcmp (op, "d2ld")) { long double t = (long double) da; wr (&t, 10); continue; }
    printf ("?\n");
  }
  return 0;
}
