/* c10_io: conformance driver of C10 (textual MIR round trip) and C11 (binary MIR round trip).
   A copy of the command loop of mirrun.c, extended with several context slots, a builder that creates modules
   through the API from a dumb line script, the projection dumper (implementation state -> abstract module of
   spec/MIRModule.tla, printed as JSON), MIR_output / MIR_scan_string / MIR_write* / MIR_read* commands and the
   real reduce_encode / reduce_decode of mir-reduce.h.

   Script on stdin, one command per line; every command is echoed as "B <lineno>" first (crash attribution).
     N <s>                     slot s: finish the old context, MIR_init a fresh one
     A <s> <nbytes>\n<script>  build modules through the API in slot s (script grammar below)
     S <s> <nbytes>\n<text>    MIR_scan_string (text is NUL terminated by the driver)
     O <s> [areg]              MIR_output to memory (kept in artefact register areg too)  -> T <len>\n<bytes>\n
     s <s> <areg>              MIR_scan_string of the text in register areg               -> K
     r <s> <how> <areg>        MIR_read_with_func (cb) / MIR_read (file) of the bytes in register areg -> K
     u <areg>                  reduce_decode of register areg             -> H <hex raw tokens> | E decode
     o <s> <item index>        MIR_output_item of the n-th item of the first module -> T <len>\n<bytes>\n
     P <s>                     projection of every module of the context  -> J <json>
     W <s> <how> <poison> [areg]  how = cb: MIR_write_with_func; file: MIR_write to a FILE*; mod<k>: MIR_write_module_with_func
                               of module k.  The stack below the call is filled with byte <poison> first.
                                                                          -> H <hex of the written bytes>
     p <byte>                  fill the stack area the next commands will use with the byte         -> K
     U <hex>                   reduce_decode of the bytes                 -> H <hex raw tokens> | E decode
     Z <hex>                   reduce_encode of the bytes                 -> H <hex compressed>
     R <s> <how> <hex>         how = cb: MIR_read_with_func, file: MIR_read from a FILE*   -> K
     X <s> <engine>            load every module + externals, link (interp | gen0..gen3)   -> K
     C <s> <func> <hexbuf>     call i64 func (p buf) as mirrun does       -> R <ret> <buf> g|GUARD L<n> {id:arg}
     D <s>                     finish the context                         -> K
   MIR errors: "E <code> <message>", the slot is abandoned (never finished: state unspecified after an error).

   Build script (one directive per line):
     (item names of the form .lc<N> are obtained from _MIR_get_temp_item_name, as c2m does)
     L <id>                          labtab[id] = MIR_new_label   (creation order = numbering)
     M <name> | m                    new module | finish module
     I|E|W <name>                    import | export | forward
     P|F <name> <va> <nres> <type>* <nargs> {<type> <name> <size>}*    proto | func start
     V <type> <name> | G <type> <name> <hardreg>                       local | global register
     B <id>                          append label
     N <insn name> <nops> <operand>* append insn
     f                               finish func
     S <name|-> <len hex>            bss
     D <name|-> <type> <nel> <hex bytes|->    data (LD: 16 bytes per element, padding as given)
     T <name|-> <hex bytes|->        MIR_new_string_data
     R <name|-> <item> <disp hex>    ref data
     Q <name|-> <id> <id|-> <disp hex>   lref data
     X <name|-> <func>               expr data
   operands: r:<reg>  i:<hex>  u:<hex>  f:<hex8>  d:<hex16>  l:<hex20>  R:<item>  s:<hex bytes>  L:<id>
             m:<type>:<disp hex>:<base|->:<index|->:<scale>:<alias|->:<nonalias|-> */
#include <stdio.h>
#include <stdlib.h>
#include <string.h>
#include <stdint.h>
#include <inttypes.h>
#include <setjmp.h>
#include <signal.h>
#include <unistd.h>
#include <stdarg.h>
#include "mir.h"
#include "mir-gen.h"
#include "mir-reduce.h"

#define NSLOT 8
static MIR_context_t ctxs[NSLOT];
static int gen_on[NSLOT];
static char engines[NSLOT][32];
static jmp_buf errjmp;
static long lineno;

/* ---------------------------------------------------------------- externals of executable modules (as mirrun) */
#define MAXLOG 4096
static int64_t log_id[MAXLOG];
static uint64_t log_v[MAXLOG];
static int nlog;
static int64_t ext_i (int64_t id, int64_t v) {
  if (nlog < MAXLOG) { log_id[nlog] = id; log_v[nlog] = (uint64_t) v; }
  nlog++;
  return (int64_t) ((uint64_t) v + (uint64_t) id);
}
static double ext_d (int64_t id, double v) {
  uint64_t b;
  memcpy (&b, &v, 8);
  if (nlog < MAXLOG) { log_id[nlog] = id; log_v[nlog] = b; }
  nlog++;
  return v;
}
static int64_t ext_cb (int64_t id, int64_t (*f) (int64_t), int64_t v) {
  if (nlog < MAXLOG) { log_id[nlog] = id; log_v[nlog] = (uint64_t) v; }
  nlog++;
  return f (v);
}

static void MIR_NO_RETURN err_func (MIR_error_type_t t, const char *fmt, ...) {
  va_list ap;
  char msg[600];
  va_start (ap, fmt);
  vsnprintf (msg, sizeof (msg), fmt, ap);
  va_end (ap);
  for (char *p = msg; *p; p++) if (*p == '\n') *p = ' ';
  printf ("E %d %s\n", (int) t, msg);
  fflush (stdout);
  longjmp (errjmp, 1);
}

static void on_alarm (int sig) {
  const char m[] = "TIMEOUT\n";
  (void) sig;
  if (write (1, m, sizeof (m) - 1) < 0) {}
  _exit (3);
}

static void fatal (const char *fmt, ...) {
  va_list ap;
  va_start (ap, fmt);
  printf ("F ");
  vprintf (fmt, ap);
  printf ("\n");
  va_end (ap);
  fflush (stdout);
  exit (2);
}

/* ---------------------------------------------------------------- byte buffers */
typedef struct { uint8_t *p; size_t n, cap, rd; } buf_t;
static void buf_put (buf_t *b, int c) {
  if (b->n == b->cap) {
    b->cap = b->cap ? 2 * b->cap : 4096;
    b->p = realloc (b->p, b->cap);
    if (b->p == NULL) fatal ("out of memory");
  }
  b->p[b->n++] = (uint8_t) c;
}
static int hexval (int c) { return c <= '9' ? c - '0' : (c | 32) - 'a' + 10; }
static void buf_from_hex (buf_t *b, const char *hex) {
  b->n = b->rd = 0;
  while (hex[0] && hex[1] && hex[0] != '\n' && hex[0] != ' ') {
    buf_put (b, hexval (hex[0]) * 16 + hexval (hex[1]));
    hex += 2;
  }
}
static void print_hex (const char *tag, const uint8_t *p, size_t n) {
  static const char d[] = "0123456789abcdef";
  char *s = malloc (2 * n + 1);
  for (size_t i = 0; i < n; i++) { s[2 * i] = d[p[i] >> 4]; s[2 * i + 1] = d[p[i] & 15]; }
  s[2 * n] = 0;
  printf ("%s %s\n", tag, s);
  free (s);
}
static uint64_t hex64 (const char *s) { return strtoull (s, NULL, 16); }

/* ---------------------------------------------------------------- builder */
#define MAXLAB 200000
static MIR_label_t *labtab;
static MIR_item_t cur_func;
static int ld_pad; /* byte put into the 6 padding bytes of every long double handed to the API */
static MIR_module_t cur_module;

static MIR_type_t type_of (MIR_context_t ctx, const char *s) {
  static const char *names[] = {"i8", "u8", "i16", "u16", "i32", "u32", "i64", "u64", "f", "d", "ld", "p"};
  for (int i = 0; i < 12; i++) if (strcmp (s, names[i]) == 0) return (MIR_type_t) (MIR_T_I8 + i);
  if (strncmp (s, "blk", 3) == 0 && s[3] >= '0' && s[3] <= '4' && s[4] == 0) return (MIR_type_t) (MIR_T_BLK + (s[3] - '0'));
  if (strcmp (s, "rblk") == 0) return MIR_T_RBLK;
  if (strcmp (s, "undef") == 0) return MIR_T_UNDEF;
  (void) ctx;
  fatal ("unknown type %s", s);
  return MIR_T_BOUND;
}

static MIR_insn_code_t code_of (MIR_context_t ctx, const char *s) {
  for (int c = 0; c < MIR_INSN_BOUND; c++) if (strcmp (MIR_insn_name (ctx, (MIR_insn_code_t) c), s) == 0) return (MIR_insn_code_t) c;
  fatal ("unknown insn %s", s);
  return MIR_INSN_BOUND;
}

static MIR_item_t find_item (MIR_module_t m, MIR_context_t ctx, const char *name) {
  MIR_item_t it, found = NULL;
  for (it = DLIST_HEAD (MIR_item_t, m->items); it != NULL; it = DLIST_NEXT (MIR_item_t, it)) {
    const char *n = NULL;
    switch (it->item_type) {
    case MIR_func_item: n = it->u.func->name; break;
    case MIR_proto_item: n = it->u.proto->name; break;
    case MIR_import_item: n = it->u.import_id; break;
    case MIR_export_item: n = it->u.export_id; break;
    case MIR_forward_item: n = it->u.forward_id; break;
    case MIR_data_item: n = it->u.data->name; break;
    case MIR_ref_data_item: n = it->u.ref_data->name; break;
    case MIR_lref_data_item: n = it->u.lref_data->name; break;
    case MIR_expr_data_item: n = it->u.expr_data->name; break;
    case MIR_bss_item: n = it->u.bss->name; break;
    default: break;
    }
    /* the definition wins over export/forward of the same name; otherwise the first item of that name */
    if (n != NULL && strcmp (n, name) == 0) {
      if (found == NULL || (found->item_type == MIR_export_item || found->item_type == MIR_forward_item)) found = it;
    }
  }
  (void) ctx;
  return found;
}

/* a temporary item name ".lc<N>" is obtained the way c2m obtains it, from _MIR_get_temp_item_name (which advances
   the module's counter); any other name is used as it is */
static const char *item_name (MIR_context_t ctx, const char *name) {
  static char buf[64];
  if (strncmp (name, ".lc", 3) != 0 || name[3] < '0' || name[3] > '9') return name;
  for (int guard = 0; guard < 100000; guard++) {
    _MIR_get_temp_item_name (ctx, cur_module, buf, sizeof (buf));
    if (strcmp (buf, name) == 0) return buf;
  }
  fatal ("temporary name %s cannot be reached", name);
  return name;
}

static size_t unhex (const char *hex, uint8_t *out, size_t max) {
  size_t n = 0;
  if (hex[0] == '-' || hex[0] == 0) return 0;
  while (hex[0] && hex[1]) {
    if (n >= max) fatal ("hex too long");
    out[n++] = (uint8_t) (hexval (hex[0]) * 16 + hexval (hex[1]));
    hex += 2;
  }
  return n;
}

static MIR_op_t parse_op (MIR_context_t ctx, char *tok) {
  MIR_op_t op;
  char *v = tok + 2;
  if (tok[1] != ':') fatal ("bad operand %s", tok);
  switch (tok[0]) {
  case 'r': return MIR_new_reg_op (ctx, MIR_reg (ctx, v, cur_func->u.func));
  case 'i': return MIR_new_int_op (ctx, (int64_t) hex64 (v));
  case 'u': return MIR_new_uint_op (ctx, hex64 (v));
  case 'f': { uint32_t b = (uint32_t) hex64 (v); float f; memcpy (&f, &b, 4); return MIR_new_float_op (ctx, f); }
  case 'd': { uint64_t b = hex64 (v); double d; memcpy (&d, &b, 8); return MIR_new_double_op (ctx, d); }
  case 'l': { /* 20 hex digits, most significant first */
    uint8_t bytes[16];
    long double ld;
    char hi[5];
    memset (bytes, ld_pad, sizeof (bytes));
    memset (&ld, ld_pad, sizeof (ld));
    if (strlen (v) != 20) fatal ("bad ld %s", v);
    memcpy (hi, v, 4); hi[4] = 0;
    uint64_t h = hex64 (hi), lo = hex64 (v + 4);
    memcpy (bytes, &lo, 8);
    bytes[8] = (uint8_t) (h & 0xff); bytes[9] = (uint8_t) (h >> 8);
    memcpy (&ld, bytes, 16);
    return MIR_new_ldouble_op (ctx, ld);
  }
  case 'R': {
    MIR_item_t it = find_item (cur_module, ctx, v);
    if (it == NULL) fatal ("no item %s", v);
    return MIR_new_ref_op (ctx, it);
  }
  case 's': {
    size_t n = strlen (v) / 2;
    uint8_t *b = malloc (n + 1);
    unhex (v, b, n + 1);
    op = MIR_new_str_op (ctx, (MIR_str_t){n, (const char *) b});   /* the library copies the bytes */
    free (b);
    return op;
  }
  case 'L': return MIR_new_label_op (ctx, labtab[atoi (v)]);
  case 'm': {
    char *f[8];
    int nf = 0;
    for (char *p = v; nf < 8; nf++) {
      f[nf] = p;
      p = strchr (p, ':');
      if (p == NULL) { nf++; break; }
      *p++ = 0;
    }
    if (nf != 7) fatal ("bad mem operand (%d fields)", nf);
    MIR_reg_t base = strcmp (f[2], "-") == 0 ? 0 : MIR_reg (ctx, f[2], cur_func->u.func);
    MIR_reg_t index = strcmp (f[3], "-") == 0 ? 0 : MIR_reg (ctx, f[3], cur_func->u.func);
    op = MIR_new_mem_op (ctx, type_of (ctx, f[0]), (MIR_disp_t) hex64 (f[1]), base, index, (MIR_scale_t) atoi (f[4]));
    if (strcmp (f[5], "-") != 0) op.u.mem.alias = MIR_alias (ctx, f[5]);
    if (strcmp (f[6], "-") != 0) op.u.mem.nonalias = MIR_alias (ctx, f[6]);
    return op;
  }
  default: fatal ("bad operand %s", tok);
  }
  return op;
}

static void build (MIR_context_t ctx, char *script) {
  char *save = NULL;
  if (labtab == NULL) labtab = calloc (MAXLAB, sizeof (MIR_label_t));
  cur_func = NULL;
  cur_module = NULL;
  ld_pad = 0;
  for (char *line = strtok_r (script, "\n", &save); line != NULL; line = strtok_r (NULL, "\n", &save)) {
    char *tk[4096];
    int nt = 0;
    char *s2 = NULL;
    char c = line[0];
    if (c == 0) continue;
    for (char *t = strtok_r (line, " ", &s2); t != NULL && nt < 4096; t = strtok_r (NULL, " ", &s2)) tk[nt++] = t;
#define NAME(i) (strcmp (tk[i], "-") == 0 ? NULL : item_name (ctx, tk[i]))
    switch (c) {
    case 'L': {
      int id = atoi (tk[1]);
      if (id >= MAXLAB) fatal ("too many labels");
      labtab[id] = MIR_new_label (ctx);
      break;
    }
    case 'p': ld_pad = atoi (tk[1]); break;
    case 'M': cur_module = MIR_new_module (ctx, tk[1]); break;
    case 'm': MIR_finish_module (ctx); cur_module = NULL; break;
    case 'I': MIR_new_import (ctx, tk[1]); break;
    case 'E': MIR_new_export (ctx, tk[1]); break;
    case 'W': MIR_new_forward (ctx, tk[1]); break;
    case 'P':
    case 'F': {
      int va = atoi (tk[2]), nres = atoi (tk[3]), k = 4;
      MIR_type_t res[16];
      MIR_var_t *args;
      for (int i = 0; i < nres; i++) res[i] = type_of (ctx, tk[k++]);
      int nargs = atoi (tk[k++]);
      args = calloc (nargs + 1, sizeof (MIR_var_t));
      for (int i = 0; i < nargs; i++) {
        args[i].type = type_of (ctx, tk[k++]);
        args[i].name = tk[k++];
        args[i].size = (size_t) hex64 (tk[k++]);
      }
      if (c == 'P') {
        if (va) MIR_new_vararg_proto_arr (ctx, tk[1], nres, res, nargs, args);
        else MIR_new_proto_arr (ctx, tk[1], nres, res, nargs, args);
      } else {
        cur_func = va ? MIR_new_vararg_func_arr (ctx, tk[1], nres, res, nargs, args)
                      : MIR_new_func_arr (ctx, tk[1], nres, res, nargs, args);
      }
      free (args);
      break;
    }
    case 'V': MIR_new_func_reg (ctx, cur_func->u.func, type_of (ctx, tk[1]), tk[2]); break;
    case 'G': MIR_new_global_func_reg (ctx, cur_func->u.func, type_of (ctx, tk[1]), tk[2], tk[3]); break;
    case 'B': MIR_append_insn (ctx, cur_func, labtab[atoi (tk[1])]); break;
    case 'N': {
      int nops = atoi (tk[2]);
      MIR_op_t *ops = calloc (nops + 1, sizeof (MIR_op_t));
      MIR_insn_code_t code = code_of (ctx, tk[1]);
      if (nt != nops + 3) fatal ("insn %s: %d operands announced, %d given", tk[1], nops, nt - 3);
      for (int i = 0; i < nops; i++) ops[i] = parse_op (ctx, tk[3 + i]);
      MIR_append_insn (ctx, cur_func, MIR_new_insn_arr (ctx, code, nops, ops));
      free (ops);
      break;
    }
    case 'f': MIR_finish_func (ctx); cur_func = NULL; break;
    case 'S': MIR_new_bss (ctx, NAME (1), (size_t) hex64 (tk[2])); break;
    case 'D': {
      MIR_type_t t = type_of (ctx, tk[2]);
      size_t nel = strtoul (tk[3], NULL, 10), cap = strlen (tk[4]) / 2 + 16;
      uint8_t *b = malloc (cap);
      size_t n = unhex (tk[4], b, cap);
      if (n != nel * _MIR_type_size (ctx, t)) fatal ("data: %zu bytes for %zu elements", n, nel);
      MIR_new_data (ctx, NAME (1), t, nel, b);
      free (b);
      break;
    }
    case 'T': {
      size_t cap = strlen (tk[2]) / 2 + 16;
      uint8_t *b = malloc (cap);
      size_t n = unhex (tk[2], b, cap);
      MIR_new_string_data (ctx, NAME (1), (MIR_str_t){n, (const char *) b});
      free (b);
      break;
    }
    case 'R': {
      MIR_item_t it = find_item (cur_module, ctx, tk[2]);
      if (it == NULL) fatal ("ref data: no item %s", tk[2]);
      MIR_new_ref_data (ctx, NAME (1), it, (int64_t) hex64 (tk[3]));
      break;
    }
    case 'Q':
      MIR_new_lref_data (ctx, NAME (1), labtab[atoi (tk[2])], strcmp (tk[3], "-") == 0 ? NULL : labtab[atoi (tk[3])],
                         (int64_t) hex64 (tk[4]));
      break;
    case 'X': {
      MIR_item_t it = find_item (cur_module, ctx, tk[2]);
      if (it == NULL) fatal ("expr data: no item %s", tk[2]);
      MIR_new_expr_data (ctx, NAME (1), it);
      break;
    }
    default: fatal ("bad build directive %c", c);
    }
  }
}

/* ---------------------------------------------------------------- projection */
static const char *tname (MIR_type_t t) {
  static const char *names[] = {"i8", "u8", "i16", "u16", "i32", "u32", "i64", "u64", "f", "d", "ld", "p",
                                "blk0", "blk1", "blk2", "blk3", "blk4", "rblk", "undef"};
  return (unsigned) t <= MIR_T_UNDEF ? names[t] : "?";
}
/* a name as JSON string contents: anything but plain ASCII is escaped (a damaged string table must not damage the JSON) */
static const char *nn (const char *s) {
  static char bufs[8][600];
  static int k;
  char *b = bufs[k++ & 7], *o = b;
  if (s == NULL) return "";
  for (; *s != 0 && o < b + 580; s++) {
    unsigned char c = (unsigned char) *s;
    if (c < 0x20 || c >= 0x7f || c == '"' || c == '\\') o += sprintf (o, "\\u%04x", c);
    else *o++ = (char) c;
  }
  *o = 0;
  return b;
}

static void pj_bytes (FILE *o, const uint8_t *p, size_t n) {
  for (size_t i = 0; i < n; i++) fprintf (o, "%02x", p[i]);
}

/* ordinal (1..) of a label among the label insns of func; 0 if it is not in the function's insn list */
static int lab_ord (MIR_func_t func, MIR_label_t lab) {
  int n = 0;
  for (MIR_insn_t i = DLIST_HEAD (MIR_insn_t, func->insns); i != NULL; i = DLIST_NEXT (MIR_insn_t, i))
    if (i->code == MIR_LABEL) {
      n++;
      if (i == lab) return n;
    }
  return 0;
}

static void pj_lref_label (FILE *o, MIR_module_t m, MIR_label_t lab) {
  if (lab == NULL) { fprintf (o, "null"); return; }
  for (MIR_item_t it = DLIST_HEAD (MIR_item_t, m->items); it != NULL; it = DLIST_NEXT (MIR_item_t, it))
    if (it->item_type == MIR_func_item) {
      int k = lab_ord (it->u.func, lab);
      if (k != 0) { fprintf (o, "[\"%s\",%d]", nn (it->u.func->name), k); return; }
    }
  fprintf (o, "[\"?detached\",0]");
}

static void pj_vars (FILE *o, MIR_context_t ctx, MIR_func_t func, VARR (MIR_var_t) * vars, size_t start, size_t n,
                     int args_p, int hr_p) {
  fprintf (o, "[");
  for (size_t i = 0; i < n; i++) {
    MIR_var_t v = VARR_GET (MIR_var_t, vars, start + i);
    fprintf (o, "%s{\"t\":\"%s\",\"name\":\"%s\"", i ? "," : "", tname (v.type), nn (v.name));
    if (args_p) fprintf (o, ",\"size\":\"%" PRIx64 "\"", MIR_all_blk_type_p (v.type) ? (uint64_t) v.size : (uint64_t) 0);
    if (hr_p) fprintf (o, ",\"hr\":\"%s\"", nn (MIR_reg_hard_reg_name (ctx, MIR_reg (ctx, v.name, func), func)));
    fprintf (o, "}");
  }
  fprintf (o, "]");
}

static void pj_op (FILE *o, MIR_context_t ctx, MIR_func_t func, MIR_op_t op) {
  switch (op.mode) {
  case MIR_OP_REG: fprintf (o, "{\"k\":\"reg\",\"name\":\"%s\"}", nn (MIR_reg_name (ctx, op.u.reg, func))); break;
  case MIR_OP_INT: fprintf (o, "{\"k\":\"int\",\"v\":\"%016" PRIx64 "\"}", (uint64_t) op.u.i); break;
  case MIR_OP_UINT: fprintf (o, "{\"k\":\"uint\",\"v\":\"%016" PRIx64 "\"}", op.u.u); break;
  case MIR_OP_FLOAT: { uint32_t b; memcpy (&b, &op.u.f, 4); fprintf (o, "{\"k\":\"f\",\"v\":\"%08x\"}", b); break; }
  case MIR_OP_DOUBLE: { uint64_t b; memcpy (&b, &op.u.d, 8); fprintf (o, "{\"k\":\"d\",\"v\":\"%016" PRIx64 "\"}", b); break; }
  case MIR_OP_LDOUBLE: {
    uint8_t b[16];
    memcpy (b, &op.u.ld, 10);
    fprintf (o, "{\"k\":\"ld\",\"v\":\"");
    for (int i = 9; i >= 0; i--) fprintf (o, "%02x", b[i]);
    fprintf (o, "\"}");
    break;
  }
  case MIR_OP_REF: fprintf (o, "{\"k\":\"ref\",\"name\":\"%s\"}", nn (MIR_item_name (ctx, op.u.ref))); break;
  case MIR_OP_STR:
    fprintf (o, "{\"k\":\"str\",\"b\":\"");
    pj_bytes (o, (const uint8_t *) op.u.str.s, op.u.str.len);
    fprintf (o, "\"}");
    break;
  case MIR_OP_MEM:
    fprintf (o, "{\"k\":\"mem\",\"t\":\"%s\",\"disp\":\"%016" PRIx64 "\",\"base\":\"%s\",\"index\":\"%s\",\"scale\":%d,"
             "\"alias\":\"%s\",\"nonalias\":\"%s\"}",
             tname (op.u.mem.type), (uint64_t) op.u.mem.disp, op.u.mem.base == 0 ? "" : nn (MIR_reg_name (ctx, op.u.mem.base, func)),
             op.u.mem.index == 0 ? "" : nn (MIR_reg_name (ctx, op.u.mem.index, func)),
             op.u.mem.index == 0 ? 1 : (int) op.u.mem.scale, /* the scale means something only with an index */
             nn (MIR_alias_name (ctx, op.u.mem.alias)), nn (MIR_alias_name (ctx, op.u.mem.nonalias)));
    break;
  case MIR_OP_LABEL: {
    int k = lab_ord (func, op.u.label);
    if (k != 0) fprintf (o, "{\"k\":\"lab\",\"n\":%d}", k);
    else fprintf (o, "{\"k\":\"lab\",\"n\":0,\"detached\":%" PRId64 "}", op.u.label->ops[0].u.i);
    break;
  }
  default: fprintf (o, "{\"k\":\"?mode%d\"}", (int) op.mode); break;
  }
}

static void pj_module (FILE *o, MIR_context_t ctx, MIR_module_t m) {
  int first = 1;
  /* tmp: the module's temporary item name counter (public field; ".lc<N>" names are handed out from it) */
  fprintf (o, "{\"name\":\"%s\",\"tmp\":%u,\"items\":[", nn (m->name), (unsigned) m->last_temp_item_num);
  for (MIR_item_t it = DLIST_HEAD (MIR_item_t, m->items); it != NULL; it = DLIST_NEXT (MIR_item_t, it)) {
    if (!first) fprintf (o, ",");
    first = 0;
    switch (it->item_type) {
    case MIR_import_item: fprintf (o, "{\"k\":\"import\",\"name\":\"%s\"}", nn (it->u.import_id)); break;
    case MIR_export_item: fprintf (o, "{\"k\":\"export\",\"name\":\"%s\"}", nn (it->u.export_id)); break;
    case MIR_forward_item: fprintf (o, "{\"k\":\"forward\",\"name\":\"%s\"}", nn (it->u.forward_id)); break;
    case MIR_bss_item: fprintf (o, "{\"k\":\"bss\",\"name\":\"%s\",\"len\":\"%016" PRIx64 "\"}", nn (it->u.bss->name), it->u.bss->len); break;
    case MIR_ref_data_item:
      fprintf (o, "{\"k\":\"ref\",\"name\":\"%s\",\"ref\":\"%s\",\"disp\":\"%016" PRIx64 "\"}", nn (it->u.ref_data->name),
               nn (MIR_item_name (ctx, it->u.ref_data->ref_item)), (uint64_t) it->u.ref_data->disp);
      break;
    case MIR_lref_data_item:
      fprintf (o, "{\"k\":\"lref\",\"name\":\"%s\",\"l1\":", nn (it->u.lref_data->name));
      pj_lref_label (o, m, it->u.lref_data->label);
      fprintf (o, ",\"l2\":");
      pj_lref_label (o, m, it->u.lref_data->label2);
      fprintf (o, ",\"disp\":\"%016" PRIx64 "\"}", (uint64_t) it->u.lref_data->disp);
      break;
    case MIR_expr_data_item:
      fprintf (o, "{\"k\":\"expr\",\"name\":\"%s\",\"func\":\"%s\"}", nn (it->u.expr_data->name),
               nn (MIR_item_name (ctx, it->u.expr_data->expr_item)));
      break;
    case MIR_data_item: {
      MIR_data_t d = it->u.data;
      size_t sz = _MIR_type_size (ctx, d->el_type);
      fprintf (o, "{\"k\":\"data\",\"name\":\"%s\",\"t\":\"%s\",\"nel\":%zu,\"hex\":\"", nn (d->name), tname (d->el_type), d->nel);
      /* long double: the 10 value bytes of each element; the 6 padding bytes carry no value */
      for (size_t i = 0; i < d->nel; i++) pj_bytes (o, d->u.els + i * sz, d->el_type == MIR_T_LD ? 10 : sz);
      fprintf (o, "\"}");
      break;
    }
    case MIR_proto_item: {
      MIR_proto_t p = it->u.proto;
      fprintf (o, "{\"k\":\"proto\",\"name\":\"%s\",\"va\":%d,\"res\":[", nn (p->name), p->vararg_p != 0);
      for (uint32_t i = 0; i < p->nres; i++) fprintf (o, "%s\"%s\"", i ? "," : "", tname (p->res_types[i]));
      fprintf (o, "],\"args\":");
      pj_vars (o, ctx, NULL, p->args, 0, VARR_LENGTH (MIR_var_t, p->args), 1, 0);
      fprintf (o, "}");
      break;
    }
    case MIR_func_item: {
      MIR_func_t f = it->u.func;
      int nl = 0, fi = 1;
      fprintf (o, "{\"k\":\"func\",\"name\":\"%s\",\"va\":%d,\"res\":[", nn (f->name), f->vararg_p != 0);
      for (uint32_t i = 0; i < f->nres; i++) fprintf (o, "%s\"%s\"", i ? "," : "", tname (f->res_types[i]));
      fprintf (o, "],\"args\":");
      pj_vars (o, ctx, f, f->vars, 0, f->nargs, 1, 0);
      fprintf (o, ",\"locals\":");
      pj_vars (o, ctx, f, f->vars, f->nargs, VARR_LENGTH (MIR_var_t, f->vars) - f->nargs, 0, 0);
      fprintf (o, ",\"globals\":");
      if (f->global_vars == NULL) fprintf (o, "[]");
      else pj_vars (o, ctx, f, f->global_vars, 0, VARR_LENGTH (MIR_var_t, f->global_vars), 0, 1);
      fprintf (o, ",\"insns\":[");
      for (MIR_insn_t i = DLIST_HEAD (MIR_insn_t, f->insns); i != NULL; i = DLIST_NEXT (MIR_insn_t, i)) {
        if (!fi) fprintf (o, ",");
        fi = 0;
        if (i->code == MIR_LABEL) {
          fprintf (o, "{\"op\":\"label\",\"n\":%d}", ++nl);
          continue;
        }
        fprintf (o, "{\"op\":\"%s\",\"ops\":[", MIR_insn_name (ctx, i->code));
        for (unsigned k = 0; k < i->nops; k++) {
          if (k) fprintf (o, ",");
          pj_op (o, ctx, f, i->ops[k]);
        }
        fprintf (o, "]}");
      }
      fprintf (o, "]}");
      break;
    }
    default: fprintf (o, "{\"k\":\"?item%d\"}", (int) it->item_type); break;
    }
  }
  fprintf (o, "]}");
}

/* label numbers as printed, per module and function, in insn order (for the numbering part of the context state) */
static void project (FILE *o, MIR_context_t ctx) {
  int first = 1;
  fprintf (o, "{\"mods\":[");
  for (MIR_module_t m = DLIST_HEAD (MIR_module_t, *MIR_get_module_list (ctx)); m != NULL; m = DLIST_NEXT (MIR_module_t, m)) {
    if (!first) fprintf (o, ",");
    first = 0;
    pj_module (o, ctx, m);
  }
  fprintf (o, "]}");
}

/* ---------------------------------------------------------------- binary IO through callbacks */
static buf_t wbuf, rbuf;
#define NAREG 16
static buf_t aregs[NAREG];
static void areg_set (int a, const uint8_t *p, size_t n) {
  if (a < 0 || a >= NAREG) fatal ("bad artefact register");
  aregs[a].n = aregs[a].rd = 0;
  for (size_t i = 0; i < n; i++) buf_put (&aregs[a], p[i]);
}
static int mem_writer (MIR_context_t ctx, uint8_t b) { (void) ctx; buf_put (&wbuf, b); return 1; }
static int mem_reader (MIR_context_t ctx) { (void) ctx; return rbuf.rd < rbuf.n ? rbuf.p[rbuf.rd++] : EOF; }

static void *ra_malloc (size_t n, void *u) { (void) u; return malloc (n); }
static void *ra_calloc (size_t a, size_t b, void *u) { (void) u; return calloc (a, b); }
static void *ra_realloc (void *p, size_t o, size_t n, void *u) { (void) u; (void) o; return realloc (p, n); }
static void ra_free (void *p, void *u) { (void) u; free (p); }
static struct MIR_alloc r_alloc = {ra_malloc, ra_calloc, ra_realloc, ra_free, NULL};
static buf_t red_in, red_out;
static size_t red_reader (void *start, size_t len, void *aux) {
  size_t n = red_in.n - red_in.rd < len ? red_in.n - red_in.rd : len;
  (void) aux;
  memcpy (start, red_in.p + red_in.rd, n);
  red_in.rd += n;
  return n;
}
static size_t red_writer (const void *start, size_t len, void *aux) {
  (void) aux;
  for (size_t i = 0; i < len; i++) buf_put (&red_out, ((const uint8_t *) start)[i]);
  return len;
}

/* fill the stack area the next call will use with a byte pattern: a value written from uninitialised stack
   bytes then depends on the pattern */
static void __attribute__ ((noinline)) poison_stack (int pat) {
  volatile char area[24000];
  memset ((void *) area, pat, sizeof (area));
  __asm__ volatile ("" ::: "memory");
}

static MIR_item_t find_func (MIR_context_t ctx, const char *name) {
  MIR_item_t found = NULL;
  for (MIR_module_t m = DLIST_HEAD (MIR_module_t, *MIR_get_module_list (ctx)); m != NULL; m = DLIST_NEXT (MIR_module_t, m))
    for (MIR_item_t it = DLIST_HEAD (MIR_item_t, m->items); it != NULL; it = DLIST_NEXT (MIR_item_t, it))
      if (it->item_type == MIR_func_item && strcmp (it->u.func->name, name) == 0) found = it;
  return found;
}

static void drop (int s, int finish) {
  if (ctxs[s] == NULL) return;
  if (finish) {
    if (gen_on[s]) MIR_gen_finish (ctxs[s]);
    MIR_finish (ctxs[s]);
  }
  ctxs[s] = NULL;
  gen_on[s] = 0;
}

static char *read_blob (size_t n) {
  char *t = malloc (n + 1);
  if (fread (t, 1, n, stdin) != n) fatal ("short blob");
  t[n] = 0;
  return t;
}

int main (void) {
  size_t cap = 1 << 16;
  char *line = malloc (cap);
  ssize_t len;
  signal (SIGALRM, on_alarm);
  setvbuf (stdout, NULL, _IOFBF, 1 << 16);
  while ((len = getline (&line, &cap, stdin)) > 0) {
    int s = 0;
    char cmd = line[0];
    MIR_context_t ctx;
    lineno++;
    printf ("B %ld\n", lineno);
    fflush (stdout);
    if (cmd == 'p') { /* p <byte>: fill the stack area the following commands will use */
      poison_stack (atoi (line + 2));
      printf ("K\n");
      fflush (stdout);
      continue;
    }
    if (cmd == 'U' || cmd == 'Z' || cmd == 'u') {
      if (cmd == 'u') {
        int a = atoi (line + 2);
        if (a < 0 || a >= NAREG) fatal ("bad artefact register");
        red_in.n = red_in.rd = 0;
        for (size_t i = 0; i < aregs[a].n; i++) buf_put (&red_in, aregs[a].p[i]);
        cmd = 'U';
      } else
      buf_from_hex (&red_in, line + 2);
      red_out.n = 0;
      int ok = cmd == 'U' ? reduce_decode (&r_alloc, red_reader, red_writer, NULL) : reduce_encode (&r_alloc, red_reader, red_writer, NULL);
      if (!ok) printf ("E decode\n");
      else print_hex ("H", red_out.p, red_out.n);
      fflush (stdout);
      continue;
    }
    s = atoi (line + 2);
    if (s < 0 || s >= NSLOT) fatal ("bad slot");
    if (cmd == 'N') {
      drop (s, 1);
      ctxs[s] = MIR_init ();
      MIR_set_error_func (ctxs[s], err_func);
      printf ("K\n");
      fflush (stdout);
      continue;
    }
    if (cmd == 'A' || cmd == 'S') { /* blob follows even when the slot is dead */
      size_t n = strtoul (strchr (line + 2, ' ') + 1, NULL, 10);
      char *blob = read_blob (n);
      if (ctxs[s] == NULL) { printf ("X\n"); free (blob); fflush (stdout); continue; }
      if (setjmp (errjmp)) { drop (s, 0); fflush (stdout); continue; }
      alarm (300);
      if (cmd == 'A') build (ctxs[s], blob);
      else MIR_scan_string (ctxs[s], blob);
      alarm (0);
      free (blob);
      printf ("K\n");
      fflush (stdout);
      continue;
    }
    ctx = ctxs[s];
    if (ctx == NULL) { printf ("X\n"); fflush (stdout); continue; }
    if (setjmp (errjmp)) { drop (s, 0); fflush (stdout); continue; }
    alarm (300);
    switch (cmd) {
    case 'O':
    case 'o': {
      char *obuf = NULL;
      size_t olen = 0;
      FILE *mf = open_memstream (&obuf, &olen);
      if (cmd == 'O') MIR_output (ctx, mf);
      else {
        int k = atoi (strchr (line + 2, ' ') + 1);
        MIR_module_t m = DLIST_HEAD (MIR_module_t, *MIR_get_module_list (ctx));
        MIR_item_t it = DLIST_HEAD (MIR_item_t, m->items);
        while (k-- > 0 && it != NULL) it = DLIST_NEXT (MIR_item_t, it);
        if (it == NULL) fatal ("no such item");
        MIR_output_item (ctx, mf, it);
      }
      fclose (mf);
      {
        char *sp = strchr (line + 2, ' ');
        if (cmd == 'O' && sp != NULL && sp[1] >= '0' && sp[1] <= '9') areg_set (atoi (sp + 1), (uint8_t *) obuf, olen);
      }
      printf ("T %zu\n", olen);
      fwrite (obuf, 1, olen, stdout);
      printf ("\n");
      free (obuf);
      break;
    }
    case 's': {
      int a = atoi (strchr (line + 2, ' ') + 1);
      if (a < 0 || a >= NAREG) fatal ("bad artefact register");
      buf_put (&aregs[a], 0); /* NUL terminate (not counted) */
      aregs[a].n--;
      MIR_scan_string (ctx, (const char *) aregs[a].p);
      printf ("K\n");
      break;
    }
    case 'P': {
      char *obuf = NULL;
      size_t olen = 0;
      FILE *mf = open_memstream (&obuf, &olen);
      project (mf, ctx);
      fclose (mf);
      printf ("J %s\n", obuf);
      free (obuf);
      break;
    }
    case 'W': {
      char how[32];
      int pat = 0, wa = -1;
      sscanf (line + 2, "%*d %31s %d %d", how, &pat, &wa);
      wbuf.n = 0;
      if (strcmp (how, "cb") == 0) {
        poison_stack (pat);
        MIR_write_with_func (ctx, mem_writer);
      } else if (strcmp (how, "file") == 0) {
        char *obuf = NULL;
        size_t olen = 0;
        FILE *mf = open_memstream (&obuf, &olen);
        poison_stack (pat);
        MIR_write (ctx, mf);
        fclose (mf);
        for (size_t i = 0; i < olen; i++) buf_put (&wbuf, (uint8_t) obuf[i]);
        free (obuf);
      } else if (strncmp (how, "mod", 3) == 0) {
        int k = atoi (how + 3);
        MIR_module_t m = DLIST_HEAD (MIR_module_t, *MIR_get_module_list (ctx));
        while (k-- > 0 && m != NULL) m = DLIST_NEXT (MIR_module_t, m);
        if (m == NULL) fatal ("no such module");
        poison_stack (pat);
        MIR_write_module_with_func (ctx, mem_writer, m);
      } else fatal ("bad write mode %s", how);
      if (wa >= 0) areg_set (wa, wbuf.p, wbuf.n);
      print_hex ("H", wbuf.p, wbuf.n);
      break;
    }
    case 'r':
    case 'R': {
      char how[32];
      char *hex;
      sscanf (line + 2, "%*d %31s", how);
      hex = strchr (strchr (line + 2, ' ') + 1, ' ');
      hex = hex == NULL ? "" : hex + 1;
      if (cmd == 'R') buf_from_hex (&rbuf, hex);
      else {
        int a = atoi (hex);
        if (a < 0 || a >= NAREG) fatal ("bad artefact register");
        rbuf.n = rbuf.rd = 0;
        for (size_t i = 0; i < aregs[a].n; i++) buf_put (&rbuf, aregs[a].p[i]);
      }
      if (strcmp (how, "cb") == 0) MIR_read_with_func (ctx, mem_reader);
      else if (strcmp (how, "file") == 0) {
        FILE *mf = fmemopen (rbuf.n ? (void *) rbuf.p : (void *) "", rbuf.n, "rb");
        if (mf == NULL) fatal ("fmemopen");
        MIR_read (ctx, mf);
        fclose (mf);
      } else fatal ("bad read mode %s", how);
      printf ("K\n");
      break;
    }
    case 'X': {
      int level;
      sscanf (line + 2, "%*d %31s", engines[s]);
      for (MIR_module_t m = DLIST_HEAD (MIR_module_t, *MIR_get_module_list (ctx)); m != NULL; m = DLIST_NEXT (MIR_module_t, m))
        MIR_load_module (ctx, m);
      MIR_load_external (ctx, "ext_i", ext_i);
      MIR_load_external (ctx, "ext_d", ext_d);
      MIR_load_external (ctx, "ext_cb", ext_cb);
      level = engines[s][strlen (engines[s]) - 1] - '0';
      if (strcmp (engines[s], "interp") == 0) MIR_link (ctx, MIR_set_interp_interface, NULL);
      else if (strncmp (engines[s], "gen", 3) == 0) {
        MIR_gen_init (ctx);
        gen_on[s] = 1;
        MIR_gen_set_optimize_level (ctx, level);
        MIR_link (ctx, MIR_set_gen_interface, NULL);
      } else fatal ("bad engine %s", engines[s]);
      printf ("K\n");
      break;
    }
    case 'C': {
      char fname[128];
      char *hex;
      size_t n, i;
      unsigned char *buf;
      MIR_item_t f;
      int64_t ret;
      sscanf (line + 2, "%*d %127s", fname);
      hex = strchr (strchr (line + 2, ' ') + 1, ' ');
      hex = hex == NULL ? "" : hex + 1;
      n = strlen (hex);
      while (n > 0 && (hex[n - 1] == '\n' || hex[n - 1] == ' ')) n--;
      n /= 2;
      buf = malloc (n + 64);
      for (i = 0; i < n; i++) buf[i] = (unsigned char) (hexval (hex[2 * i]) * 16 + hexval (hex[2 * i + 1]));
      memset (buf + n, 0xEE, 64);
      f = find_func (ctx, fname);
      if (f == NULL) fatal ("no function %s", fname);
      nlog = 0;
      alarm (20);
      if (strcmp (engines[s], "interp") == 0) {
        MIR_val_t arg, res;
        arg.a = buf;
        res.i = 0;
        MIR_interp_arr (ctx, f, &res, 1, &arg);
        ret = res.i;
      } else {
        ret = ((int64_t (*) (void *)) f->addr) (buf);
      }
      alarm (0);
      printf ("R %016llx ", (unsigned long long) ret);
      for (i = 0; i < n; i++) printf ("%02x", buf[i]);
      for (i = 0; i < 64; i++) if (buf[n + i] != 0xEE) break;
      printf (" %s L%d", i == 64 ? "g" : "GUARD-OVERWRITTEN", nlog);
      for (i = 0; i < (size_t) nlog && i < MAXLOG; i++) printf (" %lld:%016llx", (long long) log_id[i], (unsigned long long) log_v[i]);
      printf ("\n");
      free (buf);
      break;
    }
    case 'D':
      drop (s, 1);
      printf ("K\n");
      break;
    default: fatal ("bad command %c", cmd);
    }
    alarm (0);
    fflush (stdout);
  }
  for (int s = 0; s < NSLOT; s++) drop (s, 1);
  printf ("Z\n");
  return 0;
}
