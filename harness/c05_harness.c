/* C05 binding: runs TLC-generated prototypes through the real MIR call path.
   For every case the Python driver supplies the MIR text of a module
       p<id>: proto ...;  import callee<id>;  caller<id>: func i64:buf, i64:out
   whose function loads every argument from `buf`, calls callee<id> through the prototype and stores
   every result register-wide into `out`.  callee<id> is bound (MIR_load_external) either to the
   assembly probe c05_probe (harness/c05_probe.S) or to a gcc-compiled C function generated from the
   same prototype (shared object given as argv[2]).  The harness is deliberately dumb: it executes and
   dumps the captured images; all comparison against the SysVABI placement is done by the driver.

   Input (argv[1]), one block per case:
     C <id>                 case id
     T <nlines>             followed by the MIR text
     B <hex>                contents of the argument buffer
     O <nbytes>             size of the result buffer
     R <hex>                128 bytes: image of c05_ret (rax rdx xmm0 xmm1 nst st0 st1)
     S <nwords>             stack eightbytes to dump from the probe capture
     K probe|<symbol>       callee
     E <engine>...          i (interpreter) 0 1 2 3 (generator optimisation level)
     X                      execute
   Output: "BEGIN <id> <eng>" before, then "R <id> <eng> <cap-hex> <out-hex> <rec-hex|->" or "ERR <id> <eng> <msg>".
   A crash prints "CRASH <id> <eng> <signal>" and exits with status 3; the driver resumes after it (argv[3] = first case index). */
#define _GNU_SOURCE
#include <stdio.h>
#include <stdlib.h>
#include <string.h>
#include <stdint.h>
#include <setjmp.h>
#include <signal.h>
#include <unistd.h>
#include <dlfcn.h>
#include <stdarg.h>
#include "mir.h"
#include "mir-gen.h"

#define C05_NSTK 192
extern void c05_probe (void);
extern unsigned char c05_cap[256 + 8 * C05_NSTK];
extern unsigned char c05_ret[128];

static MIR_context_t ctxs[5]; /* 0 = interpreter, 1..4 = generator O0..O3 */
static jmp_buf err_jmp;
static char err_msg[512];
static char cur_id[64], cur_eng[8];

static void MIR_NO_RETURN err_func (MIR_error_type_t t, const char *format, ...) {
  va_list ap;
  va_start (ap, format);
  vsnprintf (err_msg, sizeof (err_msg), format, ap);
  va_end (ap);
  for (char *p = err_msg; *p; p++)
    if (*p == '\n') *p = ' ';
  longjmp (err_jmp, (int) t + 1);
}

static void crash (int sig) {
  char b[160];
  int n = snprintf (b, sizeof (b), "\nCRASH %s %s %d\n", cur_id, cur_eng, sig);
  if (write (1, b, n) < 0) {}
  _exit (3);
}

static MIR_context_t make_ctx (int e) {
  MIR_context_t ctx = MIR_init ();
  MIR_set_error_func (ctx, err_func);
  if (e > 0) {
    MIR_gen_init (ctx);
    MIR_gen_set_optimize_level (ctx, e - 1);
  }
  return ctx;
}

static int hexval (int c) { return c <= '9' ? c - '0' : (c | 32) - 'a' + 10; }
static size_t unhex (const char *s, unsigned char *dst, size_t max) {
  size_t n = 0;
  while (s[0] && s[1] && s[0] != '\n' && n < max) {
    dst[n++] = (unsigned char) (hexval (s[0]) * 16 + hexval (s[1]));
    s += 2;
  }
  return n;
}
static void puthex (const unsigned char *p, size_t n) {
  static const char d[] = "0123456789abcdef";
  for (size_t i = 0; i < n; i++) {
    putchar (d[p[i] >> 4]);
    putchar (d[p[i] & 15]);
  }
}

#define MAXBUF 16384
static unsigned char argimg[MAXBUF], *argbuf, *outbuf;
static char *line = NULL;
static size_t linecap = 0;

static void run_case (const char *id, const char *text, size_t nbuf, size_t nout, const unsigned char *retimg,
                      int nstk, const char *callee, const char *engs, void *so) {
  void *target = (void *) c05_probe;
  unsigned char *rec = NULL, *retv = NULL;
  size_t *reclen = NULL;
  char name[128];
  int probe_p = strcmp (callee, "probe") == 0;

  if (!probe_p) {
    if (so == NULL || (target = dlsym (so, callee)) == NULL) {
      printf ("ERR %s - no C callee %s\n", id, callee);
      return;
    }
    rec = dlsym (so, "c05_rec");
    reclen = dlsym (so, "c05_rec_len");
    retv = dlsym (so, "c05_retv");
  }
  for (const char *e = engs; *e; e++) {
    int ei;
    MIR_context_t ctx;
    MIR_module_t m;
    MIR_item_t it, func = NULL;
    if (*e == ' ' || *e == '\n') continue;
    ei = *e == 'i' ? 0 : *e - '0' + 1;
    if (ei < 0 || ei > 4) continue;
    snprintf (cur_eng, sizeof (cur_eng), "%c", *e);
    snprintf (cur_id, sizeof (cur_id), "%s", id);
    printf ("BEGIN %s %s\n", id, cur_eng);
    fflush (stdout);
    if (ctxs[ei] == NULL) ctxs[ei] = make_ctx (ei);
    ctx = ctxs[ei];
    if (setjmp (err_jmp)) {
      printf ("ERR %s %s %s\n", id, cur_eng, err_msg);
      fflush (stdout);
      ctxs[ei] = NULL; /* the context is abandoned after an error (library state unspecified) */
      continue;
    }
    MIR_scan_string (ctx, text);
    m = DLIST_TAIL (MIR_module_t, *MIR_get_module_list (ctx));
    snprintf (name, sizeof (name), "caller%s", id);
    for (it = DLIST_HEAD (MIR_item_t, m->items); it != NULL; it = DLIST_NEXT (MIR_item_t, it))
      if (it->item_type == MIR_func_item && strcmp (it->u.func->name, name) == 0) func = it;
    if (func == NULL) {
      printf ("ERR %s %s no function %s\n", id, cur_eng, name);
      continue;
    }
    MIR_load_module (ctx, m);
    snprintf (name, sizeof (name), "callee%s", id);
    MIR_load_external (ctx, name, target);
    memcpy (argbuf, argimg, nbuf);
    memset (outbuf, 0xee, nout + 64);
    memset (c05_cap, 0xcc, sizeof (c05_cap));
    memset (c05_cap + 224, 0, 8);
    memcpy (c05_ret, retimg, 128);
    if (rec != NULL) {
      memset (rec, 0xdd, 8192);
      *reclen = 0;
      memcpy (retv, retimg, 128);
    }
    if (ei == 0) {
      MIR_val_t res, a, b;
      a.a = argbuf;
      b.a = outbuf;
      MIR_link (ctx, MIR_set_interp_interface, NULL);
      MIR_interp (ctx, func, &res, 2, a, b);
    } else {
      void (*f) (void *, void *);
      MIR_link (ctx, MIR_set_gen_interface, NULL);
      f = (void (*) (void *, void *)) MIR_gen (ctx, func);
      f (argbuf, outbuf);
    }
    printf ("R %s %s ", id, cur_eng);
    if (probe_p)
      puthex (c05_cap, 256 + 8 * (size_t) nstk);
    else
      putchar ('-');
    putchar (' ');
    puthex (outbuf, nout);
    putchar (' ');
    if (rec != NULL)
      puthex (rec, *reclen);
    else
      putchar ('-');
    putchar ('\n');
    fflush (stdout);
  }
}

int main (int argc, char **argv) {
  volatile char pad[8192]; /* the probe reads C05_NSTK eightbytes above its frame: keep the stack deep */
  FILE *f;
  void *so = NULL;
  long first = argc > 3 ? atol (argv[3]) : 0, ncase = 0;
  char id[64] = "", callee[128] = "probe", engs[64] = "i";
  char *text = NULL;
  size_t nbuf = 0, nout = 0;
  unsigned char retimg[128];
  int nstk = 0;
  int sigs[] = {SIGSEGV, SIGBUS, SIGILL, SIGFPE, SIGABRT};

  pad[0] = pad[8191] = 0;
  if (argc < 2 || (f = fopen (argv[1], "r")) == NULL) return 2;
  if (argc > 2 && strcmp (argv[2], "-") != 0 && (so = dlopen (argv[2], RTLD_NOW)) == NULL) {
    fprintf (stderr, "dlopen: %s\n", dlerror ());
    return 2;
  }
  for (size_t i = 0; i < sizeof (sigs) / sizeof (sigs[0]); i++) signal (sigs[i], crash);
  if (posix_memalign ((void **) &argbuf, 64, MAXBUF) || posix_memalign ((void **) &outbuf, 64, 4096)) return 2;
  while (getline (&line, &linecap, f) > 0) {
    switch (line[0]) {
    case 'C': sscanf (line + 2, "%63s", id); break;
    case 'T': {
      long n = atol (line + 2);
      size_t len = 0, cap = 4096;
      free (text);
      text = malloc (cap);
      text[0] = 0;
      while (n-- > 0 && getline (&line, &linecap, f) > 0) {
        size_t l = strlen (line);
        if (len + l + 1 > cap) text = realloc (text, cap = (len + l + 1) * 2);
        memcpy (text + len, line, l + 1);
        len += l;
      }
      break;
    }
    case 'B': nbuf = unhex (line + 2, argimg, MAXBUF); break;
    case 'O': nout = (size_t) atol (line + 2); break;
    case 'R': memset (retimg, 0, 128); unhex (line + 2, retimg, 128); break;
    case 'S': nstk = atoi (line + 2); if (nstk > C05_NSTK) nstk = C05_NSTK; break;
    case 'K': sscanf (line + 2, "%127s", callee); break;
    case 'E': snprintf (engs, sizeof (engs), "%s", line + 2); break;
    case 'X':
      if (ncase % 300 == 299) /* keep the contexts small: loading/linking cost grows with the modules in a context */
        for (int k = 0; k < 5; k++)
          if (ctxs[k] != NULL) {
            if (k > 0) MIR_gen_finish (ctxs[k]);
            MIR_finish (ctxs[k]);
            ctxs[k] = NULL;
          }
      if (ncase++ >= first) run_case (id, text, nbuf, nout, retimg, nstk, callee, engs, so);
      break;
    default: break;
    }
  }
  printf ("DONE %ld\n", ncase);
  return 0;
}
