/* C20: linked with the C translation of a module; calls  int64_t entry (void *buf)  and prints the observation in
   mirrun's format.  argv[1] = hex of the initial buffer. */
#include <stdio.h>
#include <stdlib.h>
#include <string.h>
#include <stdint.h>
#include <signal.h>
#include <unistd.h>
#include <sys/mman.h>
extern int64_t entry (void *);
#define MAXLOG 4096
static int64_t log_id[MAXLOG];
static uint64_t log_v[MAXLOG];
static int nlog;
int64_t ext_i (int64_t id, int64_t v) {
  if (nlog < MAXLOG) { log_id[nlog] = id; log_v[nlog] = (uint64_t) v; }
  nlog++;
  return (int64_t) ((uint64_t) v + (uint64_t) id);
}
static int hv (int c) { return c <= '9' ? c - '0' : (c | 32) - 'a' + 10; }
static void on_alarm (int s) { const char m[] = "TIMEOUT\n"; if (write (1, m, sizeof (m) - 1) < 0) {} _exit (3); }
int main (int argc, char **argv) {
  const char *hex = argc > 1 ? argv[1] : "";
  size_t n = strlen (hex) / 2, i;
  /* the caller's buffer has a known address (MIRSem.tla AbsBaseNat, as in mirrun.c): programs may address it with numbers */
  unsigned char *buf = mmap ((void *) 0x10000000, 1 << 20, PROT_READ | PROT_WRITE, MAP_PRIVATE | MAP_ANONYMOUS | MAP_FIXED_NOREPLACE, -1, 0);
  int64_t ret;
  if (buf != (unsigned char *) 0x10000000 || n + 64 > (1 << 20)) { printf ("F cannot map the call buffer\n"); return 2; }
  for (i = 0; i < n; i++) buf[i] = (unsigned char) (hv (hex[2 * i]) * 16 + hv (hex[2 * i + 1]));
  memset (buf + n, 0xEE, 64);
  signal (SIGALRM, on_alarm);
  alarm (10);
  ret = entry (buf);
  alarm (0);
  printf ("R %016llx ", (unsigned long long) ret);
  for (i = 0; i < n; i++) printf ("%02x", buf[i]);
  for (i = 0; i < 64; i++) if (buf[n + i] != 0xEE) break;
  printf (" %s L%d", i == 64 ? "g" : "GUARD-OVERWRITTEN", nlog);
  for (i = 0; i < (size_t) nlog && i < MAXLOG; i++) printf (" %lld:%016llx", (long long) log_id[i], (unsigned long long) log_v[i]);
  printf ("\n");
  return 0;
}
