/* C15 binding: replays the rows of spec/MIRCheck.tla and the paths of spec/MIRApi.tla on the real
   MIR API.  Every row is built in a forked child, in a fresh context whose error function records
   (error_type, message) and longjmps; the parent reports a child killed by a signal as CRASH.

   Input (stdin), one case per line, blank separated:
     ROW <id> FN <vararg> <nres> <type>* PROTO <vararg> <nres> <type>* <nargs> (<type> <size>)*
         NI <n> (INS <opname> <nops> <operand>*)* USE <0|1> EXEC <0|1>     (USE: load and link when accepted)
       operand: r:<i64|f|d|ld|undecl> | int | uint | float | double | ldouble | ref:<item kind> | str | label
                | mem:<type>:<base>:<index>:<disp>      base/index: none i f d ld undecl
     DREG <id> <npre> (<name> <type>)* <name> <type>          MIR_new_func_reg after npre declarations
     DFUNC <id> <vararg> <nres> <type>* <nargs> (<name> <type> <size>)*   MIR_new_func_arr
     GDECL <id> <use> <n> (<name> <type> <hard reg | ->)*      MIR_new_func_reg / MIR_new_global_func_reg steps;
                                                               output STEP per step and LOOK <id> <k> <reg> <MIR_reg result>
     GFN <id> <use> <exec> <ndecl> (<name> <type> <hard reg | ->)* NI <n> (INS ...)*   see do_gfn
     PATH <id> <nsteps> (<act> <name>)*                        protocol path, one API call per step
     TEXT <id> <use> <hex of MIR text>                             the same row through MIR_scan_string
     OPCODES <id>                                              list the implementation's opcode names
     CRASHME <id>                                              selftest of the crash detection
   Output: one line per stage
     RES <id> build ACCEPT | RES <id> build ERROR <code> <codename> <message>
     RES <id> load|link|exec OK / ERROR ...        (accepted rows only)
     STEP <id> <k> ACCEPT | ERROR <code> <codename> <message>    (PATH)
     END <id>          the child finished normally
     CRASH <id> <signal>   the child died */
#include <stdio.h>
#include <stdlib.h>
#include <string.h>
#include <setjmp.h>
#include <stdarg.h>
#include <signal.h>
#include <unistd.h>
#include <sys/wait.h>
#include "mir.h"

static const char *err_name[64] = {
  [MIR_no_error] = "no", [MIR_syntax_error] = "syntax", [MIR_binary_io_error] = "binary_io",
  [MIR_alloc_error] = "alloc", [MIR_finish_error] = "finish", [MIR_no_module_error] = "no_module",
  [MIR_nested_module_error] = "nested_module", [MIR_no_func_error] = "no_func", [MIR_func_error] = "func",
  [MIR_vararg_func_error] = "vararg_func", [MIR_nested_func_error] = "nested_func",
  [MIR_wrong_param_value_error] = "wrong_param_value", [MIR_hard_reg_error] = "hard_reg",
  [MIR_reserved_name_error] = "reserved_name", [MIR_import_export_error] = "import_export",
  [MIR_undeclared_func_reg_error] = "undeclared_func_reg", [MIR_repeated_decl_error] = "repeated_decl",
  [MIR_reg_type_error] = "reg_type", [MIR_wrong_type_error] = "wrong_type", [MIR_unique_reg_error] = "unique_reg",
  [MIR_undeclared_op_ref_error] = "undeclared_op_ref", [MIR_ops_num_error] = "ops_num",
  [MIR_call_op_error] = "call_op", [MIR_unspec_op_error] = "unspec_op", [MIR_wrong_lref_error] = "wrong_lref",
  [MIR_ret_error] = "ret", [MIR_op_mode_error] = "op_mode", [MIR_out_op_error] = "out_op",
  [MIR_invalid_insn_error] = "invalid_insn", [MIR_ctx_change_error] = "ctx_change"};

static jmp_buf jb;
static int ecode;
static char emsg[400];
static void MIR_NO_RETURN errf (MIR_error_type_t e, const char *fmt, ...) {
  va_list ap;
  va_start (ap, fmt);
  vsnprintf (emsg, sizeof emsg, fmt, ap);
  va_end (ap);
  for (char *p = emsg; *p; p++)
    if (*p == '\n' || *p == '\r') *p = ' ';
  ecode = (int) e;
  longjmp (jb, 1);
}
static const char *ename (int e) { return e >= 0 && e < 64 && err_name[e] != NULL ? err_name[e] : "?"; }

/* ---------------- tokens of the current line */
static char *toks[4096];
static int ntok, tp;
static const char *tok (void) {
  if (tp >= ntok) {
    printf ("MACHINERY short line\n");
    fflush (stdout);
    _exit (3);
  }
  return toks[tp++];
}
static long tokl (void) { return strtol (tok (), NULL, 10); }

static MIR_type_t str2type (const char *s) {
  static const char *n[] = {"i8", "u8", "i16", "u16", "i32", "u32", "i64", "u64", "f", "d", "ld", "p"};
  for (int i = 0; i < 12; i++)
    if (strcmp (s, n[i]) == 0) return (MIR_type_t) (MIR_T_I8 + i);
  if (strncmp (s, "blk", 3) == 0 && s[3] >= '0' && s[3] < '0' + MIR_BLK_NUM) return (MIR_type_t) (MIR_T_BLK + (s[3] - '0'));
  if (strcmp (s, "rblk") == 0) return MIR_T_RBLK;
  if (strcmp (s, "undef") == 0) return MIR_T_UNDEF;
  printf ("MACHINERY unknown type %s\n", s);
  fflush (stdout);
  _exit (3);
}

static const char *cur_id = "?";
static MIR_insn_code_t str2code (MIR_context_t ctx, const char *s) {
  for (int c = 0; c < MIR_INSN_BOUND; c++)
    if (strcmp (MIR_insn_name (ctx, (MIR_insn_code_t) c), s) == 0) return (MIR_insn_code_t) c;
  /* an opcode MIR.md documents but the implementation does not have: reported, not replayable */
  printf ("RES %s build NOOPCODE %s\n", cur_id, s);
  printf ("END %s\n", cur_id);
  fflush (stdout);
  _exit (0);
}

/* ---------------- the common scaffold of a row */
static char databuf[4096] __attribute__ ((aligned (64)));
static void ext_func (void) {}

typedef struct {
  MIR_context_t ctx;
  MIR_module_t m;
  MIR_item_t proto, import, forward, export_, callee, data, bss, f;
  MIR_reg_t ri, rf, rd, rld, rb;
  MIR_insn_t labels[64];
  int nlabels;
} env_t;

#define UNDECL_REG 9999

static MIR_reg_t breg (env_t *e, const char *s) {
  if (strcmp (s, "none") == 0) return 0;
  if (strcmp (s, "i") == 0) return e->rb;
  if (strcmp (s, "f") == 0) return e->rf;
  if (strcmp (s, "d") == 0) return e->rd;
  if (strcmp (s, "ld") == 0) return e->rld;
  return UNDECL_REG;
}

static MIR_op_t mk_op (env_t *e, char *s) {
  MIR_context_t ctx = e->ctx;
  if (strncmp (s, "r:", 2) == 0) {
    s += 2;
    return MIR_new_reg_op (ctx, strcmp (s, "i64") == 0  ? e->ri
                                : strcmp (s, "f") == 0  ? e->rf
                                : strcmp (s, "d") == 0  ? e->rd
                                : strcmp (s, "ld") == 0 ? e->rld
                                                        : UNDECL_REG);
  }
  if (strcmp (s, "int") == 0) return MIR_new_int_op (ctx, 5);
  if (strcmp (s, "uint") == 0) return MIR_new_uint_op (ctx, 7);
  if (strcmp (s, "float") == 0) return MIR_new_float_op (ctx, 1.25f);
  if (strcmp (s, "double") == 0) return MIR_new_double_op (ctx, 2.25);
  if (strcmp (s, "ldouble") == 0) return MIR_new_ldouble_op (ctx, 3.25L);
  if (strcmp (s, "str") == 0) return MIR_new_str_op (ctx, (MIR_str_t){4, "str"});
  if (strcmp (s, "label") == 0) {
    MIR_insn_t l = MIR_new_label (ctx);
    if (e->nlabels < 64) e->labels[e->nlabels++] = l;
    return MIR_new_label_op (ctx, l);
  }
  if (strncmp (s, "ref:", 4) == 0) {
    s += 4;
    return MIR_new_ref_op (ctx, strcmp (s, "func") == 0      ? e->callee
                                : strcmp (s, "proto") == 0   ? e->proto
                                : strcmp (s, "import") == 0  ? e->import
                                : strcmp (s, "export") == 0  ? e->export_
                                : strcmp (s, "forward") == 0 ? e->forward
                                : strcmp (s, "data") == 0    ? e->data
                                                             : e->bss);
  }
  if (strncmp (s, "mem:", 4) == 0) {
    char *t = strtok (s + 4, ":"), *b = strtok (NULL, ":"), *x = strtok (NULL, ":"), *d = strtok (NULL, ":");
    MIR_reg_t xr = strcmp (x, "i") == 0 ? e->ri : breg (e, x);
    return MIR_new_mem_op (ctx, str2type (t), strtol (d, NULL, 10), breg (e, b), xr, 1);
  }
  printf ("MACHINERY unknown operand %s\n", s);
  fflush (stdout);
  _exit (3);
}

/* parse FN/PROTO and create module, items and the test function up to its registers */
static void scaffold (env_t *e, int prologue) {
  MIR_context_t ctx = e->ctx;
  MIR_type_t fres[8], pres[8];
  MIR_var_t pargs[8], farg;
  int fva, fnres, pva, pnres, pnargs;
  static int64_t dvals[4] = {1, 2, 3, 4};

  if (strcmp (tok (), "FN") != 0) _exit (3);
  fva = (int) tokl ();
  fnres = (int) tokl ();
  for (int i = 0; i < fnres; i++) fres[i] = str2type (tok ());
  if (strcmp (tok (), "PROTO") != 0) _exit (3);
  pva = (int) tokl ();
  pnres = (int) tokl ();
  for (int i = 0; i < pnres; i++) pres[i] = str2type (tok ());
  pnargs = (int) tokl ();
  for (int i = 0; i < pnargs; i++) {
    pargs[i].type = str2type (tok ());
    pargs[i].size = (size_t) tokl ();
    pargs[i].name = "pa";
  }
  e->m = MIR_new_module (ctx, "m");
  e->proto = pva ? MIR_new_vararg_proto_arr (ctx, "p0", pnres, pres, pnargs, pargs)
                 : MIR_new_proto_arr (ctx, "p0", pnres, pres, pnargs, pargs);
  e->import = MIR_new_import (ctx, "imp");
  e->forward = MIR_new_forward (ctx, "callee");
  e->export_ = MIR_new_export (ctx, "callee");
  e->callee = MIR_new_func_arr (ctx, "callee", 0, NULL, 0, NULL);
  MIR_finish_func (ctx);
  e->data = MIR_new_data (ctx, "dat", MIR_T_I64, 4, dvals);
  e->bss = MIR_new_bss (ctx, "bs", 64);
  farg.type = MIR_T_I64;
  farg.name = "a1";
  farg.size = 0;
  e->f = fva ? MIR_new_vararg_func_arr (ctx, "f", fnres, fres, 1, &farg) : MIR_new_func_arr (ctx, "f", fnres, fres, 1, &farg);
  e->ri = MIR_new_func_reg (ctx, e->f->u.func, MIR_T_I64, "ri");
  e->rf = MIR_new_func_reg (ctx, e->f->u.func, MIR_T_F, "rf");
  e->rd = MIR_new_func_reg (ctx, e->f->u.func, MIR_T_D, "rd");
  e->rld = MIR_new_func_reg (ctx, e->f->u.func, MIR_T_LD, "rld");
  e->rb = MIR_new_func_reg (ctx, e->f->u.func, MIR_T_I64, "rb");
  e->nlabels = 0;
  if (prologue) { /* give every register a value and rb a valid address: only used to execute accepted rows */
    MIR_append_insn (ctx, e->f, MIR_new_insn (ctx, MIR_MOV, MIR_new_reg_op (ctx, e->rb), MIR_new_int_op (ctx, (int64_t) (databuf + 2048))));
    MIR_append_insn (ctx, e->f, MIR_new_insn (ctx, MIR_MOV, MIR_new_reg_op (ctx, e->ri), MIR_new_int_op (ctx, 3)));
    MIR_append_insn (ctx, e->f, MIR_new_insn (ctx, MIR_FMOV, MIR_new_reg_op (ctx, e->rf), MIR_new_float_op (ctx, 1.5f)));
    MIR_append_insn (ctx, e->f, MIR_new_insn (ctx, MIR_DMOV, MIR_new_reg_op (ctx, e->rd), MIR_new_double_op (ctx, 2.5)));
    MIR_append_insn (ctx, e->f, MIR_new_insn (ctx, MIR_LDMOV, MIR_new_reg_op (ctx, e->rld), MIR_new_ldouble_op (ctx, 3.5L)));
  }
}

static void say (const char *id, const char *stage, int err) {
  if (err)
    printf ("RES %s %s ERROR %d %s %s\n", id, stage, ecode, ename (ecode), emsg);
  else
    printf ("RES %s %s %s\n", id, stage, strcmp (stage, "build") == 0 ? "ACCEPT" : "OK");
  fflush (stdout);
}

static void load_link (env_t *e) {
  MIR_finish_module (e->ctx);
  MIR_load_module (e->ctx, e->m);
  MIR_load_external (e->ctx, "imp", (void *) ext_func);
}

/* build the insns of a ROW (tp stands after PROTO ...) into e->f and finish the function */
static void build_insns (env_t *e) {
  MIR_context_t ctx = e->ctx;
  MIR_op_t ops[32];
  int ni;

  if (strcmp (tok (), "NI") != 0) _exit (3);
  ni = (int) tokl ();
  for (int i = 0; i < ni; i++) {
    const char *name;
    int nops;
    if (strcmp (tok (), "INS") != 0) _exit (3);
    name = tok ();
    nops = (int) tokl ();
    for (int j = 0; j < nops; j++) ops[j] = mk_op (e, (char *) tok ());
    MIR_append_insn (ctx, e->f, MIR_new_insn_arr (ctx, str2code (ctx, name), nops, ops));
  }
  for (int i = 0; i < e->nlabels; i++) MIR_append_insn (ctx, e->f, e->labels[i]);
  MIR_finish_func (ctx);
}

static void do_row (const char *id) {
  env_t e;
  int start = tp, exec_p, use_p, i;
  volatile int stage_err = 0;
  char *line_copy[4096];

  /* mk_op splits mem tokens with strtok: keep copies for the second construction */
  for (i = 0; i < ntok; i++) line_copy[i] = strdup (toks[i]);
  for (i = ntok - 1; i >= 0 && strcmp (toks[i], "EXEC") != 0; i--)
    ;
  exec_p = i >= 0 && atoi (toks[i + 1]);
  use_p = i >= 2 && strcmp (toks[i - 2], "USE") == 0 ? atoi (toks[i - 1]) : 1;
  e.ctx = MIR_init ();
  MIR_set_error_func (e.ctx, errf);
  if (setjmp (jb)) {
    say (id, "build", 1);
    return;
  }
  scaffold (&e, 0);
  build_insns (&e);
  say (id, "build", 0);
  if (!use_p) return;
  /* the accepted function must be usable: load, link */
  if (setjmp (jb)) {
    say (id, "load", 1);
    return;
  }
  load_link (&e);
  say (id, "load", 0);
  if (setjmp (jb)) {
    say (id, "link", 1);
    return;
  }
  MIR_link (e.ctx, MIR_set_interp_interface, NULL);
  say (id, "link", 0);
  if (!exec_p) return;
  /* executed once in a second context with initialised registers */
  for (i = 0; i < ntok; i++) toks[i] = line_copy[i];
  tp = start;
  e.ctx = MIR_init ();
  MIR_set_error_func (e.ctx, errf);
  if (setjmp (jb)) {
    say (id, "exec", 1);
    return;
  }
  memset (databuf, 1, sizeof databuf);
  scaffold (&e, 1);
  build_insns (&e);
  load_link (&e);
  MIR_link (e.ctx, MIR_set_interp_interface, NULL);
  {
    MIR_val_t res[16], arg;
    arg.i = 11;
    MIR_interp_arr (e.ctx, e.f, res, 1, &arg);
  }
  say (id, "exec", stage_err);
}

static void do_dreg (const char *id) {
  env_t e;
  MIR_var_t farg = {MIR_T_I64, "a1", 0};
  int npre = (int) tokl ();
  MIR_context_t ctx = e.ctx = MIR_init ();

  MIR_set_error_func (ctx, errf);
  if (setjmp (jb)) {
    say (id, "build", 1);
    return;
  }
  e.m = MIR_new_module (ctx, "m");
  e.f = MIR_new_func_arr (ctx, "f", 0, NULL, 1, &farg);
  for (int i = 0; i < npre; i++) {
    const char *n = tok ();
    MIR_new_func_reg (ctx, e.f->u.func, str2type (tok ()), n);
  }
  {
    const char *n = tok ();
    MIR_type_t t = str2type (tok ());
    if (setjmp (jb)) {
      say (id, "build", 1);
      return;
    }
    MIR_new_func_reg (ctx, e.f->u.func, t, n);
  }
  say (id, "build", 0);
  if (setjmp (jb)) {
    say (id, "load", 1);
    return;
  }
  MIR_finish_func (ctx);
  MIR_finish_module (ctx);
  MIR_load_module (ctx, e.m);
  say (id, "load", 0);
  if (setjmp (jb)) {
    say (id, "link", 1);
    return;
  }
  MIR_link (ctx, MIR_set_interp_interface, NULL);
  say (id, "link", 0);
}

/* GDECL <id> <use> <n> (<name> <type> <hard reg | ->)*: declarations in a function f (a1:i64), one verdict per step */
static void do_gdecl (const char *id) {
  MIR_context_t ctx = MIR_init ();
  MIR_var_t farg = {MIR_T_I64, "a1", 0};
  MIR_module_t m;
  MIR_item_t f;
  int use_p = (int) tokl (), n = (int) tokl ();
  volatile int k;

  MIR_set_error_func (ctx, errf);
  if (setjmp (jb)) {
    printf ("MACHINERY gdecl scaffold failed: %s\n", emsg);
    fflush (stdout);
    _exit (3);
  }
  m = MIR_new_module (ctx, "m");
  f = MIR_new_func_arr (ctx, "f", 0, NULL, 1, &farg);
  for (k = 1; k <= n; k++) {
    const char *name = tok ();
    MIR_type_t t = str2type (tok ());
    const char *hr = tok ();
    MIR_reg_t reg, reg2;
    if (setjmp (jb)) {
      printf ("STEP %s %d ERROR %d %s %s\n", id, k, ecode, ename (ecode), emsg);
      fflush (stdout);
      return;
    }
    reg = strcmp (hr, "-") == 0 ? MIR_new_func_reg (ctx, f->u.func, t, name) : MIR_new_global_func_reg (ctx, f->u.func, t, name, hr);
    printf ("STEP %s %d ACCEPT\n", id, k);
    fflush (stdout);
    if (k < n) continue;
    /* "Value of type MIR_reg_t is returned by MIR_new_func_reg or can be gotten by function MIR_reg" */
    if (setjmp (jb)) {
      printf ("LOOK %s %d %u ERR:%s\n", id, k, (unsigned) reg, ename (ecode));
      fflush (stdout);
      return;
    }
    reg2 = MIR_reg (ctx, name, f->u.func);
    printf ("LOOK %s %d %u %u\n", id, k, (unsigned) reg, (unsigned) reg2);
    fflush (stdout);
  }
  if (!use_p) return;
  if (setjmp (jb)) {
    say (id, "load", 1);
    return;
  }
  MIR_finish_func (ctx);
  MIR_finish_module (ctx);
  MIR_load_module (ctx, m);
  say (id, "load", 0);
  if (setjmp (jb)) {
    say (id, "link", 1);
    return;
  }
  MIR_link (ctx, MIR_set_interp_interface, NULL);
  say (id, "link", 0);
}

/* GFN <id> <use> <exec> <ndecl> (<name> <type> <hard reg | ->)* NI <n> (INS <op> <nops> <operand>*)*
   a function f (a1:i64) with exactly these declarations (no other registers) and insns.
   operand: rn:<name> | r:next | r:far | int | float | double | ldouble | memn:<type>:<base>:<index>:<disp>
   (base/index: a variable name, none, next = highest declared register number + 1, far) */
typedef struct {
  const char *name;
  MIR_reg_t reg;
} gvar_t;
static gvar_t gvars[32];
static int ngvars;
static MIR_reg_t gmaxreg;

static MIR_reg_t greg_of (const char *s) {
  if (strcmp (s, "none") == 0) return 0;
  if (strcmp (s, "next") == 0) return gmaxreg + 1;
  if (strcmp (s, "far") == 0) return UNDECL_REG;
  for (int i = 0; i < ngvars; i++)
    if (strcmp (gvars[i].name, s) == 0) return gvars[i].reg;
  printf ("MACHINERY gfn: unknown variable %s\n", s);
  fflush (stdout);
  _exit (3);
}

static MIR_op_t gfn_op (MIR_context_t ctx, char *s) {
  if (strncmp (s, "rn:", 3) == 0) return MIR_new_reg_op (ctx, greg_of (s + 3));
  if (strncmp (s, "r:", 2) == 0) return MIR_new_reg_op (ctx, greg_of (s + 2));
  if (strcmp (s, "int") == 0) return MIR_new_int_op (ctx, 5);
  if (strcmp (s, "float") == 0) return MIR_new_float_op (ctx, 1.25f);
  if (strcmp (s, "double") == 0) return MIR_new_double_op (ctx, 2.25);
  if (strcmp (s, "ldouble") == 0) return MIR_new_ldouble_op (ctx, 3.25L);
  if (strncmp (s, "memn:", 5) == 0) {
    char *t = strtok (s + 5, ":"), *b = strtok (NULL, ":"), *x = strtok (NULL, ":"), *d = strtok (NULL, ":");
    return MIR_new_mem_op (ctx, str2type (t), strtol (d, NULL, 10), greg_of (b), greg_of (x), 1);
  }
  printf ("MACHINERY gfn: unknown operand %s\n", s);
  fflush (stdout);
  _exit (3);
}

/* returns 0 if a declaration step was rejected (reported as STEP ... ERROR) */
static int gfn_build (const char *id, MIR_context_t ctx, MIR_module_t *m, MIR_item_t *fp, int report) {
  MIR_var_t farg = {MIR_T_I64, "a1", 0};
  MIR_item_t f;
  MIR_op_t ops[8];
  int n = (int) tokl (), ni;
  volatile int k;

  *m = MIR_new_module (ctx, "m");
  *fp = f = MIR_new_func_arr (ctx, "f", 0, NULL, 1, &farg);
  ngvars = 0;
  gvars[ngvars].name = "a1";
  gvars[ngvars++].reg = gmaxreg = MIR_reg (ctx, "a1", f->u.func);
  for (k = 1; k <= n; k++) {
    const char *name = tok ();
    MIR_type_t t = str2type (tok ());
    const char *hr = tok ();
    MIR_reg_t reg;
    if (setjmp (jb)) {
      if (report) printf ("STEP %s %d ERROR %d %s %s\n", id, k, ecode, ename (ecode), emsg);
      fflush (stdout);
      return 0;
    }
    reg = strcmp (hr, "-") == 0 ? MIR_new_func_reg (ctx, f->u.func, t, name) : MIR_new_global_func_reg (ctx, f->u.func, t, name, hr);
    if (report) printf ("STEP %s %d ACCEPT\n", id, k);
    fflush (stdout);
    gvars[ngvars].name = name;
    gvars[ngvars++].reg = reg;
    if (reg > gmaxreg) gmaxreg = reg;
  }
  if (setjmp (jb)) {
    if (report) say (id, "build", 1);
    return 0;
  }
  if (strcmp (tok (), "NI") != 0) _exit (3);
  ni = (int) tokl ();
  for (int i = 0; i < ni; i++) {
    const char *name;
    int nops;
    if (strcmp (tok (), "INS") != 0) _exit (3);
    name = tok ();
    nops = (int) tokl ();
    for (int j = 0; j < nops; j++) ops[j] = gfn_op (ctx, (char *) tok ());
    MIR_append_insn (ctx, f, MIR_new_insn_arr (ctx, str2code (ctx, name), nops, ops));
  }
  MIR_finish_func (ctx);
  if (report) say (id, "build", 0);
  return 1;
}

static void do_gfn (const char *id) {
  MIR_context_t ctx = MIR_init ();
  MIR_module_t m;
  MIR_item_t f;
  int use_p = (int) tokl (), exec_p = (int) tokl (), start = tp, i;
  char *line_copy[4096];

  for (i = 0; i < ntok; i++) line_copy[i] = strdup (toks[i]);
  MIR_set_error_func (ctx, errf);
  if (setjmp (jb)) {
    printf ("MACHINERY gfn scaffold failed: %s\n", emsg);
    fflush (stdout);
    _exit (3);
  }
  if (!gfn_build (id, ctx, &m, &f, 1) || !use_p) return;
  if (setjmp (jb)) {
    say (id, "load", 1);
    return;
  }
  MIR_finish_module (ctx);
  MIR_load_module (ctx, m);
  say (id, "load", 0);
  if (setjmp (jb)) {
    say (id, "link", 1);
    return;
  }
  MIR_link (ctx, MIR_set_interp_interface, NULL);
  say (id, "link", 0);
  if (!exec_p) return;
  /* run it once (fresh context: operands were consumed by the first construction) */
  for (i = 0; i < ntok; i++) toks[i] = line_copy[i];
  tp = start;
  ctx = MIR_init ();
  MIR_set_error_func (ctx, errf);
  if (setjmp (jb)) {
    say (id, "exec", 1);
    return;
  }
  if (!gfn_build (id, ctx, &m, &f, 0)) {
    say (id, "exec", 1);
    return;
  }
  MIR_finish_module (ctx);
  MIR_load_module (ctx, m);
  MIR_link (ctx, MIR_set_interp_interface, NULL);
  {
    MIR_val_t res[4], arg;
    arg.i = 11;
    MIR_interp_arr (ctx, f, res, 1, &arg);
  }
  say (id, "exec", 0);
}

static void do_dfunc (const char *id) {
  MIR_context_t ctx = MIR_init ();
  MIR_module_t m;
  MIR_type_t res[8];
  MIR_var_t args[8];
  int va = (int) tokl (), nres = (int) tokl (), nargs;

  for (int i = 0; i < nres; i++) res[i] = str2type (tok ());
  nargs = (int) tokl ();
  for (int i = 0; i < nargs; i++) {
    args[i].name = tok ();
    args[i].type = str2type (tok ());
    args[i].size = (size_t) tokl ();
  }
  MIR_set_error_func (ctx, errf);
  if (setjmp (jb)) {
    say (id, "build", 1);
    return;
  }
  m = MIR_new_module (ctx, "m");
  if (va)
    MIR_new_vararg_func_arr (ctx, "f", nres, res, nargs, args);
  else
    MIR_new_func_arr (ctx, "f", nres, res, nargs, args);
  MIR_finish_func (ctx);
  say (id, "build", 0);
  if (setjmp (jb)) {
    say (id, "load", 1);
    return;
  }
  MIR_finish_module (ctx);
  MIR_load_module (ctx, m);
  say (id, "load", 0);
  if (setjmp (jb)) {
    say (id, "link", 1);
    return;
  }
  MIR_link (ctx, MIR_set_interp_interface, NULL);
  say (id, "link", 0);
}

static void do_path (const char *id) {
  MIR_context_t ctx = MIR_init ();
  MIR_item_t last = NULL;
  MIR_var_t farg = {MIR_T_I64, "a1", 0};
  static int64_t dvals[1] = {1};
  int n = (int) tokl ();
  volatile int k;

  MIR_set_error_func (ctx, errf);
  for (k = 1; k <= n; k++) {
    const char *act = tok (), *name = tok ();
    if (setjmp (jb)) {
      printf ("STEP %s %d ERROR %d %s %s\n", id, k, ecode, ename (ecode), emsg);
      fflush (stdout);
      return; /* the context is abandoned after an error */
    }
    if (strcmp (act, "new_module") == 0)
      MIR_new_module (ctx, k % 2 ? "m1" : "m2");
    else if (strcmp (act, "finish_module") == 0)
      MIR_finish_module (ctx);
    else if (strcmp (act, "new_func") == 0)
      last = MIR_new_func_arr (ctx, name, 0, NULL, 1, &farg);
    else if (strcmp (act, "finish_func") == 0)
      MIR_finish_func (ctx);
    else if (strcmp (act, "new_proto") == 0)
      MIR_new_proto_arr (ctx, name, 0, NULL, 0, NULL);
    else if (strcmp (act, "new_import") == 0)
      MIR_new_import (ctx, name);
    else if (strcmp (act, "new_export") == 0)
      MIR_new_export (ctx, name);
    else if (strcmp (act, "new_forward") == 0)
      MIR_new_forward (ctx, name);
    else if (strcmp (act, "new_data") == 0)
      MIR_new_data (ctx, name, MIR_T_I64, 1, dvals);
    else if (strcmp (act, "new_bss") == 0)
      MIR_new_bss (ctx, name, 8);
    else if (strcmp (act, "new_func_reg") == 0)
      MIR_new_func_reg (ctx, last->u.func, MIR_T_I64, name);
    else if (strcmp (act, "append_insn") == 0)
      MIR_append_insn (ctx, last,
                       MIR_new_insn (ctx, MIR_MOV, MIR_new_reg_op (ctx, MIR_reg (ctx, "a1", last->u.func)), MIR_new_int_op (ctx, 1)));
    else if (strcmp (act, "finish") == 0)
      MIR_finish (ctx);
    else {
      printf ("MACHINERY unknown action %s\n", act);
      fflush (stdout);
      _exit (3);
    }
    printf ("STEP %s %d ACCEPT\n", id, k);
    fflush (stdout);
  }
}

static void do_text (const char *id) {
  MIR_context_t ctx = MIR_init ();
  int use_p = (int) tokl ();
  const char *hex = tok ();
  size_t n = strlen (hex) / 2;
  char *text = malloc (n + 1);
  MIR_module_t m;

  for (size_t i = 0; i < n; i++) {
    unsigned v;
    sscanf (hex + 2 * i, "%2x", &v);
    text[i] = (char) v;
  }
  text[n] = 0;
  MIR_set_error_func (ctx, errf);
  if (setjmp (jb)) {
    say (id, "build", 1);
    return;
  }
  MIR_scan_string (ctx, text);
  say (id, "build", 0);
  if (!use_p) return;
  if (setjmp (jb)) {
    say (id, "load", 1);
    return;
  }
  for (m = DLIST_HEAD (MIR_module_t, *MIR_get_module_list (ctx)); m != NULL; m = DLIST_NEXT (MIR_module_t, m))
    MIR_load_module (ctx, m);
  MIR_load_external (ctx, "imp", (void *) ext_func);
  say (id, "load", 0);
  if (setjmp (jb)) {
    say (id, "link", 1);
    return;
  }
  MIR_link (ctx, MIR_set_interp_interface, NULL);
  say (id, "link", 0);
}

int main (int argc, char **argv) {
  static char line[1 << 20];
  int nofork = argc > 1 && strcmp (argv[1], "--nofork") == 0;
  long ncase = 0;

  while (fgets (line, sizeof line, stdin) != NULL) {
    char *kind, *id, *p;
    ntok = 0;
    for (p = strtok (line, " \n"); p != NULL && ntok < 4096; p = strtok (NULL, " \n")) toks[ntok++] = p;
    if (ntok < 2) continue;
    kind = toks[0];
    id = toks[1];
    tp = 2;
    cur_id = id;
    ncase++;
    fflush (stdout);
    pid_t pid = nofork ? 0 : fork ();
    if (pid < 0) {
      printf ("MACHINERY fork failed\n");
      return 3;
    }
    if (pid == 0) {
      alarm (20);
      if (strcmp (kind, "ROW") == 0)
        do_row (id);
      else if (strcmp (kind, "DREG") == 0)
        do_dreg (id);
      else if (strcmp (kind, "DFUNC") == 0)
        do_dfunc (id);
      else if (strcmp (kind, "GDECL") == 0)
        do_gdecl (id);
      else if (strcmp (kind, "GFN") == 0)
        do_gfn (id);
      else if (strcmp (kind, "PATH") == 0)
        do_path (id);
      else if (strcmp (kind, "TEXT") == 0)
        do_text (id);
      else if (strcmp (kind, "OPCODES") == 0) { /* names of all opcodes of the implementation */
        MIR_context_t ctx = MIR_init ();
        printf ("OPS %s", id);
        for (int c = 0; c < MIR_INSN_BOUND; c++) printf (" %s", MIR_insn_name (ctx, (MIR_insn_code_t) c));
        printf ("\n");
      } else if (strcmp (kind, "CRASHME") == 0)
        raise (SIGSEGV);
      else
        printf ("MACHINERY unknown line kind %s\n", kind);
      printf ("END %s\n", id);
      fflush (stdout);
      if (!nofork) _exit (0);
    } else {
      int st = 0;
      waitpid (pid, &st, 0);
      if (WIFSIGNALED (st))
        printf ("CRASH %s %d\n", id, WTERMSIG (st));
      else if (WIFEXITED (st) && WEXITSTATUS (st) != 0)
        printf ("CRASH %s exit%d\n", id, WEXITSTATUS (st));
      fflush (stdout);
    }
  }
  printf ("DONE %ld\n", ncase);
  return 0;
}
