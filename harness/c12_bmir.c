/* C12 helper: produces a real binary-MIR file (MIR_write, i.e. mir.c driving reduce_encode_put) from a textual
   MIR file, so that the compression layer is also exercised on the byte streams it is used for.
   usage: c12_bmir <file.mir>   -> binary MIR on stdout */
#include <stdio.h>
#include <stdlib.h>
#include "mir.h"

int main (int argc, char **argv) {
  FILE *f;
  long n;
  char *text;
  MIR_context_t ctx;
  if (argc != 2 || (f = fopen (argv[1], "rb")) == NULL) return 2;
  fseek (f, 0, SEEK_END); n = ftell (f); fseek (f, 0, SEEK_SET);
  text = malloc (n + 1);
  if (fread (text, 1, n, f) != (size_t) n) return 2;
  text[n] = 0;
  fclose (f);
  ctx = MIR_init ();
  MIR_scan_string (ctx, text);
  MIR_write (ctx, stdout);
  MIR_finish (ctx);
  free (text);
  return 0;
}
