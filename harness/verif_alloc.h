/* Minimal checking MIR_alloc_t for header-only harnesses: header with true size before each
   block, realloc verifies the reported old size, free verifies liveness, live-block count. */
#ifndef VERIF_ALLOC_H
#define VERIF_ALLOC_H
#include <stdio.h>
#include <stdlib.h>
#include <string.h>
#include "mir-alloc.h"
typedef struct { size_t size; unsigned long magic; } va_hdr_t;
#define VA_LIVE 0x11fe11fe11feUL
#define VA_DEAD 0xdeaddeaddeadUL
static long va_live_blocks, va_bad_realloc, va_bad_free;
static void *va_malloc (size_t n, void *u) {
  va_hdr_t *h = malloc (sizeof (va_hdr_t) + n);
  h->size = n; h->magic = VA_LIVE; va_live_blocks++;
  memset (h + 1, 0xA5, n);
  return h + 1;
}
static void *va_calloc (size_t a, size_t b, void *u) { void *p = va_malloc (a * b, u); memset (p, 0, a * b); return p; }
static void va_free (void *p, void *u) {
  va_hdr_t *h;
  if (p == NULL) return;
  h = (va_hdr_t *) p - 1;
  if (h->magic != VA_LIVE) { va_bad_free++; return; }
  h->magic = VA_DEAD; va_live_blocks--;
  memset (p, 0xDD, h->size);
  free (h);
}
static void *va_realloc (void *p, size_t old, size_t n, void *u) {
  va_hdr_t *h;
  void *q;
  if (p == NULL) return va_malloc (n, u);
  h = (va_hdr_t *) p - 1;
  if (h->magic != VA_LIVE || h->size != old) va_bad_realloc++;
  q = va_malloc (n, u);               /* always move: stale pointers become visible to ASan */
  memcpy (q, p, h->size < n ? h->size : n);
  va_free (p, u);
  return q;
}
static struct MIR_alloc va_alloc_s = {va_malloc, va_calloc, va_realloc, va_free, NULL};
static inline MIR_alloc_t verif_alloc (void) { return &va_alloc_s; }
static inline long verif_alloc_live (void) { return va_live_blocks; }
static inline long verif_alloc_bad (void) { return va_bad_realloc + va_bad_free; }
#endif
