/* C13 binding: replays TLC-generated load/link behaviours of spec/MIRLink.tla on a real MIR context.
   Module <s,v> is built through the API from the declaration list of its shape: an exported or local
   function `n` returns 10000*(n+1)+100*s+v, a data item `n` holds the same number K (a data section `n`
   is `n: i64 K` followed by the anonymous items `i64 K+1` and `i32 K+2` and must be one block; a calling
   function g/G `n` is `call <import c>; add K` (G padded with 60 insns so that a plain call of it is not
   inlined; F is a plain function padded the same way); what a call yields comes from the model); per module the
   observers  entry/late (store the address of every import/forward into a buffer), call_<n>
   (MIR_CALL of the import), inl_<n> (MIR_INLINE of the import) and rd_<n> (loads i64 at import + offset) are appended.  After every Link
   the observers of every module linked so far are run (MIR_interp, or the generated code when the
   engine is 1) and compared with the model's `bound`; error verdicts are compared through an error
   function that longjmps (the context is abandoned after an error: all its memory is dropped through
   the ledger allocator).  `late` is executed for the first time at the end of the behaviour.

   Input (stdin), tokens:
     C <case> <engine>
     L <s> <v> <nd> {<kind> <name> <callee>}* <cerr> <err>   kind: 0 f 1 d 2 i 3 e 4 w 5 s 6 g 7 G 8 F (callee -1: none)
     X <name> <id>
     P <b>
     K <useRes> <Rmask> <err> <ncalls> {<name>}* <nb> {<s> <v> <n> <t> <ds> <dv> <dk> <val>}*   t: 0 mir 1 ext 2 res; val: what a call yields (-1: not callable)
     E <nf> {<name> <t> <ds> <dv> <dk>}*      the model's environment at the end (t = -1: no definition)
   err: 0 none 1 repeated_decl 2 undeclared_op_ref 3 import_export
   Output: P <case> before every case, FAIL <case> <step> <key> <text>, and a final DONE <cases> <steps> <fails>. */
#include <stdio.h>
#include <stdlib.h>
#include <string.h>
#include <stdarg.h>
#include <setjmp.h>
#include <stdint.h>
#include <sys/mman.h>
#include <unistd.h>
#include "mir.h"
#include "mir-gen.h"

/* ---------------- ledger allocator: everything a context owns can be dropped at once ------------- */
typedef struct blk { struct blk *prev, *next; size_t size; size_t pad; } blk_t;
static blk_t blk_head = {&blk_head, &blk_head, 0, 0};
static long n_live;
static void *l_malloc (size_t n, void *u) {
  blk_t *b = malloc (sizeof (blk_t) + (n ? n : 1));
  if (b == NULL) abort ();
  b->size = n; b->next = blk_head.next; b->prev = &blk_head; blk_head.next->prev = b; blk_head.next = b;
  n_live++;
  return b + 1;
}
static void *l_calloc (size_t a, size_t s, void *u) { void *p = l_malloc (a * s, u); memset (p, 0, a * s); return p; }
static void l_free (void *p, void *u) {
  blk_t *b;
  if (p == NULL) return;
  b = (blk_t *) p - 1; b->prev->next = b->next; b->next->prev = b->prev; n_live--;
  free (b);
}
static void *l_realloc (void *p, size_t old, size_t n, void *u) {
  void *q;
  if (p == NULL) return l_malloc (n, u);
  q = l_malloc (n, u);
  memcpy (q, p, old < n ? old : n);
  l_free (p, u);
  return q;
}
static void l_drop_all (void) { while (blk_head.next != &blk_head) l_free (blk_head.next + 1, NULL); }
static struct MIR_alloc l_alloc = {l_malloc, l_calloc, l_realloc, l_free, NULL};

#define MAX_MAPS 256
static struct { void *p; size_t len; } maps[MAX_MAPS];
static int n_maps;
static void *c_map (size_t len, void *u) {
  void *p = mmap (NULL, len, PROT_READ | PROT_WRITE, MAP_PRIVATE | MAP_ANONYMOUS, -1, 0);
  if (p == (void *) -1) return NULL;
  if (n_maps < MAX_MAPS) { maps[n_maps].p = p; maps[n_maps].len = len; n_maps++; }
  return p;
}
static int c_unmap (void *p, size_t len, void *u) {
  for (int i = 0; i < n_maps; i++)
    if (maps[i].p == p) { maps[i] = maps[--n_maps]; break; }
  return munmap (p, len);
}
static int c_protect (void *p, size_t len, MIR_mem_protect_t prot, void *u) {
  return mprotect (p, len, prot == PROT_WRITE_EXEC ? (PROT_READ | PROT_WRITE | PROT_EXEC) : (PROT_READ | PROT_EXEC));
}
static void c_drop_all (void) { while (n_maps > 0) { n_maps--; munmap (maps[n_maps].p, maps[n_maps].len); } }
static struct MIR_code_alloc c_alloc = {c_map, c_unmap, c_protect, NULL};

/* ---------------- error trap ------------------------------------------------------------------- */
static jmp_buf trap_buf;
static int trap_armed;
static MIR_error_type_t trap_err;
static char trap_msg[200];
static void MIR_NO_RETURN trap (MIR_error_type_t t, const char *fmt, ...) {
  va_list ap;
  va_start (ap, fmt); vsnprintf (trap_msg, sizeof (trap_msg), fmt, ap); va_end (ap);
  trap_err = t;
  if (!trap_armed) { fprintf (stderr, "MIR error outside a guarded call: %s\n", trap_msg); abort (); }
  longjmp (trap_buf, 1);
}
static int err_code (MIR_error_type_t t) {
  switch (t) {
  case MIR_repeated_decl_error: return 1;
  case MIR_undeclared_op_ref_error: return 2;
  case MIR_import_export_error: return 3;
  default: return 100 + (int) t;
  }
}
static const char *err_name (int c) {
  static char b[32];
  switch (c) { case 0: return "none"; case 1: return "repeated_decl"; case 2: return "undeclared_op_ref"; case 3: return "import_export"; }
  sprintf (b, "other(%d)", c - 100); return b;
}

/* ---------------- externals and resolver answers ------------------------------------------------ */
#define NN 3
static const char *nm[NN] = {"a", "b", "c"};
#define EXTF(i) static int64_t extf##i (void) { return 500000 + i; }
EXTF (1) EXTF (2) EXTF (3) EXTF (4) EXTF (5) EXTF (6)
static void *ext_fn[7] = {NULL, (void *) extf1, (void *) extf2, (void *) extf3, (void *) extf4, (void *) extf5, (void *) extf6};
static int64_t resf0 (void) { return 700000; }
static int64_t resf1 (void) { return 700001; }
static int64_t resf2 (void) { return 700002; }
static void *res_fn[NN] = {(void *) resf0, (void *) resf1, (void *) resf2};
static int res_mask, res_calls[64], n_res_calls;
static void *resolver (const char *name) {
  int i;
  for (i = 0; i < NN; i++) if (strcmp (name, nm[i]) == 0) break;
  if (n_res_calls < 64) res_calls[n_res_calls] = i;
  n_res_calls++;
  return i < NN && ((res_mask >> i) & 1) ? res_fn[i] : NULL;
}

/* ---------------- module instances --------------------------------------------------------------- */
#define MAX_INST 16
typedef struct {
  int s, v, linked, nrefs, refs[NN], have_bound;
  MIR_module_t m;
  MIR_item_t def[NN], ref[NN], entry, late, call[NN], inl[NN], rd[NN];
  int defmulti[NN];             /* the definition is a data section of three items */
  int defkind[NN];              /* 0 func 1 data -1 none */
  int b_t[NN], b_s[NN], b_v[NN], b_k[NN]; /* last model binding per name */
  int64_t b_val[NN];                      /* what a call through it yields according to the model (-1: nothing to call) */
} inst_t;
static inst_t inst[MAX_INST];
static int n_inst;
static MIR_context_t ctx;
static int engine;

static int64_t val_of (int n, int s, int v) { return 10000 * (n + 1) + 100 * s + v; }

static inst_t *find_inst (int s, int v) {
  for (int i = 0; i < n_inst; i++) if (inst[i].s == s && inst[i].v == v) return &inst[i];
  return NULL;
}

static MIR_item_t addr_func (inst_t *in, const char *name) {
  MIR_type_t i64 = MIR_T_I64;
  MIR_item_t f = MIR_new_func (ctx, name, 1, &i64, 1, MIR_T_I64, "out");
  MIR_reg_t out = MIR_reg (ctx, "out", f->u.func), t = MIR_new_func_reg (ctx, f->u.func, MIR_T_I64, "t");
  for (int k = 0; k < in->nrefs; k++) {
    MIR_append_insn (ctx, f, MIR_new_insn (ctx, MIR_MOV, MIR_new_reg_op (ctx, t), MIR_new_ref_op (ctx, in->ref[in->refs[k]])));
    MIR_append_insn (ctx, f, MIR_new_insn (ctx, MIR_MOV, MIR_new_mem_op (ctx, MIR_T_I64, 8 * k, out, 0, 1), MIR_new_reg_op (ctx, t)));
  }
  MIR_append_insn (ctx, f, MIR_new_ret_insn (ctx, 1, MIR_new_int_op (ctx, 0)));
  MIR_finish_func (ctx);
  return f;
}

static MIR_item_t call_func (inst_t *in, int n, MIR_item_t proto, MIR_insn_code_t code, const char *pref) {
  char name[32];
  MIR_type_t i64 = MIR_T_I64;
  MIR_item_t f;
  MIR_reg_t r;
  MIR_op_t ops[3];
  sprintf (name, "%s_%s", pref, nm[n]);
  f = MIR_new_func (ctx, name, 1, &i64, 0);
  r = MIR_new_func_reg (ctx, f->u.func, MIR_T_I64, "r");
  ops[0] = MIR_new_ref_op (ctx, proto); ops[1] = MIR_new_ref_op (ctx, in->ref[n]); ops[2] = MIR_new_reg_op (ctx, r);
  MIR_append_insn (ctx, f, MIR_new_insn_arr (ctx, code, 3, ops));
  MIR_append_insn (ctx, f, MIR_new_ret_insn (ctx, 1, MIR_new_reg_op (ctx, r)));
  MIR_finish_func (ctx);
  return f;
}

static MIR_item_t rd_func (inst_t *in, int n) { /* rd_<n> (off): the i64 at (address of the import) + off */
  char name[32];
  MIR_type_t i64 = MIR_T_I64;
  MIR_item_t f;
  MIR_reg_t off, t, r;
  sprintf (name, "rd_%s", nm[n]);
  f = MIR_new_func (ctx, name, 1, &i64, 1, MIR_T_I64, "off");
  off = MIR_reg (ctx, "off", f->u.func);
  t = MIR_new_func_reg (ctx, f->u.func, MIR_T_I64, "t");
  r = MIR_new_func_reg (ctx, f->u.func, MIR_T_I64, "r");
  MIR_append_insn (ctx, f, MIR_new_insn (ctx, MIR_MOV, MIR_new_reg_op (ctx, t), MIR_new_ref_op (ctx, in->ref[n])));
  MIR_append_insn (ctx, f, MIR_new_insn (ctx, MIR_ADD, MIR_new_reg_op (ctx, t), MIR_new_reg_op (ctx, t), MIR_new_reg_op (ctx, off)));
  MIR_append_insn (ctx, f, MIR_new_insn (ctx, MIR_MOV, MIR_new_reg_op (ctx, r), MIR_new_mem_op (ctx, MIR_T_I64, 0, t, 0, 1)));
  MIR_append_insn (ctx, f, MIR_new_ret_insn (ctx, 1, MIR_new_reg_op (ctx, r)));
  MIR_finish_func (ctx);
  return f;
}

/* builds and loads one module; everything runs under the caller's trap */
static void build_module (inst_t *in, int nd, int *kinds, int *names, int *callees) {
  char name[32];
  MIR_type_t i64 = MIR_T_I64;
  MIR_item_t proto;
  sprintf (name, "m%d_%d", in->s, in->v);
  in->m = MIR_new_module (ctx, name);
  proto = MIR_new_proto (ctx, "p_ret", 1, &i64, 0);
  for (int i = 0; i < nd; i++) {
    int n = names[i];
    int64_t k = val_of (n, in->s, in->v);
    MIR_item_t it;
    switch (kinds[i]) {
    case 0:
      it = MIR_new_func (ctx, nm[n], 1, &i64, 0);
      MIR_append_insn (ctx, it, MIR_new_ret_insn (ctx, 1, MIR_new_int_op (ctx, k)));
      MIR_finish_func (ctx);
      in->def[n] = it; in->defkind[n] = 0;
      break;
    case 6:
    case 7:
    case 8: { /* g, G: r = <import callee> (); r += K;   F: r = K;   G and F: 60 more insns that cancel out */
      MIR_reg_t r;
      it = MIR_new_func (ctx, nm[n], 1, &i64, 0);
      r = MIR_new_func_reg (ctx, it->u.func, MIR_T_I64, "r");
      if (kinds[i] == 8) {
        MIR_append_insn (ctx, it, MIR_new_insn (ctx, MIR_MOV, MIR_new_reg_op (ctx, r), MIR_new_int_op (ctx, k)));
      } else {
        MIR_append_insn (ctx, it, MIR_new_call_insn (ctx, 3, MIR_new_ref_op (ctx, proto), MIR_new_ref_op (ctx, in->ref[callees[i]]), MIR_new_reg_op (ctx, r)));
        MIR_append_insn (ctx, it, MIR_new_insn (ctx, MIR_ADD, MIR_new_reg_op (ctx, r), MIR_new_reg_op (ctx, r), MIR_new_int_op (ctx, k)));
      }
      if (kinds[i] != 6) {
        for (int j = 0; j < 60; j++)
          MIR_append_insn (ctx, it, MIR_new_insn (ctx, MIR_ADD, MIR_new_reg_op (ctx, r), MIR_new_reg_op (ctx, r), MIR_new_int_op (ctx, j + 1)));
        MIR_append_insn (ctx, it, MIR_new_insn (ctx, MIR_SUB, MIR_new_reg_op (ctx, r), MIR_new_reg_op (ctx, r), MIR_new_int_op (ctx, 60 * 61 / 2)));
      }
      MIR_append_insn (ctx, it, MIR_new_ret_insn (ctx, 1, MIR_new_reg_op (ctx, r)));
      MIR_finish_func (ctx);
      in->def[n] = it; in->defkind[n] = 0;
      break;
    }
    case 1: in->def[n] = MIR_new_data (ctx, nm[n], MIR_T_I64, 1, &k); in->defkind[n] = 1; break;
    case 5: {
      int64_t k1 = k + 1;
      int32_t k2 = (int32_t) (k + 2);
      in->def[n] = MIR_new_data (ctx, nm[n], MIR_T_I64, 1, &k); in->defkind[n] = 1; in->defmulti[n] = 1;
      MIR_new_data (ctx, NULL, MIR_T_I64, 1, &k1);
      MIR_new_data (ctx, NULL, MIR_T_I32, 1, &k2);
      break;
    }
    case 2: in->ref[n] = MIR_new_import (ctx, nm[n]); break;
    case 3: MIR_new_export (ctx, nm[n]); break;
    case 4: it = MIR_new_forward (ctx, nm[n]); if (in->ref[n] == NULL) in->ref[n] = it; break;
    }
  }
  in->nrefs = 0;
  for (int n = 0; n < NN; n++) { /* observed: imports and forwards that have a definition (see DevDanglingAccepted) */
    if (in->ref[n] != NULL && in->ref[n]->item_type == MIR_forward_item && in->def[n] == NULL) in->ref[n] = NULL;
    if (in->ref[n] != NULL) in->refs[in->nrefs++] = n;
  }
  in->entry = addr_func (in, "entry");
  in->late = addr_func (in, "late");
  for (int k = 0; k < in->nrefs; k++) {
    in->call[in->refs[k]] = call_func (in, in->refs[k], proto, MIR_CALL, "call");
    in->inl[in->refs[k]] = call_func (in, in->refs[k], proto, MIR_INLINE, "inl");
    in->rd[in->refs[k]] = rd_func (in, in->refs[k]);
  }
  MIR_finish_module (ctx);
}

static int64_t run0 (MIR_item_t f) { /* function without arguments returning i64 */
  MIR_val_t res;
  if (engine == 1) return ((int64_t (*) (void)) f->addr) ();
  MIR_interp_arr (ctx, f, &res, 0, NULL);
  return res.i;
}
static int64_t run1 (MIR_item_t f, int64_t a) { /* function with one i64 argument returning i64 */
  MIR_val_t res, arg;
  if (engine == 1) return ((int64_t (*) (int64_t)) f->addr) (a);
  arg.i = a;
  MIR_interp_arr (ctx, f, &res, 1, &arg);
  return res.i;
}
static void run_addr (MIR_item_t f, int64_t *buf) {
  MIR_val_t res, arg;
  if (engine == 1) { ((int64_t (*) (int64_t *)) f->addr) (buf); return; }
  arg.i = (int64_t) buf;
  MIR_interp_arr (ctx, f, &res, 1, &arg);
}

static long ncase, nsteps, nfail;
static int fin_t[NN], fin_s[NN], fin_v[NN], fin_k[NN]; /* environment at the end of the behaviour */
static long caseno;
static int step, bad;
#define FAIL(key, ...) do { printf ("FAIL %ld %d %s ", caseno, step, key); printf (__VA_ARGS__); printf ("\n"); nfail++; bad = 1; } while (0)

static void *expected_addr (int n, int t, int ds, int dv, int dk, int64_t *val, int *is_func) {
  inst_t *d;
  switch (t) {
  case 0:
    d = find_inst (ds, dv);
    if (d == NULL || d->def[n] == NULL) return NULL;
    *val = val_of (n, ds, dv); *is_func = dk == 0;
    return d->def[n]->addr;
  case 1: *val = 500000 + ds; *is_func = 1; return ext_fn[ds];
  default: *val = 700000 + n; *is_func = 1; return res_fn[n];
  }
}

/* observe the bindings of one linked instance through the given address function */
static void observe (inst_t *in, MIR_item_t afunc, const char *how, int calls_p) {
  int64_t buf[NN + 1];
  memset (buf, 0, sizeof (buf));
  run_addr (afunc, buf);
  for (int k = 0; k < in->nrefs && !bad; k++) {
    int n = in->refs[k], is_func = 0;
    int64_t val = 0, got;
    void *exp = expected_addr (n, in->b_t[n], in->b_s[n], in->b_v[n], in->b_k[n], &val, &is_func);
    const char *what = in->ref[n]->item_type == MIR_import_item ? "import" : "forward";
    if (exp == NULL) { FAIL ("machinery", "no expected address for %s of m%d_%d", nm[n], in->s, in->v); break; }
    if ((void *) buf[k] != exp) {
      /* say which definition the code chose, if it is one we know */
      char chosen[64] = "an unknown address";
      for (int i = 0; i < n_inst; i++)
        if (inst[i].def[n] != NULL && inst[i].def[n]->addr == (void *) buf[k]) sprintf (chosen, "%s of m%d_%d", nm[n], inst[i].s, inst[i].v);
      for (int i = 1; i < 7; i++) if (ext_fn[i] == (void *) buf[k]) sprintf (chosen, "external #%d", i);
      if (res_fn[n] == (void *) buf[k]) sprintf (chosen, "the resolver's address");
      if (!calls_p) { /* first run after later loads: does it see the definition that is the latest NOW? */
        int64_t v2; int f2;
        void *now = fin_t[n] < 0 ? NULL : expected_addr (n, fin_t[n], fin_s[n], fin_v[n], fin_k[n], &v2, &f2);
        how = now != NULL && now == (void *) buf[k] ? "late_first_run_rebinds_to_latest" : "late_first_run_other";
      }
      FAIL (how, "%s %s of m%d_%d is bound to %s, expected def t=%d s=%d v=%d", what, nm[n], in->s, in->v, chosen,
            in->b_t[n], in->b_s[n], in->b_v[n]);
      break;
    }
    if (!is_func) {
      inst_t *d = in->b_t[n] == 0 ? find_inst (in->b_s[n], in->b_v[n]) : NULL;
      if (*(int64_t *) exp != val) { FAIL ("data_value", "data %s holds %ld expected %ld", nm[n], (long) *(int64_t *) exp, (long) val); break; }
      if (!calls_p) continue;
      if ((got = run1 (in->rd[n], 0)) != val) { FAIL ("data_read", "%s %s read from m%d_%d gives %ld expected %ld", what, nm[n], in->s, in->v, (long) got, (long) val); break; }
      if (d != NULL && d->defmulti[n]) { /* the name stands for the whole block: the anonymous continuation follows */
        if ((got = run1 (in->rd[n], 8)) != val + 1) { FAIL ("data_read", "%s %s + 8 read from m%d_%d gives %ld expected %ld", what, nm[n], in->s, in->v, (long) got, (long) (val + 1)); break; }
        if (*(int32_t *) ((char *) exp + 16) != (int32_t) (val + 2)) { FAIL ("data_value", "third item of section %s holds %d", nm[n], *(int32_t *) ((char *) exp + 16)); break; }
      }
      continue;
    }
    if (!calls_p || in->b_val[n] < 0) continue; /* -1: the called function would call something that is not a function */
    val = in->b_val[n];                         /* from the model: through the bindings the called module got at ITS link step */
    if ((got = run0 (in->call[n])) != val) { FAIL ("call_value", "call of %s %s from m%d_%d returns %ld expected %ld", what, nm[n], in->s, in->v, (long) got, (long) val); break; }
    if ((got = run0 (in->inl[n])) != val) { FAIL ("inline_value", "inline call of %s %s from m%d_%d returns %ld expected %ld", what, nm[n], in->s, in->v, (long) got, (long) val); break; }
  }
}

static void abandon (void) {
  l_drop_all (); c_drop_all (); ctx = NULL;
}

static void end_case (int clean) {
  if (ctx == NULL) return;
  if (clean) {
    trap_armed = 1;
    if (setjmp (trap_buf) == 0) {
      if (engine == 1) MIR_gen_finish (ctx);
      MIR_finish (ctx);
      trap_armed = 0;
      if (n_live != 0) { l_drop_all (); }
      c_drop_all ();
      ctx = NULL;
      return;
    }
    trap_armed = 0;
  }
  abandon ();
}

int main (void) {
  char tag[8];
  static int kinds[32], names[32], callees[32];
  while (scanf ("%7s", tag) == 1) {
    if (tag[0] == 'C') {
      if (scanf ("%ld %d", &caseno, &engine) != 2) return 3;
      printf ("P %ld\n", caseno); fflush (stdout); /* progress: a crash or a hang is attributed to the last case started */
      alarm (20);                                    /* a library call that does not return ends the process (SIGALRM) */
      ncase++; step = 0; bad = 0; n_inst = 0;
      memset (inst, 0, sizeof (inst));
      ctx = MIR_init2 (&l_alloc, &c_alloc);
      MIR_set_error_func (ctx, trap);
      if (engine == 1) MIR_gen_init (ctx);
    } else if (tag[0] == 'L') {
      int s, v, nd, cerr, err, got = 0;
      inst_t *in;
      if (scanf ("%d %d %d", &s, &v, &nd) != 3) return 3;
      for (int i = 0; i < nd; i++) if (scanf ("%d %d %d", &kinds[i], &names[i], &callees[i]) != 3) return 3;
      if (scanf ("%d %d", &cerr, &err) != 2) return 3;
      step++; nsteps++;
      if (bad || ctx == NULL) continue;
      in = &inst[n_inst++];
      in->s = s; in->v = v;
      for (int n = 0; n < NN; n++) in->defkind[n] = -1;
      trap_armed = 1;
      if (setjmp (trap_buf) == 0) {
        build_module (in, nd, kinds, names, callees);
        if (cerr != 0) {
          trap_armed = 0;
          FAIL ("construct_accepted", "module m%d_%d was built without error, expected %s", s, v, err_name (cerr));
          abandon ();
          continue;
        }
        MIR_load_module (ctx, in->m);
      } else {
        got = err_code (trap_err);
      }
      trap_armed = 0;
      if (got != err) {
        if (got == 0) FAIL ("load_accepted", "load of m%d_%d accepted, expected %s", s, v, err_name (err));
        else if (err == 0) FAIL ("load_rejected", "load of m%d_%d rejected with %s (%s), expected success", s, v, err_name (got), trap_msg);
        else FAIL ("error_code", "load of m%d_%d: error %s (%s), expected %s", s, v, err_name (got), trap_msg, err_name (err));
      }
      if (got != 0 || bad) abandon ();
    } else if (tag[0] == 'X') {
      int n, id;
      if (scanf ("%d %d", &n, &id) != 2) return 3;
      step++; nsteps++;
      if (bad || ctx == NULL) continue;
      trap_armed = 1;
      if (setjmp (trap_buf) == 0) MIR_load_external (ctx, nm[n], ext_fn[id]);
      else { FAIL ("ext_rejected", "MIR_load_external raised %s", trap_msg); }
      trap_armed = 0;
      if (bad) abandon ();
    } else if (tag[0] == 'P') {
      int b;
      if (scanf ("%d", &b) != 1) return 3;
      step++; nsteps++;
      if (bad || ctx == NULL) continue;
      MIR_set_func_redef_permission (ctx, b);
      if (MIR_get_func_redef_permission_p (ctx) != b) FAIL ("permit", "permission not stored");
    } else if (tag[0] == 'K') {
      int use_res, err, ncalls, calls[16], nb, got = 0;
      static int bs[64][8];
      if (scanf ("%d %d %d %d", &use_res, &res_mask, &err, &ncalls) != 4) return 3;
      for (int i = 0; i < ncalls; i++) if (scanf ("%d", &calls[i]) != 1) return 3;
      if (scanf ("%d", &nb) != 1) return 3;
      for (int i = 0; i < nb; i++)
        for (int j = 0; j < 8; j++) if (scanf ("%d", &bs[i][j]) != 1) return 3;
      step++; nsteps++;
      if (bad || ctx == NULL) continue;
      n_res_calls = 0;
      trap_armed = 1;
      if (setjmp (trap_buf) == 0)
        MIR_link (ctx, engine == 1 ? MIR_set_gen_interface : MIR_set_interp_interface, use_res ? resolver : NULL);
      else
        got = err_code (trap_err);
      trap_armed = 0;
      if (got != err) {
        if (got == 0) FAIL ("link_accepted", "link succeeded, expected %s", err_name (err));
        else if (err == 0) FAIL ("link_rejected", "link failed with %s (%s), expected success", err_name (got), trap_msg);
        else FAIL ("error_code", "link: error %s (%s), expected %s", err_name (got), trap_msg, err_name (err));
      }
      if (!bad) {
        int same = n_res_calls == ncalls;
        for (int i = 0; same && i < ncalls; i++) same = res_calls[i] == calls[i];
        if (!same) {
          char b1[80] = "", b2[80] = "";
          for (int i = 0; i < n_res_calls && i < 16; i++) strcat (b1, res_calls[i] < NN ? nm[res_calls[i]] : "?");
          for (int i = 0; i < ncalls; i++) strcat (b2, nm[calls[i]]);
          FAIL ("resolver_calls", "resolver was asked for [%s], expected [%s]", b1, b2);
        }
      }
      if (got != 0 || bad) { abandon (); continue; }
      /* record the model's bindings, mark linked instances */
      for (int i = 0; i < n_inst; i++) inst[i].have_bound = 0;
      for (int i = 0; i < n_inst; i++) inst[i].linked = 1; /* a successful link drains the queue */
      for (int i = 0; i < nb; i++) {
        inst_t *in = find_inst (bs[i][0], bs[i][1]);
        int n = bs[i][2];
        if (in == NULL) { FAIL ("machinery", "binding of unknown instance"); break; }
        in->b_t[n] = bs[i][3]; in->b_s[n] = bs[i][4]; in->b_v[n] = bs[i][5]; in->b_k[n] = bs[i][6]; in->b_val[n] = bs[i][7];
        in->have_bound |= 1 << n;
      }
      trap_armed = 1;
      if (setjmp (trap_buf) == 0) {
        for (int i = 0; i < n_inst && !bad; i++) {
          inst_t *in = &inst[i];
          int want = 0;
          for (int k = 0; k < in->nrefs; k++) want |= 1 << in->refs[k];
          if (in->have_bound != want) { FAIL ("machinery", "model bindings of m%d_%d incomplete", in->s, in->v); break; }
          /* the public item field first, then what the code really uses */
          for (int k = 0; k < in->nrefs && !bad; k++) {
            int n = in->refs[k], is_func;
            int64_t val;
            void *exp = expected_addr (n, in->b_t[n], in->b_s[n], in->b_v[n], in->b_k[n], &val, &is_func);
            if (exp != NULL && in->ref[n]->addr != exp)
              FAIL ("item_addr", "item->addr of %s in m%d_%d is not the address of def t=%d s=%d v=%d", nm[n], in->s, in->v,
                    in->b_t[n], in->b_s[n], in->b_v[n]);
          }
          if (!bad) observe (in, in->entry, "binding", 1);
        }
      } else {
        FAIL ("run_error", "MIR error while running observers: %s", trap_msg);
      }
      trap_armed = 0;
      if (bad) abandon ();
    } else if (tag[0] == 'E') {
      int nf;
      if (scanf ("%d", &nf) != 1) return 3;
      for (int n = 0; n < NN; n++) fin_t[n] = -1;
      for (int i = 0; i < nf; i++) {
        int n, t, ds, dv, dk;
        if (scanf ("%d %d %d %d %d", &n, &t, &ds, &dv, &dk) != 5) return 3;
        fin_t[n] = t; fin_s[n] = ds; fin_v[n] = dv; fin_k[n] = dk;
      }
      if (!bad && ctx != NULL) {
        trap_armed = 1;
        if (setjmp (trap_buf) == 0) {
          for (int i = 0; i < n_inst && !bad; i++)
            if (inst[i].linked) observe (&inst[i], inst[i].late, "late_first_run", 0);
        } else {
          FAIL ("run_error", "MIR error while running late observers: %s", trap_msg);
        }
        trap_armed = 0;
      }
      end_case (!bad && ctx != NULL);
    }
  }
  alarm (0);
  printf ("DONE %ld %ld %ld\n", ncase, nsteps, nfail);
  return 0;
}
