/* C17: checking MIR_alloc_t / MIR_code_alloc_t pair that records every call as one ndjson event
   (see c17_ledger.c).  Used by harness/c17_drivers.c. */
#ifndef C17_LEDGER_H
#define C17_LEDGER_H
#include <stddef.h>
#include "mir-alloc.h"
/* mir-code-alloc.h redefines MAP_FAILED and declares PROT_WRITE_EXEC / PROT_READ_EXEC */
#include <sys/mman.h>
#define C17_SYS_MAP_FAILED ((void *) -1)
#undef MAP_FAILED
#include "mir-code-alloc.h"

void c17_open (const char *trace_path);   /* start logging to this file */
void c17_close (void);
MIR_alloc_t c17_alloc (void);
MIR_code_alloc_t c17_code_alloc (void);
void c17_start (const char *history);     /* {"e":"Start"}: MIR_init2 is about to be called */
void c17_api (const char *fname);         /* {"e":"Api"}: marker, an API call begins */
void c17_finish (void);                   /* {"e":"Finish"}: MIR_finish has returned */
void c17_reset (void);                    /* {"e":"Reset"}: forget everything, release the quarantine */
void c17_abort (const char *why);         /* {"e":"Abort"}: the history is not error-free; it is discarded */
void c17_note (const char *key, long v);  /* {"e":"Note"}: free-form measurement, ignored by the validation */
long c17_events (void);
long c17_straddling_protects (void); /* mem_protect requests (this execution) whose range covered > 1 page from a
                                          patch-sized request: the patched bytes crossed a page boundary */
#endif
