/* mirrun: generic executor used by C01/C02/C03/C04/C16/C20 replays.
   Reads a script on stdin, runs MIR text modules under a chosen engine, prints observations.

   M <nbytes>\n<bytes>      current MIR text (one or more modules)
   X <engine>               new context; scan text; load all modules and externals; link.
                            engine: interp | ishim | gen0..gen3 | lazy0..lazy3 | bb0..bb3
   C <func> <hexbuf>        call  i64 func (p buf)  on a private copy of buf.  Prints
                            R <ret:16 hex> <hexbuf after> L<n> {id:arg16hex}*
   G <func>                 MIR_gen the function explicitly, print  A <addr-changed 0/1>
   O <func>                 print  T <len>\n<MIR_output_item text>
   D                        finish context
   Every command is echoed first as "B <lineno>" so that a crash is attributable.
   Errors reported by MIR: "E <error type> <message>" and the context is dropped.
   externals: ext_i(i64 id, i64 v) -> logs (id,v), returns v + id
              ext_d(i64 id, d v)   -> logs (id,bits(v)), returns v
              ext_cb(i64 id, p f, i64 v) -> logs (id,v), calls f(v) (a MIR function address), returns its result */
#include <stdio.h>
#include <stdlib.h>
#include <string.h>
#include <stdint.h>
#include <setjmp.h>
#include <signal.h>
#include <unistd.h>
#include <stdarg.h>
#include <sys/mman.h>
#include "mir.h"
#include "mir-gen.h"

static MIR_context_t ctx;
static int gen_on;
static char *text;
static jmp_buf errjmp;
static long lineno;

#define MAXLOG 4096
static int64_t log_id[MAXLOG];
static uint64_t log_v[MAXLOG];
static int nlog;

static int64_t ext_i (int64_t id, int64_t v) {
  if (nlog < MAXLOG) { log_id[nlog] = id; log_v[nlog] = (uint64_t) v; }
  nlog++;
  return (int64_t) ((uint64_t) v + (uint64_t) id);
}
static double ext_d (int64_t id, double v) {
  uint64_t b;
  memcpy (&b, &v, 8);
  if (nlog < MAXLOG) { log_id[nlog] = id; log_v[nlog] = b; }
  nlog++;
  return v;
}
static int64_t ext_cb (int64_t id, int64_t (*f) (int64_t), int64_t v) {
  if (nlog < MAXLOG) { log_id[nlog] = id; log_v[nlog] = (uint64_t) v; }
  nlog++;
  return f (v);
}

static void MIR_NO_RETURN err_func (MIR_error_type_t t, const char *fmt, ...) {
  va_list ap;
  char msg[512];
  va_start (ap, fmt);
  vsnprintf (msg, sizeof (msg), fmt, ap);
  va_end (ap);
  for (char *p = msg; *p; p++) if (*p == '\n') *p = ' ';
  printf ("E %d %s\n", (int) t, msg);
  fflush (stdout);
  longjmp (errjmp, 1);
}

static void on_alarm (int sig) {
  const char m[] = "TIMEOUT\n";
  if (write (1, m, sizeof (m) - 1) < 0) {}
  _exit (3);
}

static MIR_item_t find_func (const char *name) {
  MIR_module_t m;
  MIR_item_t it, found = NULL;
  for (m = DLIST_HEAD (MIR_module_t, *MIR_get_module_list (ctx)); m != NULL; m = DLIST_NEXT (MIR_module_t, m))
    for (it = DLIST_HEAD (MIR_item_t, m->items); it != NULL; it = DLIST_NEXT (MIR_item_t, it))
      if (it->item_type == MIR_func_item && strcmp (it->u.func->name, name) == 0) found = it;
  return found;
}

static int hexval (int c) { return c <= '9' ? c - '0' : (c | 32) - 'a' + 10; }

static void drop_ctx (void) {
  if (ctx == NULL) return;
  if (gen_on) MIR_gen_finish (ctx);
  MIR_finish (ctx);
  ctx = NULL;
  gen_on = 0;
}

static char engine[32];

/* The buffer a MIR function is called on lives at a fixed address (0x10000000), so that programs of MIRProg.tla can
   address it with numbers: index-only and displacement-only memory operands.  */
#define ABS_BASE ((unsigned char *) 0x10000000)
#define ABS_SIZE (1 << 20)
static unsigned char *abs_buf (size_t n) {
  static int mapped = 0;
  if (!mapped) {
    void *p = mmap (ABS_BASE, ABS_SIZE, PROT_READ | PROT_WRITE, MAP_PRIVATE | MAP_ANONYMOUS | MAP_FIXED_NOREPLACE, -1, 0);
    if (p != (void *) ABS_BASE) { printf ("F cannot map the call buffer at %p\n", (void *) ABS_BASE); exit (2); }
    mapped = 1;
  }
  if (n > ABS_SIZE) { printf ("F call buffer too large\n"); exit (2); }
  return ABS_BASE;
}

int main (void) {
  static char line[1 << 16];
  signal (SIGALRM, on_alarm);
  setvbuf (stdout, NULL, _IOFBF, 1 << 16);
  while (fgets (line, sizeof (line), stdin) != NULL) {
    lineno++;
    printf ("B %ld\n", lineno);
    fflush (stdout);
    if (line[0] == 'M') {
      size_t n = strtoul (line + 2, NULL, 10);
      free (text);
      text = malloc (n + 1);
      if (fread (text, 1, n, stdin) != n) { printf ("F short module\n"); return 2; }
      text[n] = 0;
    } else if (line[0] == 'X') {
      MIR_module_t m;
      int level;
      sscanf (line + 2, "%31s", engine);
      drop_ctx ();
      if (setjmp (errjmp)) { ctx = NULL; gen_on = 0; continue; } /* context abandoned after an error */
      ctx = MIR_init ();
      MIR_set_error_func (ctx, err_func);
      alarm (120);
      MIR_scan_string (ctx, text);
      for (m = DLIST_HEAD (MIR_module_t, *MIR_get_module_list (ctx)); m != NULL; m = DLIST_NEXT (MIR_module_t, m))
        MIR_load_module (ctx, m);
      MIR_load_external (ctx, "ext_i", ext_i);
      MIR_load_external (ctx, "ext_d", ext_d);
      MIR_load_external (ctx, "ext_cb", ext_cb);
      level = engine[strlen (engine) - 1] - '0';
      if (strcmp (engine, "interp") == 0 || strcmp (engine, "ishim") == 0) {
        MIR_link (ctx, MIR_set_interp_interface, NULL);
      } else {
        MIR_gen_init (ctx);
        gen_on = 1;
        MIR_gen_set_optimize_level (ctx, level);
        if (getenv ("MIRRUN_DEBUG") != NULL) { /* development aid: generator dump on stderr */
          MIR_gen_set_debug_file (ctx, stderr);
          MIR_gen_set_debug_level (ctx, atoi (getenv ("MIRRUN_DEBUG")));
        }
        if (strncmp (engine, "gen", 3) == 0) MIR_link (ctx, MIR_set_gen_interface, NULL);
        else if (strncmp (engine, "lazy", 4) == 0) MIR_link (ctx, MIR_set_lazy_gen_interface, NULL);
        else if (strncmp (engine, "bb", 2) == 0) MIR_link (ctx, MIR_set_lazy_bb_gen_interface, NULL);
        else { printf ("F bad engine %s\n", engine); return 2; }
      }
      alarm (0);
      printf ("K\n");
    } else if (line[0] == 'C') {
      char fname[128];
      char *hex;
    call_cmd:;
      size_t n, i;
      unsigned char *buf;
      MIR_item_t f;
      int64_t ret;
      if (ctx == NULL) { printf ("N\n"); continue; }
      sscanf (line + 2, "%127s", fname);
      hex = strchr (line + 2, ' ');
      hex = hex == NULL ? "" : hex + 1;
      n = strlen (hex);
      while (n > 0 && (hex[n - 1] == '\n' || hex[n - 1] == ' ')) n--;
      n /= 2;
      buf = abs_buf (n + 64); /* the caller's buffer has a known address: MIRSem.tla AbsBaseNat */
      for (i = 0; i < n; i++) buf[i] = (unsigned char) (hexval (hex[2 * i]) * 16 + hexval (hex[2 * i + 1]));
      memset (buf + n, 0xEE, 64); /* guard */
      f = find_func (fname);
      if (f == NULL) { printf ("F no function %s\n", fname); return 2; }
      nlog = 0;
      if (setjmp (errjmp)) { ctx = NULL; gen_on = 0; continue; }
      alarm (getenv ("MIRRUN_CALL_TIMEOUT") != NULL ? atoi (getenv ("MIRRUN_CALL_TIMEOUT")) : 20);
      if (strcmp (engine, "interp") == 0) {
        MIR_val_t arg, res;
        arg.a = buf;
        res.i = 0;
        MIR_interp_arr (ctx, f, &res, 1, &arg);
        ret = res.i;
      } else {
        ret = ((int64_t (*) (void *)) f->addr) (buf);
      }
      alarm (0);
      printf ("R %016llx ", (unsigned long long) ret);
      for (i = 0; i < n; i++) printf ("%02x", buf[i]);
      for (i = 0; i < 64; i++) if (buf[n + i] != 0xEE) break;
      printf (" %s L%d", i == 64 ? "g" : "GUARD-OVERWRITTEN", nlog);
      for (i = 0; i < (size_t) nlog && i < MAXLOG; i++) printf (" %lld:%016llx", (long long) log_id[i], (unsigned long long) log_v[i]);
      printf ("\n");
    } else if (line[0] == 'G') {
      char fname[128];
      MIR_item_t f;
      void *a1, *a2;
      if (ctx == NULL) { printf ("N\n"); continue; }
      sscanf (line + 2, "%127s", fname);
      f = find_func (fname);
      if (f == NULL) { printf ("F no function %s\n", fname); return 2; }
      if (setjmp (errjmp)) { ctx = NULL; gen_on = 0; continue; }
      if (!gen_on) { MIR_gen_init (ctx); gen_on = 1; }
      a1 = MIR_gen (ctx, f);
      a2 = MIR_gen (ctx, f);
      printf ("A %d\n", a1 != a2);
    } else if (line[0] == 'O') {
      char fname[128], *obuf = NULL;
      size_t olen = 0;
      FILE *mf;
      MIR_item_t f;
      if (ctx == NULL) { printf ("N\n"); continue; }
      sscanf (line + 2, "%127s", fname);
      f = find_func (fname);
      if (f == NULL) { printf ("F no function %s\n", fname); return 2; }
      mf = open_memstream (&obuf, &olen);
      MIR_output_item (ctx, mf, f);
      fclose (mf);
      printf ("T %zu\n", olen);
      fwrite (obuf, 1, olen, stdout);
      printf ("\n");
      free (obuf);
    } else if (line[0] == 'I') { /* I : new context, scan current text, load every module, no link */
      MIR_module_t m;
      drop_ctx ();
      if (setjmp (errjmp)) { ctx = NULL; gen_on = 0; continue; }
      ctx = MIR_init ();
      MIR_set_error_func (ctx, err_func);
      MIR_scan_string (ctx, text);
      for (m = DLIST_HEAD (MIR_module_t, *MIR_get_module_list (ctx)); m != NULL; m = DLIST_NEXT (MIR_module_t, m))
        MIR_load_module (ctx, m);
      MIR_load_external (ctx, "ext_i", ext_i);
      MIR_load_external (ctx, "ext_d", ext_d);
      MIR_load_external (ctx, "ext_cb", ext_cb);
      strcpy (engine, "none");
      printf ("K\n");
    } else if (line[0] == 'S') { /* S : scan current text as ADDITIONAL modules into the live context and load them */
      MIR_module_t m, last;
      if (ctx == NULL) { printf ("N\n"); continue; }
      if (setjmp (errjmp)) { ctx = NULL; gen_on = 0; continue; }
      last = DLIST_TAIL (MIR_module_t, *MIR_get_module_list (ctx));
      MIR_scan_string (ctx, text);
      for (m = last == NULL ? DLIST_HEAD (MIR_module_t, *MIR_get_module_list (ctx)) : DLIST_NEXT (MIR_module_t, last);
           m != NULL; m = DLIST_NEXT (MIR_module_t, m))
        MIR_load_module (ctx, m);
      printf ("K\n");
    } else if (line[0] == 'J') { /* J <iface> [level] : MIR_link with interp|gen|lazy|bb interface */
      char iface[32];
      int level = 2;
      if (ctx == NULL) { printf ("N\n"); continue; }
      sscanf (line + 2, "%31s %d", iface, &level);
      if (setjmp (errjmp)) { ctx = NULL; gen_on = 0; continue; }
      alarm (120);
      if (strcmp (iface, "interp") != 0 && !gen_on) {
        MIR_gen_init (ctx);
        gen_on = 1;
        MIR_gen_set_optimize_level (ctx, level);
      }
      if (strcmp (iface, "interp") == 0) MIR_link (ctx, MIR_set_interp_interface, NULL);
      else if (strcmp (iface, "gen") == 0) MIR_link (ctx, MIR_set_gen_interface, NULL);
      else if (strcmp (iface, "lazy") == 0) MIR_link (ctx, MIR_set_lazy_gen_interface, NULL);
      else if (strcmp (iface, "bb") == 0) MIR_link (ctx, MIR_set_lazy_bb_gen_interface, NULL);
      else { printf ("F bad iface %s\n", iface); return 2; }
      alarm (0);
      strcpy (engine, "addr");
      printf ("K\n");
    } else if (line[0] == 'g') { /* g <func> [level] : explicit MIR_gen; prints P <entry address> <public addr> */
      char fname[128];
      int level = 2;
      MIR_item_t f;
      void *a;
      if (ctx == NULL) { printf ("N\n"); continue; }
      sscanf (line + 2, "%127s %d", fname, &level);
      f = find_func (fname);
      if (f == NULL) { printf ("F no function %s\n", fname); return 2; }
      if (setjmp (errjmp)) { ctx = NULL; gen_on = 0; continue; }
      if (!gen_on) { MIR_gen_init (ctx); gen_on = 1; MIR_gen_set_optimize_level (ctx, level); }
      alarm (60);
      a = MIR_gen (ctx, f);
      alarm (0);
      printf ("P %p %p\n", a, f->addr);
    } else if (line[0] == 'a') { /* a <func> : prints P <public address (item->addr)> */
      char fname[128];
      MIR_item_t f;
      if (ctx == NULL) { printf ("N\n"); continue; }
      sscanf (line + 2, "%127s", fname);
      f = find_func (fname);
      if (f == NULL) { printf ("F no function %s\n", fname); return 2; }
      printf ("P %p\n", f->addr);
    } else if (line[0] == 'c' && (line[1] == 'i' || line[1] == 'a')) { /* ci|ca <func> <hexbuf> : call through MIR_interp / through item->addr */
      char save[32];
      strcpy (save, engine);
      strcpy (engine, line[1] == 'i' ? "interp" : "addr");
      memmove (line + 1, line + 2, strlen (line + 2) + 1);
      line[0] = 'C';
      goto call_cmd;
    } else if (line[0] == 'D') {
      drop_ctx ();
      printf ("K\n");
    }
    fflush (stdout);
  }
  drop_ctx ();
  printf ("Z\n");
  return 0;
}
