/* C14 binding: builds every item sequence emitted by spec/MIRData.tla through the MIR API, loads and
   links it, and compares what the code laid out with the model's layout and contents:
     - the section head is the start of one block obtained from the user's MIR_alloc_t during
       MIR_load_module and the size requested for it is >= the section size of the model,
     - item->addr - head->addr = offset of the model, section_head_p as in the model,
     - every byte of every data/expr item, zeros for bss (the allocator fills fresh blocks with 0xA5),
     - ref items hold Addr(target) + disp where Addr(item j) is taken from the model's layout
       (address of the head of j's section + offset of j), Addr(import/function) from item->addr,
     - lref items hold A(l1) + disp, or A(l1) - A(l2) + disp, once the function of the labels has been
       prepared (interpreted once / generated).  Under interp, gen and lazy gen a label has one address:
       A(l) is what `laddr` gives inside the function (it stores laddr L1..L3 into a buffer when run) and
       the harness adds NO lref item of its own, so whether the module's lrefs get linked depends on the
       sequence alone.  Under lazy bb gen a label has one address per block version, so there A(l) is
       what a one-label reference holds: la1..la3, anonymous members of a section headed by `lah: u8 0`
       after the sequence (only for that engine).
     - every named data-like item is exported (`export d<i>` after the sequence); a second module m2, loaded
       after the module under test, imports each and holds `ref d<i>, 3`: it must be Addr(item i) + 3.
       The module loaded before (m0) exports `modd` as a section of three items for the same reason.
   Form 1 (text): the module under test arrives as MIR text and is read by MIR_scan_string; the sequence
   items are the <nitems> items before the epilogue items (the exports; lah, la1..la3 under lazy bb gen).
   Runs under ASan: writes outside the requested block are reported by the sanitizer.

   Input (stdin): C <case> <engine> <nitems> <form> (engine 0 interp, 1 gen, 2 lazy gen, 3 lazy bb gen), then per item
     I <kind> <named> <type> <n> <disp> <l1> <l2> <sec> <off> <len> <secsize|-1> <tkind> <tidx> <via> <edisp> <xp> <nbytes> {byte}* <ninit> {byte}*
       (bytes: expected contents of data/expr; init: the bytes the item is declared with / the expression returns)
   kind 0 data 1 bss 2 ref 3 lref 4 expr 5 proto 6 string (init = str.s, ninit = str.len); type index in MIR_T_I8..MIR_T_P order;
   tkind 0 item 1 ext 2 mod 3 func (ref only); via (ref to a named item): 0 the definition / `forward x`,
   1 `forward x` then `export x` (through the forward), 2 `export x` (through the export), 3 `export x` then `forward x`; disp is declared, edisp is the displacement the model expects;
   for form 1 a line  T <hex of the module text>;  then E.
   Output: P <case> before every case, FAIL <case> <item> <key> <text>, final DONE <cases> <items> <fails>. */
#include <stdio.h>
#include <stdlib.h>
#include <string.h>
#include <stdarg.h>
#include <setjmp.h>
#include <stdint.h>
#include <unistd.h>
#include "mir.h"
#include "mir-gen.h"

/* ---------------- recording allocator ------------------------------------------------------------- */
#define MAX_REC 4096
static struct { void *p; size_t size; } rec[MAX_REC];
static int n_rec, recording, rec_overflow;
static void *r_malloc (size_t n, void *u) {
  void *p = malloc (n); /* exact size: ASan guards the real bounds; malloc (0) is a valid unique block */
  if (p == NULL) abort ();
  memset (p, 0xA5, n);
  if (recording) {
    if (n_rec < MAX_REC) { rec[n_rec].p = p; rec[n_rec].size = n; n_rec++; } else rec_overflow = 1;
  }
  return p;
}
static void *r_calloc (size_t a, size_t s, void *u) { void *p = r_malloc (a * s, u); memset (p, 0, a * s); return p; }
static void r_free (void *p, void *u) {
  if (p == NULL) return;
  for (int i = 0; i < n_rec; i++) if (rec[i].p == p) { rec[i] = rec[--n_rec]; break; }
  free (p);
}
static void *r_realloc (void *p, size_t old, size_t n, void *u) {
  void *q;
  if (p == NULL) return r_malloc (n, u);
  q = r_malloc (n, u);
  memcpy (q, p, old < n ? old : n);
  r_free (p, u);
  return q;
}
static struct MIR_alloc r_alloc = {r_malloc, r_calloc, r_realloc, r_free, NULL};

/* ---------------- sanitizer reports (ASAN_OPTIONS=halt_on_error=0: errors found by the memset/memmove interceptors do not stop the run) ---- */
static int asan_hits;
static char asan_first[160];
void __asan_set_error_report_callback (void (*cb) (const char *));
static void asan_cb (const char *report) {
  if (asan_hits++ == 0) {
    const char *e = strstr (report, "ERROR: AddressSanitizer");
    snprintf (asan_first, sizeof (asan_first), "%s", e ? e + 7 : report);
    for (char *q = asan_first; *q; q++) if (*q == '\n') { *q = 0; break; }
  }
}

/* ---------------- error trap ------------------------------------------------------------------------ */
static jmp_buf trap_buf;
static int trap_armed;
static char trap_msg[200];
static void MIR_NO_RETURN trap (MIR_error_type_t t, const char *fmt, ...) {
  va_list ap;
  va_start (ap, fmt); vsnprintf (trap_msg, sizeof (trap_msg), fmt, ap); va_end (ap);
  if (!trap_armed) { fprintf (stderr, "MIR error outside a guarded call: %s\n", trap_msg); abort (); }
  longjmp (trap_buf, 1);
}

/* ---------------- one case ---------------------------------------------------------------------------- */
#define MAXI 8
#define NLA 4 /* lah, la1, la2, la3 (engine 3 only) */
#define MAXB 300
typedef struct {
  int kind, named, type, n, disp, l1, l2, sec, off, len, secsize, tkind, tidx, via, edisp, xp, nbytes;
  unsigned char bytes[MAXB], init[MAXB];
  int ninit;
  MIR_item_t item;
} it_t;
static it_t it[MAXI + 1];
static int nitems, engine;
static long caseno, ncase, nitem_total, nfail;
static int bad;
static MIR_type_t types[12] = {MIR_T_I8, MIR_T_U8, MIR_T_I16, MIR_T_U16, MIR_T_I32, MIR_T_U32,
                               MIR_T_I64, MIR_T_U64, MIR_T_F, MIR_T_D, MIR_T_LD, MIR_T_P};
static const char *tname[12] = {"i8", "u8", "i16", "u16", "i32", "u32", "i64", "u64", "f", "d", "ld", "p"};
static const char *kname[7] = {"data", "bss", "ref", "lref", "expr", "proto", "string"};
static int form;
static char *text; /* form 1: the module as MIR text */
static int64_t ext_buf[4];

#define FAIL(i, key, ...) do { printf ("FAIL %ld %d %s ", caseno, i, key); printf (__VA_ARGS__); printf ("\n"); nfail++; bad = 1; } while (0)

static void describe (char *buf) { /* the sequence in MIR-like text, for messages */
  buf[0] = 0;
  for (int i = 1; i <= nitems; i++) {
    char b[64];
    it_t *x = &it[i];
    switch (x->kind) {
    case 0: sprintf (b, "%s%s[%d]", x->named ? "N:" : "", tname[x->type], x->n); break;
    case 1: sprintf (b, "%sbss %d", x->named ? "N:" : "", x->n); break;
    case 2: sprintf (b, "%sref", x->named ? "N:" : ""); break;
    case 3: sprintf (b, "%slref", x->named ? "N:" : ""); break;
    case 4: sprintf (b, "%sexpr %s", x->named ? "N:" : "", tname[x->type]); break;
    case 6: sprintf (b, "%sstring#%d(%d)", x->named ? "N:" : "", x->n, x->ninit); break;
    default: sprintf (b, "proto"); break;
    }
    if (i > 1) strcat (buf, "; ");
    strcat (buf, b);
  }
}

static MIR_item_t expr_func (MIR_context_t ctx, int type, const unsigned char *b, int nb) {
  char name[16];
  MIR_type_t rt = types[type];
  MIR_item_t f;
  MIR_op_t op;
  sprintf (name, "e_%s", tname[type]);
  f = MIR_new_func (ctx, name, 1, &rt, 0);
  if (type == 8) { float v; memcpy (&v, b, 4); op = MIR_new_float_op (ctx, v); }
  else if (type == 9) { double v; memcpy (&v, b, 8); op = MIR_new_double_op (ctx, v); }
  else if (type == 10) { long double v = 0; memcpy (&v, b, nb < 16 ? nb : 16); op = MIR_new_ldouble_op (ctx, v); }
  else { /* little-endian, sign-extended: the value fits the result type */
    uint64_t u = 0;
    for (int i = 0; i < nb; i++) u |= (uint64_t) b[i] << (8 * i);
    if (nb < 8 && (b[nb - 1] & 0x80) && (type % 2 == 0)) u |= ~(uint64_t) 0 << (8 * nb);
    op = MIR_new_int_op (ctx, (int64_t) u);
  }
  MIR_append_insn (ctx, f, MIR_new_ret_insn (ctx, 1, op));
  MIR_finish_func (ctx);
  return f;
}

static void run_case (void) {
  MIR_context_t ctx = MIR_init2 (&r_alloc, NULL);
  MIR_module_t m0, m, m2;
  MIR_item_t xr[MAXI + 2];
  int nexp, nepi;
  MIR_item_t modd, imp_ext, imp_mod, lf, fw[MAXI + 2], ex[MAXI + 2], via_item[MAXI + 2], efunc[12], la[4] = {NULL, NULL, NULL, NULL};
  MIR_label_t L[4];
  MIR_type_t i64 = MIR_T_I64;
  MIR_reg_t a, out, r, t;
  char name[16], seq[512];
  int64_t AL[4] = {0, 0, 0, 0}; /* AL[i-1] = A(L_i) */
  volatile int phase = 0;

  MIR_set_error_func (ctx, trap);
  n_rec = 0; rec_overflow = 0; recording = 0;
  trap_armed = 1;
  if (setjmp (trap_buf) != 0) {
    trap_armed = 0; recording = 0;
    FAIL (0, "mir_error", "unexpected MIR error in phase %d: %s", phase, trap_msg);
    return; /* the context is abandoned */
  }
  if (engine >= 1) MIR_gen_init (ctx);
  MIR_load_external (ctx, "ext1", ext_buf);
  /* a module loaded before, exporting the data section `modd` */
  m0 = MIR_new_module (ctx, "m0");
  { int64_t v1 = 1, v2 = 2; int8_t v3 = 3; /* a section: the export is its start */
    modd = MIR_new_data (ctx, "modd", MIR_T_I64, 1, &v1);
    MIR_new_data (ctx, NULL, MIR_T_I64, 1, &v2);
    MIR_new_data (ctx, NULL, MIR_T_I8, 1, &v3);
  }
  MIR_new_export (ctx, "modd");
  MIR_finish_module (ctx);
  MIR_load_module (ctx, m0);
  phase = 1;
  /* the module under test: prologue (imports, forwards, functions), then the sequence */
  nexp = 0;
  for (int i = 1; i <= nitems; i++)
    if (it[i].xp) { /* an export declared at the start of the module (ref via export) is merged with the one at the end */
      int early = 0;
      for (int j = 1; j <= nitems; j++) early |= it[j].kind == 2 && it[j].tkind == 0 && it[j].tidx == i && it[j].via != 0;
      nexp += !early;
    }
  nepi = nexp + (engine == 3 ? NLA : 0);
  if (form == 1) {
    int k = 0, total = 0;
    MIR_item_t item;
    MIR_scan_string (ctx, text);
    m = DLIST_TAIL (MIR_module_t, *MIR_get_module_list (ctx));
    lf = NULL;
    for (item = DLIST_HEAD (MIR_item_t, m->items); item != NULL; item = DLIST_NEXT (MIR_item_t, item)) {
      total++;
      if (item->item_type == MIR_func_item && strcmp (item->u.func->name, "lf") == 0) lf = item;
    }
    for (item = DLIST_HEAD (MIR_item_t, m->items); item != NULL; item = DLIST_NEXT (MIR_item_t, item)) {
      k++;
      if (k > total - nitems - nepi && k <= total - nepi) it[k - (total - nitems - nepi)].item = item;
      else if (engine == 3 && k > total - NLA + 1) la[k - (total - NLA + 1)] = item;
    }
    if (lf == NULL || total < nitems + nepi) { trap_armed = 0; FAIL (0, "machinery", "scanned module has %d items, no lf", total); return; }
  } else {
  m = MIR_new_module (ctx, "m");
  imp_ext = MIR_new_import (ctx, "ext1");
  imp_mod = MIR_new_import (ctx, "modd");
  memset (fw, 0, sizeof (fw)); memset (efunc, 0, sizeof (efunc)); memset (via_item, 0, sizeof (via_item));
  memset (ex, 0, sizeof (ex));
  for (int i = 1; i <= nitems; i++) /* declarations of ref targets, in the order the refs appear; repeated ones merge */
    if (it[i].kind == 2 && it[i].tkind == 0 && (it[i].tidx > i || it[i].via != 0)) {
      int j = it[i].tidx;
      MIR_item_t f1 = NULL, e1 = NULL;
      sprintf (name, "d%d", j);
      switch (it[i].via) {
      case 0: f1 = MIR_new_forward (ctx, name); break;
      case 1: f1 = MIR_new_forward (ctx, name); e1 = MIR_new_export (ctx, name); break;
      case 2: e1 = MIR_new_export (ctx, name); break;
      default: e1 = MIR_new_export (ctx, name); f1 = MIR_new_forward (ctx, name); break;
      }
      if (f1 != NULL && f1->item_type == MIR_forward_item) fw[j] = f1;
      if (e1 != NULL && e1->item_type == MIR_export_item) ex[j] = e1;
      via_item[i] = it[i].via == 2 ? e1 : f1;
    }
  lf = MIR_new_func (ctx, "lf", 1, &i64, 2, MIR_T_I64, "a", MIR_T_I64, "out");
  a = MIR_reg (ctx, "a", lf->u.func);
  out = MIR_reg (ctx, "out", lf->u.func);
  r = MIR_new_func_reg (ctx, lf->u.func, MIR_T_I64, "r");
  t = MIR_new_func_reg (ctx, lf->u.func, MIR_T_I64, "t");
  for (int i = 1; i <= 3; i++) L[i] = MIR_new_label (ctx);
  MIR_append_insn (ctx, lf, MIR_new_insn (ctx, MIR_MOV, MIR_new_reg_op (ctx, r), MIR_new_reg_op (ctx, a)));
  MIR_append_insn (ctx, lf, MIR_new_insn (ctx, MIR_BT, MIR_new_label_op (ctx, L[2]), MIR_new_reg_op (ctx, r)));
  for (int i = 1; i <= 3; i++) {
    MIR_append_insn (ctx, lf, L[i]);
    MIR_append_insn (ctx, lf, MIR_new_insn (ctx, MIR_ADD, MIR_new_reg_op (ctx, r), MIR_new_reg_op (ctx, r), MIR_new_int_op (ctx, i)));
  }
  for (int i = 1; i <= 3; i++) { /* A(L_i): what laddr gives in this function under this engine */
    MIR_append_insn (ctx, lf, MIR_new_insn (ctx, MIR_LADDR, MIR_new_reg_op (ctx, t), MIR_new_label_op (ctx, L[i])));
    MIR_append_insn (ctx, lf, MIR_new_insn (ctx, MIR_MOV, MIR_new_mem_op (ctx, MIR_T_I64, 8 * (i - 1), out, 0, 1), MIR_new_reg_op (ctx, t)));
  }
  MIR_append_insn (ctx, lf, MIR_new_ret_insn (ctx, 1, MIR_new_reg_op (ctx, r)));
  MIR_finish_func (ctx);
  for (int i = 1; i <= nitems; i++)
    if (it[i].kind == 4 && efunc[it[i].type] == NULL) efunc[it[i].type] = expr_func (ctx, it[i].type, it[i].init, it[i].ninit);
  phase = 2;
  for (int i = 1; i <= nitems; i++) {
    it_t *x = &it[i];
    const char *nmp = NULL;
    MIR_item_t tg;
    if (x->named) { sprintf (name, x->kind == 5 ? "pr%d" : "d%d", i); nmp = name; }
    switch (x->kind) {
    case 0: x->item = MIR_new_data (ctx, nmp, types[x->type], x->n, x->init); break;
    case 1: x->item = MIR_new_bss (ctx, nmp, x->n); break;
    case 2:
      tg = x->tkind == 1 ? imp_ext : x->tkind == 2 ? imp_mod : x->tkind == 3 ? lf : (x->tidx < i && x->via == 0) ? it[x->tidx].item : via_item[i];
      x->item = MIR_new_ref_data (ctx, nmp, tg, x->disp);
      break;
    case 3: x->item = MIR_new_lref_data (ctx, nmp, L[x->l1], x->l2 ? L[x->l2] : NULL, x->disp); break;
    case 4: x->item = MIR_new_expr_data (ctx, nmp, efunc[x->type]); break;
    case 6: x->item = MIR_new_string_data (ctx, nmp, (MIR_str_t){(size_t) x->ninit, (const char *) x->init}); break;
    default: x->item = MIR_new_proto (ctx, nmp, 0, NULL, 0); break;
    }
  }
  for (int i = 1; i <= nitems; i++)
    if (it[i].xp) { sprintf (name, "d%d", i); MIR_new_export (ctx, name); }
  if (engine == 3) {
    unsigned char z = 0;
    MIR_new_data (ctx, "lah", MIR_T_U8, 1, &z);
    for (int i = 1; i <= 3; i++) la[i] = MIR_new_lref_data (ctx, NULL, L[i], NULL, 0);
  }
  MIR_finish_module (ctx);
  }
  /* the module loaded afterwards: sees every exported item through an import */
  m2 = MIR_new_module (ctx, "m2");
  memset (xr, 0, sizeof (xr));
  for (int i = 1; i <= nitems; i++)
    if (it[i].xp) {
      MIR_item_t imp;
      sprintf (name, "d%d", i);
      imp = MIR_new_import (ctx, name);
      sprintf (name, "x%d", i);
      xr[i] = MIR_new_ref_data (ctx, name, imp, 3);
    }
  MIR_finish_module (ctx);
  phase = 3;
  recording = 1;
  MIR_load_module (ctx, m);
  recording = 0;
  MIR_load_module (ctx, m2);
  phase = 4;
  MIR_link (ctx, engine == 0 ? MIR_set_interp_interface : engine == 1 ? MIR_set_gen_interface : engine == 2 ? MIR_set_lazy_gen_interface : MIR_set_lazy_bb_gen_interface, NULL);
  phase = 5;
  if (engine == 0) { /* prepare the function of the labels: interpret it once */
    MIR_val_t res, args[2];
    args[0].i = 0; args[1].i = (int64_t) AL;
    MIR_interp_arr (ctx, lf, &res, 2, args);
    if (res.i != 6) FAIL (0, "machinery", "lf returned %ld", (long) res.i);
  } else {
    int64_t v = ((int64_t (*) (int64_t, int64_t *)) lf->addr) (0, AL);
    if (v != 6) FAIL (0, "machinery", "generated lf returned %ld", (long) v);
  }
  phase = 6;
  describe (seq);
  if (rec_overflow) FAIL (0, "machinery", "allocation record overflow");
  for (int i = 1; i <= nitems && !bad; i++) {
    it_t *x = &it[i], *h;
    unsigned char *A, *p;
    if (x->kind == 5) continue;
    h = &it[x->sec];
    A = h->item->addr; p = x->item->addr;
    if (A == NULL || p == NULL) { FAIL (i, "not_loaded", "item has no address [%s]", seq); break; }
    if (i == x->sec) {
      int k;
      for (k = 0; k < n_rec; k++) if (rec[k].p == (void *) A) break;
      if (k == n_rec) { FAIL (i, "head_not_a_block", "section head %d is not the start of a block allocated during load [%s]", i, seq); break; }
      if (rec[k].size < (size_t) x->secsize) {
        FAIL (i, "section_alloc_too_small", "section of %d bytes was allocated with %lu bytes [%s]", x->secsize, (unsigned long) rec[k].size, seq);
        break;
      }
    }
    if (p != A + x->off) {
      FAIL (i, "offset", "%s item %d is at head%+ld, expected head+%d [%s]", kname[x->kind], i, (long) (p - A), x->off, seq);
      break;
    }
    if ((x->item->section_head_p != 0) != (i == x->sec)) {
      FAIL (i, "section_head_p", "section_head_p of item %d is %d [%s]", i, x->item->section_head_p, seq);
      break;
    }
    switch (x->kind) {
    case 0:
    case 4:
    case 6:
      for (int j = 0; j < x->nbytes; j++)
        if (p[j] != x->bytes[j]) {
          FAIL (i, x->kind == 0 ? "data_bytes" : x->kind == 6 ? "string_bytes" : "expr_value", "%s item %d byte %d is 0x%02x expected 0x%02x [%s]", kname[x->kind], i, j, p[j], x->bytes[j], seq);
          break;
        }
      break;
    case 1:
      for (int j = 0; j < x->len; j++)
        if (p[j] != 0) { FAIL (i, "bss_nonzero", "bss item %d byte %d is 0x%02x [%s]", i, j, p[j], seq); break; }
      break;
    case 2: {
      unsigned char *t, *got;
      if (x->tkind == 0) t = (unsigned char *) it[it[x->tidx].sec].item->addr + it[x->tidx].off;
      else t = x->tkind == 1 ? (unsigned char *) ext_buf : x->tkind == 2 ? (unsigned char *) modd->addr : (unsigned char *) lf->addr;
      memcpy (&got, p, 8);
      if (got != t + x->edisp)
        FAIL (i, "ref_value", "ref item %d holds target%+ld, expected target%+d (target kind %d index %d) [%s]", i, (long) (got - t), x->edisp, x->tkind, x->tidx, seq);
      break;
    }
    case 3: {
      int64_t got, A1, A2 = 0, want;
      memcpy (&got, p, 8);
      if (engine == 3) {
        memcpy (&A1, la[x->l1]->addr, 8);
        if (x->l2) memcpy (&A2, la[x->l2]->addr, 8);
      } else {
        A1 = AL[x->l1 - 1];
        if (x->l2) A2 = AL[x->l2 - 1];
      }
      want = A1 - A2 + x->edisp;
      if (got == (int64_t) 0xA5A5A5A5A5A5A5A5ull) /* still the allocator's fill pattern: nothing ever wrote the item */
        FAIL (i, "lref_not_filled", "lref item %d (L%d, L%d, disp %d) was never filled after its function had been prepared [%s]", i, x->l1, x->l2, x->disp, seq);
      else if (got != want)
        FAIL (i, x->l2 ? "lref_diff" : "lref_addr", "lref item %d (L%d, L%d, disp %d) holds %ld, but A(L%d)%s%+d = %ld with A(L%d) = %ld [%s]", i, x->l1,
              x->l2, x->disp, (long) got, x->l1, x->l2 ? " - A(l2)" : "", x->disp, (long) want, x->l1, (long) A1, seq);
      break;
    }
    }
  }
  for (int i = 1; i <= nitems && !bad; i++)
    if (it[i].xp) { /* what another module sees of the exported item */
      unsigned char *t = (unsigned char *) it[it[i].sec].item->addr + it[i].off, *got;
      memcpy (&got, xr[i]->addr, 8);
      if (got != t + 3)
        FAIL (i, "import_of_export", "`ref d%d, 3` in a module loaded afterwards holds item%+ld, expected item+3 [%s]", i, (long) (got - t), seq);
    }
  trap_armed = 1;
  if (engine >= 1) MIR_gen_finish (ctx);
  MIR_finish (ctx);
  trap_armed = 0;
}

int main (void) {
  char tag[8];
  __asan_set_error_report_callback (asan_cb);
  while (scanf ("%7s", tag) == 1) {
    if (tag[0] == 'C') {
      if (scanf ("%ld %d %d %d", &caseno, &engine, &nitems, &form) != 4 || nitems > MAXI) return 3;
      for (int i = 1; i <= nitems; i++) {
        it_t *x = &it[i];
        if (scanf ("%7s", tag) != 1 || tag[0] != 'I') return 3;
        if (scanf ("%d %d %d %d %d %d %d %d %d %d %d %d %d %d %d %d %d", &x->kind, &x->named, &x->type, &x->n, &x->disp, &x->l1, &x->l2, &x->sec,
                   &x->off, &x->len, &x->secsize, &x->tkind, &x->tidx, &x->via, &x->edisp, &x->xp, &x->nbytes) != 17 || x->nbytes > MAXB) return 3;
        for (int j = 0; j < x->nbytes; j++) { int b; if (scanf ("%d", &b) != 1) return 3; x->bytes[j] = (unsigned char) b; }
        if (scanf ("%d", &x->ninit) != 1 || x->ninit > MAXB) return 3;
        for (int j = 0; j < x->ninit; j++) { int b; if (scanf ("%d", &b) != 1) return 3; x->init[j] = (unsigned char) b; }
        x->item = NULL;
      }
      if (form == 1) {
        static char hex[1 << 16], txt[1 << 15];
        size_t n;
        if (scanf ("%7s %65535s", tag, hex) != 2 || tag[0] != 'T') return 3;
        n = strlen (hex) / 2;
        for (size_t j = 0; j < n; j++) { unsigned v; sscanf (hex + 2 * j, "%2x", &v); txt[j] = (char) v; }
        txt[n] = 0; text = txt;
      }
      if (scanf ("%7s", tag) != 1 || tag[0] != 'E') return 3;
      ncase++; nitem_total += nitems; bad = 0; asan_hits = 0;
      printf ("P %ld\n", caseno); fflush (stdout); /* progress: a crash or a hang is attributed to the last case started */
      alarm (20);
      run_case ();
      if (asan_hits) { char seq[512]; describe (seq); FAIL (0, "asan", "%d sanitizer report(s), first: %s [%s]", asan_hits, asan_first, seq); }
      fflush (stdout);
    }
  }
  alarm (0);
  printf ("DONE %ld %ld %ld\n", ncase, nitem_total, nfail);
  return 0;
}
