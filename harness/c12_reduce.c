/* C12 binding: drives the real reduce_encode / reduce_decode of mir-reduce.h (ASan/UBSan build).
   Small-window builds pass -DMIR_VERIF_REDUCE_BUF_LEN=.. etc. (hook H1); the first output line reports the
   constants actually in effect so the driver can tell whether the hook is present in the tree under test.

   Input (stdin), one case per line, numbers in decimal:
     D <id> <exp> <n> <item>*n <nd> <byte>*nd <nh> <byte>*nh <t0..t7>
         decode case from the model.  items 0..255 are bytes; 256+i+8*x is byte i of the check hash of the
         nh hash-basis bytes (nh=-1: of the data), xor x.  exp=0: the decoder must report failure.  exp=1: it
         must report success iff the 8 trailer items t0..t7 (concretised) equal the hash of the data, and then
         deliver exactly the data.
         Every case is run with two fill patterns of the freshly allocated decoder state.
     R <id> <n> <byte>*n
         round trip: encode, check trailer, decode, compare; prints the encoding for the spec-side parser.
     X <id> <n> <byte>*n
         decode a stream produced elsewhere (MIR_write); prints ok flag and the decoded bytes.
     M <id> <stride> <n> <byte>*n
         encode, then decode every truncation, every single-byte substitution (6 values) and two one-byte
         extensions at every stride-th position (all positions if stride=1, always the first/last 64);
         prints every mutation that was accepted.
   Cases are executed in forked children (chunks); a chunk whose child dies is re-run case by case and the
   sanitizer report of the dying case is summarised in a CRASH line. */
#include <stdio.h>
#include <stdlib.h>
#include <string.h>
#include <stdint.h>
#include <unistd.h>
#include <fcntl.h>
#include <sys/wait.h>
#include "mir-alloc.h"
#include "mir-reduce.h"

static unsigned char fill_byte;
static void *f_malloc (size_t n, void *u) { void *p = malloc (n); if (p != NULL) memset (p, fill_byte, n); return p; }
static void *f_calloc (size_t a, size_t b, void *u) { return calloc (a, b); }
static void *f_realloc (void *p, size_t o, size_t n, void *u) { return realloc (p, n); }
static void f_free (void *p, void *u) { free (p); }
static struct MIR_alloc f_alloc = {f_malloc, f_calloc, f_realloc, f_free, NULL};

typedef struct { uint8_t *p; size_t len, cap; } bytes_t;
static void b_push (bytes_t *b, const void *s, size_t n) {
  if (b->len + n > b->cap) { b->cap = (b->len + n) * 2 + 64; b->p = realloc (b->p, b->cap); }
  memcpy (b->p + b->len, s, n); b->len += n;
}
static const uint8_t *rd_p; static size_t rd_len, rd_pos;
static bytes_t wr_b;
static size_t rd_f (void *s, size_t len, void *a) {
  size_t n = len < rd_len - rd_pos ? len : rd_len - rd_pos;
  memcpy (s, rd_p + rd_pos, n); rd_pos += n; return n;
}
static size_t wr_f (const void *s, size_t len, void *a) { b_push (&wr_b, s, len); return len; }

static int do_decode (const uint8_t *s, size_t n, int fill) {
  fill_byte = (unsigned char) fill; rd_p = s; rd_len = n; rd_pos = 0; wr_b.len = 0;
  return reduce_decode (&f_alloc, rd_f, wr_f, NULL) ? 1 : 0;
}
static int do_encode (const uint8_t *s, size_t n, bytes_t *out) {
  int ok; bytes_t save = wr_b;
  fill_byte = 0xA5; rd_p = s; rd_len = n; rd_pos = 0; wr_b = *out; wr_b.len = 0;
  ok = reduce_encode (&f_alloc, rd_f, wr_f, NULL);
  *out = wr_b; wr_b = save;
  return ok ? 1 : 0;
}
static uint64_t chain_hash (const uint8_t *d, size_t n) {
  uint64_t h = _REDUCE_CHECK_HASH_SEED;
  for (size_t off = 0; off < n; off += _REDUCE_BUF_LEN)
    h = mir_hash_strict (d + off, n - off < _REDUCE_BUF_LEN ? n - off : _REDUCE_BUF_LEN, h);
  return h;
}

static char *res; static size_t res_len, res_cap;     /* result text of the current child */
static void outf (const char *fmt, ...) __attribute__ ((format (printf, 1, 2)));
#include <stdarg.h>
static void outf (const char *fmt, ...) {
  va_list ap; int n;
  if (res_cap - res_len < 4096) { res_cap = res_cap * 2 + 8192; res = realloc (res, res_cap); }
  va_start (ap, fmt); n = vsnprintf (res + res_len, res_cap - res_len, fmt, ap); va_end (ap);
  if ((size_t) n >= res_cap - res_len) {
    res_cap += n + 4096; res = realloc (res, res_cap);
    va_start (ap, fmt); n = vsnprintf (res + res_len, res_cap - res_len, fmt, ap); va_end (ap);
  }
  res_len += n;
}
static void out_hex (const uint8_t *p, size_t n) {
  static const char *hx = "0123456789abcdef";
  if (res_cap - res_len < 2 * n + 16) { res_cap = res_cap + 2 * n + 8192; res = realloc (res, res_cap); }
  for (size_t i = 0; i < n; i++) { res[res_len++] = hx[p[i] >> 4]; res[res_len++] = hx[p[i] & 15]; }
}

static long next_num (char **pp) { return strtol (*pp, pp, 10); }

static void case_D (char *p) {
  long id = next_num (&p), exp = next_num (&p), n = next_num (&p), nd, nh, i;
  long *items = malloc (sizeof (long) * (n + 1)), trl[8];
  uint8_t *data, *hd, *s = malloc (n + 1), hb[8], hr[8];
  uint64_t h;
  int want;
  for (i = 0; i < n; i++) items[i] = next_num (&p);
  nd = next_num (&p); data = malloc (nd + 1);
  for (i = 0; i < nd; i++) data[i] = (uint8_t) next_num (&p);
  nh = next_num (&p); hd = malloc (nh > 0 ? nh : 1);
  for (i = 0; i < nh; i++) hd[i] = (uint8_t) next_num (&p);
  for (i = 0; i < 8; i++) trl[i] = next_num (&p);
  h = chain_hash (data, nd);
  for (i = 0; i < 8; i++) hr[i] = (h >> i * 8) & 0xff;
  if (nh >= 0) h = chain_hash (hd, nh);
  for (i = 0; i < 8; i++) hb[i] = (h >> i * 8) & 0xff;
#define CONC(it) ((it) < 256 ? (uint8_t) (it) : (uint8_t) (hb[((it) - 256) % 8] ^ (((it) - 256) / 8)))
  for (i = 0; i < n; i++) s[i] = CONC (items[i]);
  want = exp;
  if (exp) for (i = 0; i < 8; i++) if (CONC (trl[i]) != hr[i]) want = 0;
  for (int f = 0; f < 2; f++) {
    int fill = f == 0 ? 0x00 : 0xA5, ok = do_decode (s, n, fill);
    if (ok != want) outf ("FAIL %ld fill=%02x verdict: decoder ok=%d expected %d\n", id, fill, ok, want);
    else if (ok && (wr_b.len != (size_t) nd || (nd != 0 && memcmp (wr_b.p, data, nd) != 0)))
      outf ("FAIL %ld fill=%02x output: %zu bytes differ from the expected %ld\n", id, fill, wr_b.len, nd);
  }
  outf ("DV %ld %d\n", id, want);
  free (items); free (s); free (data); free (hd);
}

static uint8_t *read_bytes (char **pp, long n) {
  uint8_t *b = malloc (n + 1);
  for (long i = 0; i < n; i++) b[i] = (uint8_t) next_num (pp);
  return b;
}

static void case_R (char *p) {
  long id = next_num (&p), n = next_num (&p);
  uint8_t *in = read_bytes (&p, n);
  bytes_t enc = {0};
  int eok = do_encode (in, n, &enc), dok, eq, trl_ok = 0;
  uint64_t h = chain_hash (in, n);
  if (enc.len >= 9) {
    trl_ok = 1;
    for (int i = 0; i < 8; i++) if (enc.p[enc.len - 8 + i] != ((h >> i * 8) & 0xff)) trl_ok = 0;
  }
  dok = do_decode (enc.p, enc.len, 0xA5);
  eq = wr_b.len == (size_t) n && (n == 0 || memcmp (wr_b.p, in, n) == 0);
  outf ("ENC %ld %d %d %d %d ", id, eok, trl_ok, dok, eq); out_hex (enc.p, enc.len); outf ("\n");
  free (in); free (enc.p);
}

static void case_X (char *p) {
  long id = next_num (&p), n = next_num (&p);
  uint8_t *in = read_bytes (&p, n);
  int ok = do_decode (in, n, 0xA5);
  outf ("DEC %ld %d ", id, ok); out_hex (wr_b.p, wr_b.len); outf ("\n");
  free (in);
}

static const int subst_vals[6] = {0x00, 0x01, 0x1f, 0x80, 0xe0, 0xff};
static int iso_mode, iso_fd;      /* set when a whole M case died: report before/after every mutation */
static long mut_skip, mut_index;
static void summarise_err (const char *errfile, char *msg, size_t msz) {
  char l2[2000]; FILE *f = fopen (errfile, "r");
  msg[0] = 0;
  if (f == NULL) return;
  while (fgets (l2, sizeof l2, f) != NULL)
    if (strstr (l2, "ERROR: AddressSanitizer") != NULL || strstr (l2, "runtime error:") != NULL || strstr (l2, "Assertion") != NULL
        || strstr (l2, " of size ") != NULL) {
      size_t k = strlen (msg); l2[strcspn (l2, "\n")] = 0;
      snprintf (msg + k, msz - k, "%s | ", l2);
      if (strlen (msg) > 300) break;
    }
  fclose (f);
}
static void try_mut (long id, const char *kind, long pos, int val, const uint8_t *s, size_t n, const uint8_t *in, long nin,
                     long *nmut, long *nacc) {
  int ok, eq;
  char t[160];
  (*nmut)++;
  if (mut_index++ < mut_skip) return;
  if (iso_mode) { int k = snprintf (t, sizeof t, "P %s %ld %d\n", kind, pos, val); if (write (iso_fd, t, k) != k) _exit (4); }
  ok = do_decode (s, n, 0x00);
  eq = ok && wr_b.len == (size_t) nin && (nin == 0 || memcmp (wr_b.p, in, nin) == 0);
  if (ok) (*nacc)++;
  if (iso_mode) {
    int k = ok ? snprintf (t, sizeof t, "ACC %ld %s %ld %d %d\nQ\n", id, kind, pos, val, eq) : snprintf (t, sizeof t, "Q\n");
    if (write (iso_fd, t, k) != k) _exit (4);
  } else if (ok)
    outf ("ACC %ld %s %ld %d %d\n", id, kind, pos, val, eq);
}
static void case_M (char *p) {
  long id = next_num (&p), stride = next_num (&p), n = next_num (&p), nmut = 0, nacc = 0;
  mut_index = 0;
  uint8_t *in = read_bytes (&p, n), *m;
  bytes_t enc = {0};
  int eok = do_encode (in, n, &enc), dok = do_decode (enc.p, enc.len, 0xA5);
  int eq = wr_b.len == (size_t) n && (n == 0 || memcmp (wr_b.p, in, n) == 0);
  if (!eok || !dok || !eq) outf ("FAIL %ld roundtrip: encode ok=%d decode ok=%d equal=%d\n", id, eok, dok, eq);
  if (iso_mode && mut_skip == 0) {
    outf ("MUTENC %ld ", id); out_hex (enc.p, enc.len); outf ("\n");
    for (size_t off = 0; off < res_len;) { ssize_t w = write (iso_fd, res + off, res_len - off); if (w <= 0) _exit (4); off += w; }
    res_len = 0;
  }
  m = malloc (enc.len + 2);
  for (size_t i = 0; i <= enc.len; i++) {
    int sel = stride <= 1 || i % stride == 0 || i < 64 || i + 64 >= enc.len;
    if (!sel) continue;
    if (i < enc.len) {
      try_mut (id, "trunc", i, 0, enc.p, i, in, n, &nmut, &nacc);
      memcpy (m, enc.p, enc.len);
      for (int k = 0; k < 6; k++)
        if (subst_vals[k] != enc.p[i]) { m[i] = subst_vals[k]; try_mut (id, "subst", i, subst_vals[k], m, enc.len, in, n, &nmut, &nacc); }
      m[i] = enc.p[i] ^ 0x04;
      if (m[i] != 0x00 && m[i] != 0x01 && m[i] != 0x1f && m[i] != 0x80 && m[i] != 0xe0 && m[i] != 0xff)
        try_mut (id, "subst", i, m[i], m, enc.len, in, n, &nmut, &nacc);
    } else {
      memcpy (m, enc.p, enc.len);
      m[enc.len] = 0; try_mut (id, "ext", i, 0, m, enc.len + 1, in, n, &nmut, &nacc);
      m[enc.len] = 0x61; try_mut (id, "ext", i, 0x61, m, enc.len + 1, in, n, &nmut, &nacc);
    }
  }
  outf ("MUT %ld %zu %ld %ld ", id, enc.len, nmut, nacc); out_hex (enc.p, enc.len); outf ("\n");
  free (in); free (enc.p); free (m);
}

static void run_line (char *line) {
  char *p = line + 1;
  switch (line[0]) {
  case 'D': case_D (p); break;
  case 'R': case_R (p); break;
  case 'M': case_M (p); break;
  case 'X': case_X (p); break;
  default: break;
  }
}

static char **lines; static size_t nlines;

/* run lines [lo,hi) in a child that reports after every line; returns the number of lines completed
   (== hi - lo if the child finished) and prints the results of the completed lines */
static size_t run_chunk (size_t lo, size_t hi, const char *errfile) {
  int pfd[2];
  pid_t pid;
  if (pipe (pfd) != 0) { perror ("pipe"); exit (3); }
  fflush (stdout);
  pid = fork ();
  if (pid < 0) { perror ("fork"); exit (3); }
  if (pid == 0) {
    int fd = open (errfile != NULL ? errfile : "/dev/null", O_WRONLY | O_CREAT | O_TRUNC, 0600);
    close (pfd[0]);
    if (fd >= 0) { dup2 (fd, 2); close (fd); }
    for (size_t i = lo; i < hi; i++) {
      res_len = 0;
      run_line (lines[i]);
      outf ("\x01");                       /* end-of-case marker */
      for (size_t off = 0; off < res_len;) { ssize_t w = write (pfd[1], res + off, res_len - off); if (w <= 0) _exit (4); off += w; }
    }
    _exit (0);
  } else {
    char buf[65536]; bytes_t got = {0}; ssize_t r; int st; size_t done = 0, last = 0;
    close (pfd[1]);
    while ((r = read (pfd[0], buf, sizeof buf)) > 0) b_push (&got, buf, r);
    close (pfd[0]);
    waitpid (pid, &st, 0);
    for (size_t k = 0; k < got.len; k++)
      if (got.p[k] == 1) { fwrite (got.p + last, 1, k - last, stdout); last = k + 1; done++; }
    free (got.p);
    if (WIFEXITED (st) && WEXITSTATUS (st) == 0 && done != hi - lo) { fprintf (stderr, "chunk protocol error\n"); exit (3); }
    return done;
  }
}

#define ISO_MAX_CRASHES 16
/* an M line whose child died: restart it after every dying mutation, each restart skips what is already known */
static void run_iso (size_t c, const char *errfile, long *ncrash) {
  long skip = 0, id = strtol (lines[c] + 1, NULL, 10);
  for (int round = 0; round <= ISO_MAX_CRASHES; round++) {
    int pfd[2], st; pid_t pid; char buf[65536]; bytes_t got = {0}; ssize_t r; long nq = 0; char lastp[200] = "";
    if (pipe (pfd) != 0) { perror ("pipe"); exit (3); }
    fflush (stdout);
    pid = fork ();
    if (pid < 0) { perror ("fork"); exit (3); }
    if (pid == 0) {
      int fd = open (errfile, O_WRONLY | O_CREAT | O_TRUNC, 0600);
      close (pfd[0]);
      if (fd >= 0) { dup2 (fd, 2); close (fd); }
      iso_mode = 1; iso_fd = pfd[1]; mut_skip = skip; mut_index = 0; res_len = 0;
      run_line (lines[c]);
      for (size_t off = 0; off < res_len;) { ssize_t w = write (pfd[1], res + off, res_len - off); if (w <= 0) _exit (4); off += w; }
      _exit (0);
    }
    close (pfd[1]);
    while ((r = read (pfd[0], buf, sizeof buf)) > 0) b_push (&got, buf, r);
    close (pfd[0]);
    waitpid (pid, &st, 0);
    b_push (&got, "", 1);
    for (char *l = (char *) got.p, *e; l != NULL && *l; l = e) {
      e = strchr (l, '\n'); if (e != NULL) *e++ = 0;
      if (l[0] == 'P' && l[1] == ' ') snprintf (lastp, sizeof lastp, "%s", l + 2);
      else if (l[0] == 'Q' && l[1] == 0) { nq++; lastp[0] = 0; }
      else if (WIFEXITED (st) && WEXITSTATUS (st) == 0) printf ("%s\n", l);
      else if (strncmp (l, "ACC ", 4) == 0 || strncmp (l, "MUTENC ", 7) == 0) printf ("%s\n", l);
    }
    free (got.p);
    if (WIFEXITED (st) && WEXITSTATUS (st) == 0) return;
    if (lastp[0] == 0) {          /* died outside a mutation (encoder, clean round trip) */
      char msg[400]; summarise_err (errfile, msg, sizeof msg);
      (*ncrash)++; printf ("CRASH %ld rc=1 %s\n", id, msg);
      return;
    } else {
      char msg[400]; summarise_err (errfile, msg, sizeof msg);
      printf ("MCRASH %ld %s %s\n", id, lastp, msg);
      skip += nq + 1;
    }
  }
  printf ("MCAPPED %ld %ld\n", id, skip);   /* too many dying mutations: the rest of this input is not explored */
}

int main (int argc, char **argv) {
  size_t cap = 0, chunk = argc > 1 ? (size_t) atol (argv[1]) : 256;
  char *line = NULL; size_t lcap = 0; ssize_t len;
  char errfile[512];
  long ncrash = 0;
  printf ("CONST %d %d %d %zu\n", (int) _REDUCE_BUF_LEN, (int) _REDUCE_START_LEN, (int) _REDUCE_MAX_SYMB_LEN, sizeof (struct reduce_data));
  fflush (stdout);
  while ((len = getline (&line, &lcap, stdin)) > 0) {
    if (nlines == cap) { cap = cap * 2 + 1024; lines = realloc (lines, cap * sizeof (char *)); }
    lines[nlines++] = strdup (line);
  }
  {
    const char *t = getenv ("C12_ERRFILE");
    snprintf (errfile, sizeof errfile, "%s", t != NULL ? t : "c12_err.txt");
  }
  for (size_t lo = 0; lo < nlines;) {
    size_t hi = lo + chunk < nlines ? lo + chunk : nlines, done = run_chunk (lo, hi, NULL), c = lo + done;
    if (done == hi - lo) { lo = hi; continue; }
    /* line c killed the child: run it alone, keeping the sanitizer report */
    if (lines[c][0] == 'M') run_iso (c, errfile, &ncrash);
    else if (run_chunk (c, c + 1, errfile) != 1) {
      char msg[400];
      summarise_err (errfile, msg, sizeof msg);
      ncrash++;
      printf ("CRASH %ld rc=1 %s\n", strtol (lines[c] + 1, NULL, 10), msg);
    }
    lo = c + 1;
  }
  unlink (errfile);
  printf ("DONE %zu %ld\n", nlines, ncrash);
  return 0;
}
