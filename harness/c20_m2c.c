/* C20: reads MIR text on stdin, prints the C translation of every module (MIR_module2c) on stdout.
   A MIR error is reported as a MIRERROR comment line with exit status 3. */
#include <stdio.h>
#include <stdlib.h>
#include <string.h>
#include <stdarg.h>
#include "mir.h"
#include "mir2c/mir2c.h"
static void MIR_NO_RETURN err_func (MIR_error_type_t t, const char *fmt, ...) {
  va_list ap;
  va_start (ap, fmt);
  printf ("/*MIRERROR %d ", (int) t);
  vprintf (fmt, ap);
  printf ("*/\n");
  va_end (ap);
  exit (3);
}
int main (void) {
  static char text[1 << 20];
  size_t n = fread (text, 1, sizeof (text) - 1, stdin);
  MIR_context_t ctx = MIR_init ();
  MIR_module_t m;
  text[n] = 0;
  MIR_set_error_func (ctx, err_func);
  MIR_scan_string (ctx, text);
  printf ("#include <stdint.h>\n#include <stdarg.h>\n#include <alloca.h>\n");
  for (m = DLIST_HEAD (MIR_module_t, *MIR_get_module_list (ctx)); m != NULL; m = DLIST_NEXT (MIR_module_t, m))
    MIR_module2c (ctx, stdout, m);
  MIR_finish (ctx);
  return 0;
}
