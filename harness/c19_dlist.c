/* C19 binding for mir-dlist.h.  Input: C <ne> / O <op> <a> <b> <n> seq.. / E
   op: 0 prepend 1 append 2 insert_before(a=before,b=elem) 3 insert_after 4 remove 5 el(a=n) expects b */
#include <stdio.h>
#include <stdlib.h>
#include "mir-dlist.h"
typedef struct node *node_t;
DEF_DLIST_LINK (node_t);
struct node { int id; DLIST_LINK (node_t) link; };
DEF_DLIST (node_t, link);
int main (void) {
  char tag[8];
  long ncase = 0, nops = 0, nfail = 0;
  struct node nodes[32];
  DLIST (node_t) list;
  int step = 0, bad = 0, ne = 0, i;
  while (scanf ("%7s", tag) == 1) {
    if (tag[0] == 'C') {
      scanf ("%d", &ne);
      for (i = 0; i <= ne; i++) { nodes[i].id = i; nodes[i].link.prev = nodes[i].link.next = NULL; }
      DLIST_INIT (node_t, list);
      ncase++; step = 0; bad = 0;
    } else if (tag[0] == 'O') {
      int op, a, b, n, seq[32];
      node_t e;
      scanf ("%d %d %d %d", &op, &a, &b, &n);
      for (i = 0; i < n; i++) scanf ("%d", &seq[i]);
      step++; nops++;
      if (bad) continue;
#define FAIL(...) do { printf ("FAIL %ld %d ", ncase, step); printf (__VA_ARGS__); printf ("\n"); nfail++; bad = 1; } while (0)
      switch (op) {
      case 0: DLIST_PREPEND (node_t, list, &nodes[a]); break;
      case 1: DLIST_APPEND (node_t, list, &nodes[a]); break;
      case 2: DLIST_INSERT_BEFORE (node_t, list, &nodes[a], &nodes[b]); break;
      case 3: DLIST_INSERT_AFTER (node_t, list, &nodes[a], &nodes[b]); break;
      case 4: DLIST_REMOVE (node_t, list, &nodes[a]);
        if (nodes[a].link.prev != NULL || nodes[a].link.next != NULL) FAIL ("removed element keeps links");
        break;
      case 5: e = DLIST_EL (node_t, list, a);
        if ((e == NULL ? 0 : e->id) != b) FAIL ("el(%d)=%d expected %d", a, e == NULL ? 0 : e->id, b);
        break;
      }
      if (!bad && (int) DLIST_LENGTH (node_t, list) != n) FAIL ("length %d expected %d", (int) DLIST_LENGTH (node_t, list), n);
      for (i = 0, e = DLIST_HEAD (node_t, list); !bad && i < n; i++, e = DLIST_NEXT (node_t, e))
        if (e == NULL || e->id != seq[i]) FAIL ("forward[%d]=%d expected %d", i, e == NULL ? 0 : e->id, seq[i]);
      if (!bad && e != NULL) FAIL ("forward walk too long");
      for (i = n - 1, e = DLIST_TAIL (node_t, list); !bad && i >= 0; i--, e = DLIST_PREV (node_t, e))
        if (e == NULL || e->id != seq[i]) FAIL ("backward[%d]=%d expected %d", i, e == NULL ? 0 : e->id, seq[i]);
      if (!bad && e != NULL) FAIL ("backward walk too long");
      if (!bad && n == 0 && (DLIST_HEAD (node_t, list) != NULL || DLIST_TAIL (node_t, list) != NULL)) FAIL ("empty list has head/tail");
    }
  }
  printf ("DONE %ld %ld %ld\n", ncase, nops, nfail);
  return 0;
}
