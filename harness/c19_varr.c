/* C19 binding for mir-varr.h.  Input: C <initcap> / O <op> <na> a.. <ret> <num> <cap> els.. / E
   op: 0 push 1 push_arr 2 pop 3 trunc 4 expand 5 tailor 6 set 7 get 8 last; element -1 = uninitialised */
#include <stdio.h>
#include <stdlib.h>
#include "mir-alloc.h"
#include "mir-varr.h"
#include "verif_alloc.h"
DEF_VARR (int);
int main (void) {
  char tag[8];
  long ncase = 0, nops = 0, nfail = 0;
  VARR (int) *v = NULL;
  int step = 0, bad = 0, i;
  MIR_alloc_t alloc = verif_alloc ();
  while (scanf ("%7s", tag) == 1) {
    if (tag[0] == 'C') {
      int c;
      scanf ("%d", &c);
      VARR_CREATE (int, v, alloc, c);
      ncase++; step = 0; bad = 0;
    } else if (tag[0] == 'O') {
      int op, na, a[16], ret, num, cap, els[64], r = 0, idx;
      scanf ("%d %d", &op, &na);
      for (i = 0; i < na; i++) scanf ("%d", &a[i]);
      scanf ("%d %d %d", &ret, &num, &cap);
      for (i = 0; i < num; i++) scanf ("%d", &els[i]);
      step++; nops++;
      if (bad) continue;
#define FAIL(...) do { printf ("FAIL %ld %d ", ncase, step); printf (__VA_ARGS__); printf ("\n"); nfail++; bad = 1; } while (0)
      switch (op) {
      case 0: VARR_PUSH (int, v, a[0]); break;
      case 1: VARR_PUSH_ARR (int, v, a, na); break;
      case 2: r = VARR_POP (int, v); break;
      case 3: VARR_TRUNC (int, v, a[0]); break;
      case 4: r = VARR_EXPAND (int, v, a[0]); break;
      case 5: VARR_TAILOR (int, v, a[0]); break;
      case 6: VARR_SET (int, v, a[0], a[1]); break;
      case 7: r = VARR_GET (int, v, a[0]); break;
      case 8: r = VARR_LAST (int, v); break;
      }
      if (ret != -1 /* uninitialised element */ && r != ret) FAIL ("ret %d expected %d", r, ret);
      if (!bad && (int) VARR_LENGTH (int, v) != num) FAIL ("length %d expected %d", (int) VARR_LENGTH (int, v), num);
      if (!bad && (int) VARR_CAPACITY (int, v) != cap) FAIL ("capacity %d expected %d", (int) VARR_CAPACITY (int, v), cap);
      for (i = 0; !bad && i < num; i++)
        if (els[i] != -1 && VARR_ADDR (int, v)[i] != els[i]) FAIL ("el[%d]=%d expected %d", i, VARR_ADDR (int, v)[i], els[i]);
      i = 0;
      if (!bad) { int el; VARR_FOREACH_ELEM (int, v, idx, el) { if (els[idx] != -1 && el != els[idx]) FAIL ("foreach[%d]", idx); i++; }
        if (!bad && i != num) FAIL ("foreach count %d", i); }
      /* capacity is real: touch the whole allocation (ASan sees an undersized block) */
      if (!bad) { volatile int *p = VARR_ADDR (int, v); int s = 0; for (i = num; i < cap; i++) { ((int *) p)[i] = 0x5a5a; s += p[i]; } (void) s; }
    } else if (tag[0] == 'E') {
      VARR_DESTROY (int, v);
      if (!bad && v != NULL) FAIL ("destroy leaves pointer");
      if (!bad && verif_alloc_live () != 0) FAIL ("leak %ld", verif_alloc_live ());
      if (!bad && verif_alloc_bad () != 0) FAIL ("allocator misuse (wrong old size / bad free): %ld", verif_alloc_bad ());
    }
  }
  printf ("DONE %ld %ld %ld\n", ncase, nops, nfail);
  return 0;
}
