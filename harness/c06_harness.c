/* C06 binding: a native caller (harness/c06_tramp.S) invokes MIR functions through their public address
   under the interpreter interface, generated code (-O0..-O3) and the lazy generator thunk.
   The driver supplies, per case, the MIR text of a module with the function under test (its body stores
   every parameter it observes into c06_obs and returns a checksum in every result slot) and the image of
   c06_in (argument registers / stack slots placed per SysVABI, sentinels, control words).  The harness
   executes and dumps c06_out and the observation buffer; validation is done by spec/TraceABI.tla.

   Input (argv[1]):
     C <id> / T <nlines> + MIR text / F <function name>
     I <hex>   first 320 bytes of c06_in (target is filled in here)
     S <hex>   stack eightbytes
     D <hex>   seed words copied to c06_obs+4096 (live values / alloca patterns)
     P <np> <nv> <nl> <na>   eightbytes to dump from the param (0), va (2048), live (4352), alloca (4608) regions
     E <engine>...   i | 0 1 2 3 | L (lazy generation at -O2, first call through the thunk) | M (the same, reported as L, plus a second call reported as l)
     X
   Output: BEGIN/R/ERR/CRASH lines as harness/c05_harness.c;  R <id> <eng> <out-hex> <obs-hex> <aux-hex> */
#define _GNU_SOURCE
#include <stdio.h>
#include <stdlib.h>
#include <string.h>
#include <stdint.h>
#include <setjmp.h>
#include <signal.h>
#include <unistd.h>
#include <stdarg.h>
#include "mir.h"
#include "mir-gen.h"

#define NSTK 192
extern void c06_call (void);
extern int64_t c06_clobber (int64_t);
extern unsigned char c06_in[320 + 8 * NSTK], c06_out[256], c06_aux[64];
static unsigned char *c06_obs;

static MIR_context_t ctxs[6]; /* 0 interp, 1..4 gen O0..O3, 5 lazy gen O2 */
static jmp_buf err_jmp;
static char err_msg[512], cur_id[64], cur_eng[8];

static void MIR_NO_RETURN err_func (MIR_error_type_t t, const char *format, ...) {
  va_list ap;
  va_start (ap, format);
  vsnprintf (err_msg, sizeof (err_msg), format, ap);
  va_end (ap);
  for (char *p = err_msg; *p; p++)
    if (*p == '\n') *p = ' ';
  longjmp (err_jmp, (int) t + 1);
}

static void crash (int sig) {
  char b[160];
  int n = snprintf (b, sizeof (b), "\nCRASH %s %s %d\n", cur_id, cur_eng, sig);
  if (write (1, b, n) < 0) {}
  _exit (3);
}

static MIR_context_t make_ctx (int e) {
  MIR_context_t ctx = MIR_init ();
  MIR_set_error_func (ctx, err_func);
  if (e > 0) {
    MIR_gen_init (ctx);
    MIR_gen_set_optimize_level (ctx, e == 5 ? 2 : e - 1);
  }
  MIR_load_external (ctx, "c06_obs", c06_obs);
  MIR_load_external (ctx, "c06_clobber", (void *) c06_clobber);
  return ctx;
}

static int hexval (int c) { return c <= '9' ? c - '0' : (c | 32) - 'a' + 10; }
static size_t unhex (const char *s, unsigned char *dst, size_t max) {
  size_t n = 0;
  while (s[0] && s[1] && s[0] != '\n' && n < max) {
    dst[n++] = (unsigned char) (hexval (s[0]) * 16 + hexval (s[1]));
    s += 2;
  }
  return n;
}
static void puthex (const unsigned char *p, size_t n) {
  static const char d[] = "0123456789abcdef";
  for (size_t i = 0; i < n; i++) {
    putchar (d[p[i] >> 4]);
    putchar (d[p[i] & 15]);
  }
}

static unsigned char in_img[320], stk_img[8 * NSTK], seeds[512];
static size_t nstk_bytes;
static int np, nv, nl, na;
static char *line = NULL;
static size_t linecap = 0;

static void one_call (const char *id, const char *eng, void *target) {
  memcpy (c06_in, in_img, 320);
  memcpy (c06_in + 56, &target, 8);
  memset (c06_in + 320, 0x99, 8 * NSTK);
  memcpy (c06_in + 320, stk_img, nstk_bytes);
  memset (c06_out, 0xcc, sizeof (c06_out));
  memset (c06_aux, 0, sizeof (c06_aux));
  memset (c06_obs, 0xdd, 8192);
  memcpy (c06_obs + 4096, seeds, 256);
  c06_call ();
  printf ("R %s %s ", id, eng);
  puthex (c06_out, 192);
  putchar (' ');
  puthex (c06_obs, 8 * (size_t) np);
  puthex (c06_obs + 2048, 8 * (size_t) nv);
  puthex (c06_obs + 4352, 8 * (size_t) nl);
  puthex (c06_obs + 4608, 8 * (size_t) na);
  putchar (' ');
  puthex (c06_aux, 32);
  putchar ('\n');
  fflush (stdout);
}

static void run_case (const char *id, const char *text, const char *fname, const char *engs) {
  for (const char *e = engs; *e; e++) {
    int ei;
    MIR_context_t ctx;
    MIR_module_t m;
    MIR_item_t it, func = NULL;
    if (*e == ' ' || *e == '\n') continue;
    ei = *e == 'i' ? 0 : (*e == 'L' || *e == 'M') ? 5 : *e - '0' + 1;
    if (ei < 0 || ei > 5) continue;
    snprintf (cur_eng, sizeof (cur_eng), "%c", *e);
    snprintf (cur_id, sizeof (cur_id), "%s", id);
    printf ("BEGIN %s %s\n", id, cur_eng);
    fflush (stdout);
    if (ctxs[ei] == NULL) ctxs[ei] = make_ctx (ei);
    ctx = ctxs[ei];
    if (setjmp (err_jmp)) {
      printf ("ERR %s %s %s\n", id, cur_eng, err_msg);
      fflush (stdout);
      ctxs[ei] = NULL;
      continue;
    }
    MIR_scan_string (ctx, text);
    m = DLIST_TAIL (MIR_module_t, *MIR_get_module_list (ctx));
    for (it = DLIST_HEAD (MIR_item_t, m->items); it != NULL; it = DLIST_NEXT (MIR_item_t, it))
      if (it->item_type == MIR_func_item && strcmp (it->u.func->name, fname) == 0) func = it;
    if (func == NULL) {
      printf ("ERR %s %s no function %s\n", id, cur_eng, fname);
      continue;
    }
    MIR_load_module (ctx, m);
    if (ei == 0) {
      MIR_link (ctx, MIR_set_interp_interface, NULL);
      one_call (id, cur_eng, func->addr);
    } else if (ei == 5) {
      MIR_link (ctx, MIR_set_lazy_gen_interface, NULL);
      snprintf (cur_eng, sizeof (cur_eng), "L");
      one_call (id, "L", func->addr); /* generation happens inside this call */
      if (*e == 'M') {
        snprintf (cur_eng, sizeof (cur_eng), "l");
        one_call (id, "l", func->addr);
      }
    } else {
      MIR_link (ctx, MIR_set_gen_interface, NULL);
      MIR_gen (ctx, func);
      one_call (id, cur_eng, func->addr); /* public address: the thunk now redirected to the code */
    }
  }
}

int main (int argc, char **argv) {
  volatile char pad[8192];
  FILE *f;
  long first = argc > 2 ? atol (argv[2]) : 0, ncase = 0;
  char id[64] = "", fname[128] = "", engs[64] = "i";
  char *text = NULL;
  int sigs[] = {SIGSEGV, SIGBUS, SIGILL, SIGFPE, SIGABRT};

  pad[0] = pad[8191] = 0;
  if (argc < 2 || (f = fopen (argv[1], "r")) == NULL) return 2;
  for (size_t i = 0; i < sizeof (sigs) / sizeof (sigs[0]); i++) signal (sigs[i], crash);
  if (posix_memalign ((void **) &c06_obs, 64, 8192 + 64)) return 2;
  while (getline (&line, &linecap, f) > 0) {
    switch (line[0]) {
    case 'C': sscanf (line + 2, "%63s", id); break;
    case 'F': sscanf (line + 2, "%127s", fname); break;
    case 'T': {
      long n = atol (line + 2);
      size_t len = 0, cap = 4096;
      free (text);
      text = malloc (cap);
      text[0] = 0;
      while (n-- > 0 && getline (&line, &linecap, f) > 0) {
        size_t l = strlen (line);
        if (len + l + 1 > cap) text = realloc (text, cap = (len + l + 1) * 2);
        memcpy (text + len, line, l + 1);
        len += l;
      }
      break;
    }
    case 'I': memset (in_img, 0, 320); unhex (line + 2, in_img, 320); break;
    case 'S': nstk_bytes = unhex (line + 2, stk_img, sizeof (stk_img)); break;
    case 'D': memset (seeds, 0, sizeof (seeds)); unhex (line + 2, seeds, 256); break;
    case 'P': sscanf (line + 2, "%d %d %d %d", &np, &nv, &nl, &na); break;
    case 'E': snprintf (engs, sizeof (engs), "%s", line + 2); break;
    case 'X':
      if (ncase % 300 == 299) /* keep the contexts small: loading/linking cost grows with the modules in a context */
        for (int k = 0; k < 6; k++)
          if (ctxs[k] != NULL) {
            if (k > 0) MIR_gen_finish (ctxs[k]);
            MIR_finish (ctxs[k]);
            ctxs[k] = NULL;
          }
      if (ncase++ >= first) run_case (id, text, fname, engs);
      break;
    default: break;
    }
  }
  printf ("DONE %ld\n", ncase);
  return 0;
}
