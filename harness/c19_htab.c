/* C19 binding: replays TLC-generated HTab behaviours on mir-htab.h and compares, after every
   operation, the return value, the returned element, the free-function calls and the
   projection (entries size, els_num, els_bound, live elements in element-array order).
   Input (stdin), one case per block:
     C <nk> <hf[1..nk]> <minsize>
     O <op> <k> <v> <ret> <res> <nfreed> {k v}* <size> <num> <bound> <nlive> {k v}*
     E
   op: 0 find 1 insert 2 replace 3 delete 4 clear */
#include <stdio.h>
#include <stdlib.h>
#include <string.h>
#include "mir-alloc.h"
#include "mir-htab.h"
#include "verif_alloc.h"

typedef struct { int k, v; } el_t;
DEF_HTAB (el_t);

static int hf[64], nk;
static int freed[256][2], nfreed;
static int seen[256][2], nseen;

static htab_hash_t hash_f (el_t e, void *arg) { return (htab_hash_t) hf[e.k]; }
static int eq_f (el_t a, el_t b, void *arg) { return a.k == b.k; }
static void free_f (el_t e, void *arg) {
  if (nfreed < 256) { freed[nfreed][0] = e.k; freed[nfreed][1] = e.v; }
  nfreed++;
}
static void visit_f (el_t e, void *arg) {
  if (nseen < 256) { seen[nseen][0] = e.k; seen[nseen][1] = e.v; }
  nseen++;
}

int main (void) {
  char tag[8];
  long ncase = 0, nops = 0, nfail = 0;
  HTAB (el_t) *ht = NULL;
  int step = 0, bad = 0;
  MIR_alloc_t alloc = verif_alloc ();
  while (scanf ("%7s", tag) == 1) {
    if (tag[0] == 'C') {
      int i, min;
      scanf ("%d", &nk);
      for (i = 1; i <= nk; i++) scanf ("%d", &hf[i]);
      scanf ("%d", &min);
      HTAB_CREATE_WITH_FREE_FUNC (el_t, ht, alloc, min, hash_f, eq_f, free_f, NULL);
      ncase++; step = 0; bad = 0;
    } else if (tag[0] == 'O') {
      int op, k, v, ret, res, nf, f[64][2], size, num, bound, nlive, live[64][2], i, r = 0;
      el_t e, t;
      scanf ("%d %d %d %d %d %d", &op, &k, &v, &ret, &res, &nf);
      for (i = 0; i < nf; i++) scanf ("%d %d", &f[i][0], &f[i][1]);
      scanf ("%d %d %d %d", &size, &num, &bound, &nlive);
      for (i = 0; i < nlive; i++) scanf ("%d %d", &live[i][0], &live[i][1]);
      step++; nops++;
      if (bad) continue;
      e.k = k; e.v = v; t.k = t.v = -1; nfreed = 0;
      switch (op) {
      case 0: r = HTAB_DO (el_t, ht, e, HTAB_FIND, t); break;
      case 1: r = HTAB_DO (el_t, ht, e, HTAB_INSERT, t); break;
      case 2: r = HTAB_DO (el_t, ht, e, HTAB_REPLACE, t); break;
      case 3: r = HTAB_DO (el_t, ht, e, HTAB_DELETE, t); break;
      case 4: HTAB_CLEAR (el_t, ht); break;
      }
#define FAIL(...) do { printf ("FAIL %ld %d ", ncase, step); printf (__VA_ARGS__); printf ("\n"); nfail++; bad = 1; } while (0)
      if (op != 4 && (r != 0) != (ret != 0)) FAIL ("ret %d expected %d", r, ret);
      /* the returned element is defined for find-hit, insert, replace */
      if (!bad && ((op == 0 && ret) || op == 1 || op == 2) && (t.k != k || t.v != res))
        FAIL ("res (%d,%d) expected (%d,%d)", t.k, t.v, k, res);
      if (!bad && nfreed != nf) FAIL ("free calls %d expected %d", nfreed, nf);
      for (i = 0; !bad && i < nf; i++)
        if (freed[i][0] != f[i][0] || freed[i][1] != f[i][1])
          FAIL ("freed[%d]=(%d,%d) expected (%d,%d)", i, freed[i][0], freed[i][1], f[i][0], f[i][1]);
      if (!bad && (int) HTAB_ELS_NUM (el_t, ht) != num) FAIL ("els_num %d expected %d", (int) HTAB_ELS_NUM (el_t, ht), num);
      if (!bad && (int) VARR_LENGTH (htab_ind_t, ht->entries) != size)
        FAIL ("entries size %d expected %d", (int) VARR_LENGTH (htab_ind_t, ht->entries), size);
      if (!bad && (int) ht->els_bound != bound) FAIL ("els_bound %d expected %d", (int) ht->els_bound, bound);
      nseen = 0;
      HTAB_FOREACH_ELEM (el_t, ht, visit_f, NULL);
      if (!bad && nseen != nlive) FAIL ("foreach visits %d expected %d", nseen, nlive);
      for (i = 0; !bad && i < nlive; i++)
        if (seen[i][0] != live[i][0] || seen[i][1] != live[i][1])
          FAIL ("foreach[%d]=(%d,%d) expected (%d,%d)", i, seen[i][0], seen[i][1], live[i][0], live[i][1]);
      /* every key: membership through FIND agrees with the live list */
      for (i = 1; !bad && i <= nk; i++) {
        int j, in = 0; el_t q, qr; q.k = i; q.v = 0;
        for (j = 0; j < nlive; j++) if (live[j][0] == i) in = 1;
        nfreed = 0;
        if ((HTAB_DO (el_t, ht, q, HTAB_FIND, qr) != 0) != in) FAIL ("membership of key %d is %d expected %d", i, !in, in);
      }
    } else if (tag[0] == 'E') {
      int live_before = (int) HTAB_ELS_NUM (el_t, ht);
      nfreed = 0;
      HTAB_DESTROY (el_t, ht);
      if (!bad && nfreed != live_before) FAIL ("destroy freed %d expected %d", nfreed, live_before);
      if (!bad && verif_alloc_live () != 0) FAIL ("leak: %ld blocks live after destroy", verif_alloc_live ());
      if (!bad && verif_alloc_bad () != 0) FAIL ("allocator misuse: %ld", verif_alloc_bad ());
    }
  }
  printf ("DONE %ld %ld %ld\n", ncase, nops, nfail);
  return 0;
}
