/* c18_threads: executes phase-overlap schedules of spec/MIRThreads.tla on real contexts, one context per thread.

   Input (file argv[1], or stdin):
     W <wid> <src:m|c> <entry> <nbytes>\n<text bytes>\n     a workload: MIR text (m) or C source (c); entry is  i64 entry (p buf)
     B <wid> <hexbuf>                                      its input buffer
     S <sid> <nthreads> <reps> [<late> [<arena>]]          a schedule ... (late = 1: one concurrent run BEFORE the references;
                                                           arena = 1: the contexts take their code pages from the shared, owner-checked arena)
     T <wid> <level>                                       ... one line per thread (thread index = order, 0-based)
     P <t> <t> ...                                         ... one line per step: the threads that run their next phase
     E                                                     ... end of the schedule: run it
     V <label> <hexaddr> <size>                            guard: an object (link-time address in this executable) that must never change
   H <phase> <phase> ...                                 the phase order of the specification (must equal the one compiled in here)
   Every thread runs the phases  init build link geninit gen call interp genfin finish  in this order on its own context
   (generation before interpretation: MIR_gen at -O2 of a function the interpreter has already executed crashes
   single-threaded on the pinned tree, which is not this property's concern).
   Steps are separated by a pthread barrier over all threads of the schedule; the threads named in a step run their next
   phase between two barriers, i.e. truly concurrently with each other and with nothing else.

   Output (stdout), per schedule:
     A <sid>                                                    schedule accepted, starting
     R <wid> <level> <i|c> <ret> <hexbuf> <g|GUARD> L<n> id:val..  reference observation: the workload run alone (one thread,
                                                                all phases in order), computed once per (workload, level)
     G <wid> <level> <phase> <text>                             the reference run failed in <phase>
     C <sid>                                                    references exist; the concurrent part begins
     O <sid> <rep> <tid> <i|c> <ret> ...                        concurrent observation that differs from the reference
     Q <wid> <level> <hex>                                      c2mir's diagnostics of the reference compilation (if any)
     D <sid> <rep> <tid> <hex>                                  diagnostics of a concurrent compilation that differ from the reference
     U <wid> <level> <bytes>                                    arena mode: least distance between the end of a generated function and the end of its code holder
     Y <wid> <level> <n> <text>                                 arena mode, reference run: the context asked to protect/unmap pages it does not own
     P <sid> <rep> <tid> <n> <text>                             the same in a concurrent run
     DEAD <sid> <signal> <tid> <phase>                          fatal signal (tid -1: a reference run, -2: not in a workload thread)
     M <sid> <alone|concurrent> <label> <offset> <old> <new>    a guarded object changed during this schedule
     F <sid> <rep> <tid> <phase> <text>                         MIR error callback / failure in a thread
     K <sid> <runs> <diffs>                                     schedule finished
   stderr: "@S <sid>" before each schedule (ThreadSanitizer reports that follow belong to it).

   externals are thread-safe here: the external-call log is thread-local. */
#define _GNU_SOURCE
#include <stdio.h>
#include <stdlib.h>
#include <string.h>
#include <stdint.h>
#include <setjmp.h>
#include <signal.h>
#include <unistd.h>
#include <stdarg.h>
#include <pthread.h>
#include <time.h>
#include <dlfcn.h>
#include <link.h>
#include <sys/mman.h>
#undef MAP_FAILED /* mir-code-alloc.h has its own */
#include "mir.h"
#include "mir-gen.h"
#ifdef C18_WITH_C2MIR
#include "c2mir/c2mir.h"
#endif

#ifdef C18_SELFTEST_RACY_GLOBAL
/* selftest only: a deliberately racy process-wide object written by every external call */
int64_t c18_selftest_racy_counter;
#endif

enum { PH_INIT, PH_BUILD, PH_LINK, PH_GENINIT, PH_GEN, PH_CALL, PH_INTERP, PH_GENFIN, PH_FINISH, NPHASES };
static const char *phase_name[] = {"init", "build", "link", "geninit", "gen", "call", "interp", "genfin", "finish"};

#define MAXW 4096
#define MAXT 8
#define MAXSTEPS 128
#define MAXLOG 4096

struct workload {
  int used, src; /* src: 'm' or 'c' */
  char entry[64];
  char *text;
  unsigned char *buf;
  size_t buflen;
};
static struct workload wl[MAXW];

struct obs {
  int valid;
  int64_t ret;
  unsigned char *buf;
  size_t buflen;
  int guard_ok, nlog;
  int64_t *log_id;
  uint64_t *log_v;
};

struct thr {
  int tid, wid, level;
  MIR_context_t ctx;
  int gen_on, c2m_on, failed, next_phase;
  char *diag; /* what c2mir printed (errors and warnings) while this thread compiled */
  MIR_item_t entry;
  struct obs o[2]; /* 0: interp, 1: call */
  char fail_text[600];
  int fail_phase;
  jmp_buf errjmp;
  /* arena mode: the context takes its code pages from the shared arena below */
  int arena, cur_phase;
  unsigned owner_id;
  struct MIR_code_alloc code_alloc;
  struct { uint8_t *base; size_t len; } maps[64];
  int nmaps;
  long foreign;          /* protection / unmap requests that touch pages this context does not own */
  char foreign_text[200];
  char *genlog;          /* level 0 debug output of the generator: address and length of every function's code */
  size_t genlog_len;
  FILE *genlog_f;
  long min_slack;        /* min over the generated functions of (end of the code holder - end of the function's code) */
};

static __thread struct thr *self;
static __thread int64_t tl_log_id[MAXLOG];
static __thread uint64_t tl_log_v[MAXLOG];
static __thread int tl_nlog;

static int64_t ext_i (int64_t id, int64_t v) {
  if (tl_nlog < MAXLOG) { tl_log_id[tl_nlog] = id; tl_log_v[tl_nlog] = (uint64_t) v; }
  tl_nlog++;
#ifdef C18_SELFTEST_RACY_GLOBAL
  c18_selftest_racy_counter += v;
#endif
  return (int64_t) ((uint64_t) v + (uint64_t) id);
}
static double ext_d (int64_t id, double v) {
  uint64_t b;
  memcpy (&b, &v, 8);
  if (tl_nlog < MAXLOG) { tl_log_id[tl_nlog] = id; tl_log_v[tl_nlog] = b; }
  tl_nlog++;
  return v;
}
static int64_t ext_cb (int64_t id, int64_t (*f) (int64_t), int64_t v) {
  if (tl_nlog < MAXLOG) { tl_log_id[tl_nlog] = id; tl_log_v[tl_nlog] = (uint64_t) v; }
  tl_nlog++;
  return f (v);
}

static void MIR_NO_RETURN err_func (MIR_error_type_t t, const char *fmt, ...) {
  va_list ap;
  struct thr *th = self;
  int n = snprintf (th->fail_text, sizeof (th->fail_text), "MIR error %d: ", (int) t);
  va_start (ap, fmt);
  vsnprintf (th->fail_text + n, sizeof (th->fail_text) - n, fmt, ap);
  va_end (ap);
  for (char *p = th->fail_text; *p; p++) if (*p == '\n') *p = ' ';
  longjmp (th->errjmp, 1);
}

/* watchdog: a thread, not a signal (ThreadSanitizer delays asynchronous signals until the interrupted thread reaches an
   interceptor, which a thread spinning inside the library never does) */
static long cur_sid = -1;
static const char *phase_name_of (void *th);
static long deadline; /* seconds since the epoch, 0 = none; accessed atomically */
static void *watchdog_main (void *arg) {
  for (;;) {
    long d = __atomic_load_n (&deadline, __ATOMIC_SEQ_CST);
    if (d != 0 && (long) time (NULL) > d) {
      char m[64];
      int n = snprintf (m, sizeof (m), "\nTIMEOUT %ld\n", __atomic_load_n (&cur_sid, __ATOMIC_SEQ_CST));
      if (write (1, m, n) < 0) {}
      _exit (3);
    }
    usleep (200000);
  }
  return NULL;
}
/* a fatal signal: say which schedule and which phase of which thread (async-signal-safe), then die of it */
static void on_fatal (int sig) {
  char m[160];
  struct thr *th = self;
  int n = snprintf (m, sizeof (m), "\nDEAD %ld %d %d %s\n", __atomic_load_n (&cur_sid, __ATOMIC_SEQ_CST), sig,
                    th == NULL ? -2 : th->tid, th == NULL ? "harness" : phase_name_of (th));
  if (write (1, m, n) < 0) {}
  signal (sig, SIG_DFL);
  raise (sig);
}
static void set_deadline (int seconds) {
  __atomic_store_n (&deadline, seconds == 0 ? 0 : (long) time (NULL) + seconds, __ATOMIC_SEQ_CST);
}

static void *resolver (const char *name) { return dlsym (RTLD_DEFAULT, name); }

static MIR_item_t find_func (MIR_context_t ctx, const char *name) {
  MIR_item_t found = NULL;
  for (MIR_module_t m = DLIST_HEAD (MIR_module_t, *MIR_get_module_list (ctx)); m != NULL; m = DLIST_NEXT (MIR_module_t, m))
    for (MIR_item_t it = DLIST_HEAD (MIR_item_t, m->items); it != NULL; it = DLIST_NEXT (MIR_item_t, it))
      if (it->item_type == MIR_func_item && strcmp (it->u.func->name, name) == 0) found = it;
  return found;
}

#ifdef C18_WITH_C2MIR
struct str_in { const char *s; size_t i; };
static int str_getc (void *data) {
  struct str_in *in = data;
  return in->s[in->i] == 0 ? EOF : (unsigned char) in->s[in->i++];
}
static FILE *devnull;
#endif

static void free_obs (struct obs *o) {
  free (o->buf); free (o->log_id); free (o->log_v);
  memset (o, 0, sizeof (*o));
}

static void take_obs (struct thr *th, int which, int64_t ret, unsigned char *buf, size_t n) {
  struct obs *o = &th->o[which];
  size_t i;
  int nl = tl_nlog < MAXLOG ? tl_nlog : MAXLOG;
  free_obs (o);
  o->valid = 1; o->ret = ret; o->buflen = n;
  o->buf = malloc (n + 1);
  memcpy (o->buf, buf, n);
  for (i = 0; i < 64; i++) if (buf[n + i] != 0xEE) break;
  o->guard_ok = i == 64;
  o->nlog = tl_nlog;
  o->log_id = malloc (sizeof (int64_t) * (nl + 1));
  o->log_v = malloc (sizeof (uint64_t) * (nl + 1));
  memcpy (o->log_id, tl_log_id, sizeof (int64_t) * nl);
  memcpy (o->log_v, tl_log_v, sizeof (uint64_t) * nl);
}

static int same_obs (const struct obs *a, const struct obs *b) {
  int nl;
  if (a->valid != b->valid) return 0;
  if (!a->valid) return 1;
  if (a->ret != b->ret || a->buflen != b->buflen || a->guard_ok != b->guard_ok || a->nlog != b->nlog) return 0;
  if (memcmp (a->buf, b->buf, a->buflen) != 0) return 0;
  nl = a->nlog < MAXLOG ? a->nlog : MAXLOG;
  return memcmp (a->log_id, b->log_id, sizeof (int64_t) * nl) == 0 && memcmp (a->log_v, b->log_v, sizeof (uint64_t) * nl) == 0;
}

static void print_hex (const char *s) {
  for (; *s; s++) printf ("%02x", (unsigned char) *s);
  printf ("\n");
}

/* ---- guarded statics: objects of the library that the specification says are never written.  Their bytes are recorded
   before the first thread starts and compared whenever all threads of a run have been joined. */
#define MAXGUARD 256
static struct guard { char label[96]; unsigned char *addr, *snap; size_t size; } guards[MAXGUARD];
static int nguards;
static uintptr_t load_bias;
static int phdr_cb (struct dl_phdr_info *info, size_t size, void *data) {
  load_bias = info->dlpi_addr; /* the first entry is the executable itself */
  return 1;
}
static void check_guards (long sid, const char *when) {
  for (int i = 0; i < nguards; i++) {
    struct guard *g = &guards[i];
    if (memcmp (g->addr, g->snap, g->size) == 0) continue;
    size_t off = 0;
    while (g->addr[off] == g->snap[off]) off++;
    printf ("M %ld %s %s %zu %02x %02x\n", sid, when, g->label, off, g->snap[off], g->addr[off]);
    memcpy (g->snap, g->addr, g->size); /* report each modification once, at the run that made it */
  }
}

static void print_obs (const struct obs *o) {
  int nl = o->nlog < MAXLOG ? o->nlog : MAXLOG;
  if (!o->valid) { printf ("none\n"); return; }
  printf ("%016llx ", (unsigned long long) o->ret);
  for (size_t i = 0; i < o->buflen; i++) printf ("%02x", o->buf[i]);
  printf (" %s L%d", o->guard_ok ? "g" : "GUARD-OVERWRITTEN", o->nlog);
  for (int i = 0; i < nl; i++) printf (" %lld:%016llx", (long long) o->log_id[i], (unsigned long long) o->log_v[i]);
  printf ("\n");
}

static const char *phase_name_of (void *p) {
  struct thr *th = p;
  int ph = __atomic_load_n (&th->cur_phase, __ATOMIC_RELAXED);
  return ph >= 0 && ph < NPHASES ? phase_name[ph] : "?";
}

/* ---- code page arena: one reservation for the whole process; contexts in arena mode get consecutive pages from it (so the
   code pages of different contexts are neighbours, as consecutive anonymous mmaps usually are), every page has an owner,
   and every mem_protect / mem_unmap request of a context must lie inside pages this context owns.  Requests are clamped to
   the owned pages, so a stray request is reported instead of hurting the neighbour.  Lock-free (relaxed atomics) in order
   not to add synchronisation between the threads that ThreadSanitizer could mistake for the library's. */
#define APAGE 4096
#define ARENA_PAGES (1u << 19)
static uint8_t *arena_base;
static unsigned arena_next;            /* atomic */
static unsigned arena_owner_serial;    /* atomic */
static unsigned *arena_owner;          /* [ARENA_PAGES], atomic accesses; 0 = free */

static void arena_setup (void) {
  if (arena_base != NULL) return;
  arena_base = mmap (NULL, (size_t) ARENA_PAGES * APAGE, PROT_NONE, MAP_PRIVATE | MAP_ANONYMOUS | MAP_NORESERVE, -1, 0);
  arena_owner = calloc (ARENA_PAGES, sizeof (unsigned));
  if (arena_base == (uint8_t *) -1 || arena_owner == NULL) { printf ("X cannot reserve the code arena\n"); exit (2); }
}

static void *arena_map (size_t len, void *user_data) {
  struct thr *th = user_data;
  unsigned n = (unsigned) ((len + APAGE - 1) / APAGE);
  unsigned first = __atomic_fetch_add (&arena_next, n, __ATOMIC_RELAXED);
  uint8_t *res;
  if ((size_t) first + n > ARENA_PAGES || th->nmaps >= 64) {
    const char m[] = "\nX code arena exhausted\n";
    if (write (1, m, sizeof (m) - 1) < 0) {}
    _exit (2);
  }
  res = arena_base + (size_t) first * APAGE;
  for (unsigned i = 0; i < n; i++) __atomic_store_n (&arena_owner[first + i], th->owner_id, __ATOMIC_RELAXED);
  if (mprotect (res, (size_t) n * APAGE, PROT_READ | PROT_EXEC) != 0) return NULL;
  th->maps[th->nmaps].base = res;
  th->maps[th->nmaps].len = (size_t) n * APAGE;
  th->nmaps++;
  return res;
}

/* the part of [addr, addr + len) that lies in pages owned by TH: returns its page range [*first, *last]; counts the rest */
static int arena_owned_range (struct thr *th, void *addr, size_t len, const char *what, size_t *first, size_t *last) {
  size_t f, l, p, of = 1, ol = 0;
  if ((uint8_t *) addr < arena_base || (uint8_t *) addr + len > arena_base + (size_t) ARENA_PAGES * APAGE || len == 0) {
    if (th->foreign++ == 0) snprintf (th->foreign_text, sizeof (th->foreign_text), "%s of %zu bytes outside the arena", what, len);
    return 0;
  }
  f = (size_t) ((uint8_t *) addr - arena_base) / APAGE;
  l = (size_t) ((uint8_t *) addr + len - 1 - arena_base) / APAGE;
  for (p = f; p <= l; p++) {
    unsigned o = __atomic_load_n (&arena_owner[p], __ATOMIC_RELAXED);
    if (o == th->owner_id) {
      if (of > ol) of = p;
      ol = p;
    } else if (th->foreign++ == 0) {
      snprintf (th->foreign_text, sizeof (th->foreign_text),
                "%s of pages %zu..%zu (%zu bytes from page offset %zu) during %s: page %zu %s", what, f, l, len,
                (size_t) ((uint8_t *) addr - arena_base) % APAGE, phase_name[th->cur_phase], p,
                o == 0 ? "is not mapped for any context" : "belongs to another context");
    }
  }
  if (of > ol) return 0;
  *first = of; *last = ol;
  return 1;
}

static int arena_protect (void *addr, size_t len, MIR_mem_protect_t prot, void *user_data) {
  struct thr *th = user_data;
  size_t f, l;
  if (!arena_owned_range (th, addr, len, "mem_protect", &f, &l)) return 0;
  return mprotect (arena_base + f * APAGE, (l - f + 1) * APAGE,
                   prot == PROT_WRITE_EXEC ? (PROT_WRITE | PROT_EXEC) : (PROT_READ | PROT_EXEC));
}

static int arena_unmap (void *addr, size_t len, void *user_data) {
  struct thr *th = user_data;
  size_t f, l;
  if (!arena_owned_range (th, addr, len, "mem_unmap", &f, &l)) return 0;
  mprotect (arena_base + f * APAGE, (l - f + 1) * APAGE, PROT_NONE);
  madvise (arena_base + f * APAGE, (l - f + 1) * APAGE, MADV_DONTNEED);
  for (size_t p = f; p <= l; p++) __atomic_store_n (&arena_owner[p], 0, __ATOMIC_RELAXED);
  return 0;
}

/* the generator's level 0 debug lines "Code generation for F: N MIR insns (addr=A, len=L)": how close to the end of its code
   holder does each function's code end */
static void measure_slack (struct thr *th) {
  char *p;
  if (th->genlog_f == NULL) return;
  fflush (th->genlog_f);
  for (p = th->genlog; p != NULL && (p = strstr (p, "(addr=")) != NULL; p++) {
    unsigned long long a;
    unsigned long len;
    if (sscanf (p, "(addr=%llx, len=%lu)", &a, &len) != 2) continue;
    for (int i = 0; i < th->nmaps; i++)
      if ((uint8_t *) (uintptr_t) a >= th->maps[i].base && (uint8_t *) (uintptr_t) a < th->maps[i].base + th->maps[i].len) {
        long slack = (long) (th->maps[i].base + th->maps[i].len - ((uint8_t *) (uintptr_t) a + len));
        if (th->min_slack < 0 || slack < th->min_slack) th->min_slack = slack;
      }
  }
}

/* one phase of one thread on its own context */
static void do_phase (struct thr *th, int ph) {
  struct workload *w = &wl[th->wid];
  MIR_context_t ctx = th->ctx;
  if (th->failed) return;
  self = th;
  __atomic_store_n (&th->cur_phase, ph, __ATOMIC_RELAXED);
  if (setjmp (th->errjmp)) { /* MIR error callback: the context is abandoned (not finished) */
    th->failed = 1;
    th->fail_phase = ph;
    return;
  }
  switch (ph) {
  case PH_INIT:
    if (th->arena) {
      th->owner_id = __atomic_add_fetch (&arena_owner_serial, 1, __ATOMIC_RELAXED);
      th->code_alloc.mem_map = arena_map;
      th->code_alloc.mem_unmap = arena_unmap;
      th->code_alloc.mem_protect = arena_protect;
      th->code_alloc.user_data = th;
      th->ctx = ctx = MIR_init2 (NULL, &th->code_alloc);
    } else {
      th->ctx = ctx = MIR_init ();
    }
    MIR_set_error_func (ctx, err_func);
    break;
  case PH_BUILD:
    if (w->src == 'm') {
      MIR_scan_string (ctx, w->text);
    } else {
#ifdef C18_WITH_C2MIR
      struct c2mir_options ops;
      struct str_in in;
      int ok;
      memset (&ops, 0, sizeof (ops));
      size_t dlen = 0;
      FILE *mf;
      free (th->diag);
      th->diag = NULL;
      mf = open_memstream (&th->diag, &dlen);
      ops.message_file = mf;
      in.s = w->text; in.i = 0;
      c2mir_init (ctx);
      th->c2m_on = 1;
      ok = c2mir_compile (ctx, &ops, str_getc, &in, "c18-input.c", NULL);
      c2mir_finish (ctx);
      th->c2m_on = 0;
      fclose (mf);
      if (!ok) {
        snprintf (th->fail_text, sizeof (th->fail_text), "c2mir_compile reported errors");
        th->failed = 1; th->fail_phase = ph;
      }
#else
      snprintf (th->fail_text, sizeof (th->fail_text), "harness built without c2mir");
      th->failed = 1; th->fail_phase = ph;
#endif
    }
    break;
  case PH_LINK:
    for (MIR_module_t m = DLIST_HEAD (MIR_module_t, *MIR_get_module_list (ctx)); m != NULL; m = DLIST_NEXT (MIR_module_t, m))
      MIR_load_module (ctx, m);
    MIR_load_external (ctx, "ext_i", ext_i);
    MIR_load_external (ctx, "ext_d", ext_d);
    MIR_load_external (ctx, "ext_cb", ext_cb);
    MIR_link (ctx, MIR_set_interp_interface, resolver);
    th->entry = find_func (ctx, w->entry);
    if (th->entry == NULL) {
      snprintf (th->fail_text, sizeof (th->fail_text), "no function %s", w->entry);
      th->failed = 1; th->fail_phase = ph;
    }
    break;
  case PH_INTERP:
  case PH_CALL: {
    unsigned char *buf = malloc (w->buflen + 64);
    int64_t ret;
    memcpy (buf, w->buf, w->buflen);
    memset (buf + w->buflen, 0xEE, 64);
    tl_nlog = 0;
    if (ph == PH_INTERP) {
      MIR_val_t arg, res;
      arg.a = buf; res.i = 0;
      MIR_interp_arr (ctx, th->entry, &res, 1, &arg);
      ret = res.i;
    } else {
      ret = ((int64_t (*) (void *)) th->entry->addr) (buf);
    }
    take_obs (th, ph == PH_CALL, ret, buf, w->buflen);
    free (buf);
    break;
  }
  case PH_GENINIT:
    MIR_gen_init (ctx);
    th->gen_on = 1;
    MIR_gen_set_optimize_level (ctx, th->level);
    if (th->arena) {
      th->genlog_f = open_memstream (&th->genlog, &th->genlog_len);
      MIR_gen_set_debug_file (ctx, th->genlog_f);
      MIR_gen_set_debug_level (ctx, 0);
    }
    break;
  case PH_GEN:
    for (MIR_module_t m = DLIST_HEAD (MIR_module_t, *MIR_get_module_list (ctx)); m != NULL; m = DLIST_NEXT (MIR_module_t, m))
      for (MIR_item_t it = DLIST_HEAD (MIR_item_t, m->items); it != NULL; it = DLIST_NEXT (MIR_item_t, it))
        if (it->item_type == MIR_func_item) MIR_gen (ctx, it);
    measure_slack (th);
#ifdef C18_SELFTEST_STRAY_PROTECT
    /* selftest only: ask for one byte more than the context's first code holder */
    if (th->arena && th->nmaps > 0) arena_protect (th->maps[0].base, th->maps[0].len + 1, PROT_READ_EXEC, th);
#endif
    break;
  case PH_GENFIN:
    MIR_gen_finish (ctx);
    th->gen_on = 0;
    break;
  case PH_FINISH:
    MIR_finish (ctx);
    th->ctx = NULL;
    if (th->genlog_f != NULL) { fclose (th->genlog_f); th->genlog_f = NULL; }
    break;
  }
}

struct sched {
  long sid;
  int n, reps, nsteps, late_ref, arena;
  struct thr th[MAXT];
  unsigned step_mask[MAXSTEPS];
  pthread_barrier_t bar;
};
static struct sched sc;
static int sched_timeout = 120; /* seconds per schedule (all repetitions) */

static void *thread_main (void *arg) {
  struct thr *th = arg;
  for (int s = 0; s < sc.nsteps; s++) {
    pthread_barrier_wait (&sc.bar);
    if (sc.step_mask[s] >> th->tid & 1) {
      if (th->next_phase < NPHASES) do_phase (th, th->next_phase);
      th->next_phase++;
    }
  }
  pthread_barrier_wait (&sc.bar);
  return NULL;
}

static void *alone_main (void *arg) {
  struct thr *th = arg;
  for (int ph = 0; ph < NPHASES; ph++) do_phase (th, ph);
  return NULL;
}

static void reset_thr (struct thr *th) {
  free_obs (&th->o[0]); free_obs (&th->o[1]);
  free (th->diag); th->diag = NULL;
  th->ctx = NULL; th->gen_on = th->c2m_on = th->failed = th->next_phase = 0;
  th->entry = NULL; th->fail_text[0] = 0; th->fail_phase = -1;
  if (th->genlog_f != NULL) fclose (th->genlog_f);
  free (th->genlog);
  th->genlog = NULL; th->genlog_f = NULL; th->genlog_len = 0;
  th->nmaps = 0; th->foreign = 0; th->foreign_text[0] = 0; th->min_slack = -1; th->owner_id = 0;
}

/* reference observations, cached per (workload, level) for the life of the process */
struct refent { int wid, level, arena, failed, fail_phase; char fail_text[600]; struct obs o[2]; char *diag; };
static struct refent **refs; /* entries are allocated one by one: callers keep pointers to them */
static int nrefs, refs_cap;

static struct refent *reference (int wid, int level, int arena) {
  static struct thr t; /* only the main thread calls this, one reference run at a time */
  pthread_t pt;
  for (int i = 0; i < nrefs; i++) if (refs[i]->wid == wid && refs[i]->level == level && refs[i]->arena == arena) return refs[i];
  memset (&t, 0, sizeof (t));
  t.tid = -1; t.wid = wid; t.level = level; t.arena = arena; t.min_slack = -1;
  pthread_create (&pt, NULL, alone_main, &t);
  pthread_join (pt, NULL);
  if (nrefs == refs_cap) { refs_cap = refs_cap ? 2 * refs_cap : 64; refs = realloc (refs, refs_cap * sizeof (*refs)); }
  struct refent *r = calloc (1, sizeof (*r));
  refs[nrefs++] = r;
  r->wid = wid; r->level = level; r->arena = arena; r->failed = t.failed; r->fail_phase = t.fail_phase;
  memcpy (r->fail_text, t.fail_text, sizeof (r->fail_text));
  r->o[0] = t.o[0]; r->o[1] = t.o[1];
  r->diag = t.diag;
  if (r->diag != NULL && r->diag[0] != 0) {
    printf ("Q %d %d ", wid, level);
    print_hex (r->diag);
  }
  if (r->failed) printf ("G %d %d %s %s\n", wid, level, phase_name[r->fail_phase], r->fail_text);
  if (arena && t.min_slack >= 0) printf ("U %d %d %ld\n", wid, level, t.min_slack);
  if (t.foreign != 0) printf ("Y %d %d %ld %s\n", wid, level, t.foreign, t.foreign_text);
  if (t.genlog_f != NULL) fclose (t.genlog_f);
  free (t.genlog);
  for (int k = 0; k < 2; k++) {
    printf ("R %d %d %c ", wid, level, "ic"[k]);
    print_obs (&r->o[k]);
  }
  fflush (stdout);
  return r;
}

static int same_diag (const char *a, const char *b) { return strcmp (a == NULL ? "" : a, b == NULL ? "" : b) == 0; }

static long compare_rep (int rep, struct refent **ref) {
  long diffs = 0;
  for (int t = 0; t < sc.n; t++) {
    struct thr *th = &sc.th[t];
    if (th->failed != ref[t]->failed || (th->failed && th->fail_phase != ref[t]->fail_phase)) {
      diffs++;
      printf ("F %ld %d %d %s %s\n", sc.sid, rep, t, th->failed ? phase_name[th->fail_phase] : "none",
              th->failed ? th->fail_text : "completed, but the reference run failed");
    }
    if (th->next_phase != NPHASES) {
      diffs++;
      printf ("F %ld %d %d %s schedule left the thread after %d phases\n", sc.sid, rep, t, "sched", th->next_phase);
    }
    if (th->foreign != 0) {
      diffs++;
      printf ("P %ld %d %d %ld %s\n", sc.sid, rep, t, th->foreign, th->foreign_text);
    }
    if (!same_diag (th->diag, ref[t]->diag)) {
      diffs++;
      printf ("D %ld %d %d ", sc.sid, rep, t);
      print_hex (th->diag == NULL ? "" : th->diag);
    }
    for (int k = 0; k < 2; k++)
      if (!same_obs (&th->o[k], &ref[t]->o[k])) {
        diffs++;
        printf ("O %ld %d %d %c ", sc.sid, rep, t, "ic"[k]);
        print_obs (&th->o[k]);
      }
  }
  return diffs;
}

static void run_concurrently (void) {
  pthread_t pt[MAXT];
  pthread_barrier_init (&sc.bar, NULL, sc.n);
  for (int t = 0; t < sc.n; t++) reset_thr (&sc.th[t]);
  for (int t = 0; t < sc.n; t++) pthread_create (&pt[t], NULL, thread_main, &sc.th[t]);
  for (int t = 0; t < sc.n; t++) pthread_join (pt[t], NULL);
  pthread_barrier_destroy (&sc.bar);
}

static void run_schedule (void) {
  long runs = 0, diffs = 0;
  struct refent *ref[MAXT];
  __atomic_store_n (&cur_sid, sc.sid, __ATOMIC_SEQ_CST);
  fprintf (stderr, "@S %ld\n", sc.sid);
  fflush (stderr);
  printf ("A %ld\n", sc.sid);
  fflush (stdout);
  set_deadline (sched_timeout);
  if (sc.late_ref) { /* the concurrent run comes first (lazily initialised process-wide objects are still untouched) */
    printf ("C %ld\n", sc.sid);
    fflush (stdout);
    run_concurrently ();
    check_guards (sc.sid, "concurrent");
    runs += sc.n;
    for (int t = 0; t < sc.n; t++) ref[t] = reference (sc.th[t].wid, sc.th[t].level, sc.arena);
    check_guards (sc.sid, "alone");
    diffs += compare_rep (0, ref);
  } else {
    for (int t = 0; t < sc.n; t++) ref[t] = reference (sc.th[t].wid, sc.th[t].level, sc.arena);
    check_guards (sc.sid, "alone");
    printf ("C %ld\n", sc.sid); /* references exist: the concurrent part begins */
    fflush (stdout);
    for (int rep = 0; rep < sc.reps; rep++) {
      run_concurrently ();
      check_guards (sc.sid, "concurrent");
      runs += sc.n;
      diffs += compare_rep (rep, ref);
      if (diffs > 20) break;
    }
  }
  set_deadline (0);
  printf ("K %ld %ld %ld\n", sc.sid, runs, diffs);
  fflush (stdout);
}

static int hexval (int c) { return c <= '9' ? c - '0' : (c | 32) - 'a' + 10; }

int main (int argc, char **argv) {
  size_t cap = 1 << 20;
  char *line = malloc (cap);
  FILE *in = argc > 1 ? fopen (argv[1], "rb") : stdin;
  int nt = 0;
  if (in == NULL) { printf ("X cannot open input\n"); return 2; }
  {
    pthread_t wd;
    if (getenv ("C18_SCHED_TIMEOUT") != NULL) sched_timeout = atoi (getenv ("C18_SCHED_TIMEOUT"));
    pthread_create (&wd, NULL, watchdog_main, NULL);
  }
  setvbuf (stdout, NULL, _IOFBF, 1 << 16);
  {
    int sigs[] = {SIGSEGV, SIGBUS, SIGILL, SIGFPE, SIGABRT};
    for (int i = 0; i < 5; i++) signal (sigs[i], on_fatal);
  }
#ifdef C18_WITH_C2MIR
  devnull = fopen ("/dev/null", "w");
#endif
  while (getline (&line, &cap, in) >= 0) {
    if (line[0] == 'W') {
      int wid;
      char src;
      char entry[64];
      size_t n;
      if (sscanf (line + 2, "%d %c %63s %zu", &wid, &src, entry, &n) != 4 || wid < 0 || wid >= MAXW) { printf ("X bad W line\n"); return 2; }
      wl[wid].used = 1; wl[wid].src = src;
      strcpy (wl[wid].entry, entry);
      wl[wid].text = malloc (n + 1);
      if (fread (wl[wid].text, 1, n, in) != n) { printf ("X short workload\n"); return 2; }
      wl[wid].text[n] = 0;
    } else if (line[0] == 'B') {
      int wid, off = 0;
      size_t n;
      char *hex;
      if (sscanf (line + 2, "%d %n", &wid, &off) < 1 || wid < 0 || wid >= MAXW) { printf ("X bad B line\n"); return 2; }
      hex = line + 2 + off;
      n = strlen (hex);
      while (n > 0 && (hex[n - 1] == '\n' || hex[n - 1] == ' ')) n--;
      n /= 2;
      wl[wid].buf = malloc (n + 1);
      wl[wid].buflen = n;
      for (size_t i = 0; i < n; i++) wl[wid].buf[i] = (unsigned char) (hexval (hex[2 * i]) * 16 + hexval (hex[2 * i + 1]));
    } else if (line[0] == 'V') { /* V <label> <link-time address, hex> <size> */
      struct guard *g = &guards[nguards];
      unsigned long long a;
      size_t sz;
      if (nguards >= MAXGUARD || sscanf (line + 2, "%95s %llx %zu", g->label, &a, &sz) != 3 || sz == 0) { printf ("X bad V line\n"); return 2; }
      if (nguards == 0) dl_iterate_phdr (phdr_cb, NULL);
      g->addr = (unsigned char *) (load_bias + (uintptr_t) a);
      g->size = sz;
      g->snap = malloc (sz);
      memcpy (g->snap, g->addr, sz);
      nguards++;
    } else if (line[0] == 'H') {
      char *p = strtok (line + 1, " \n");
      for (int i = 0; i < NPHASES; i++, p = strtok (NULL, " \n"))
        if (p == NULL || strcmp (p, phase_name[i]) != 0) { printf ("X phase order differs from the specification\n"); return 2; }
      if (p != NULL) { printf ("X phase order differs from the specification\n"); return 2; }
    } else if (line[0] == 'S') {
      memset (&sc, 0, sizeof (sc));
      if (sscanf (line + 2, "%ld %d %d %d %d", &sc.sid, &sc.n, &sc.reps, &sc.late_ref, &sc.arena) < 3 || sc.n < 1 || sc.n > MAXT) { printf ("X bad S line\n"); return 2; }
      nt = 0;
      if (sc.arena) arena_setup ();
    } else if (line[0] == 'T') {
      int wid, level;
      if (nt >= sc.n || sscanf (line + 2, "%d %d", &wid, &level) != 2 || wid < 0 || wid >= MAXW || !wl[wid].used || wl[wid].buf == NULL) { printf ("X bad T line\n"); return 2; }
      sc.th[nt].tid = nt; sc.th[nt].wid = wid; sc.th[nt].level = level; sc.th[nt].arena = sc.arena;
      nt++;
    } else if (line[0] == 'P') {
      unsigned mask = 0;
      char *p = line + 1;
      if (sc.nsteps >= MAXSTEPS) { printf ("X too many steps\n"); return 2; }
      for (;;) {
        char *e;
        long t = strtol (p, &e, 10);
        if (e == p) break;
        if (t < 0 || t >= sc.n) { printf ("X bad thread in P line\n"); return 2; }
        mask |= 1u << t;
        p = e;
      }
      if (mask == 0) { printf ("X empty step\n"); return 2; }
      sc.step_mask[sc.nsteps++] = mask;
    } else if (line[0] == 'E') {
      if (nt != sc.n) { printf ("X thread count\n"); return 2; }
      run_schedule ();
    }
  }
  printf ("Z\n");
  return 0;
}
