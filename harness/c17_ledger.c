/* C17 binding: a checking MIR_alloc_t / MIR_code_alloc_t pair (the "ledger") that records every
   call the library makes as one ndjson event; spec/TraceMIRAlloc.tla decides whether the recorded
   sequence is a behaviour of spec/MIRAlloc.tla.

   General purpose allocator
     * every block gets a fresh id (ids restart at 1 after Reset) and is recorded with its TRUE size;
       realloc logs the old size the library REPORTED (the spec compares it with the ledger);
     * a released block is filled with 0xDD (ASan: additionally poisoned) and kept in quarantine until
       Reset: no address is reused while an execution is logged, so a stale free / realloc is seen as
       an operation on a dead id and not as one on an unrelated new block; at Finish the quarantine is
       scanned for changed bytes -> {"e":"UseAfterFree"};
     * realloc always moves the block.
   Code allocator
     * mem_map: pages mapped PROT_READ (the contract: no write, no execution before mem_protect);
       PROT_WRITE_EXEC -> RWX, PROT_READ_EXEC -> RX (page granular, as mprotect);
     * a shadow copy of every region is compared with the region on every mem_protect / mem_unmap /
       Finish: changed pages are logged as {"e":"CodeWrite"} BEFORE the call's own event, i.e. while
       the old protection is still the one in the spec state;
     * a SIGSEGV inside a region (write outside a window, execution before the first mem_protect,
       any access after mem_unmap: unmapped regions stay reserved as PROT_NONE until Reset) logs
       {"e":"WriteFault"} / {"e":"AccessFault"} and ends the process (exit status 41).
   Raw libc calls of the library
     * harness/py/c17.py renames, in the LIBRARY objects only (objcopy --redefine-sym), the undefined
       symbols malloc calloc realloc free mmap munmap mprotect (and other allocating libc entry points)
       to __wrap_<name>, exactly what `ld --wrap` would do, but restricted to mir.o / mir-gen.o /
       c2mir.o.  So a direct libc call from library code lands here and is logged as Raw*; calls made
       inside libc (stdio buffers, getline ...) and by this harness (drivers, externals such as the
       `malloc` a MIR program imports) are never attributed to the library.  No return-address
       heuristics are needed; "bt" (offsets, in the executable, of the innermost return addresses) is
       only used to name the calling function in finding keys and reports.
   The id space of raw blocks is the same as that of ledger blocks.  */
#define _GNU_SOURCE
#include <stdio.h>
#include <stdlib.h>
#include <stdarg.h>
#include <stdint.h>
#include <string.h>
#include <signal.h>
#include <unistd.h>
#include <fcntl.h>
#include <errno.h>
#include <ucontext.h>
#include <execinfo.h>
#include "c17_ledger.h"

#if defined(__SANITIZE_ADDRESS__)
#define C17_ASAN 1
#elif defined(__has_feature)
#if __has_feature(address_sanitizer)
#define C17_ASAN 1
#endif
#endif
#ifdef C17_ASAN
#include <sanitizer/asan_interface.h>
#endif

extern char __executable_start[];
#define PCOFF(ra) ((long) ((uintptr_t) (ra) - (uintptr_t) __executable_start))
/* CALLER(): JSON list of the offsets of the innermost return addresses in library code, e.g. [1234,5678,..].
   The first entry is the return address of the allocator member itself; the following ones let the report
   name the function behind a non-inlined helper (VARR create ...) whatever the compiler inlined. */
#define BT_DEPTH 5
static __thread char bt_buf[BT_DEPTH * 24 + 8];
static __attribute__ ((noinline)) const char *bt_list (void *ra0) {
  void *a[BT_DEPTH + 6];
  int n = backtrace (a, BT_DEPTH + 6), i, k = 0, len = 0;
  for (i = 0; i < n && a[i] != ra0; i++)
    ;
  if (i == n) { /* unwinder did not see the frame: fall back to the one address we know */
    snprintf (bt_buf, sizeof (bt_buf), "[%ld]", PCOFF (ra0));
    return bt_buf;
  }
  bt_buf[len++] = '[';
  for (; i < n && k < BT_DEPTH; i++, k++) {
    long off = PCOFF (a[i]);
    if (off < 0 || off > 0x7fffffffL) break; /* left the executable (generated code, libc) */
    len += snprintf (bt_buf + len, sizeof (bt_buf) - len, k ? ",%ld" : "%ld", off);
  }
  bt_buf[len++] = ']';
  bt_buf[len] = 0;
  return bt_buf;
}
#define CALLER() bt_list (__builtin_return_address (0))
#define PAGE 4096UL

/* ------------------------------------------------------------------ event log */
static int log_fd = -1;
static char log_buf[1 << 20];
static size_t log_len;
static long n_events;

static void log_flush (void) {
  size_t off = 0;
  while (log_fd >= 0 && off < log_len) {
    ssize_t w = write (log_fd, log_buf + off, log_len - off);
    if (w <= 0) break;
    off += (size_t) w;
  }
  log_len = 0;
}

static void ev (const char *fmt, ...) {
  va_list ap;
  int n;
  if (log_fd < 0) return;
  if (log_len + 512 > sizeof (log_buf)) log_flush ();
  va_start (ap, fmt);
  n = vsnprintf (log_buf + log_len, 500, fmt, ap);
  va_end (ap);
  if (n > 499) n = 499;
  log_len += (size_t) n;
  log_buf[log_len++] = '\n';
  n_events++;
}

long c17_events (void) { return n_events; }

/* ------------------------------------------------------------------ address table */
enum { ST_EMPTY = 0, ST_LIVE, ST_DEAD /* released, quarantined */, ST_RAW /* raw libc block, live */, ST_TOMB };
typedef struct {
  uintptr_t p;
  size_t size;
  long id;
  int st;
} ent_t;
static ent_t *tab;
static size_t tab_cap, tab_used;
static long next_id = 1;
static size_t live_bytes, quarantine_bytes, peak_live_blocks, live_blocks;

static size_t hashp (uintptr_t p) { return (size_t) ((p >> 4) * 0x9E3779B97F4A7C15UL); }

static ent_t *tab_find (uintptr_t p) {
  size_t i;
  if (tab_cap == 0) return NULL;
  for (i = hashp (p) & (tab_cap - 1);; i = (i + 1) & (tab_cap - 1)) {
    if (tab[i].st == ST_EMPTY) return NULL;
    if (tab[i].st != ST_TOMB && tab[i].p == p) return &tab[i];
  }
}

static void tab_grow (void) {
  size_t ocap = tab_cap, i;
  ent_t *old = tab;
  tab_cap = ocap == 0 ? 1 << 16 : ocap * 2;
  tab = calloc (tab_cap, sizeof (ent_t));
  if (tab == NULL) abort ();
  tab_used = 0;
  for (i = 0; i < ocap; i++)
    if (old[i].st != ST_EMPTY && old[i].st != ST_TOMB) {
      size_t j = hashp (old[i].p) & (tab_cap - 1);
      while (tab[j].st != ST_EMPTY) j = (j + 1) & (tab_cap - 1);
      tab[j] = old[i];
      tab_used++;
    }
  free (old);
}

static ent_t *tab_add (uintptr_t p, size_t size, int st) {
  size_t i;
  if ((tab_used + 1) * 2 > tab_cap) tab_grow ();
  i = hashp (p) & (tab_cap - 1);
  while (tab[i].st != ST_EMPTY && tab[i].st != ST_TOMB) i = (i + 1) & (tab_cap - 1);
  if (tab[i].st == ST_EMPTY) tab_used++;
  tab[i].p = p;
  tab[i].size = size;
  tab[i].id = next_id++;
  tab[i].st = st;
  return &tab[i];
}

/* ------------------------------------------------------------------ general purpose allocator */
static void *block_new (size_t size, int zero) {
  void *p = zero ? calloc (1, size ? size : 1) : malloc (size ? size : 1);
  if (p == NULL) {
    fprintf (stderr, "c17_ledger: out of memory\n");
    abort ();
  }
  if (!zero) memset (p, 0xA5, size);
  return p;
}

static void block_retire (ent_t *e) { /* poison + quarantine */
  memset ((void *) e->p, 0xDD, e->size);
#ifdef C17_ASAN
  ASAN_POISON_MEMORY_REGION ((void *) e->p, e->size);
#endif
  e->st = ST_DEAD;
  live_bytes -= e->size;
  live_blocks--;
  quarantine_bytes += e->size;
}

static void note_live (ent_t *e) {
  live_bytes += e->size;
  if (++live_blocks > peak_live_blocks) peak_live_blocks = live_blocks;
}

static void *l_malloc (size_t size, void *ud) {
  void *p = block_new (size, 0);
  ent_t *e = tab_add ((uintptr_t) p, size, ST_LIVE);
  (void) ud;
  note_live (e);
  ev ("{\"e\":\"Malloc\",\"id\":%ld,\"size\":%zu,\"bt\":%s}", e->id, size, CALLER ());
  return p;
}

static void *l_calloc (size_t num, size_t esz, void *ud) {
  size_t size;
  void *p;
  ent_t *e;
  (void) ud;
  if (__builtin_mul_overflow (num, esz, &size)) {
    ev ("{\"e\":\"CallocOverflow\",\"bt\":%s}", CALLER ());
    return NULL;
  }
  p = block_new (size, 1);
  e = tab_add ((uintptr_t) p, size, ST_LIVE);
  note_live (e);
  ev ("{\"e\":\"Calloc\",\"id\":%ld,\"num\":%zu,\"esz\":%zu,\"bt\":%s}", e->id, num, esz, CALLER ());
  return p;
}

static void *l_realloc (void *old, size_t old_size, size_t new_size, void *ud) {
  ent_t *o = old == NULL ? NULL : tab_find ((uintptr_t) old), *e;
  void *p;
  long oid;
  (void) ud;
  if (old != NULL && (o == NULL || o->st == ST_RAW)) { /* not a block of this allocator */
    ev ("{\"e\":\"ForeignRealloc\",\"id\":%ld,\"osz\":%zu,\"nsz\":%zu,\"bt\":%s}", o ? o->id : 0L, old_size, new_size,
        CALLER ());
    log_flush ();
    return NULL;
  }
  oid = o == NULL ? 0 : o->id;
  p = block_new (new_size, 0);
  if (o != NULL && o->st == ST_LIVE) {
    size_t n = o->size < new_size ? o->size : new_size; /* copy by the TRUE size */
    memcpy (p, old, n);
    block_retire (o);
  }
  /* o->st == ST_DEAD: realloc of a released block; logged with its dead id, the spec has no transition */
  e = tab_add ((uintptr_t) p, new_size, ST_LIVE); /* may move the table: o is invalid from here */
  note_live (e);
  ev ("{\"e\":\"Realloc\",\"old\":%ld,\"osz\":%zu,\"nsz\":%zu,\"id\":%ld,\"bt\":%s}", oid, old_size, new_size, e->id,
      CALLER ());
  return p;
}

static void l_free (void *p, void *ud) {
  ent_t *e;
  (void) ud;
  if (p == NULL) {
    ev ("{\"e\":\"Free\",\"id\":0,\"bt\":%s}", CALLER ());
    return;
  }
  e = tab_find ((uintptr_t) p);
  if (e == NULL || e->st == ST_RAW) {
    ev ("{\"e\":\"ForeignFree\",\"id\":%ld,\"bt\":%s}", e ? e->id : 0L, CALLER ());
    log_flush ();
    return;
  }
  if (e->st == ST_LIVE) block_retire (e);
  /* ST_DEAD: second release of the same block: logged with the dead id */
  ev ("{\"e\":\"Free\",\"id\":%ld,\"bt\":%s}", e->id, CALLER ());
}

static struct MIR_alloc ledger_alloc = {l_malloc, l_calloc, l_realloc, l_free, NULL};
MIR_alloc_t c17_alloc (void) { return &ledger_alloc; }

/* ------------------------------------------------------------------ code allocator */
typedef struct {
  uint8_t *base, *shadow;
  size_t len, maplen;
  long id;
  int st; /* 1 mapped, 2 unmapped (reserved PROT_NONE until Reset) */
} reg_t;
#define MAX_REGS 4096
static reg_t regs[MAX_REGS];
static int n_regs;
static long next_reg = 1;
static long straddling_protects;
long c17_straddling_protects (void) { return straddling_protects; }

static reg_t *reg_find (const void *addr) {
  int i;
  for (i = n_regs - 1; i >= 0; i--)
    if ((const uint8_t *) addr >= regs[i].base && (const uint8_t *) addr < regs[i].base + regs[i].maplen) return &regs[i];
  return NULL;
}

/* log pages whose bytes differ from the shadow copy (runs of pages), then refresh the shadow */
static void reg_diff (reg_t *r) {
  size_t np = r->maplen / PAGE, i, lo = 0;
  int in_run = 0;
  if (r->st != 1) return;
  for (i = 0; i <= np; i++) {
    int ch = i < np && memcmp (r->base + i * PAGE, r->shadow + i * PAGE, PAGE) != 0;
    if (ch && !in_run) {
      lo = i;
      in_run = 1;
    } else if (!ch && in_run) {
      ev ("{\"e\":\"CodeWrite\",\"r\":%ld,\"lo\":%zu,\"hi\":%zu}", r->id, lo, i - 1);
      memcpy (r->shadow + lo * PAGE, r->base + lo * PAGE, (i - lo) * PAGE);
      in_run = 0;
    }
  }
}

static void *c_map (size_t len, void *ud) {
  reg_t *r;
  size_t maplen = (len + PAGE - 1) / PAGE * PAGE;
  void *p;
  (void) ud;
  if (n_regs >= MAX_REGS || len == 0) {
    ev ("{\"e\":\"MemMap\",\"r\":0,\"len\":%zu,\"bt\":%s}", len, CALLER ());
    return NULL;
  }
  p = mmap (NULL, maplen, PROT_READ, MAP_PRIVATE | MAP_ANONYMOUS, -1, 0);
  if (p == C17_SYS_MAP_FAILED) abort ();
  r = &regs[n_regs++];
  r->base = p;
  r->len = len;
  r->maplen = maplen;
  r->shadow = calloc (1, maplen);
  r->id = next_reg++;
  r->st = 1;
  ev ("{\"e\":\"MemMap\",\"r\":%ld,\"len\":%zu,\"bt\":%s}", r->id, len, CALLER ());
  return p;
}

static int c_protect (void *addr, size_t len, MIR_mem_protect_t prot, void *ud) {
  reg_t *r = reg_find (addr);
  size_t off;
  const char *ps = prot == PROT_WRITE_EXEC ? "W" : prot == PROT_READ_EXEC ? "X" : "?";
  (void) ud;
  if (r == NULL || r->st != 1) { /* not inside a mapped region: region 0 does not exist in the spec */
    ev ("{\"e\":\"Protect\",\"r\":0,\"rdead\":%ld,\"off\":0,\"len\":%zu,\"prot\":\"%s\",\"bt\":%s}", r ? r->id : 0L, len, ps,
        CALLER ());
    return -1;
  }
  reg_diff (r);
  off = (size_t) ((uint8_t *) addr - r->base);
  ev ("{\"e\":\"Protect\",\"r\":%ld,\"off\":%zu,\"len\":%zu,\"prot\":\"%s\",\"bt\":%s}", r->id, off, len, ps, CALLER ());
  if (prot == PROT_WRITE_EXEC && len > PAGE && len <= PAGE + 16) straddling_protects++; /* coverage only */
  if (off % PAGE != 0 || off + len > r->len || ps[0] == '?') return -1; /* as mprotect: EINVAL / ENOMEM */
  if (len == 0) return 0;
  return mprotect (addr, len, prot == PROT_WRITE_EXEC ? (PROT_READ | PROT_WRITE | PROT_EXEC) : (PROT_READ | PROT_EXEC));
}

static int c_unmap (void *addr, size_t len, void *ud) {
  reg_t *r = reg_find (addr);
  size_t off;
  (void) ud;
  if (r == NULL || r->st != 1) {
    ev ("{\"e\":\"Unmap\",\"r\":0,\"rdead\":%ld,\"off\":0,\"len\":%zu,\"bt\":%s}", r ? r->id : 0L, len, CALLER ());
    return -1;
  }
  reg_diff (r);
  off = (size_t) ((uint8_t *) addr - r->base);
  ev ("{\"e\":\"Unmap\",\"r\":%ld,\"off\":%zu,\"len\":%zu,\"bt\":%s}", r->id, off, len, CALLER ());
  if (off != 0 || len != r->len) return -1;
  mprotect (r->base, r->maplen, PROT_NONE); /* keep the addresses reserved: later use faults */
  free (r->shadow);
  r->shadow = NULL;
  r->st = 2;
  return 0;
}

static struct MIR_code_alloc ledger_code_alloc = {c_map, c_unmap, c_protect, NULL};
MIR_code_alloc_t c17_code_alloc (void) { return &ledger_code_alloc; }

/* ------------------------------------------------------------------ faults */
static struct sigaction old_segv, old_bus;

static void on_fault (int sig, siginfo_t *si, void *ucv) {
  ucontext_t *uc = ucv;
  reg_t *r = reg_find (si->si_addr);
  long err = 0, pc = 0;
#if defined(__x86_64__)
  err = (long) uc->uc_mcontext.gregs[REG_ERR];
  pc = PCOFF (uc->uc_mcontext.gregs[REG_RIP]);
#endif
  if (r != NULL) {
    const char *acc = (err & 0x10) ? "x" : (err & 0x2) ? "w" : "r";
    /* who did it: the frames of the interrupted code that lie in the executable (the faulting instruction is
       often inside libc's memcpy or in generated code) */
    void *a[16];
    char bt[200];
    int n = backtrace (a, 16), i, k = 0, len = 0, seen_pc = 0;
    bt[len++] = '[';
    for (i = 0; i < n && k < BT_DEPTH; i++) {
      long off = PCOFF (a[i]);
#if defined(__x86_64__)
      if ((uintptr_t) a[i] == (uintptr_t) uc->uc_mcontext.gregs[REG_RIP]) seen_pc = 1;
#endif
      if (!seen_pc || off <= 0 || off > 0x7fffffffL) continue;
      len += snprintf (bt + len, sizeof (bt) - len, k++ ? ",%ld" : "%ld", off + 1);
    }
    bt[len++] = ']';
    bt[len] = 0;
    ev ("{\"e\":\"%s\",\"r\":%ld,\"off\":%ld,\"acc\":\"%s\",\"mapped\":%d,\"pc\":%ld,\"bt\":%s}",
        (err & 0x2) ? "WriteFault" : "AccessFault", r->id, (long) ((uint8_t *) si->si_addr - r->base), acc, r->st == 1, pc, bt);
    log_flush ();
    _exit (41);
  }
  {
    /* does a register hold a pointer read from a released (0xDD-filled) block? */
    int poison = 0;
#if defined(__x86_64__)
    int i;
    for (i = 0; i < NGREG; i++)
      if (i != REG_EFL && i != REG_CSGSFS && i != REG_ERR && i != REG_TRAPNO
          && ((unsigned long long) uc->uc_mcontext.gregs[i] >> 16) == 0xDDDDDDDDDDDDULL)
        poison = 1;
#endif
    ev ("{\"e\":\"Crash\",\"sig\":%d,\"poison\":%d,\"pc\":%ld}", sig, poison, pc);
  }
  log_flush ();
  sigaction (SIGSEGV, &old_segv, NULL); /* ASan's handler (if any) reports the re-executed access */
  sigaction (SIGBUS, &old_bus, NULL);
}

/* ------------------------------------------------------------------ control */
void c17_open (const char *path) {
  struct sigaction sa;
  void *warm[4];
  backtrace (warm, 4); /* loads the unwinder now, not inside an allocator call */
  static char altstack[1 << 16];
  stack_t ss;
  log_fd = open (path, O_WRONLY | O_CREAT | O_TRUNC, 0644);
  if (log_fd < 0) {
    perror (path);
    exit (2);
  }
#ifdef C17_ASAN
  __asan_set_death_callback (log_flush); /* keep the partial trace when ASan aborts the process */
#endif
  ss.ss_sp = altstack;
  ss.ss_size = sizeof (altstack);
  ss.ss_flags = 0;
  sigaltstack (&ss, NULL);
  memset (&sa, 0, sizeof (sa));
  sa.sa_sigaction = on_fault;
  sa.sa_flags = SA_SIGINFO | SA_ONSTACK | SA_NODEFER;
  sigaction (SIGSEGV, &sa, &old_segv);
  sigaction (SIGBUS, &sa, &old_bus);
}

void c17_close (void) {
  log_flush ();
  if (log_fd >= 0) close (log_fd);
  log_fd = -1;
}

static void json_str (char *dst, size_t n, const char *s) {
  size_t j = 0;
  for (; *s && j + 2 < n; s++)
    if (*s != '"' && *s != '\\' && (unsigned char) *s >= 32 && (unsigned char) *s < 127) dst[j++] = *s; /* ASCII only */
  dst[j] = 0;
}

void c17_start (const char *history) {
  char b[300];
  json_str (b, sizeof (b), history);
  ev ("{\"e\":\"Start\",\"h\":\"%s\"}", b);
}

void c17_api (const char *f) {
  char b[100];
  json_str (b, sizeof (b), f);
  ev ("{\"e\":\"Api\",\"f\":\"%s\"}", b);
}

void c17_note (const char *k, long v) {
  char b[100];
  json_str (b, sizeof (b), k);
  ev ("{\"e\":\"Note\",\"k\":\"%s\",\"v\":%ld}", b, v);
}

void c17_abort (const char *why) {
  char b[300];
  json_str (b, sizeof (b), why);
  ev ("{\"e\":\"Abort\",\"why\":\"%s\"}", b);
  log_flush ();
}

void c17_finish (void) {
  size_t i;
  int k;
  for (k = 0; k < n_regs; k++) reg_diff (&regs[k]);
#ifndef C17_ASAN
  /* a released block must still hold the poison pattern */
  for (i = 0; i < tab_cap; i++)
    if (tab[i].st == ST_DEAD) {
      const uint8_t *p = (const uint8_t *) tab[i].p;
      size_t j;
      for (j = 0; j < tab[i].size; j++)
        if (p[j] != 0xDD) {
          ev ("{\"e\":\"UseAfterFree\",\"id\":%ld,\"off\":%zu}", tab[i].id, j);
          break;
        }
    }
#else
  (void) i;
#endif
  c17_note ("peak_live_blocks", (long) peak_live_blocks);
  c17_note ("quarantine_kb", (long) (quarantine_bytes >> 10));
  ev ("{\"e\":\"Finish\"}");
  log_flush ();
}

void c17_reset (void) {
  size_t i;
  int k;
  ev ("{\"e\":\"Reset\"}");
  log_flush ();
  for (i = 0; i < tab_cap; i++) {
    if (tab[i].st == ST_LIVE || tab[i].st == ST_DEAD || tab[i].st == ST_RAW) {
#ifdef C17_ASAN
      ASAN_UNPOISON_MEMORY_REGION ((void *) tab[i].p, tab[i].size);
#endif
      free ((void *) tab[i].p);
    }
    tab[i].st = ST_EMPTY;
  }
  tab_used = 0;
  for (k = 0; k < n_regs; k++) {
    munmap (regs[k].base, regs[k].maplen);
    free (regs[k].shadow);
  }
  n_regs = 0;
  next_id = next_reg = 1;
  straddling_protects = 0;
  live_bytes = quarantine_bytes = peak_live_blocks = live_blocks = 0;
}

/* ------------------------------------------------------------------ raw libc calls of library objects */
void *__wrap_malloc (size_t size) {
  void *p = malloc (size);
  ent_t *e = tab_add ((uintptr_t) p, size, ST_RAW);
  ev ("{\"e\":\"RawMalloc\",\"id\":%ld,\"size\":%zu,\"bt\":%s}", e->id, size, CALLER ());
  return p;
}

void *__wrap_calloc (size_t num, size_t esz) {
  void *p = calloc (num, esz);
  ent_t *e = tab_add ((uintptr_t) p, num * esz, ST_RAW);
  ev ("{\"e\":\"RawCalloc\",\"id\":%ld,\"size\":%zu,\"bt\":%s}", e->id, num * esz, CALLER ());
  return p;
}

void __wrap_free (void *p) {
  ent_t *e = p == NULL ? NULL : tab_find ((uintptr_t) p);
  /* owner: "user" = a block of the user's allocator handed to libc free; "libc" = a raw block;
     "dead" = already released; "none" = NULL or a pointer libc produced internally (strdup ...) */
  if (e != NULL && e->st == ST_LIVE) {
    ev ("{\"e\":\"RawFree\",\"id\":%ld,\"owner\":\"user\",\"bt\":%s}", e->id, CALLER ());
    block_retire (e); /* not handed to libc: it is the allocator's block */
  } else if (e != NULL && e->st == ST_RAW) {
    ev ("{\"e\":\"RawFree\",\"id\":%ld,\"owner\":\"libc\",\"bt\":%s}", e->id, CALLER ());
    e->st = ST_TOMB;
    free (p);
  } else if (e != NULL) {
    ev ("{\"e\":\"RawFree\",\"id\":%ld,\"owner\":\"dead\",\"bt\":%s}", e->id, CALLER ());
  } else {
    ev ("{\"e\":\"RawFree\",\"id\":0,\"owner\":\"none\",\"null\":%d,\"bt\":%s}", p == NULL, CALLER ());
    free (p);
  }
}

void *__wrap_realloc (void *old, size_t size) {
  ent_t *o = old == NULL ? NULL : tab_find ((uintptr_t) old), *e;
  long oid = o ? o->id : 0;
  const char *owner = o == NULL ? "none" : o->st == ST_LIVE ? "user" : o->st == ST_RAW ? "libc" : "dead";
  void *p;
  if (o != NULL && o->st == ST_RAW) {
    o->st = ST_TOMB;
    p = realloc (old, size);
  } else if (o != NULL && o->st == ST_LIVE) {
    p = malloc (size ? size : 1);
    memcpy (p, old, o->size < size ? o->size : size);
    block_retire (o);
  } else if (o != NULL) {
    p = malloc (size ? size : 1);
  } else {
    p = realloc (old, size);
  }
  e = tab_add ((uintptr_t) p, size, ST_RAW);
  ev ("{\"e\":\"RawRealloc\",\"old\":%ld,\"owner\":\"%s\",\"id\":%ld,\"size\":%zu,\"bt\":%s}", oid, owner, e->id, size, CALLER ());
  return p;
}

void *__wrap_mmap (void *addr, size_t len, int prot, int flags, int fd, off_t off) {
  ev ("{\"e\":\"RawMmap\",\"len\":%zu,\"bt\":%s}", len, CALLER ());
  return mmap (addr, len, prot, flags, fd, off);
}

int __wrap_munmap (void *addr, size_t len) {
  reg_t *r = reg_find (addr);
  ev ("{\"e\":\"RawMunmap\",\"r\":%ld,\"len\":%zu,\"bt\":%s}", r ? r->id : 0L, len, CALLER ());
  if (r != NULL) return 0; /* a region of the user's code allocator: not handed to the kernel */
  return munmap (addr, len);
}

int __wrap_mprotect (void *addr, size_t len, int prot) {
  reg_t *r = reg_find (addr);
  ev ("{\"e\":\"RawMprotect\",\"r\":%ld,\"len\":%zu,\"prot\":%d,\"bt\":%s}", r ? r->id : 0L, len, prot, CALLER ());
  return mprotect (addr, len, prot);
}

/* other libc entry points that hand out or take over heap blocks: logged, then forwarded */
#define RAW_OTHER(name) ev ("{\"e\":\"RawOther\",\"f\":\"" name "\",\"bt\":%s}", CALLER ())
char *__wrap_strdup (const char *s) { RAW_OTHER ("strdup"); return strdup (s); }
char *__wrap_strndup (const char *s, size_t n) { RAW_OTHER ("strndup"); return strndup (s, n); }
int __wrap_posix_memalign (void **p, size_t a, size_t n) { RAW_OTHER ("posix_memalign"); return posix_memalign (p, a, n); }
void *__wrap_aligned_alloc (size_t a, size_t n) { RAW_OTHER ("aligned_alloc"); return aligned_alloc (a, n); }
void *__wrap_reallocarray (void *p, size_t a, size_t n) { RAW_OTHER ("reallocarray"); return reallocarray (p, a, n); }
ssize_t __wrap_getline (char **l, size_t *n, FILE *f) { RAW_OTHER ("getline"); return getline (l, n, f); }
ssize_t __wrap_getdelim (char **l, size_t *n, int d, FILE *f) { RAW_OTHER ("getdelim"); return getdelim (l, n, d, f); }
int __wrap_vasprintf (char **s, const char *fmt, va_list ap) { RAW_OTHER ("vasprintf"); return vasprintf (s, fmt, ap); }
int __wrap_asprintf (char **s, const char *fmt, ...) {
  va_list ap;
  int r;
  RAW_OTHER ("asprintf");
  va_start (ap, fmt);
  r = vasprintf (s, fmt, ap);
  va_end (ap);
  return r;
}
void *__wrap_mremap (void *a, size_t o, size_t n, int fl, ...) {
  RAW_OTHER ("mremap");
  return mremap (a, o, n, fl);
}
