#!/usr/bin/env python3
"""Development aid (never part of a verdict): reduction of a failing MIRProg case that keeps only candidates which the
SPECIFICATION still calls defined (spec/MIRRun.tla re-executes every candidate), so no undefined behaviour is introduced.
usage: tools/reduce2.py <replay.json | case.json> <engine> [variant]   -> prints the reduced MIR text, writes /tmp/reduced_case.json
failure = the engine's observation differs from the specification's (crash, timeout or different result/memory/log).
R2_INLINE=1 renders calls as `inline`, R2_MAINFIRST=1 defines main before the helpers (the C04 configurations)."""
import sys, json, copy, os, tempfile
sys.path.insert(0, '/verif/harness/py')
import vlib, progs, mirlib

def load(path):
    d = json.load(open(path))
    while isinstance(d, dict) and "prog" not in d:
        d = d["case"]
    return d

def specrun(case):
    f = tempfile.NamedTemporaryFile("w", suffix=".ndjson", dir=vlib.scratch_dir("rr-"), delete=False)
    f.write(json.dumps({"prog": case["prog"], "inputs": case["inputs"], "buf0": [({"k": "b", "v": c} if isinstance(c, int) else c) for c in case["buf0"]]}) + "\n"); f.close()
    r = vlib.run_tlc("MIRRun", "MIRRun.cfg", workers=1, env={"MIRRUN_CASE": f.name}, heap="2g", timeout=300)
    os.unlink(f.name)
    if not r.outs:
        return None
    return r.outs[-1]          # one case in the file: [n, status, why, result, buf, log, steps]

def failing(case, eng, variant):
    obs, texts = progs.run_cases([case], [eng], variant, inline_calls=bool(os.environ.get("R2_INLINE")), main_first=bool(os.environ.get("R2_MAINFIRST")))
    so, nans = progs.spec_obs(case)
    o = obs[0][eng]
    msg = progs.compare_obs(so, o, nans, "spec", eng)
    return msg

def drop(case, fi, i):
    """remove insn i (0-based) of function fi; labels are 1-based pcs"""
    c = copy.deepcopy(case)
    f = c["prog"]["funcs"][fi]
    pc = i + 1
    del f["insns"][i]
    def fix(l):
        return l - 1 if l > pc else l
    for I in f["insns"]:
        if "l" in I: I["l"] = fix(I["l"])
        if "ls" in I: I["ls"] = [fix(x) for x in I["ls"]]
        if "lr" in I: I["lr"] = {"l": fix(I["lr"]["l"]), "l2": fix(I["lr"]["l2"]) if I["lr"]["l2"] else 0, "d": I["lr"].get("d", 0)}
    if f.get("lrefs"):
        f["lrefs"] = [{"l": fix(x["l"]), "l2": fix(x["l2"]) if x["l2"] else 0, "d": x.get("d", 0)} for x in f["lrefs"]]
    return c

def main():
    case = load(sys.argv[1]); eng = sys.argv[2]; variant = sys.argv[3] if len(sys.argv) > 3 else "plain"
    msg0 = failing(case, eng, variant)
    assert msg0, "does not fail"
    kind0 = msg0.split(":")[0][:40]
    print("initial failure:", msg0[:200], file=sys.stderr)
    changed = True
    while changed:
        changed = False
        for fi in [0]:
            i = len(case["prog"]["funcs"][fi]["insns"]) - 2        # keep the final ret
            while i >= 0:
                I = case["prog"]["funcs"][fi]["insns"][i]
                cand = drop(case, fi, i)
                sr = specrun(cand)
                if sr is not None and sr["status"] == "done":
                    cand.update({k: sr[k] for k in ("status", "why", "result", "buf", "log", "steps")})
                    m = failing(cand, eng, variant)
                    if m and m.split(":")[0][:40] == kind0:
                        case = cand; changed = True
                        print("  dropped insn %d (%s): %d left" % (i, I["op"], len(case["prog"]["funcs"][fi]["insns"])), file=sys.stderr)
                i -= 1
    json.dump(case, open("/tmp/reduced_case.json", "w"))
    t = progs.render_prog(case["prog"])
    print(t[t.index("main: func") if "main: func" in t else 0:])

main()
