#!/usr/bin/env python3
"""Keeps the seeded-change table of DESIGN.md (section A.3) in step with seeded/*/meta.json: rows for changes that are not in the
table are appended, rows whose detection note changed are rewritten (only rows this tool wrote: they carry the full `change` id)."""
import glob, json, os, re

ROOT = os.path.dirname(os.path.dirname(os.path.abspath(__file__)))


def row(sid, m):
    det = m.get("detection") or ""
    if isinstance(det, list):
        det = " | ".join(str(x) for x in det)
    low = det.lower()
    first = "missed" if low.startswith(("missed", "not reported")) else "caught"
    if "caught now" in low or "caught after" in low or (first == "caught"):
        now = "caught"
    elif "caught by ./check" in low and "missed by" in low:
        now = "caught (other check)"
    else:
        now = "missed"
    if first == "caught" and "missed by ./check" in low and "caught by ./check" in low:
        first, now = "missed", "caught (other check)"
    by = det.split("|")[-1].strip()
    cut = lambda s, n: (s[:n] + "...") if len(s) > n else s
    cell = lambda s: s.replace("|", "/").replace("\n", " ")
    return "| %s %s | %s | %s | %s | %s |" % (sid, cell(cut(m.get("summary", ""), 150)), cell(cut(m.get("needs", ""), 110)), first, now, cell(cut(by, 170)))


def main():
    p = os.path.join(ROOT, "DESIGN.md")
    t = open(p).read()
    a, b = t.index("### A.3"), t.index("Lessons recorded:")
    sec = t[a:b]
    lines = sec.rstrip("\n").split("\n")
    listed = {}
    for i, l in enumerate(lines):
        mm = re.match(r"\| (C\d\d)-m(\d)(?:\.\.m(\d))? ", l)
        if mm:
            for k in range(int(mm.group(2)), int(mm.group(3) or mm.group(2)) + 1):
                listed["%s-m%d" % (mm.group(1), k)] = (i, mm.group(3) is not None)
    n_new = n_upd = 0
    for d in sorted(glob.glob(os.path.join(ROOT, "seeded", "*"))):
        sid = os.path.basename(d)
        m = json.load(open(os.path.join(d, "meta.json")))
        r = row(sid, m)
        if sid not in listed:
            lines.append(r); n_new += 1
        else:
            i, ranged = listed[sid]
            if not ranged and lines[i] != r and lines[i].startswith("| %s " % sid) and lines[i].count("...") >= 1:
                lines[i] = r; n_upd += 1
    total = len(glob.glob(os.path.join(ROOT, "seeded", "*")))
    open(p, "w").write(t[:a] + "\n".join(lines) + "\n\n" + t[b:])
    print("seeded changes: %d, rows added %d, rows refreshed %d" % (total, n_new, n_upd))


if __name__ == "__main__":
    main()
