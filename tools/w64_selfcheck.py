#!/usr/bin/env python3
"""Development aid (not part of any check's oracle): cross-checks spec/lib/W64.tla + spec/MIRInsn.tla integer
semantics against Python big integers on the C02 grid.  usage: tools/w64_selfcheck.py [quick|full]"""
import sys, operator
sys.path.insert(0, '/verif/harness/py')
import vlib
grid = sys.argv[1] if len(sys.argv) > 1 else "quick"
r = vlib.run_tlc("C02Table", "C02Table.cfg", workers=16, env={"C02_GRID": grid}, heap="8g")
print("rc", r.rc, "generated", r.states, "rows", len(r.outs), "%.1fs" % r.wall)
if r.rc:
    print("\n".join(l for l in r.out.splitlines() if '"OUT' not in l)[-3000:]); sys.exit(2)
M = (1 << 64) - 1
def w(l): return l[0] | l[1] << 16 | l[2] << 32 | l[3] << 48
def s(x, bits=64): return x - (1 << bits) if x >> (bits - 1) else x
names32 = {'adds','subs','muls','divs','udivs','mods','umods','ands','ors','xors','lshs','rshs','urshs','eqs','nes','lts','ults',
           'les','ules','gts','ugts','ges','uges','addos','subos','mulos','umulos'}
cm = {'eq': operator.eq, 'ne': operator.ne, 'lt': operator.lt, 'le': operator.le, 'gt': operator.gt, 'ge': operator.ge}
def ref(o, a, b):
    if o == 'mov': return a
    if o.startswith('ext') or o.startswith('uext'):
        n = int(o.lstrip('uext')); x = a & ((1 << n) - 1)
        return (s(x, n) & M) if o.startswith('ext') else x
    if o == 'neg': return (-a) & M
    if o == 'negs': return (-a) & 0xffffffff
    is32 = o in names32
    core = o[:-1] if is32 else o
    bits = 32 if is32 else 64
    mask = (1 << bits) - 1
    x = a & mask; y = b & mask; sx = s(x, bits); sy = s(y, bits)
    if core in ('add', 'addo'): return (x + y) & mask
    if core in ('sub', 'subo'): return (x - y) & mask
    if core in ('mul', 'mulo', 'umulo'): return (x * y) & mask
    if core in ('div', 'mod'):
        if y == 0 or (sx == -(1 << (bits - 1)) and sy == -1): return None
        q = abs(sx) // abs(sy); q = -q if (sx < 0) != (sy < 0) else q
        return (q if core == 'div' else sx - q * sy) & mask
    if core in ('udiv', 'umod'):
        if y == 0: return None
        return x // y if core == 'udiv' else x % y
    if core == 'and': return x & y
    if core == 'or': return x | y
    if core == 'xor': return x ^ y
    if core in ('lsh', 'rsh', 'ursh'):
        if b >= bits: return None
        if core == 'lsh': return (x << b) & mask
        if core == 'ursh': return x >> b
        return (sx >> b) & mask
    if core in cm: return int(cm[core](sx, sy))
    if core[0] == 'u' and core[1:] in cm: return int(cm[core[1:]](x, y))
    raise Exception(o)
bad = 0
for row in r.outs:
    op = row['op']; a = w(row['a']); b = w(row.get('b', [0, 0, 0, 0])); ok = row['r']['ok']; v = w(row['r']['v'])
    e = ref(op, a, b)
    if (e is None) != (not ok) or (e is not None and e != v):
        bad += 1
        if bad < 10: print("MISMATCH", row, e)
    if 'fs' in row:
        is32 = op.endswith('os'); bits = 32 if is32 else 64; mask = (1 << bits) - 1
        x = a & mask; y = b & mask; sx = s(x, bits); sy = s(y, bits)
        core = op[:-1] if is32 else op
        f = {'addo': operator.add, 'subo': operator.sub, 'mulo': operator.mul, 'umulo': operator.mul}[core]
        es = not (-(1 << (bits - 1)) <= f(sx, sy) < (1 << (bits - 1)))
        eu = not (0 <= f(x, y) <= mask)
        if es != row['fs'] or eu != row['fu']:
            bad += 1
            if bad < 10: print("FLAG MISMATCH", row, es, eu)
print("rows", len(r.outs), "bad", bad)
sys.exit(1 if bad else 0)
