#!/usr/bin/env python3
"""Development aid: reduce a failing C20 replay case (C translation differs from the interpreter)."""
import sys, json, shutil
sys.path.insert(0, '/verif/harness/py')
import vlib, mirlib, progs, c20
d = json.load(open(sys.argv[1]))
text = d["case"]["text"]; hx = progs.cells_bytes(d["case"]["case"]["buf0"])[0].hex()
m2c, drv = c20.build_m2c(); exe = mirlib.build_runner("plain"); work = vlib.scratch_dir("r20-")
KIND = [None]
def fails(t):
    io = progs.Obs(mirlib.run_group(exe, t, "interp", [("entry", hx)], timeout=60)[0])
    if io.status != "ok": return False
    kind, co = c20.translate_and_run(m2c, drv, t, hx, work, "r")
    k = kind if kind != "ok" else ("diff" if (io.ret, io.buf, io.log) != (co.ret, co.buf, co.log) else None)
    if KIND[0] is None: KIND[0] = k
    return k is not None and k == KIND[0]
lines = text.split("\n")
assert fails(text), "does not fail"
i0 = next(i for i, l in enumerate(lines) if l.startswith("entry:")) + 2
changed = True
while changed:
    changed = False
    i = i0
    while i < len(lines):
        l = lines[i]
        if l.endswith(":") or l.startswith(" ret") or l.startswith(" end") or not l.strip() or any(x in l for x in ("r8,", "r8)", "r9", "r10", "r11")) or (i < i0 + 17 and "(r1)" in l and "mov" in l):
            i += 1; continue
        cand = lines[:i] + lines[i + 1:]
        if fails("\n".join(cand)):
            lines = cand; changed = True
        else:
            i += 1
shutil.rmtree(work, ignore_errors=True)
import re
F = re.compile(r'^ mov r[2-7], i64:[0-9]*\(r1\)$|^ [dfl]*mov r1[2-8], |^ mov r[89], |^ mov r11, 0|^ local|^ [dfl]*mov [dfl]*:2[0-9][0-9]\(r1\)|^ mov i64:[12][0-9][0-9]\(r1\), r[2-7]$')
print(KIND[0]); print("\n".join(l for l in lines[i0 - 2:] if not F.match(l)))
