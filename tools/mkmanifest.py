#!/usr/bin/env python3
"""Regenerates /verif/MANIFEST.json from the table below (single source of truth for the interface)."""
import json, os, subprocess
HERE = os.path.dirname(os.path.dirname(os.path.abspath(__file__)))
ALL = ["C%02d" % i for i in range(1, 21)]

# id -> dict(level, text, note, technique, design, thorough?)
CLAIMED = {
 "C19": dict(level="model_checking",
   text="TLC checks that the implementation-shaped HTab/Bitmap/Varr/DList algorithms refine the abstract map/set/sequence for all "
        "hash functions and aliasing patterns within small constants; every transition of those state graphs is then replayed on the "
        "real headers under ASan/UBSan with return values, changed flags, free-function calls, iteration order and internal scalars compared.",
   note="Trusted: TLC, clang sanitizers, the projection code in harness/c19_*.c. Bounds in spec/*_mc.cfg, *_t.cfg.",
   technique="TLA+ refinement spec + TLC BFS; exhaustive transition replay into the header code (direction A)",
   design="DESIGN.md §4 C19, §3.7"),
}
NOT_YET = "not claimed yet: the specification/binding for this property is still under construction in this round (DESIGN.md §7 order)"

def main():
    repo_hooks = []
    try:
        out = subprocess.run(["git", "-C", "/repo", "log", "--format=%h %s"], stdout=subprocess.PIPE).stdout.decode()
        repo_hooks = [l.split()[0] for l in out.splitlines() if l.split(" ", 1)[1].startswith("hook:")]
    except Exception:
        pass
    m = {
      "version": 1,
      "setup_cmd": "./check --setup",
      "hooks": {"guard": "MIR_VERIF", "enable": "every check compiles /repo sources itself with -DMIR_VERIF (harness/py/vlib.py build_lib)",
                "baseline_off_cmd": "./check --baseline-off", "source_commits": repo_hooks, "add_only": True},
      "engines": [{"name": "tlc", "path": "/opt/veriftools/tla/tla2tools.jar", "serves_properties": sorted(CLAIMED),
                   "kind_free_text": "TLC 1.8 model checker / simulator on the TLA+ modules in spec/; behaviours are emitted as JSON and replayed into the real code, or recorded traces are validated against Trace*.tla"}],
      "checks": [],
      "not_applicable": [],
      "notes": "Entry point ./check <ID> [--tier quick|thorough] [--replay <path>] [--selftest]. Specs in spec/, harness in harness/. See DESIGN.md.",
    }
    for pid in ALL:
        if pid in CLAIMED:
            c = CLAIMED[pid]
            m["checks"].append({
              "property_id": pid,
              "quick_cmd": "./check %s --tier quick" % pid,
              "thorough_cmd": "./check %s --tier thorough" % pid,
              "evidence_file": "evidence/%s.json" % pid,
              "replay_cmd_template": "./check %s --replay {path}" % pid,
              "engine": "tlc",
              "level_claimed": {"category": c["level"], "text": c["text"], "design_ref": c["design"]},
              "level_note": c["note"],
              "technique": c["technique"]})
        else:
            m["not_applicable"].append({"property_id": pid, "reason": NOT_YET})
    with open(os.path.join(HERE, "MANIFEST.json"), "w") as f:
        json.dump(m, f, indent=1)
        f.write("\n")
    print("MANIFEST.json: %d claimed, %d not_applicable" % (len(m["checks"]), len(m["not_applicable"])))

if __name__ == "__main__":
    main()
