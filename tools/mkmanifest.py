#!/usr/bin/env python3
"""Regenerates /verif/MANIFEST.json from the table below (single source of truth for the interface)."""
import json, os, subprocess
HERE = os.path.dirname(os.path.dirname(os.path.abspath(__file__)))
ALL = ["C%02d" % i for i in range(1, 21)]

# id -> dict(level, text, note, technique, design, thorough?)
CLAIMED = {
 "C19": dict(level="model_checking",
   text="TLC checks that the implementation-shaped HTab/Bitmap/Varr/DList algorithms refine the abstract map/set/sequence for all "
        "hash functions and aliasing patterns within small constants; every transition of those state graphs is then replayed on the "
        "real headers under ASan/UBSan with return values, changed flags, free-function calls, iteration order and internal scalars compared.",
   note="Trusted: TLC, clang sanitizers, the projection code in harness/c19_*.c. Bounds in spec/*_mc.cfg, *_t.cfg.",
   technique="TLA+ refinement spec + TLC BFS; exhaustive transition replay into the header code (direction A)",
   design="DESIGN.md §4 C19, §3.7"),
 "C02": dict(level="model_checking",
   text="MIRInsn.tla (with W64/FPx value domains) transcribes MIR.md instruction by instruction; TLC evaluates every integer/FP opcode, "
        "load/store type, compare-and-branch and overflow-flag branch over a boundary grid (complete for the stated grid), and each row is "
        "replayed through one-instruction functions in every operand shape (reg, imm, memory with base/disp/index*scale, 64-bit register "
        "against 32-bit memory operand, dst==src aliasing, constant operands, flag state before an overflow insn; all 36 chains of two "
        "extension insns) on the interpreter and on code generated at the optimisation levels.",
   note="Trusted: TLC, the W64/FPx modules (cross-checked against big integers by tools/w64_selfcheck.py), gcc host arithmetic only for FP results "
        "the exact domain reports inexact. Undefined cases (shift counts, division by zero, INT_MIN/-1, FP->int range) are not replayed.",
   technique="TLA+ instruction semantics evaluated by TLC as a complete table; table rows replayed into interpreter and generated code",
   design="DESIGN.md §4 C02, §3.1"),
 "C01": dict(level="model_checking",
   text="MIRProg.tla builds well-formed MIR programs nondeterministically (about 80 templates over the instruction vocabulary: irreducible control flow, "
        "switch, laddr/jmpi and label-reference items, self loops, alloca and bstart/bend, direct/indirect/variadic/callback calls, block arguments, "
        "overflow insns, f/d/ld arithmetic, addr insns, global variables tied to hard registers, data/bss/ref sections, absolute addressing) and MIRSem.tla executes them; TLC simulation yields programs whose "
        "run is defined, with their observations. Each is run under the interpreter and generated code at -O0..-O3; any difference from the "
        "interpreter in result, caller-visible memory or external-call log is a violation. Parametric families (families.py, c01.py; expected values "
        "from MIRRun.tla) add the shapes optimiser passes look for: dead lref islands, loop nests with insns that must not move, all 3-access "
        "sequences over an overlapping window, constants meeting internal numbers, FP comparisons on special values, block cloning, and+extension, "
        "spilled base/index accesses, global variables around calls, property insns, jcall/jret.",
   note="The specification certifies well-definedness (division, shifts, uninitialised reads, address-dependent values, undefined upper halves of "
        "32-bit results, inexact FP) so UB programs are never replayed. Bounded: 12 random slots per program, sampled not exhaustive.",
   technique="TLA+ abstract machine + program constructor; TLC-simulated behaviours replayed on interpreter vs generator (direction A)",
   design="DESIGN.md §4 C01, §3.3"),
 "C04": dict(level="model_checking",
   text="Same TLA+ machine, used as the independent oracle for the program as written (real calls, fresh alloca blocks, argument narrowing, "
        "result extension): programs biased to calls of small/recursive/alloca-using/multi-result helpers, branches and jumps are linked and "
        "interpreted with calls as written, with every call as `inline`, and in a library with inlining disabled; each must equal the spec.",
   note="Trusted: MIRSem.tla as transcription of MIR.md; sampled by TLC simulation, not exhaustive.",
   technique="TLA+ abstract machine as oracle for MIR_link's simplifier/inliner; TLC behaviours replayed through the interpreter",
   design="DESIGN.md §4 C04"),
 "C05": dict(level="model_checking",
   text="TLC explores the complete state graph of the psABI argument-placement machine of spec/SysVABI.tla (integer/vector register counters, "
        "stack parity, next argument kind incl. every scalar type, long double, blk0..blk4, rblk; 126 states, every transition) under four "
        "invariants, and emits one prototype per transition with the expected location of every eightbyte, `...` variants, every legal result "
        "list and long random prototypes (simulation). Every prototype is executed through the interpreter FFI and MIR_gen -O0..-O3 against an "
        "assembly probe that captures the register/stack image and against a gcc-compiled C callee; placement, %al, stack alignment, "
        "narrow-argument extension and results are compared with the specification.",
   note="Trusted: SysVABI.tla as transcription of the psABI and gcc as second oracle; x86-64 only (the host).",
   technique="TLA+ psABI placement machine explored exhaustively by TLC; one real call per transition against an assembly probe and a gcc callee",
   design="DESIGN.md §4 C05, A.4"),
 "C06": dict(level="model_checking",
   text="Signatures are the prototypes TLC derives from spec/SysVABI.tla (every transition, `...` variants, result lists, random long "
        "signatures). For each, a MIR function from a body family (leaf, register pressure, calls, alloca+calls, variadic consumer with va_arg "
        "and va_block_arg) is entered from an assembly trampoline that places arguments per the spec, fills callee-saved registers with "
        "sentinels and sets non-default MXCSR/x87 control words, through the interpreter shim, generated code -O0..-O3 and the lazy thunk. "
        "Recorded Call/Obs/Ret events are validated by spec/TraceABI.tla, which recomputes parameter values, results, preserved registers, "
        "stack pointer and control words from the raw machine image (direction A and B).",
   note="Trusted: SysVABI.tla/TraceABI.tla; x86-64 only (the host).",
   technique="TLC-derived signatures replayed through an assembly trampoline; recorded Call/Obs/Ret traces validated by TraceABI.tla",
   design="DESIGN.md §4 C06, A.4"),
 "C07": dict(level="model_checking",
   text="TLA+ specs CExpr (C11 6.3.1 / 6.4.4.1 / 6.5 integer expression typing and values on LP64 incl. casts, assignments, ++/--, bit-field "
        "operands and stores through pointers to scalars), CStmt (continuation-stack control flow: if/while/do/for/switch with fall-through, "
        "break/continue/goto/return) and CInit (6.7.9 initialisers with designators, nested lists, strings, bit-fields) are evaluated by TLC, "
        "exhaustive BFS within the .cfg bounds plus seeded simulation to depth 3. Every generated case carries the spec's type/value, event "
        "sequence or member values. Each case is rendered into C - each expression both where C requires a constant expression and over "
        "volatile and plain objects - and run under gcc and under c2m per engine. VIOLATION iff spec == gcc and c2m differs, rejects, "
        "crashes or hangs.",
   note="Quick about 90k cases (expression depth <= 3, statement trees depth <= 3, initialiser lists of <= 2 items) with -ei and -O2 -eg; "
        "thorough about 1.2M cases with -ei, -eg -O0..3, -el, -eb. Not exhaustive as a whole (the sim jobs sample). Integer fragment only; "
        "implementation-defined choices fixed as gcc documents them (modular conversion to signed, arithmetic >> of negatives, signed plain "
        "char); UB trees are dropped by the spec. One listed finding (positional initialiser after a string-literal member).",
   technique="TLC function tables and state graphs of C semantics specs with two-oracle replay (gcc as second oracle) through c2m, per-case "
             "child processes, failing cases re-run before report",
   design="DESIGN.md §4 C07, §3.9"),
 "C08": dict(level="model_checking",
   text="TLC enumerates struct/union declarations of spec/CLayout.tla (scalar, array, bit-field incl. unnamed/zero-width, nested and anonymous "
        "members; flat to 3 members exhaustively, nested and long ones by simulation) and computes size, alignment, every leaf's offset/bit "
        "position/width/signedness and the psABI eightbyte classes. Each declaration is compiled by c2m (interpreter; -eg -O2 in thorough) "
        "and gcc into a unit that prints sizeof/_Alignof/offsetof and bit-field byte dumps; VIOLATION iff spec == gcc and c2m differs. "
        "By-value passing: for every distinct (classes, size, leaf signature) shape caller/callee pairs with one side compiled by c2m and the "
        "other by gcc, both directions, seven argument positions and as return value; uninitialised static objects must get sizeof bytes.",
   note="Trusted: CLayout.tla as transcription of the psABI layout/classification rules, with gcc as second oracle (two-oracle rule: "
        "spec != gcc is counted as SPEC-DISAGREES, never a violation); x86-64 only.",
   technique="TLA+ psABI layout/classification spec enumerated by TLC; each declaration compiled by c2m and gcc and compared; cross-compiler calls",
   design="DESIGN.md §4 C08, A.4"),
 "C15": dict(level="model_checking",
   text="TLC evaluates Verdict() of spec/MIRCheck.tla, written from MIR.md and not from insn_descs, on the complete table: every documented "
        "opcode x operand position x 46 operand kinds, arity, ret vs result types, call/inline/jcall vs 8 prototypes incl. block args and "
        "vararg tail, overflow-branch/va_start/jret rules, register and function declarations (28k rows), and every transition of the MIRApi "
        "construction-call protocol graph. Each row is built through the real API in a forked child with a recording error function; "
        "accept/reject is compared exactly, the error code against the set the violated rules allow; every accepted well-formed row is loaded, "
        "linked and, if executable in isolation, interpreted; a dead child is a violation. Thorough repeats the rows through MIR_scan_string "
        "and under ASan/UBSan.",
   note="Exhaustive over the stated alphabet with the other operand positions valid (single-fault rows; ret and call also pairs). Rows where "
        "MIR.md is silent are replayed and counted, never alarmed on except for a crash while building. Trusted: TLC, harness/c15_check.c row "
        "construction, row_line/judge in c15.py.",
   technique="TLA+ function-table spec evaluated by TLC (split over JVMs) + BFS transition emission for the API protocol; replay into the API",
   design="DESIGN.md §4 C15, §3.2, §3.4"),
 "C20": dict(level="model_checking",
   text="Programs and their well-definedness come from MIRProg.tla/MIRSem.tla restricted to functions with at most one result; every well-defined "
        "program is translated by MIR_module2c (must terminate), compiled by gcc (must be accepted), run, and its result, caller-owned memory and "
        "external-call log compared with MIR_interp (and the spec). In addition the complete C02 instruction table (C02Table.tla: every "
        "integer/FP opcode, load/store type and branch x boundary grid, chains of two extensions) is replayed through the translator in every "
        "operand shape: the compiled C must give the value the specification gives (about 300k executions in quick).",
   note="Translation compiled with gcc -O0 -fwrapv -fno-strict-aliasing so that C-level signed-overflow UB in the emitted code is not exploited; "
        "sampled by TLC simulation.",
   technique="TLA+ abstract machine + program constructor; TLC behaviours replayed through mir2c+gcc vs the interpreter",
   design="DESIGN.md §4 C20"),
 "C16": dict(level="model_checking",
   text="MIRGenLife.tla models link/interface choice, explicit, eager and lazy whole-function generation, repeated generation, output, "
        "interpretation, calls through the public address and a module linked later that calls and inlines already generated functions; TLC "
        "checks GenIdempotent/NoRegress/CodeImpliesTarget and emits every transition of the state graph with a shortest path. Each history is "
        "replayed on program pairs built by MIRProg.tla: after every action the MIR_output_item text of each function must equal the text "
        "recorded after the first link, MIR_gen must return the entry it returned before, item->addr must not move, and every call must give "
        "the specification's result, memory and external-call log.",
   note="Histories exhaustive to depth 4 (quick) / 6 (thorough) over 3 functions; programs sampled. Lazy-BB generation is outside this property.",
   technique="TLA+ lifecycle state machine (TLC BFS, all transitions) replayed through the API on TLC-generated programs (direction A)",
   design="DESIGN.md §4 C16, §3.5"),
 "C03": dict(level="model_checking",
   text="MIRExec.tla enumerates every history: link with one of the interfaces (interpreter, eager, lazy, lazy-BB generation; -O0..-O3), then "
        "three calls of the two entry functions in any order through MIR_interp or the public address; TLC checks the thunk-state properties "
        "(Monotone, LinkedBeforeCall). Each history is replayed on two-module programs built and executed by MIRProg/MIRSem (direct, indirect, "
        "recursive calls, C callback re-entering MIR, label addresses/jmpi, alloca, FP): every call must give the specification's result, "
        "memory and external-call log whatever the interface, and item->addr of every function must stay the same.",
   note="Histories exhaustive for 2 entries x 3 calls; programs sampled (96 quick / 600 thorough). Property insns are excluded as in the property.",
   technique="TLA+ interface/first-call state machine (TLC, all histories) x TLA+ abstract machine as oracle; replay through every interface",
   design="DESIGN.md §4 C03, §3.5"),
 "C09": dict(level="model_checking",
   text="spec/CPP.tla models C11 6.10 on abstract tokens: Prosser's hide-set algorithm (expand/subst/glue/hsadd/stringize, placemarkers, "
        "__VA_ARGS__, argument pre-expansion, blue paint, rescanning with the rest of the source), the conditional-group stack, and #if "
        "evaluation in intmax_t/uintmax_t on spec/lib/W64cpp.tla with the 6.10.1p4 signedness rules. TLC enumerates by BFS every macro "
        "environment/invocation text, conditional nesting (depth 3) and one-operator #if expression of the stated bounds and simulates larger "
        "ones (3 macros, lists <= 5, text <= 6, expression depth 3 over a 36-value grid), emitting each case with the expected token sequence, "
        "selected groups, or value/signedness. Every defined case is rendered to C source and run through `c2m -E` and `gcc -E -P -std=c11`; "
        "token spellings are compared; a violation needs spec and gcc to agree against c2m.",
   note="Unspecified, undefined and ill-formed cases are never replayed (order of # and ##, invalid pastes, 6.10.3.4p4 nesting policy, signed "
        "overflow, division by zero, bad shifts, unterminated invocations). Trusted: TLC, gcc as second oracle, the re-lexer/renderer in c09.py, "
        "W64cpp.tla (cross-checked against host integers in selftest).",
   technique="TLA+ executable semantics (Prosser hide sets, conditional stack, 64-bit limb arithmetic) evaluated by TLC as exhaustive case tables "
             "and simulations; cases replayed through c2m -E with gcc -E as second oracle",
   design="DESIGN.md §4 C09, §3.9"),
 "C10": dict(level="model_checking",
   text="MIRModule.tla defines the abstract module syntax and a hole-filling constructor over the whole item/instruction/operand vocabulary "
        "(all 10 item kinds, functions with blk/rblk/vararg/locals/hard-register globals, every operand kind incl. alias annotations); "
        "MIRText.tla is the Output/Scan/Execute history machine (RoundTripId, TextFixpoint, Deterministic, SameRun). Every TLC-built module is "
        "built through the API and, independently, from text rendered from the abstract module; a history is replayed into fresh contexts; "
        "after every step the projection of the public structs must equal the abstract module (its text normal form after a scan), the writer "
        "must return (crash/ASan = violation), all texts must be byte-identical, and MIRProg programs must give the specification's "
        "observations in every copy.",
   note="Items exhaustive at tiny bounds; single instructions exhaustive per operand position (thorough); simulation for combinations; finite "
        "FP immediates, bss < 2^63, disjoint name pools; features with a listed defect are probed, reported once under their key and rewritten "
        "out of the bulk until fixed. Two listed findings (string operand without NUL, label renumbering).",
   technique="TLA+ constructor (TLC BFS + simulation) and I/O history machine replayed through API, scanner and writer with a projection dumper",
   design="DESIGN.md §4 C10, §3.2, §3.8"),
 "C11": dict(level="model_checking",
   text="MIRBin.tla specifies the binary token grammar as a decoder that TLC evaluates on the real writer's bytes (after the real decompressor): "
        "the decoded module must equal the abstract module and satisfy the writer obligations (shortest tags, canonical memory tag, "
        "first-occurrence string numbering, zero long-double padding); MIRBin.Encode generates streams (label numbers and tag lengths across all "
        "1..8-byte boundaries) that the real compressor and MIR_read* must turn into the same module; MIRText histories in mode bin (write/read "
        "via callbacks and FILE*, output, execute) are replayed on modules with non-finite FP, embedded NULs, two-module contexts, sizes up to "
        "3.5 compression buffers, and MIRProg programs: projections, texts, byte strings (two writes, rewrite after read, other caller padding) "
        "and observations must coincide.",
   note="TLC parses about 0.3 MB (quick) / 8 MB (thorough) of writer output, smallest streams first plus one stream over 2 buffers; streams "
        "over budget are checked by round trip only; x86-64 long double layout assumed.",
   technique="TLA+ format grammar evaluated by TLC on implementation output (direction B) + TLC-generated streams and histories replayed (direction A)",
   design="DESIGN.md §4 C11, §3.8"),
 "C12": dict(level="model_checking",
   text="TLC checks a branch-by-branch transcription of reduce_decode_start/get/finish (spec/Reduce.tla), with every bounds check and explicit "
        "out-of-bounds/unwritten-cell states, against an abstract stream layer (grammar, ValidStream, Expand, Serialise). Lossless, Strict and "
        "MemorySafe hold for all byte strings of a reduced alphabet up to 8-11 items, all streams of at most 2-3 elements with every "
        "truncation/substitution/extension, and MemorySafe for strings of any length at BufLen 8. Every classified stream is decoded by the "
        "real mir-reduce.h (small-window build via hook H1, ASan/UBSan) and ok flag plus output compared. Real encoder outputs (all 2/3-symbol "
        "strings, multi-buffer, long/repetitive/incompressible, binary-MIR payloads) are parsed by TLC (valid, canonical, Expand = input) and "
        "round-tripped. Single-byte corruptions, truncations and extensions of real encodings must be rejected without a sanitizer report.",
   note="The hash stays outside TLA+: the spec reports trailer and data, the harness completes the verdict with mir_hash_strict. Strict is "
        "decided as accepted => complete valid stream with matching hash; a corrupted stream that is itself a valid alias with the same meaning "
        "is tolerated only if TLC says so. Small-window tiers need hook H1. Production encodings over 3-12 KB are round-tripped but not "
        "TLC-parsed. Trusted: TLC, clang sanitizers, harness/c12_reduce.c.",
   technique="TLA+ decoder-shaped machine plus abstract stream spec, TLC BFS (VIEW for any-length MemorySafe); exhaustive replay into the real "
             "decoder; TLC-side parsing of real encoder output from an ndjson file via IOEnv",
   design="DESIGN.md §4 C12, §3.8"),
 "C13": dict(level="model_checking",
   text="MIRLink.tla is an implementation-shaped machine (environment table, to-link queue, bindings of linked modules, redefinition "
        "permission) with an independent definition history in which BindLatest, RedefRejected, UndefinedReported, LocalBinding and "
        "OldBindingsStable are stated; TLC checks them in every reachable state of all load / load_external / set_permission / link(resolver) "
        "histories within the bounds (3 names, 11 module shapes incl. ill-formed and dangling declarations, <=4 modules, depth 6 quick / 7 "
        "thorough, plus simulated depth-16 histories) and emits every transition with a shortest behaviour. Each behaviour is replayed through "
        "the MIR API on a fresh context: error verdict/code at every step, resolver call sequence, and after every link the address and the "
        "MIR_CALL/MIR_INLINE result of every import/forward of every module linked so far, plus a first execution delayed to the end.",
   note="Exhaustive within the bounds of spec/MIRLink_*.cfg. Behaviour on which MIR.md is silent is modelled as named deviations "
        "(DevRedefAnyEntry, DevResolverRegisters, DevDupDeclMerged, DevDanglingAccepted) and not alarmed on. Trusted: TLC, harness/c13_link.c.",
   technique="TLA+ state machine with history variables; TLC BFS with hidden history (VIEW) + simulation; every transition replayed into "
             "MIR_load_module/MIR_load_external/MIR_link (direction A)",
   design="DESIGN.md §4 C13, §3.4"),
 "C14": dict(level="model_checking",
   text="MIRData.tla defines Layout (sections: head, members, size; per item section/offset/length) and Contents (declared bytes, zeros, "
        "Addr(target)+disp, expression value, A(l1)[-A(l2)]+disp) and TLC enumerates every item sequence of the plan (all element types x "
        "lengths, bss, ref to earlier/later/import/other-module/function items, one- and two-label lref, expr, proto as section breaker, "
        "named/anonymous; length <=2 over the full alphabet and <=3 over a reduced one in quick, up to 5 in thorough). Each sequence is built "
        "through the API, loaded with a recording user MIR_alloc_t and linked under ASan/UBSan; compared: head is a block of >= section size, "
        "addr(i)-addr(head)=offset, section_head_p, every byte of data/bss/expr, ref values relationally, lref relations after preparing the "
        "function under the interpreter and the generator interfaces.",
   note="Exhaustive over the stated alphabets and lengths; addresses only compared relationally. Trusted: TLC, clang sanitizers, harness/c14_data.c.",
   technique="TLA+ layout/contents functions enumerated by TLC; each sequence replayed through MIR_new_*data / MIR_load_module / MIR_link with a checking allocator",
   design="DESIGN.md §4 C14, §3.4"),
 "C17": dict(level="model_checking",
   text="MIRAlloc.tla (ledger of live blocks with true sizes, mapped code regions with per-page write windows, Finish only with empty ledgers) "
        "is model-checked with TLC, and every allocator-call trace recorded from the real library is validated against it by TraceMIRAlloc.tla "
        "(quick ~100 API histories / 230k events; thorough ~1300 histories / 7-10M events). Traces come from checking MIR_alloc_t / "
        "MIR_code_alloc_t allocators (fresh ids, true sizes, always-moving realloc, quarantine and poison, write-protected code pages with a "
        "fault handler) and libc allocation calls of the library objects redirected by symbol renaming. A trace is accepted only if it is a "
        "behaviour of the spec: realloc reports the true old size, free only hits live blocks, no raw, foreign or double release, code written "
        "only inside a protect-W window, everything returned at Finish.",
   note="Bounded by the enumerated error-free histories (API-built modules, mir-tests, embedded C inputs, c-tests/new; single-threaded, x86-64). "
        "Reads of released memory are detected only in the asan variant. Long executions are validated as per-block-range projections sharing "
        "Start/Finish/Reset.",
   technique="TLA+/TLC trace validation (direction B) plus TLC model checking of the allocator contract; checking allocators; objcopy symbol renaming",
   design="DESIGN.md §4 C17, §3.6"),
 "C18": dict(level="exploration",
   text="Static inventory of every writable process-wide object of the library objects (exhaustive for .data/.bss/.tdata/.tbss/COMMON symbols, "
        "function-local statics included, in gcc -O0, gcc -O1 and clang builds, with the functions that store to or take the address of each) "
        "against the Globals constant of MIRThreads.tla, whose NoSharedWrite invariant TLC checks (a mutable static in the set yields the "
        "violating interleaving: _defect.cfg). All phase-overlap schedules (every transition of the MIRThreads schedule graph: 2 threads quick; "
        "3 threads, mixed MIR/C workloads, plus random complete schedules thorough) are executed on one context per thread under ThreadSanitizer "
        "and repeated in a plain build, per-thread results compared with the workload run alone and with the specification's expected result.",
   note="ThreadSanitizer observes only interleavings that happen and reports a given race probabilistically; schedules control which phases overlap, "
        "not individual accesses; generated machine code is not instrumented. The inventory / writer / address-taker comparison is exhaustive for "
        "what it checks: a new static, or a new function referencing a listed one, is detected without a lucky schedule.",
   technique="TLA+ spec of N threads x phases with a Globals inventory (TLC BFS emits every schedule-graph transition); pthread barrier harness under "
             "TSan and plain builds with workloads from MIRProg.tla; nm/objdump inventory and access map compared with the specification",
   design="DESIGN.md §4 C18, §3.6"),
}
NOT_YET = "not claimed yet: the specification/binding for this property is still under construction in this round (DESIGN.md §7 order)"

def main():
    repo_hooks = []
    try:
        out = subprocess.run(["git", "-C", "/repo", "log", "--format=%h %s"], stdout=subprocess.PIPE).stdout.decode()
        repo_hooks = [l.split()[0] for l in out.splitlines() if l.split(" ", 1)[1].startswith("hook:")]
    except Exception:
        pass
    m = {
      "version": 1,
      "setup_cmd": "./check --setup",
      "hooks": {"guard": "MIR_VERIF", "enable": "every check compiles /repo sources itself with -DMIR_VERIF (harness/py/vlib.py build_lib)",
                "baseline_off_cmd": "./check --baseline-off", "source_commits": repo_hooks, "add_only": True},
      "engines": [{"name": "tlc", "path": "/opt/veriftools/tla/tla2tools.jar", "serves_properties": sorted(CLAIMED),
                   "kind_free_text": "TLC 1.8 model checker / simulator on the TLA+ modules in spec/; behaviours are emitted as JSON and replayed into the real code, or recorded traces are validated against Trace*.tla"}],
      "checks": [],
      "not_applicable": [],
      "notes": "Entry point ./check <ID> [--tier quick|thorough] [--replay <path>] [--selftest]. Specs in spec/, harness in harness/. See DESIGN.md.",
    }
    for pid in ALL:
        if pid in CLAIMED:
            c = CLAIMED[pid]
            m["checks"].append({
              "property_id": pid,
              "quick_cmd": "./check %s --tier quick" % pid,
              "thorough_cmd": "./check %s --tier thorough" % pid,
              "evidence_file": "evidence/%s.json" % pid,
              "replay_cmd_template": "./check %s --replay {path}" % pid,
              "engine": "tlc",
              "level_claimed": {"category": c["level"], "text": c["text"], "design_ref": c["design"]},
              "level_note": c["note"],
              "technique": c["technique"]})
        else:
            m["not_applicable"].append({"property_id": pid, "reason": NOT_YET})
    with open(os.path.join(HERE, "MANIFEST.json"), "w") as f:
        json.dump(m, f, indent=1)
        f.write("\n")
    print("MANIFEST.json: %d claimed, %d not_applicable" % (len(m["checks"]), len(m["not_applicable"])))

if __name__ == "__main__":
    main()
