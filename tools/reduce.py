#!/usr/bin/env python3
"""Development aid: line-based reduction of a failing MIR text program.
usage: tools/reduce.py <text file> <hex buf> <engine> [ref engine]   (failure = engine crashes/timeouts or differs from ref)"""
import sys
sys.path.insert(0, '/verif/harness/py')
import vlib, mirlib
text = open(sys.argv[1]).read(); hx = sys.argv[2]; eng = sys.argv[3]; ref = sys.argv[4] if len(sys.argv) > 4 else "interp"
exe = mirlib.build_runner("plain")
KIND = [None]
def fails(t):
    b = mirlib.run_group(exe, t, eng, [("main", hx)], timeout=60)[0]
    if ref == "none":
        if KIND[0] is None: KIND[0] = b.status
        return b.status == KIND[0] and b.status != "ok"
    a = mirlib.run_group(exe, t, ref, [("main", hx)], timeout=60)[0]
    if a.status != "ok": return False
    k = b.status if b.status != "ok" else ("diff" if (a.ret, a.buf, a.log) != (b.ret, b.buf, b.log) else None)
    if KIND[0] is None: KIND[0] = k
    return k is not None and k == KIND[0]
lines = text.split("\n")
assert fails(text), "does not fail"
i0 = next(i for i, l in enumerate(lines) if l.startswith("main:")) + 2
changed = True
while changed:
    changed = False
    i = i0
    while i < len(lines):
        l = lines[i]
        if l.endswith(":") or l.startswith(" ret") or l.startswith(" end") or not l.strip() or any(x in l for x in ("r8,", "r8)", "r9", "r10", "r11")) or (i < i0 + 17 and "(r1)" in l and "mov" in l):
            i += 1; continue
        cand = lines[:i] + lines[i + 1:]
        if fails("\n".join(cand)):
            lines = cand; changed = True
        else:
            i += 1
print("\n".join(lines[i0 - 2:]))
