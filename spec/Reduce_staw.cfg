CONSTANTS
  BufLen = 16
  StartLen = 4
  MaxSymLen = 9
  Fixed = FALSE
  Mode = "streams"
  MaxCost = 0
  NE <- NEEnv
  TagSymF = {0}
  TagRefF = {0}
  DataBytes = {97}
  UintLead = {128}
  UintCont = {0}
  ElemSet <- ElemsSmall
  SubstVals = {0, 1, 31, 128, 224, 255}
INIT Init
NEXT Next
ACTION_CONSTRAINT EmitBad
