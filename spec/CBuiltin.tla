------------------------------ MODULE CBuiltin ------------------------------
(* GNU C built-in functions that gcc and c2mir both implement:               *)
(*   __builtin_add_overflow / __builtin_sub_overflow / __builtin_mul_overflow *)
(*       (a, b, &r): a and b of any integer types, r of any integer type;     *)
(*       the operation is done on the mathematical values of a and b (as if   *)
(*       in infinite precision); r receives the result reduced modulo 2^N to  *)
(*       its type; the call yields 1 iff the exact result is not              *)
(*       representable in the type of r (gcc manual, "Integer Overflow        *)
(*       Builtins");                                                          *)
(*   __builtin_expect (e, c): the value of e, converted to long; e is         *)
(*       evaluated exactly once.                                              *)
(* Exact results are carried as sign + 128-bit magnitude (two W64 words).     *)
(* Every case is emitted as C text (file-scope lines, statements, values to   *)
(* print) with the expected output; @ stands for the case number.             *)
EXTENDS Integers, Sequences, FiniteSets, W64, TLC, Json, Emit, IOUtils

CONSTANTS OpTypes,     \* types of the two operands
          ResTypes,    \* types of *r
          GridSel,     \* "g2" | "g3" | "full"
          MaxVa,       \* variable-argument lists of up to MaxVa arguments are enumerated
          Variants     \* subset of {"cv", "ci", "rv", "ri"}: constant / run-time operands, used as a value / as an if condition
VARIABLES lvl, fam, op, ta, tb, tr, va, vb, var, ex
vars == <<lvl, fam, op, ta, tb, tr, va, vb, var, ex>>
Part == IF "PART" \in DOMAIN IOEnv THEN atoi(IOEnv.PART) ELSE 0
NParts == IF "NPARTS" \in DOMAIN IOEnv THEN atoi(IOEnv.NPARTS) ELSE 1

(* ---- integer types (LP64), as in CExpr *)
Rank(t) == CASE t \in {"sc", "uc"} -> 1 [] t \in {"s", "us"} -> 2 [] t \in {"i", "u"} -> 3 [] t \in {"l", "ul"} -> 4 [] t \in {"ll", "ull"} -> 5
Width(t) == CASE t \in {"sc", "uc"} -> 8 [] t \in {"s", "us"} -> 16 [] t \in {"i", "u"} -> 32 [] OTHER -> 64
Signed(t) == t \in {"sc", "s", "i", "l", "ll"}
CName(t) == CASE t = "sc" -> "signed char" [] t = "uc" -> "unsigned char" [] t = "s" -> "short" [] t = "us" -> "unsigned short" [] t = "i" -> "int"
              [] t = "u" -> "unsigned" [] t = "l" -> "long" [] t = "ul" -> "unsigned long" [] t = "ll" -> "long long" [] t = "ull" -> "unsigned long long"
Conv(t, w) == CASE t = "sc" -> Ext8(w) [] t = "uc" -> UExt8(w) [] t = "s" -> Ext16(w) [] t = "us" -> UExt16(w)
                [] t = "i" -> Ext32(w) [] t = "u" -> UExt32(w) [] OTHER -> w
MaxOf(t) == CASE t = "sc" -> <<127, 0, 0, 0>> [] t = "uc" -> <<255, 0, 0, 0>> [] t = "s" -> <<32767, 0, 0, 0>> [] t = "us" -> <<65535, 0, 0, 0>>
              [] t = "i" -> <<65535, 32767, 0, 0>> [] t = "u" -> <<65535, 65535, 0, 0>> [] t \in {"l", "ll"} -> MaxS64 [] OTHER -> Ones64
MinOf(t) == IF Signed(t) THEN Not64(MaxOf(t)) ELSE Zero64
HexDig == <<"0", "1", "2", "3", "4", "5", "6", "7", "8", "9", "a", "b", "c", "d", "e", "f">>
Hex16(n) == HexDig[(n \div 4096) + 1] \o HexDig[((n \div 256) % 16) + 1] \o HexDig[((n \div 16) % 16) + 1] \o HexDig[(n % 16) + 1]
Hex64(w) == Hex16(w[4]) \o Hex16(w[3]) \o Hex16(w[2]) \o Hex16(w[1])
Hex32(w) == Hex16(w[2]) \o Hex16(w[1])
Suffix(t) == CASE t = "u" -> "U" [] t = "l" -> "L" [] t = "ul" -> "UL" [] t = "ll" -> "LL" [] t = "ull" -> "ULL" [] OTHER -> ""
BaseLit(t, w) == LET h(x) == IF Width(t) = 32 THEN Hex32(x) ELSE Hex64(x)
                 IN IF Signed(t) /\ IsNeg64(w) THEN "(-0x" \o h(Not64(w)) \o Suffix(t) \o " - 1)" ELSE "0x" \o h(w) \o Suffix(t)
LitOf(t, w) == IF Rank(t) >= 3 THEN BaseLit(t, w) ELSE "((" \o CName(t) \o ")" \o BaseLit("i", w) \o ")"

(* ---- exact integers: sign and 128-bit magnitude *)
Big(neg, hi, lo) == [neg |-> neg /\ (hi # Zero64 \/ lo # Zero64), hi |-> hi, lo |-> lo]
ToBig(t, w) == IF Signed(t) /\ IsNeg64(w) THEN Big(TRUE, Zero64, Neg64(w)) ELSE Big(FALSE, Zero64, w)
MagLt(x, y) == IF x.hi # y.hi THEN ULt64(x.hi, y.hi) ELSE ULt64(x.lo, y.lo)
MagAdd(x, y) == LET l == AddC(x.lo, y.lo, 0)  h == AddC(x.hi, y.hi, l.c) IN [hi |-> h.w, lo |-> l.w]
MagSub(x, y) == LET l == AddC(x.lo, Not64(y.lo), 1)  h == AddC(x.hi, Not64(y.hi), l.c) IN [hi |-> h.w, lo |-> l.w]      \* x >= y
BigNeg(x) == Big(~x.neg, x.hi, x.lo)
BigAdd(x, y) ==
  IF x.neg = y.neg THEN LET m == MagAdd(x, y) IN Big(x.neg, m.hi, m.lo)
  ELSE IF MagLt(x, y) THEN LET m == MagSub(y, x) IN Big(y.neg, m.hi, m.lo)
  ELSE LET m == MagSub(x, y) IN Big(x.neg, m.hi, m.lo)
BigMul(x, y) == LET p == UMulFull(x.lo, y.lo) IN Big(x.neg # y.neg, p.hi, p.lo)           \* operands have hi = 0
Exact(o, x, y) == CASE o = "add" -> BigAdd(x, y) [] o = "sub" -> BigAdd(x, BigNeg(y)) [] o = "mul" -> BigMul(x, y)
(* representable in type t? *)
Fits(t, x) ==
  IF x.hi # Zero64 THEN FALSE
  ELSE IF ~x.neg THEN ULe64(x.lo, MaxOf(t))
  ELSE Signed(t) /\ ULe64(x.lo, Add64(MaxOf(t), One64))       \* magnitude <= 2^(N-1)
(* reduced modulo 2^N to type t (two's complement) *)
Wrapped(t, x) == Conv(t, IF x.neg THEN Neg64(x.lo) ELSE x.lo)

(* ---- boundary grid *)
GridOf(t) ==
  LET mx == MaxOf(t)  mn == MinOf(t)
      g2 == {One64, IF Signed(t) THEN mn ELSE mx}
      g3 == g2 \cup {IF Signed(t) THEN mx ELSE Zero64}
      full == g3 \cup {Zero64, Conv(t, Ones64), FromNat(2), Sub64(mx, One64), Conv(t, <<0, 32768, 0, 0>>), Conv(t, <<0, 0, 1, 0>>),
                       Conv(t, <<65535, 65535, 0, 0>>), Conv(t, <<0, 1, 0, 0>>)}
  IN CASE GridSel = "g2" -> g2 [] GridSel = "g3" -> g3 [] OTHER -> full

(* ---- the overflow family *)
OvfRow ==
  LET rt == var \in {"rv", "ri"}
      A == IF rt THEN "xa_@" ELSE LitOf(ta, va)
      B == IF rt THEN "xb_@" ELSE LitOf(tb, vb)
      call == "__builtin_" \o op \o "_overflow(" \o A \o ", " \o B \o ", &r)"
      x == Exact(op, ToBig(ta, va), ToBig(tb, vb))
  IN [fam |-> "builtin",
      glob |-> IF rt THEN <<"static volatile " \o CName(ta) \o " xa_@ = " \o LitOf(ta, va) \o "; static volatile " \o CName(tb) \o " xb_@ = "
                             \o LitOf(tb, vb) \o ";">> ELSE <<>>,
      body |-> <<CName(tr) \o " r = 85; int f = 7;",
                 IF var \in {"cv", "rv"} THEN "f = " \o call \o ";" ELSE "if (" \o call \o ") f = 1; else f = 0;">>,
      pr |-> << <<" %d", "f">>, <<" %016llx", "(unsigned long long)r">> >>,
      exp |-> <<IF Fits(tr, x) THEN "0" ELSE "1", Hex64(Wrapped(tr, x))>>,
      desc |-> CName(tr) \o " r; " \o (IF var \in {"cv", "rv"} THEN "f = " ELSE "if ") \o "__builtin_" \o op \o "_overflow((" \o CName(ta) \o ")"
               \o LitOf(ta, va) \o ", (" \o CName(tb) \o ")" \o LitOf(tb, vb) \o ", &r)" \o (IF rt THEN " [volatile operands]" ELSE " [constant operands]"),
      sig |-> op \o ":" \o ta \o "," \o tb \o "->" \o tr \o ":" \o var,
      same |-> ta = tr /\ tb = tr, d |-> 1]

(* ---- __builtin_expect *)
(* ex: <<name, file-scope lines, statements, values to print, expected>> ; n@ counts evaluations of the first operand *)
ExpectCases ==
  LET mk(nm, g, b, p, e) == [fam |-> "builtin", glob |-> g, body |-> b, pr |-> p, exp |-> e, desc |-> nm, sig |-> "expect:" \o nm, same |-> TRUE, d |-> 1]
      G == <<"static volatile int a_@ = 3, b_@ = 5; static int n_@ = 0;">>
  IN {mk("type_and_size", G, <<>>, << <<" %s", "TN(__builtin_expect(a_@, 1))">>, <<" %d", "(int)sizeof __builtin_expect((char)1, 0)">> >>, <<"l", "8">>),
      mk("value_lt_true_expected_false", G, <<"long v = __builtin_expect(a_@ < b_@, 0);">>, << <<" %ld", "v">> >>, <<"1">>),
      mk("value_eq_false_expected_true", G, <<"long v = __builtin_expect(a_@ == b_@, 1);">>, << <<" %ld", "v">> >>, <<"0">>),
      mk("value_is_first_operand", G, <<"long v = __builtin_expect(a_@ - b_@, 1);">>, << <<" %ld", "v">> >>, <<"-2">>),
      mk("value_converted_to_long", G, <<"long v = __builtin_expect(0xfffffffeU, 1);">>, << <<" %ld", "v">> >>, <<"4294967294">>),
      mk("if_true_expected_false", G, <<"int f; if (__builtin_expect(a_@ < b_@, 0)) f = 1; else f = 2;">>, << <<" %d", "f">> >>, <<"1">>),
      mk("if_false_expected_true", G, <<"int f; if (__builtin_expect(a_@ >= b_@, 1)) f = 1; else f = 2;">>, << <<" %d", "f">> >>, <<"2">>),
      mk("if_not", G, <<"int f; if (!__builtin_expect(a_@ == 3, 1)) f = 1; else f = 2;">>, << <<" %d", "f">> >>, <<"2">>),
      mk("side_effect_once_value", G, <<"long v = __builtin_expect(n_@++, 1);">>, << <<" %ld", "v">>, <<" %d", "n_@">> >>, <<"0", "1">>),
      mk("side_effect_once_if", G, <<"int f; if (__builtin_expect(++n_@ == 1, 1)) f = 1; else f = 2;">>, << <<" %d", "f">>, <<" %d", "n_@">> >>, <<"1", "1">>),
      mk("loop_condition", G, <<"int k = 0; while (__builtin_expect(n_@++ < 3, 1)) k += 10;">>, << <<" %d", "k">>, <<" %d", "n_@">> >>, <<"30", "4">>),
      mk("and_shortcut", G, <<"int f = __builtin_expect(a_@ > b_@, 0) && n_@++;">>, << <<" %d", "f">>, <<" %d", "n_@">> >>, <<"0", "0">>),
      mk("conditional_operand", G, <<"long v = __builtin_expect(a_@ < b_@, 1) ? 11 : 22;">>, << <<" %ld", "v">> >>, <<"11">>),
      mk("nonconstant_expectation", G, <<"long v = __builtin_expect(a_@, b_@);">>, << <<" %ld", "v">> >>, <<"3">>)}
(* not included: __builtin_expect (constant, c) where C requires a constant expression (enum value, static initialiser): gcc folds it, *)
(* its manual does not promise that, c2mir rejects it with a diagnostic                                                                *)

(* ---- variable arguments (C11 6.5.2.2p6-7, 7.16): the default argument promotions are applied to the arguments matching the ellipsis, *)
(* va_arg reads them with the PROMOTED type.  An argument: <<spelling, promoted type, printf format, expected text>>                       *)
VaArgs == <<<<"(signed char)-5", "int", "%d", "-5">>, <<"(unsigned char)200", "int", "%d", "200">>, <<"(short)-300", "int", "%d", "-300">>,
            <<"(unsigned short)60000", "int", "%d", "60000">>, <<"-7", "int", "%d", "-7">>, <<"4000000000U", "unsigned", "%u", "4000000000">>,
            <<"-9L", "long", "%ld", "-9">>, <<"18446744073709551615ULL", "unsigned long long", "%llu", "18446744073709551615">>,
            <<"1.5f", "double", "%g", "1.5">>, <<"-2.5", "double", "%g", "-2.5">>, <<"(_Bool)1", "int", "%d", "1">>, <<"0.5L", "long double", "%Lg", "0.5">>>>
RECURSIVE VaCall(_, _), VaReads(_, _), VaExp(_, _)
VaCall(ix, k) == IF k > Len(ix) THEN "" ELSE ", " \o VaArgs[ix[k]][1] \o VaCall(ix, k + 1)
VaReads(ix, k) == IF k > Len(ix) THEN "" ELSE "printf(\" " \o VaArgs[ix[k]][3] \o "\", va_arg(ap, " \o VaArgs[ix[k]][2] \o ")); " \o VaReads(ix, k + 1)
VaExp(ix, k) == IF k > Len(ix) THEN <<>> ELSE <<VaArgs[ix[k]][4]>> \o VaExp(ix, k + 1)
VaRow(ix) ==
  [fam |-> "builtin", glob |-> <<"static void v@(int n, ...) { va_list ap; va_start(ap, n); " \o VaReads(ix, 1) \o "va_end(ap); (void)n; }">>,
   body |-> <<"v@(" \o ToString(Len(ix)) \o VaCall(ix, 1) \o ");">>, pr |-> <<>>, exp |-> VaExp(ix, 1),
   desc |-> "v(int n, ...) called as v(" \o ToString(Len(ix)) \o VaCall(ix, 1) \o "), every argument read by va_arg with its promoted type",
   sig |-> "va_arg:" \o ToString(Len(ix)) \o "args", same |-> TRUE, d |-> 1]
(* every sequence of up to MaxVa arguments, and four long ones that exhaust the argument registers of both classes *)
LongVa == {<<5, 10, 5, 10, 7, 9, 1, 10, 6, 9, 2, 10, 8, 9, 3, 10, 4, 9, 5, 10, 12, 7>>, <<10, 9, 10, 9, 10, 9, 10, 9, 10, 9, 5, 7>>,
           <<5, 6, 7, 8, 1, 2, 3, 4, 11, 5, 9>>, <<12, 5, 12, 10, 8>>}
VaSeqs == UNION {[1..n -> 1..Len(VaArgs)] : n \in 1..MaxVa} \cup LongVa
(* ---- alloca *)
AllocaCases ==
  LET mk(nm, b, p, e) == [fam |-> "builtin", glob |-> <<"static volatile int n_@ = 5;", "static int touch@(char *p, int k) { p[0] = (char)k; return k + 1; }">>,
                          body |-> b, pr |-> p, exp |-> e, desc |-> nm, sig |-> "alloca:" \o nm, same |-> TRUE, d |-> 1]
  IN {mk("two_blocks_do_not_overlap", <<"char *p = __builtin_alloca(n_@ + 3), *q = __builtin_alloca(16); int k;",
                                        "for (k = 0; k < 8; k++) p[k] = (char)(10 + k); for (k = 0; k < 16; k++) q[k] = (char)(50 + k);">>,
         << <<" %d", "p[0] + p[7]">>, <<" %d", "q[0] + q[15]">>, <<" %d", "(p + 8 <= q) || (q + 16 <= p)">> >>, <<"27", "115", "1">>),
      mk("block_survives_calls", <<"char *p = __builtin_alloca(n_@); int k = touch@(p, 33); char *q = __builtin_alloca(n_@); k = touch@(q, k);">>,
         << <<" %d", "p[0]">>, <<" %d", "q[0]">>, <<" %d", "k">> >>, <<"33", "34", "35">>),
      mk("in_a_loop", <<"char *ps[3]; int k; for (k = 0; k < 3; k++) { ps[k] = __builtin_alloca(n_@ + k); ps[k][0] = (char)(k + 1); }">>,
         << <<" %d", "ps[0][0] + 10 * ps[1][0] + 100 * ps[2][0]">>, <<" %d", "ps[0] != ps[1] && ps[1] != ps[2] && ps[0] != ps[2]">> >>, <<"321", "1">>)}

Z == Zero64
Init == lvl = 0 /\ fam = "" /\ op = "" /\ ta = "" /\ tb = "" /\ tr = "" /\ va = Z /\ vb = Z /\ var = "" /\ ex = <<>>
Next ==
  \/ lvl = 0 /\ lvl' = 1 /\ fam' = "ovf" /\ op' \in {"add", "sub", "mul"} /\ ta' \in OpTypes /\ tb' \in OpTypes /\ tr' \in ResTypes
       /\ ((Rank(ta') + Rank(tb') + Width(tr')) % NParts) = Part /\ UNCHANGED <<va, vb, var, ex>>
  \/ lvl = 1 /\ fam = "ovf" /\ lvl' = 2 /\ va' \in GridOf(ta) /\ vb' \in GridOf(tb) /\ var' \in Variants /\ UNCHANGED <<fam, op, ta, tb, tr, ex>>
  \/ lvl = 0 /\ Part = 0 /\ lvl' = 2 /\ fam' = "expect" /\ ex' \in {<<c>> : c \in ExpectCases \cup AllocaCases} /\ UNCHANGED <<op, ta, tb, tr, va, vb, var>>
  \/ lvl = 0 /\ Part = 0 /\ lvl' = 2 /\ fam' = "va" /\ ex' \in {<<VaRow(ix)>> : ix \in VaSeqs} /\ UNCHANGED <<op, ta, tb, tr, va, vb, var>>
EmitInv == lvl = 2 => EmitJ(IF fam = "ovf" THEN OvfRow ELSE ex[1])
=============================================================================
